import QuicProofs.Lemmas.AckRanges
/-
  C16 (range sets, part 2): `ack::Ranges` — quic/s2n-quic-core/src/ack/ranges.rs — "a capacity-bounded
  ACK-range set discarding only its lowest ranges".

  Model: `Quic.Data.AckRanges.insertRange` (insert; on failure `pop_min`; compare `min < start`; re-insert
  or put the minimum back) on top of the `IntervalSet` model. Reference: plain membership predicates.
  `Inv L s` is the state invariant of a set created by `Ranges::new(L)`: limit `L ≥ 1`, normal form,
  at most `L` intervals. All theorems hold for every state satisfying `Inv`, hence (`ackranges_inv`)
  after every operation sequence.
-/
namespace Quic.Proofs.C16
open Quic.Data.IvSet Quic.Data.IvSpec Quic.Data.AckRanges Quic.Proofs.IvLemmas Quic.Proofs.AckLemmas

/-- the range an insert reports as discarded (`LowestRangeDropped{min,max}` = an old range was
    evicted, `RangeInsertionFailed{min,max}` = the new range itself was refused) -/
def dropped : Outcome → Option Interval
  | .ok => none
  | .lowestRangeDropped a b => some ⟨a, b⟩
  | .rangeInsertionFailed a b => some ⟨a, b⟩
  | .debugAssert => none

/-- `x` belongs to the discarded range -/
def Dropped (o : Outcome) (x : Nat) : Prop := ∃ d, dropped o = some d ∧ inIv d x

-- ---------------------------------------------------------------------------------------------
-- one insert

/-- the invariant is kept, and neither `debug_assert!` of `insert_packet_number_range` can fire -/
theorem ackranges_insert_inv (L : Nat) (s : IvSet) (lo hi : Nat) (hinv : Inv L s) (h : lo ≤ hi) :
    Inv L (insertRange s lo hi).1 ∧ (insertRange s lo hi).2 ≠ .debugAssert := by
  obtain ⟨hlim, hL, hwf, hlen⟩ := hinv
  rcases insertRange_char L s lo hi ⟨hlim, hL, hwf, hlen⟩ h with ⟨hn, he⟩ | ⟨hy, hlenL, mn, rest, hiv, ⟨hb, he⟩ | ⟨hb, he⟩⟩
  · rw [he]
    refine ⟨⟨rfl, hL, insSpec_wf _ _ hwf h, ?_⟩, by simp⟩
    have hle := insSpec_length_le s.ivs ⟨lo, hi⟩
    by_cases hgrow : (insSpec s.ivs ⟨lo, hi⟩).length = s.ivs.length + 1
    · have hiso := (insSpec_length_succ_iff s.ivs ⟨lo, hi⟩ hwf h).1 hgrow
      by_cases hne : s.ivs = []
      · simp only [hne, insSpec, List.length_cons, List.length_nil]; omega
      · by_cases hfull : L ≤ s.ivs.length
        · exact absurd ⟨hne, hiso, L, hlim, hfull⟩ hn
        · simp only; omega
    · simp only; omega
  · rw [he]
    rw [hiv] at hwf hlenL
    refine ⟨⟨rfl, hL, insSpec_wf _ _ hwf.tail h, ?_⟩, by simp⟩
    have := insSpec_length_le rest ⟨lo, hi⟩
    simp only [List.length_cons] at hlenL
    simp only; omega
  · rw [he]; exact ⟨⟨hlim, hL, hwf, hlen⟩, by simp⟩

/-- SOUNDNESS: an insert never makes the set represent anything but old elements and the new range —
    NEVER a spurious packet number (this is what C08's `ack_sound` relies on) -/
theorem ackranges_insert_sound (L : Nat) (s : IvSet) (lo hi : Nat) (hinv : Inv L s) (h : lo ≤ hi) (x : Nat) :
    Mem (insertRange s lo hi).1.ivs x → Mem s.ivs x ∨ (lo ≤ x ∧ x ≤ hi) := by
  obtain ⟨hlim, hL, hwf, hlen⟩ := hinv
  rcases insertRange_char L s lo hi ⟨hlim, hL, hwf, hlen⟩ h with ⟨_, he⟩ | ⟨_, _, mn, rest, hiv, ⟨_, he⟩ | ⟨_, he⟩⟩
  · rw [he]; intro hx; exact (insSpec_mem _ _ x hwf h).1 hx
  · rw [he]; intro hx
    rw [hiv] at hwf
    rcases (insSpec_mem _ _ x hwf.tail h).1 hx with hx | hx
    · rw [hiv, mem_cons]; exact Or.inl (Or.inr hx)
    · exact Or.inr hx
  · rw [he]; exact Or.inl

/-- EVICTION RULE: after `insert_packet_number_range(lo..=hi)` the set represents exactly
    (old ∪ new range) minus the reported discarded range; a range is discarded only when the set is
    full (`interval_len = limit`) and the new range neither overlaps nor is adjacent to anything
    stored (so old ∪ new would need `limit + 1` intervals); the discarded range is ONE WHOLE lowest
    range — either the lowest stored interval (`LowestRangeDropped`) or the new range itself
    (`RangeInsertionFailed`, set unchanged) — and everything that is kept lies more than one above it. -/
theorem ackranges_evicts_only_lowest (L : Nat) (s : IvSet) (lo hi : Nat) (hinv : Inv L s) (h : lo ≤ hi) :
    let s' := (insertRange s lo hi).1
    let out := (insertRange s lo hi).2
    (∀ x, Mem s'.ivs x ↔ (Mem s.ivs x ∨ (lo ≤ x ∧ x ≤ hi)) ∧ ¬ Dropped out x) ∧
    (∀ d, dropped out = some d →
        d.lo ≤ d.hi ∧
        (d ∈ s.ivs ∨ d = ⟨lo, hi⟩) ∧
        (∀ y, Mem s'.ivs y → d.hi + 1 < y) ∧
        s.ivs.length = L ∧ (∀ b ∈ s.ivs, ¬ Touches ⟨lo, hi⟩ b)) ∧
    (∀ a b, out = .rangeInsertionFailed a b → a = lo ∧ b = hi ∧ s' = s) ∧
    (∀ a b, out = .lowestRangeDropped a b → ∃ rest, s.ivs = ⟨a, b⟩ :: rest) := by
  intro s' out
  obtain ⟨hlim, hL, hwf, hlen⟩ := hinv
  rcases insertRange_char L s lo hi ⟨hlim, hL, hwf, hlen⟩ h with ⟨hn, he⟩ | ⟨hy, hlenL, mn, rest, hiv, ⟨hb, he⟩ | ⟨hb, he⟩⟩
  · -- plain insert
    have hs' : s' = ⟨some L, insSpec s.ivs ⟨lo, hi⟩⟩ := by show (insertRange s lo hi).1 = _; rw [he]
    have hout : out = .ok := by show (insertRange s lo hi).2 = _; rw [he]
    refine ⟨?_, ?_, ?_, ?_⟩
    · intro x
      rw [hs', hout]
      have := insSpec_mem s.ivs ⟨lo, hi⟩ x hwf h
      simp only [this, inIv, Dropped, dropped, reduceCtorEq, false_and, exists_false, not_false_eq_true, and_true]
    · intro d hd; rw [hout] at hd; simp [dropped] at hd
    · intro a b hab; rw [hout] at hab; cases hab
    · intro a b hab; rw [hout] at hab; cases hab
  · -- the lowest stored range is dropped
    have hs' : s' = ⟨some L, insSpec rest ⟨lo, hi⟩⟩ := by show (insertRange s lo hi).1 = _; rw [he]
    have hout : out = .lowestRangeDropped mn.lo mn.hi := by show (insertRange s lo hi).2 = _; rw [he]
    have hwf' := hwf
    rw [hiv] at hwf'
    have hmn := hwf'.head_valid
    have hkeep : ∀ y, Mem (insSpec rest ⟨lo, hi⟩) y → mn.hi + 1 < y := by
      intro y hmy
      rcases (insSpec_mem rest ⟨lo, hi⟩ y hwf'.tail h).1 hmy with ⟨c, hc, hyc⟩ | hyr
      · have := hwf'.head_lt c hc; unfold inIv at hyc; omega
      · have := hy.2.1 mn (by rw [hiv]; exact List.mem_cons_self ..)
        unfold Touches at this; unfold inIv at hyr; simp only at this hyr; omega
    refine ⟨?_, ?_, ?_, ?_⟩
    · intro x
      rw [hs', hout]
      simp only [Dropped, dropped, Option.some.injEq, exists_eq_left']
      rw [insSpec_mem rest ⟨lo, hi⟩ x hwf'.tail h, hiv, mem_cons]
      constructor
      · intro hx
        have hgt := hkeep x ((insSpec_mem rest ⟨lo, hi⟩ x hwf'.tail h).2 hx)
        refine ⟨?_, by unfold inIv; simp only; omega⟩
        rcases hx with hx | hx
        · exact Or.inl (Or.inr hx)
        · exact Or.inr hx
      · rintro ⟨(hx | hx) | hx, hnd⟩
        · exact absurd hx hnd
        · exact Or.inl hx
        · exact Or.inr hx
    · intro d hd
      rw [hout] at hd; simp only [dropped, Option.some.injEq] at hd; subst hd
      refine ⟨hmn, Or.inl (by rw [hiv]; exact List.mem_cons_self ..), ?_, hlenL, hy.2.1⟩
      intro y hy'; rw [hs'] at hy'; exact hkeep y hy'
    · intro a b hab; rw [hout] at hab; cases hab
    · intro a b hab; rw [hout] at hab; cases hab; exact ⟨rest, hiv⟩
  · -- the new range is itself the lowest: refused, set unchanged
    have hs' : s' = s := by show (insertRange s lo hi).1 = _; rw [he]
    have hout : out = .rangeInsertionFailed lo hi := by show (insertRange s lo hi).2 = _; rw [he]
    have hwf' := hwf
    rw [hiv] at hwf'
    have hkeep : ∀ y, Mem s.ivs y → hi + 1 < y := by
      intro y hy'; rw [hiv] at hy'; have := hwf'.mem_ge_head hy'; omega
    refine ⟨?_, ?_, ?_, ?_⟩
    · intro x
      rw [hs', hout]
      simp only [Dropped, dropped, Option.some.injEq, exists_eq_left', inIv]
      constructor
      · intro hx; have := hkeep x hx; exact ⟨Or.inl hx, by omega⟩
      · rintro ⟨hx | hx, hnd⟩
        · exact hx
        · exact absurd hx hnd
    · intro d hd
      rw [hout] at hd; simp only [dropped, Option.some.injEq] at hd; subst hd
      refine ⟨h, Or.inr rfl, ?_, hlenL, hy.2.1⟩
      intro y hy'; rw [hs'] at hy'; exact hkeep y hy'
    · intro a b hab; rw [hout] at hab; cases hab; exact ⟨rfl, rfl, hs'⟩
    · intro a b hab; rw [hout] at hab; cases hab

/-- an insert that reports `Ok` is the exact union (no eviction) -/
theorem ackranges_insert_ok_exact (L : Nat) (s : IvSet) (lo hi : Nat) (hinv : Inv L s) (h : lo ≤ hi)
    (hok : (insertRange s lo hi).2 = .ok) (x : Nat) :
    Mem (insertRange s lo hi).1.ivs x ↔ Mem s.ivs x ∨ (lo ≤ x ∧ x ≤ hi) := by
  have := (ackranges_evicts_only_lowest L s lo hi hinv h).1 x
  rw [this, hok]
  simp [Dropped, dropped]

-- ---------------------------------------------------------------------------------------------
-- every operation sequence

/-- the operations the transport performs on `ack::Ranges` (insert of a range / a single packet number,
    `remove` of an acknowledged range, `pop_min`, `clear`) -/
inductive AOp where
  | insertRange (lo hi : Nat)
  | insertPn (pn : Nat)
  | remove (lo hi : Nat)
  | popMin
  | clear

/-- (`PacketNumberRange::new` asserts `lo ≤ hi`; `remove` rejects an invalid interval up front) -/
def astep (s : IvSet) : AOp → IvSet
  | .insertRange lo hi => if lo ≤ hi then (insertRange s lo hi).1 else s
  | .insertPn pn => (insertPn s pn).1
  | .remove lo hi => if lo ≤ hi then (s.remove ⟨lo, hi⟩).1 else s
  | .popMin => s.popMin.1
  | .clear => s.clear

/-- the plain reference set: everything ever inserted, minus what a *successful* remove / pop_min /
    clear took out explicitly (evictions are NOT part of the reference — they are what the
    implementation is allowed to lose) -/
def refStep (s : IvSet) (R : Nat → Prop) (op : AOp) (x : Nat) : Prop :=
  match op with
  | .insertRange lo hi => if lo ≤ hi then R x ∨ (lo ≤ x ∧ x ≤ hi) else R x
  | .insertPn pn => R x ∨ x = pn
  | .remove lo hi =>
    if lo ≤ hi then
      match (s.remove ⟨lo, hi⟩).2 with
      | .ok _ => R x ∧ ¬ (lo ≤ x ∧ x ≤ hi)
      | .error _ => R x
    else R x
  | .popMin =>
    match s.popMin.2 with
    | some b => R x ∧ ¬ inIv b x
    | none => R x
  | .clear => False

/-- run the implementation model and the reference side by side -/
def run : List AOp → IvSet × (Nat → Prop) → IvSet × (Nat → Prop)
  | [], st => st
  | op :: rest, (s, R) => run rest (astep s op, refStep s R op)

theorem ackranges_step_inv (L : Nat) (s : IvSet) (op : AOp) (hinv : Inv L s) : Inv L (astep s op) := by
  cases op with
  | insertRange lo hi =>
    simp only [astep]; split
    · rename_i h; exact (ackranges_insert_inv L s lo hi hinv h).1
    · exact hinv
  | insertPn pn => exact (ackranges_insert_inv L s pn pn hinv (Nat.le_refl _)).1
  | remove lo hi =>
    simp only [astep]; split
    · rename_i h
      obtain ⟨hlim, hL, hwf, hlen⟩ := hinv
      rcases remove_char s ⟨lo, hi⟩ hwf h with ⟨h1, hn⟩ | ⟨h1, _⟩
      · rw [h1]
        refine ⟨hlim, hL, remSpec_wf _ _ hwf h, ?_⟩
        by_cases hs : Splits s.ivs ⟨lo, hi⟩
        · have := remSpec_length_le s.ivs ⟨lo, hi⟩
          by_cases hle : L ≤ s.ivs.length + 1
          · exact absurd ⟨hs, L, hlim, hle⟩ hn
          · simp only; omega
        · have := remSpec_length_le_of_not_splits s.ivs ⟨lo, hi⟩ hs
          simp only; omega
      · rw [h1]; exact ⟨hlim, hL, hwf, hlen⟩
    · exact hinv
  | popMin =>
    obtain ⟨hlim, hL, hwf, hlen⟩ := hinv
    simp only [astep, IvSet.popMin]
    split
    · exact ⟨hlim, hL, hwf, hlen⟩
    · rename_i b rest heq
      rw [heq] at hwf hlen
      exact ⟨hlim, hL, hwf.tail, by simp only [List.length_cons] at hlen; simp only; omega⟩
  | clear =>
    obtain ⟨hlim, hL, _, _⟩ := hinv
    exact ⟨hlim, hL, WF.nil, Nat.zero_le _⟩

theorem ackranges_step_sound (L : Nat) (s : IvSet) (R : Nat → Prop) (op : AOp) (hinv : Inv L s)
    (hsub : ∀ x, Mem s.ivs x → R x) : ∀ x, Mem (astep s op).ivs x → refStep s R op x := by
  intro x
  cases op with
  | insertRange lo hi =>
    simp only [astep, refStep]; split
    · rename_i h; intro hx
      rcases ackranges_insert_sound L s lo hi hinv h x hx with hx | hx
      · exact Or.inl (hsub x hx)
      · exact Or.inr hx
    · exact hsub x
  | insertPn pn =>
    simp only [astep, refStep, insertPn]; intro hx
    rcases ackranges_insert_sound L s pn pn hinv (Nat.le_refl _) x hx with hx | hx
    · exact Or.inl (hsub x hx)
    · exact Or.inr (by omega)
  | remove lo hi =>
    simp only [astep, refStep]
    by_cases h : lo ≤ hi
    · rw [if_pos h, if_pos h]
      rcases remove_char s ⟨lo, hi⟩ hinv.2.2.1 h with ⟨h1, _⟩ | ⟨h1, _⟩
      · rw [h1]; simp only
        intro hx
        have := (remSpec_mem s.ivs ⟨lo, hi⟩ x hinv.2.2.1 h).1 hx
        exact ⟨hsub x this.1, this.2⟩
      · rw [h1]; exact hsub x
    · rw [if_neg h, if_neg h]; exact hsub x
  | popMin =>
    simp only [astep, refStep]
    have hp := ivset_pop_min_aux s hinv.2.2.1
    intro hx
    cases hpm : s.popMin with
    | mk s' ob =>
      rw [hpm] at hx
      cases ob with
      | none =>
        simp only
        have : s' = s := by
          unfold IvSet.popMin at hpm; split at hpm <;> simp_all
        rw [this] at hx; exact hsub x hx
      | some b =>
        simp only
        have := (hp s' b hpm).1 x |>.1 hx
        exact ⟨hsub x this.1, this.2⟩
  | clear =>
    simp only [astep, IvSet.clear]; intro hx; exact absurd hx (mem_nil x)
where
  ivset_pop_min_aux (s : IvSet) (hwf : WF s.ivs) : ∀ s' b, s.popMin = (s', some b) →
      (∀ x, Mem s'.ivs x ↔ Mem s.ivs x ∧ ¬ inIv b x) ∧ True := by
    intro s' b h
    unfold IvSet.popMin at h
    split at h
    · cases h
    · rename_i b' rest heq
      simp only [Prod.mk.injEq, Option.some.injEq] at h
      obtain ⟨rfl, rfl⟩ := h
      rw [heq] at hwf
      refine ⟨?_, trivial⟩
      intro x
      rw [heq, mem_cons]
      constructor
      · intro hx
        refine ⟨Or.inr hx, ?_⟩
        obtain ⟨c, hc, hxc⟩ := hx
        have := hwf.head_lt c hc; unfold inIv at hxc ⊢; omega
      · rintro ⟨hx | hx, hn⟩
        · exact absurd hx hn
        · exact hx

/-- the invariant (limit kept, normal form, at most `limit` intervals) after every operation sequence -/
theorem ackranges_inv (L : Nat) (ops : List AOp) (s : IvSet) (R : Nat → Prop) (hinv : Inv L s) :
    Inv L (run ops (s, R)).1 := by
  induction ops generalizing s R with
  | nil => exact hinv
  | cons op rest ih => exact ih _ _ (ackranges_step_inv L s op hinv)

/-- WITHIN LIMIT: a set created by `Ranges::new(L)` never holds more than `L` ranges and is always in
    normal form, whatever is inserted or removed -/
theorem ackranges_within_limit (L : Nat) (hL : 1 ≤ L) (ops : List AOp) :
    (run ops (new L, fun _ => False)).1.ivs.length ≤ L ∧ WF (run ops (new L, fun _ => False)).1.ivs := by
  have := ackranges_inv L ops (new L) (fun _ => False) (Inv.new L hL)
  exact ⟨this.2.2.2, this.2.2.1⟩

/-- SOUNDNESS over histories: whatever the operation sequence, every packet number the set represents
    is in the plain reference set (was inserted and has not been removed explicitly since) -/
theorem ackranges_sound_run (L : Nat) (ops : List AOp) (s : IvSet) (R : Nat → Prop) (hinv : Inv L s)
    (hsub : ∀ x, Mem s.ivs x → R x) : ∀ x, Mem (run ops (s, R)).1.ivs x → (run ops (s, R)).2 x := by
  induction ops generalizing s R with
  | nil => exact hsub
  | cons op rest ih =>
    exact ih _ _ (ackranges_step_inv L s op hinv) (ackranges_step_sound L s R op hinv hsub)

theorem ackranges_sound (L : Nat) (hL : 1 ≤ L) (ops : List AOp) (x : Nat) :
    Mem (run ops (new L, fun _ => False)).1.ivs x → (run ops (new L, fun _ => False)).2 x :=
  ackranges_sound_run L ops (new L) _ (Inv.new L hL) (fun x hx => absurd hx (mem_nil x)) x

/-- the reference set only ever contains inserted packet numbers, hence so does the represented set:
    an ACK built from `ack::Ranges` never names a packet number that was not inserted -/
def InsertedBy (ops : List AOp) (x : Nat) : Prop :=
  ∃ op ∈ ops, match op with
    | .insertRange lo hi => lo ≤ x ∧ x ≤ hi
    | .insertPn pn => x = pn
    | _ => False

theorem ref_subset_inserted (ops : List AOp) (s : IvSet) (R : Nat → Prop) (x : Nat) :
    (run ops (s, R)).2 x → R x ∨ InsertedBy ops x := by
  induction ops generalizing s R with
  | nil => exact Or.inl
  | cons op rest ih =>
    intro h
    rcases ih _ _ h with h | ⟨o, ho, hx⟩
    · have : refStep s R op x → R x ∨ InsertedBy (op :: rest) x := by
        cases op with
        | insertRange lo hi =>
          simp only [refStep]; split
          · rintro (h | h)
            · exact Or.inl h
            · exact Or.inr ⟨_, List.mem_cons_self .., h⟩
          · exact Or.inl
        | insertPn pn =>
          rintro (h | h)
          · exact Or.inl h
          · exact Or.inr ⟨_, List.mem_cons_self .., h⟩
        | remove lo hi =>
          simp only [refStep]; split
          · cases (s.remove ⟨lo, hi⟩).2 with
            | ok _ => exact fun h => Or.inl h.1
            | error _ => exact Or.inl
          · exact Or.inl
        | popMin =>
          simp only [refStep]
          cases s.popMin.2 with
          | some b => exact fun h => Or.inl h.1
          | none => exact Or.inl
        | clear => exact fun h => absurd h (by simp [refStep])
      exact this h
    · exact Or.inr ⟨o, List.mem_cons_of_mem _ ho, hx⟩

theorem ackranges_never_spurious (L : Nat) (hL : 1 ≤ L) (ops : List AOp) (x : Nat)
    (hx : Mem (run ops (new L, fun _ => False)).1.ivs x) : InsertedBy ops x := by
  rcases ref_subset_inserted ops _ _ x (ackranges_sound L hL ops x hx) with h | h
  · exact absurd h id
  · exact h

-- ---------------------------------------------------------------------------------------------
-- non-vacuity and concrete witnesses

example : Inv 3 ⟨some 3, [⟨0, 0⟩, ⟨2, 2⟩, ⟨4, 4⟩]⟩ :=
  ⟨rfl, by decide, ⟨by decide, by simp [List.pairwise_cons]⟩, by decide⟩

/-- the repo's own `insert_value_test` scenario on the model: the lowest range is dropped … -/
theorem ackranges_unit_test_scenario :
    insertPn ⟨some 3, [⟨0, 0⟩, ⟨2, 2⟩, ⟨4, 4⟩]⟩ 6 = (⟨some 3, [⟨2, 2⟩, ⟨4, 4⟩, ⟨6, 6⟩]⟩, .lowestRangeDropped 0 0) := by decide

/-- … and a packet number below the minimum of a full set is refused, the set unchanged -/
theorem ackranges_new_range_is_lowest_scenario :
    insertPn ⟨some 3, [⟨2, 2⟩, ⟨4, 4⟩, ⟨6, 6⟩]⟩ 0 = (⟨some 3, [⟨2, 2⟩, ⟨4, 4⟩, ⟨6, 6⟩]⟩, .rangeInsertionFailed 0 0) := by decide

/-- why `Inv` matters: `Ranges` derefs mutably to the inner `IntervalSet`, so `set_limit` can leave MORE
    intervals than the limit; then the re-insert after `pop_min` fails too — `debug_assert!` in debug
    builds, and in release builds `RangeInsertionFailed` although the lowest range WAS dropped.
    (Unreachable from `Ranges::new` + the operations above: `ackranges_insert_inv`.) -/
theorem ackranges_debug_assert_needs_broken_invariant :
    insertPn ⟨some 1, [⟨0, 0⟩, ⟨2, 2⟩, ⟨4, 4⟩]⟩ 10 = (⟨some 1, [⟨2, 2⟩, ⟨4, 4⟩]⟩, .debugAssert) := by decide

/-- a full set still merges: no eviction when the new range touches a stored one -/
example : insertRange ⟨some 3, [⟨2, 2⟩, ⟨4, 4⟩, ⟨6, 6⟩]⟩ 3 3 = (⟨some 3, [⟨2, 4⟩, ⟨6, 6⟩]⟩, .ok) := by decide

end Quic.Proofs.C16
