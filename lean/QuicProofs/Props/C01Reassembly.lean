import QuicModel.Data.RefBufSpec
import QuicProofs.Lemmas.RefBuf
import QuicProofs.Lemmas.Reassembly
/-
  C01, receiver side (the core theorem): whatever frames arrive — any subset of what the sender
  emitted, duplicated, reordered, overlapping, re-chunked by retransmission — interleaved with
  whatever reads the application performs (any watermarks, hence any chunking), the bytes read
  are a prefix of the sender's byte string `w`, and equal `w` once reading is complete.

  The only hypothesis is that each arriving frame is `Consistent w`: its bytes are `w`'s bytes
  at its offset, it does not extend past `|w|`, and a FIN frame ends exactly at `|w|`
  (C12 `frames_consistent` on the sender side + C06 "only authentic packets are processed").
  `evs : List Ev` is the full behaviour of network and application at the receiver:
  `Ev.frame f` = a frame arrives, `Ev.pop w?` = the application reads.
-/
namespace Quic.Proofs.C01
open Quic.Data.RefBuf Quic.Proofs.RefBufLemmas Quic.Proofs.ReassemblyLemmas

/-- the application has read exactly the first `consumed` bytes of the sender's string -/
theorem reasm_reads_eq_take (w : List Nat) (evs : List Ev) (h : ∀ f, Ev.frame f ∈ evs → Consistent w f) :
    readsOf evs = w.take (bufOf evs).consumed ∧ (bufOf evs).consumed ≤ w.length :=
  reads_eq_take (tinv_trace _) (skips_evs evs) (accepted_consistent h)

/-- PREFIX — for every list of events (all network behaviours delivering consistent frames,
    all read patterns): what the application read is a prefix of what the sender wrote. -/
theorem reasm_prefix (w : List Nat) (evs : List Ev) (h : ∀ f, Ev.frame f ∈ evs → Consistent w f) :
    readsOf evs <+: w := by
  rw [(reasm_reads_eq_take w evs h).1]
  exact List.take_prefix _ _

/-- COMPLETE — when the buffer reports reading complete, the application has read exactly `w`. -/
theorem reasm_complete (w : List Nat) (evs : List Ev) (h : ∀ f, Ev.frame f ∈ evs → Consistent w f)
    (hc : isReadingComplete (bufOf evs) = true) : readsOf evs = w := by
  have ht := tinv_trace (evs.map Ev.toOp)
  have hf : (bufOf evs).finalSize = some (bufOf evs).consumed := by simpa [isReadingComplete] using hc
  have he : (trace (evs.map Ev.toOp)).established = some (bufOf evs).consumed := by
    rw [← ht.final_eq]; exact hf
  have hlen := established_consistent (accepted_consistent h) he
  rw [(reasm_reads_eq_take w evs h).1, hlen, List.take_length]

/-- the final size the receiver learns is the sender's length -/
theorem reasm_final_size (w : List Nat) (evs : List Ev) (h : ∀ f, Ev.frame f ∈ evs → Consistent w f)
    (f : Nat) (hf : (bufOf evs).finalSize = some f) : f = w.length := by
  have ht := tinv_trace (evs.map Ev.toOp)
  exact established_consistent (accepted_consistent h) (by rw [← ht.final_eq]; exact hf)

/-- consistent frames are never refused (no spurious FINAL_SIZE_ERROR), whatever arrived and
    was read before — provided the stream fits the offset space -/
theorem reasm_accepts_consistent (w : List Nat) (evs : List Ev) (h : ∀ f, Ev.frame f ∈ evs → Consistent w f)
    (hw : w.length ≤ maxOffset) (g : Frame) (hg : Consistent w g) :
    ∃ b, write (bufOf evs) g.off g.data g.fin = .ok b := by
  have ht := tinv_trace (evs.map Ev.toOp)
  have hacc := accepted_consistent h
  have hhi := highest_consistent hacc (skips_evs evs)
  rw [← ht.maxRecv_eq] at hhi
  have hend : g.off + g.data.length ≤ w.length := hg.2.1
  rw [write_eq]
  have h1 : ¬ g.off + g.data.length > maxOffset := by omega
  have h2 : ¬ rejectsFin (bufOf evs) (g.off + g.data.length) g.fin := by
    unfold rejectsFin
    cases hfs : (bufOf evs).finalSize with
    | some f =>
      have := reasm_final_size w evs h f hfs
      simp only
      cases hfin : g.fin with
      | true =>
        have := hg.2.2 hfin
        simp only [Frame.end_] at this
        simp; omega
      | false => simp; omega
    | none =>
      simp only
      intro ⟨hfin, hlt⟩
      have := hg.2.2 hfin
      simp only [Frame.end_] at this
      have : (bufOf evs).maxRecv ≤ w.length := hhi
      omega
  simp only [h1, h2, if_false]
  exact ⟨_, rfl⟩

/-! ### non-vacuity -/

/-- sender string `[10,11,12,13,14,15]`; frames arrive reversed, duplicated, overlapping,
    re-chunked, FIN first; reads interleaved with small watermarks -/
example :
    let w := [10, 11, 12, 13, 14, 15]
    let evs : List Ev :=
      [.frame ⟨4, [14, 15], true⟩, .pop none, .frame ⟨2, [12, 13, 14], false⟩, .frame ⟨4, [14, 15], true⟩,
       .pop (some 1), .frame ⟨0, [10], false⟩, .pop (some 1), .frame ⟨0, [10, 11, 12], false⟩, .pop (some 2),
       .pop none]
    (∀ f, Ev.frame f ∈ evs → Consistent w f) ∧ readsOf evs = w ∧ isReadingComplete (bufOf evs) = true := by
  refine ⟨?_, by decide, by decide⟩
  intro f hf
  simp only [List.mem_cons, Ev.frame.injEq, List.mem_nil_iff, or_false, reduceCtorEq, false_or] at hf
  rcases hf with rfl | rfl | rfl | rfl | rfl <;> decide

/-- a strict prefix (sender string `[10,11,12,13,14,15]`): the middle has not arrived yet -/
example :
    let evs : List Ev := [.frame ⟨0, [10, 11], false⟩, .frame ⟨4, [14, 15], true⟩, .pop none]
    readsOf evs = [10, 11] ∧ isReadingComplete (bufOf evs) = false ∧ isWritingComplete (bufOf evs) = false := by
  decide

/-- the hypothesis matters: one inconsistent frame that arrives first wins -/
example : readsOf [.frame ⟨1, [99], false⟩, .frame ⟨0, [10, 11, 12], true⟩, .pop none] = [10, 99, 12] := by decide

end Quic.Proofs.C01
