import QuicModel.Generated.States
import QuicModel.Rfc.StreamStates
import QuicProofs.Lemmas.States
/-
  C20 (core machines also C12): the `event!` state machines of s2n-quic, as GENERATED from /repo's current source
  (QuicModel.Generated.States; `step` = macro semantics `Quic.State.step` over the generated arm tables).
  Nothing here is pinned: a changed arrow in send.rs / recv.rs / the dc workers changes the objects these theorems talk about.
-/
namespace Quic.Proofs.C20
open Quic.State Quic.Generated.States Quic.Proofs.StatesLemmas
open Quic.Rfc.StreamStates (SendState SendLabel sendFig RecvState RecvLabel recvFig recvOptional)

/-! ## 1. Sender / Receiver against RFC 9000 figures 2 and 3 -/

/-- RFC state ↦ implementation state -/
def sS : SendState → Sender.State
  | .Ready => .Ready | .Send => .Send | .DataSent => .DataSent | .DataRecvd => .DataRecvd
  | .ResetSent => .ResetSent | .ResetRecvd => .ResetRecvd
/-- RFC edge label ↦ implementation event -/
def sE : SendLabel → Sender.Event
  | .sendStream => .on_send_stream | .sendFin => .on_send_fin | .recvAllAcks => .on_recv_all_acks
  | .sendReset => .on_send_reset | .recvResetAck => .on_recv_reset_ack

def rS : RecvState → Receiver.State
  | .Recv => .Recv | .SizeKnown => .SizeKnown | .DataRecvd => .DataRecvd | .DataRead => .DataRead
  | .ResetRecvd => .ResetRecvd | .ResetRead => .ResetRead
def rE : RecvLabel → Receiver.Event
  | .recvFin => .on_receive_fin | .recvAllData => .on_receive_all_data | .appReadAllData => .on_app_read_all_data
  | .recvReset => .on_reset | .appReadReset => .on_app_read_reset

/-- every arrow of RFC 9000 figure 2 is an accepted transition of the generated `Sender`, to the same state -/
theorem sender_eq_rfc (s : SendState) (l : SendLabel) (t : SendState) (h : sendFig s l = some t) :
    Sender.step (sS s) (sE l) = .ok (sS t) := by
  revert h; cases s <;> cases l <;> cases t <;> decide

/-- the implementation's extra arrows between RFC states under RFC labels: exactly `Ready --on_send_fin--> DataSent`
    ("we can jump from Ready to DataSent even though the diagram doesn't explicitly highlight this transition") -/
theorem sender_extra_arrows_on_rfc_states (s : SendState) (l : SendLabel) (t : Sender.State)
    (h : Sender.step (sS s) (sE l) = .ok t) :
    (sendFig s l).map sS = some t ∨ (s = .Ready ∧ l = .sendFin ∧ t = .DataSent) := by
  revert h; cases s <;> cases l <;> cases t <;> decide

theorem sender_extra_ready_fin :
    Sender.step .Ready .on_send_fin = .ok .DataSent ∧ sendFig .Ready .sendFin = none := by decide

/-- the extra state `ResetQueued` ("separate queueing a RESET_STREAM from actually sending it") and the extra event
    `on_queue_reset`: ALL accepted transitions that involve either of them -/
theorem sender_extra_state_reset_queued (s : Sender.State) (e : Sender.Event) (t : Sender.State)
    (h : Sender.step s e = .ok t) (hx : s = .ResetQueued ∨ t = .ResetQueued ∨ e = .on_queue_reset) :
    (s, e, t) ∈ [(.Ready, .on_queue_reset, .ResetQueued), (.Send, .on_queue_reset, .ResetQueued),
                 (.DataSent, .on_queue_reset, .ResetQueued), (.ResetQueued, .on_send_reset, .ResetSent),
                 (.ResetQueued, .on_recv_all_acks, .DataRecvd)] := by
  revert h hx; cases s <;> cases e <;> cases t <;> decide

/-- complete classification: every accepted transition of the generated `Sender` is an RFC arrow or one of the six listed extras -/
theorem sender_arrows_classified (s : Sender.State) (e : Sender.Event) (t : Sender.State) (h : Sender.step s e = .ok t) :
    (∃ s0 l t0, sS s0 = s ∧ sE l = e ∧ sS t0 = t ∧ sendFig s0 l = some t0) ∨
    (s, e, t) ∈ [(.Ready, .on_send_fin, .DataSent), (.Ready, .on_queue_reset, .ResetQueued), (.Send, .on_queue_reset, .ResetQueued),
                 (.DataSent, .on_queue_reset, .ResetQueued), (.ResetQueued, .on_send_reset, .ResetSent),
                 (.ResetQueued, .on_recv_all_acks, .DataRecvd)] := by
  revert h
  cases s <;> cases e <;> cases t <;> first
    | (intro h; exact absurd h (by decide))
    | (intro _; right; decide)
    | (intro _; left; first
        | exact ⟨.Ready, .sendStream, .Send, rfl, rfl, rfl, rfl⟩
        | exact ⟨.Send, .sendFin, .DataSent, rfl, rfl, rfl, rfl⟩
        | exact ⟨.DataSent, .recvAllAcks, .DataRecvd, rfl, rfl, rfl, rfl⟩
        | exact ⟨.Ready, .sendReset, .ResetSent, rfl, rfl, rfl, rfl⟩
        | exact ⟨.Send, .sendReset, .ResetSent, rfl, rfl, rfl, rfl⟩
        | exact ⟨.DataSent, .sendReset, .ResetSent, rfl, rfl, rfl, rfl⟩
        | exact ⟨.ResetSent, .recvResetAck, .ResetRecvd, rfl, rfl, rfl, rfl⟩)

/-- every mandatory arrow of RFC 9000 figure 3 is an accepted transition of the generated `Receiver` -/
theorem receiver_eq_rfc (s : RecvState) (l : RecvLabel) (t : RecvState) (h : recvFig s l = some t) :
    Receiver.step (rS s) (rE l) = .ok (rS t) := by
  revert h; cases s <;> cases l <;> cases t <;> decide

/-- … and the `Receiver` has NO extra arrow and no extra state: accepted transitions are exactly the mandatory RFC arrows -/
theorem receiver_no_extra_arrows (s : RecvState) (l : RecvLabel) (t : Receiver.State) (h : Receiver.step (rS s) (rE l) = .ok t) :
    (recvFig s l).map rS = some t := by
  revert h; cases s <;> cases l <;> cases t <;> decide

/-- the two "(optional)" arrows of figure 3 (DataRecvd ⇄ ResetRecvd) are not implemented: both are rejected -/
theorem receiver_optional_not_taken (s : RecvState) (l : RecvLabel) (t : RecvState) (h : recvOptional s l = some t) :
    Receiver.step (rS s) (rE l) = .error .invalid := by
  revert h; cases s <;> cases l <;> cases t <;> decide

/-- `is_terminal` of the implementation = terminal states of the figures -/
theorem terminal_eq_rfc :
    (∀ s, Sender.is "is_terminal" (sS s) = some s.terminal) ∧ (∀ s, Receiver.is "is_terminal" (rS s) = some s.terminal) ∧
    Sender.is "is_terminal" .ResetQueued = some false := by
  refine ⟨fun s => ?_, fun s => ?_, ?_⟩
  · cases s <;> decide
  · cases s <;> decide
  · decide

/-! ## 2. terminal states are absorbing; rank strictly increases; at most |states|-1 accepted transitions -/

/-- `Sender`: no event leaves `DataRecvd` / `ResetRecvd` (every call is rejected and the state stays), for ALL events -/
theorem sender_terminal_rejects (s : Sender.State) (e : Sender.Event) (h : Sender.is "is_terminal" s = some true) :
    Sender.step s e = .error .invalid ∨ Sender.step s e = .error .noOp := by
  revert h; cases s <;> cases e <;> decide

theorem sender_terminal_absorbing (s : Sender.State) (h : Sender.is "is_terminal" s = some true) (es : List Sender.Event) :
    run Sender.step s es = s ∧ ∀ x ∈ trace Sender.step s es, x = s := by
  have h1 : ∀ e, next (Sender.step s e) s = s := by
    intro e; rcases sender_terminal_rejects s e h with he | he <;> simp [he, next]
  exact ⟨run_absorbing h1 es, trace_absorbing h1 es⟩

theorem receiver_terminal_rejects (s : Receiver.State) (e : Receiver.Event) (h : Receiver.is "is_terminal" s = some true) :
    Receiver.step s e = .error .invalid ∨ Receiver.step s e = .error .noOp := by
  revert h; cases s <;> cases e <;> decide

theorem receiver_terminal_absorbing (s : Receiver.State) (h : Receiver.is "is_terminal" s = some true) (es : List Receiver.Event) :
    run Receiver.step s es = s ∧ ∀ x ∈ trace Receiver.step s es, x = s := by
  have h1 : ∀ e, next (Receiver.step s e) s = s := by
    intro e; rcases receiver_terminal_rejects s e h with he | he <;> simp [he, next]
  exact ⟨run_absorbing h1 es, trace_absorbing h1 es⟩

example : Sender.is "is_terminal" .DataRecvd = some true ∧ Sender.is "is_terminal" .ResetRecvd = some true ∧
    Receiver.is "is_terminal" .DataRead = some true ∧ Receiver.is "is_terminal" .ResetRead = some true := by decide

def senderRank : Sender.State → Nat
  | .Ready => 0 | .Send => 1 | .DataSent => 2 | .ResetQueued => 3 | .DataRecvd => 4 | .ResetSent => 4 | .ResetRecvd => 5
def receiverRank : Receiver.State → Nat
  | .Recv => 0 | .SizeKnown => 1 | .DataRecvd => 2 | .ResetRecvd => 2 | .DataRead => 3 | .ResetRead => 3

theorem sender_rank_strict (s : Sender.State) (e : Sender.Event) :
    okAll Sender.step (fun a b => decide (senderRank a < senderRank b)) s e = true := by
  cases s <;> cases e <;> decide
theorem receiver_rank_strict (s : Receiver.State) (e : Receiver.Event) :
    okAll Receiver.step (fun a b => decide (receiverRank a < receiverRank b)) s e = true := by
  cases s <;> cases e <;> decide

/-- readable form: every accepted transition strictly increases the rank (so there is no cycle and no accepted self-loop) -/
theorem sender_step_rank (s t : Sender.State) (e : Sender.Event) (h : Sender.step s e = .ok t) : senderRank s < senderRank t := by
  simpa using okAll_spec sender_rank_strict h
theorem receiver_step_rank (s t : Receiver.State) (e : Receiver.Event) (h : Receiver.step s e = .ok t) :
    receiverRank s < receiverRank t := by
  simpa using okAll_spec receiver_rank_strict h

/-- for EVERY event list from EVERY state: at most 5 (< |states| = 7) accepted calls, hence at most 5 state changes -/
theorem sender_bounded_progress (s : Sender.State) (es : List Sender.Event) :
    accepted Sender.step s es ≤ 5 ∧ changes Sender.step s es ≤ 5 ∧ senderRank s ≤ senderRank (run Sender.step s es) := by
  have h := accepted_le_rank sender_rank_strict es s
  have hc := changes_le_accepted Sender.step es s
  have hb : ∀ x, senderRank x ≤ 5 := by intro x; cases x <;> decide
  have := hb (run Sender.step s es)
  omega
theorem receiver_bounded_progress (s : Receiver.State) (es : List Receiver.Event) :
    accepted Receiver.step s es ≤ 3 ∧ changes Receiver.step s es ≤ 3 ∧ receiverRank s ≤ receiverRank (run Receiver.step s es) := by
  have h := accepted_le_rank receiver_rank_strict es s
  have hc := changes_le_accepted Receiver.step es s
  have hb : ∀ x, receiverRank x ≤ 3 := by intro x; cases x <;> decide
  have := hb (run Receiver.step s es)
  omega

example : accepted Sender.step .Ready [.on_send_stream, .on_send_fin, .on_queue_reset, .on_send_reset, .on_recv_reset_ack] = 5 := by decide

/-! ## 3. no data state after a reset state; DataRecvd only after DataSent -/

def senderReset : Sender.State → Bool
  | .ResetSent | .ResetRecvd => true
  | _ => false
def receiverReset : Receiver.State → Bool
  | .ResetRecvd | .ResetRead => true
  | _ => false

/-- once RESET_STREAM was sent (`ResetSent` / `ResetRecvd`), every later state of every run is a reset state: no
    `Ready`/`Send`/`DataSent`/`DataRecvd` (and no `ResetQueued`) is ever entered again -/
theorem sender_reset_is_forever (s : Sender.State) (h : senderReset s = true) (es : List Sender.Event) :
    ∀ x ∈ trace Sender.step s es, senderReset x = true :=
  trace_closed (P := senderReset) (by intro s e; cases s <;> cases e <;> decide) es s h

theorem receiver_reset_is_forever (s : Receiver.State) (h : receiverReset s = true) (es : List Receiver.Event) :
    ∀ x ∈ trace Receiver.step s es, receiverReset x = true :=
  trace_closed (P := receiverReset) (by intro s e; cases s <;> cases e <;> decide) es s h

/-- the same from the start: if a run from `Ready` is cut anywhere after a reset state, the rest stays reset -/
theorem sender_no_data_after_reset (es1 es2 : List Sender.Event) (h : senderReset (run Sender.step .Ready es1) = true) :
    ∀ x ∈ trace Sender.step (run Sender.step .Ready es1) es2, x ≠ .Ready ∧ x ≠ .Send ∧ x ≠ .DataSent ∧ x ≠ .DataRecvd := by
  intro x hx
  have := sender_reset_is_forever _ h es2 x hx
  revert this; cases x <;> decide

/-- the full-strength claim "a queued reset excludes data states" is FALSE for the core type: `ResetQueued` (reset queued,
    not yet sent) still accepts `on_recv_all_acks` and ends in the DATA terminal state -/
theorem sender_reset_queued_then_data_recvd_counterexample :
    trace Sender.step .Ready [.on_queue_reset, .on_recv_all_acks] = [.Ready, .ResetQueued, .DataRecvd] := by decide

/-- FULL statement (false): `DataRecvd ∈ trace step Ready es → DataSent ∈ trace step Ready es`.
    Counterexample on the generated machine: "all data acknowledged" without ever having sent a FIN. -/
theorem sender_data_recvd_without_data_sent_counterexample :
    Sender.State.DataRecvd ∈ trace Sender.step .Ready [.on_queue_reset, .on_recv_all_acks] ∧
    Sender.State.DataSent ∉ trace Sender.step .Ready [.on_queue_reset, .on_recv_all_acks] := by decide

/-- what holds for the core type: `DataRecvd` is only reached through `DataSent` or `ResetQueued` -/
theorem sender_data_recvd_requires_data_sent_partial (s : Sender.State) (hs : s ≠ .DataRecvd) (es : List Sender.Event)
    (h : Sender.State.DataRecvd ∈ trace Sender.step s es) :
    ∃ q ∈ trace Sender.step s es, q = .DataSent ∨ q = .ResetQueued := by
  obtain ⟨q, hq, hQ⟩ := reach_requires (T := Sender.State.DataRecvd) (Q := fun a => decide (a = .DataSent ∨ a = .ResetQueued))
    (by intro s e; cases s <;> cases e <;> decide) es s hs h
  exact ⟨q, hq, by simpa using hQ⟩

/-- the machine as dc drives it: `send::State::try_finish` calls `on_recv_all_acks` only while no error was recorded, and the
    only `on_queue_reset` follows recording one (bridge `dc_try_finish_guards_error`), i.e. never in `ResetQueued` -/
def senderGuardedStep (s : Sender.State) (e : Sender.Event) : Except Err Sender.State :=
  if s = .ResetQueued ∧ e = .on_recv_all_acks then .error .invalid else Sender.step s e

/-- with that guard the full statement holds for every event list: `DataRecvd` (all data acknowledged) is never reached
    without passing `DataSent` (FIN sent) -/
theorem sender_guarded_data_recvd_requires_data_sent (s : Sender.State) (hs : s ≠ .DataRecvd) (es : List Sender.Event)
    (h : Sender.State.DataRecvd ∈ trace senderGuardedStep s es) : Sender.State.DataSent ∈ trace senderGuardedStep s es := by
  obtain ⟨q, hq, hQ⟩ := reach_requires (T := Sender.State.DataRecvd) (Q := fun a => decide (a = .DataSent))
    (by intro s e; cases s <;> cases e <;> decide) es s hs h
  have : q = .DataSent := by simpa using hQ
  exact this ▸ hq

example : Sender.State.DataRecvd ∈ trace senderGuardedStep .Ready [.on_send_fin, .on_recv_all_acks] := by decide

/-- `DataRead` (the application read everything) is only reached through `DataRecvd`, which is only reached through `SizeKnown` -/
theorem receiver_data_read_requires_data_recvd (s : Receiver.State) (hs : s ≠ .DataRead) (es : List Receiver.Event)
    (h : Receiver.State.DataRead ∈ trace Receiver.step s es) : Receiver.State.DataRecvd ∈ trace Receiver.step s es := by
  obtain ⟨q, hq, hQ⟩ := reach_requires (T := Receiver.State.DataRead) (Q := fun a => decide (a = .DataRecvd))
    (by intro s e; cases s <;> cases e <;> decide) es s hs h
  have : q = .DataRecvd := by simpa using hQ
  exact this ▸ hq

/-! ## 4. dc machines. Terminal: send worker `Finished`; recv worker `Finished`; handshake `Finished`; manager `Complete`. -/

def dcSendWorkerRank : DcSendWorker.State → Nat
  | .Acking => 0 | .Detached => 1 | .ShuttingDown => 2 | .Finished => 3
def dcHandshakeRank : DcHandshake.State → Nat
  | .ClientInit => 0 | .ServerInit => 0 | .ClientQueueIdObserved => 1 | .ServerQueueIdObserved => 1 | .Finished => 2
def dcManagerRank : DcManager.State → Nat
  | .InitServer => 0 | .InitClient => 0 | .ServerPathSecretsReady => 1 | .ClientPathSecretsReady => 1
  | .ServerTokensSent => 2 | .Complete => 3
def dcRecvWorkerRank : DcRecvWorker.State → Nat
  | .PeekPacket => 0 | .EpochTimeout => 0 | .Cooldown => 0 | .DataRecvd => 1 | .Detached => 1 | .TimeWait => 2 | .Finished => 3
/-- the polling loop of the recv worker (a cycle by design: Cooldown → PeekPacket ⇄ EpochTimeout → Cooldown) -/
def dcRecvWorkerPolling : DcRecvWorker.State → Bool
  | .PeekPacket | .EpochTimeout | .Cooldown => true
  | _ => false

theorem dc_send_worker_rank_strict (s : DcSendWorker.State) (e : DcSendWorker.Event) :
    okAll DcSendWorker.step (fun a b => decide (dcSendWorkerRank a < dcSendWorkerRank b)) s e = true := by
  cases s <;> cases e <;> decide
theorem dc_handshake_rank_strict (s : DcHandshake.State) (e : DcHandshake.Event) :
    okAll DcHandshake.step (fun a b => decide (dcHandshakeRank a < dcHandshakeRank b)) s e = true := by
  cases s <;> cases e <;> decide
theorem dc_manager_rank_strict (s : DcManager.State) (e : DcManager.Event) :
    okAll DcManager.step (fun a b => decide (dcManagerRank a < dcManagerRank b)) s e = true := by
  cases s <;> cases e <;> decide

theorem dc_send_worker_bounded_progress (s : DcSendWorker.State) (es : List DcSendWorker.Event) :
    accepted DcSendWorker.step s es ≤ 3 ∧ changes DcSendWorker.step s es ≤ 3 := by
  have h := accepted_le_rank dc_send_worker_rank_strict es s
  have hc := changes_le_accepted DcSendWorker.step es s
  have hb : ∀ x, dcSendWorkerRank x ≤ 3 := by intro x; cases x <;> decide
  have := hb (run DcSendWorker.step s es)
  omega
theorem dc_handshake_bounded_progress (s : DcHandshake.State) (es : List DcHandshake.Event) :
    accepted DcHandshake.step s es ≤ 2 ∧ changes DcHandshake.step s es ≤ 2 := by
  have h := accepted_le_rank dc_handshake_rank_strict es s
  have hc := changes_le_accepted DcHandshake.step es s
  have hb : ∀ x, dcHandshakeRank x ≤ 2 := by intro x; cases x <;> decide
  have := hb (run DcHandshake.step s es)
  omega
theorem dc_manager_bounded_progress (s : DcManager.State) (es : List DcManager.Event) :
    accepted DcManager.step s es ≤ 3 ∧ changes DcManager.step s es ≤ 3 := by
  have h := accepted_le_rank dc_manager_rank_strict es s
  have hc := changes_le_accepted DcManager.step es s
  have hb : ∀ x, dcManagerRank x ≤ 3 := by intro x; cases x <;> decide
  have := hb (run DcManager.step s es)
  omega

theorem dc_send_worker_finished_absorbing (es : List DcSendWorker.Event) : run DcSendWorker.step .Finished es = .Finished :=
  run_absorbing (by intro e; cases e <;> decide) es
theorem dc_recv_worker_finished_absorbing (es : List DcRecvWorker.Event) : run DcRecvWorker.step .Finished es = .Finished :=
  run_absorbing (by intro e; cases e <;> decide) es
theorem dc_handshake_finished_absorbing (es : List DcHandshake.Event) : run DcHandshake.step .Finished es = .Finished :=
  run_absorbing (by intro e; cases e <;> decide) es
theorem dc_manager_complete_absorbing (es : List DcManager.Event) : run DcManager.step .Complete es = .Complete :=
  run_absorbing (by intro e; cases e <;> decide) es

/-- recv worker: FULL statement (a strictly increasing rank exists) is FALSE — the worker polls in a cycle by design and
    `on_application_progress` is an accepted self-loop in `Cooldown` -/
theorem dc_recv_worker_strict_rank_counterexample :
    ¬ ∃ rank : DcRecvWorker.State → Nat, ∀ s e t, DcRecvWorker.step s e = .ok t → rank s < rank t := by
  intro ⟨rank, h⟩
  have h1 := h .PeekPacket .on_peek_packet .EpochTimeout (by decide)
  have h2 := h .EpochTimeout .on_epoch_unchanged .PeekPacket (by decide)
  omega

/-- what holds: the rank never decreases, strictly increases on every accepted transition that ends outside the polling loop,
    and the polling loop is never re-entered once left (so after leaving it at most 3 more accepted transitions follow) -/
theorem dc_recv_worker_rank_partial (s : DcRecvWorker.State) (e : DcRecvWorker.Event) :
    okAll DcRecvWorker.step (fun a b => decide (dcRecvWorkerRank a ≤ dcRecvWorkerRank b ∧
      (dcRecvWorkerPolling b = false → dcRecvWorkerRank a < dcRecvWorkerRank b))) s e = true := by
  cases s <;> cases e <;> decide

theorem dc_recv_worker_rank_mono (s : DcRecvWorker.State) (es : List DcRecvWorker.Event) :
    dcRecvWorkerRank s ≤ dcRecvWorkerRank (run DcRecvWorker.step s es) :=
  run_rank_mono (by intro s e; cases s <;> cases e <;> decide) es s

theorem dc_recv_worker_polling_never_reentered (s : DcRecvWorker.State) (h : dcRecvWorkerPolling s = false)
    (es : List DcRecvWorker.Event) : ∀ x ∈ trace DcRecvWorker.step s es, dcRecvWorkerPolling x = false := by
  have := trace_closed (stp := DcRecvWorker.step) (P := fun a => !dcRecvWorkerPolling a)
    (by intro s e; cases s <;> cases e <;> decide) es s (by simp [h])
  intro x hx; simpa using this x hx

end Quic.Proofs.C20
