import QuicModel.Generated.States
import QuicModel.Rfc.StreamStates
import QuicProofs.Lemmas.States
/-
  C20 (core machines also C12): the `event!` state machines of s2n-quic, as GENERATED from /repo's current source
  (QuicModel.Generated.States; `step` = macro semantics `Quic.State.step` over the generated arm tables).
  Nothing here is pinned: a changed arrow in send.rs / recv.rs / the dc workers changes the objects these theorems talk about.
-/
namespace Quic.Proofs.C20
open Quic.State Quic.Generated.States Quic.Proofs.StatesLemmas
open Quic.Rfc.StreamStates (SendState SendLabel sendFig RecvState RecvLabel recvFig recvOptional)

/-! ## 1. Sender / Receiver against RFC 9000 figures 2 and 3 -/

/-- RFC state ↦ implementation state -/
def sS : SendState → Sender.State
  | .Ready => .Ready | .Send => .Send | .DataSent => .DataSent | .DataRecvd => .DataRecvd
  | .ResetSent => .ResetSent | .ResetRecvd => .ResetRecvd
/-- RFC edge label ↦ implementation event -/
def sE : SendLabel → Sender.Event
  | .sendStream => .on_send_stream | .sendFin => .on_send_fin | .recvAllAcks => .on_recv_all_acks
  | .sendReset => .on_send_reset | .recvResetAck => .on_recv_reset_ack

def rS : RecvState → Receiver.State
  | .Recv => .Recv | .SizeKnown => .SizeKnown | .DataRecvd => .DataRecvd | .DataRead => .DataRead
  | .ResetRecvd => .ResetRecvd | .ResetRead => .ResetRead
def rE : RecvLabel → Receiver.Event
  | .recvFin => .on_receive_fin | .recvAllData => .on_receive_all_data | .appReadAllData => .on_app_read_all_data
  | .recvReset => .on_reset | .appReadReset => .on_app_read_reset

/-- every arrow of RFC 9000 figure 2 is an accepted transition of the generated `Sender`, to the same state -/
theorem sender_eq_rfc (s : SendState) (l : SendLabel) (t : SendState) (h : sendFig s l = some t) :
    Sender.step (sS s) (sE l) = .ok (sS t) := by
  revert h; cases s <;> cases l <;> cases t <;> decide

/-- the implementation's extra arrows between RFC states under RFC labels: exactly `Ready --on_send_fin--> DataSent`
    ("we can jump from Ready to DataSent even though the diagram doesn't explicitly highlight this transition") -/
theorem sender_extra_arrows_on_rfc_states (s : SendState) (l : SendLabel) (t : Sender.State)
    (h : Sender.step (sS s) (sE l) = .ok t) :
    (sendFig s l).map sS = some t ∨ (s = .Ready ∧ l = .sendFin ∧ t = .DataSent) := by
  revert h; cases s <;> cases l <;> cases t <;> decide

theorem sender_extra_ready_fin :
    Sender.step .Ready .on_send_fin = .ok .DataSent ∧ sendFig .Ready .sendFin = none := by decide

/-- the extra state `ResetQueued` ("separate queueing a RESET_STREAM from actually sending it") and the extra event
    `on_queue_reset`: ALL accepted transitions that involve either of them -/
theorem sender_extra_state_reset_queued (s : Sender.State) (e : Sender.Event) (t : Sender.State)
    (h : Sender.step s e = .ok t) (hx : s = .ResetQueued ∨ t = .ResetQueued ∨ e = .on_queue_reset) :
    (s, e, t) ∈ [(.Ready, .on_queue_reset, .ResetQueued), (.Send, .on_queue_reset, .ResetQueued),
                 (.DataSent, .on_queue_reset, .ResetQueued), (.ResetQueued, .on_send_reset, .ResetSent),
                 (.ResetQueued, .on_recv_all_acks, .DataRecvd)] := by
  revert h hx; cases s <;> cases e <;> cases t <;> decide

/-- complete classification: every accepted transition of the generated `Sender` is an RFC arrow or one of the six listed extras -/
theorem sender_arrows_classified (s : Sender.State) (e : Sender.Event) (t : Sender.State) (h : Sender.step s e = .ok t) :
    (∃ s0 l t0, sS s0 = s ∧ sE l = e ∧ sS t0 = t ∧ sendFig s0 l = some t0) ∨
    (s, e, t) ∈ [(.Ready, .on_send_fin, .DataSent), (.Ready, .on_queue_reset, .ResetQueued), (.Send, .on_queue_reset, .ResetQueued),
                 (.DataSent, .on_queue_reset, .ResetQueued), (.ResetQueued, .on_send_reset, .ResetSent),
                 (.ResetQueued, .on_recv_all_acks, .DataRecvd)] := by
  revert h
  cases s <;> cases e <;> cases t <;> first
    | (intro h; exact absurd h (by decide))
    | (intro _; right; decide)
    | (intro _; left; first
        | exact ⟨.Ready, .sendStream, .Send, rfl, rfl, rfl, rfl⟩
        | exact ⟨.Send, .sendFin, .DataSent, rfl, rfl, rfl, rfl⟩
        | exact ⟨.DataSent, .recvAllAcks, .DataRecvd, rfl, rfl, rfl, rfl⟩
        | exact ⟨.Ready, .sendReset, .ResetSent, rfl, rfl, rfl, rfl⟩
        | exact ⟨.Send, .sendReset, .ResetSent, rfl, rfl, rfl, rfl⟩
        | exact ⟨.DataSent, .sendReset, .ResetSent, rfl, rfl, rfl, rfl⟩
        | exact ⟨.ResetSent, .recvResetAck, .ResetRecvd, rfl, rfl, rfl, rfl⟩)

/-- every mandatory arrow of RFC 9000 figure 3 is an accepted transition of the generated `Receiver` -/
theorem receiver_eq_rfc (s : RecvState) (l : RecvLabel) (t : RecvState) (h : recvFig s l = some t) :
    Receiver.step (rS s) (rE l) = .ok (rS t) := by
  revert h; cases s <;> cases l <;> cases t <;> decide

/-- … and the `Receiver` has NO extra arrow and no extra state: accepted transitions are exactly the mandatory RFC arrows -/
theorem receiver_no_extra_arrows (s : RecvState) (l : RecvLabel) (t : Receiver.State) (h : Receiver.step (rS s) (rE l) = .ok t) :
    (recvFig s l).map rS = some t := by
  revert h; cases s <;> cases l <;> cases t <;> decide

/-- the two "(optional)" arrows of figure 3 (DataRecvd ⇄ ResetRecvd) are not implemented: both are rejected -/
theorem receiver_optional_not_taken (s : RecvState) (l : RecvLabel) (t : RecvState) (h : recvOptional s l = some t) :
    Receiver.step (rS s) (rE l) = .error .invalid := by
  revert h; cases s <;> cases l <;> cases t <;> decide

/-- `is_terminal` of the implementation = terminal states of the figures -/
theorem terminal_eq_rfc :
    (∀ s, Sender.is "is_terminal" (sS s) = some s.terminal) ∧ (∀ s, Receiver.is "is_terminal" (rS s) = some s.terminal) ∧
    Sender.is "is_terminal" .ResetQueued = some false := by
  refine ⟨fun s => ?_, fun s => ?_, ?_⟩
  · cases s <;> decide
  · cases s <;> decide
  · decide

end Quic.Proofs.C20
