import QuicModel.Codec.PacketNumber
import QuicProofs.Lemmas.PacketNumber
/-
  C08 (packet-number half): "Packet numbers on the wire strictly increase within a space and are
  truncated such that the peer, knowing only the largest number acknowledged so far, reconstructs
  exactly the number that was sent."

  Everything is stated for all packet numbers in [0, 2^62) and all distances. `truncate`,
  `expand` are the transcriptions of `PacketNumber::truncate` / `TruncatedPacketNumber::expand`
  (QuicModel/Codec/PacketNumber.lean); `Rfc.PacketNumber.*` is the independent RFC 9000
  §17.1 / A.2 / A.3 reference. `some _` results of `expand` also say: no `u64` overflow panic.
  (The strictly-increasing half over `TxPacketNumbers` is in Props/C08TxPn.lean.)
-/
namespace Quic.Proofs.C08
open Quic Quic.Codec.PacketNumber Quic.Proofs.PacketNumber

/-- half of the window a truncated number of this length spans: `pn_hwin = 2^(bits-1)` -/
def hwin (t : Truncated) : Nat := 2 ^ (bitsize t.len - 1)

/-! ### truncate: when it fails, what it returns -/

/-- exact failure condition of `PacketNumber::truncate` -/
theorem truncate_none_iff (pn la : Nat) :
    truncate pn la = none ↔ pn < la ∨ 2 ^ 32 ≤ 2 * (pn - la) := by
  rw [truncate_cases]
  simp only [Nat.reducePow]
  repeat' split
  all_goals first
    | (apply iff_of_true rfl; omega)
    | (apply iff_of_false (by simp only [reduceCtorEq, not_false_eq_true]); omega)

/-- what `truncate` returns: one of the four variants, carrying the low bits of `pn` -/
theorem truncate_some (pn la : Nat) (t : Truncated) (h : truncate pn la = some t) :
    t.len ≤ 3 ∧ t.value = pn % 2 ^ bitsize t.len ∧ la ≤ pn ∧ 2 * (pn - la) < 2 ^ bitsize t.len := by
  rw [truncate_cases] at h
  repeat' split at h
  all_goals first
    | (exfalso; simp only [reduceCtorEq] at h; done)
    | (simp only [Option.some.injEq] at h; subst h
       simp only [bitsize, bytesize, Nat.reduceAdd, Nat.reduceMul, Nat.reducePow, true_and]
       omega)

/-- the chosen length is the shortest one RFC 9000 §17.1 admits ("able to represent more than
    twice as large a range as the difference …", 1 to 4 bytes), and `truncate` fails exactly when
    no size is admissible -/
theorem truncate_minimal (pn la : Nat) :
    (truncate pn la).map (fun t => bytesize t.len) = Rfc.PacketNumber.minimalLen pn la := by
  rw [truncate_cases, minimalLen_cases]
  repeat' split
  all_goals simp only [Rfc.PacketNumber.sizeOk, Nat.reduceMul, Nat.reducePow] at *
  all_goals first
    | rfl
    | (exfalso; omega)

/-- spelled out: the chosen size satisfies the §17.1 MUST and no shorter size (≥ 1 byte) does -/
theorem truncate_minimal_spelled (pn la : Nat) (t : Truncated) (h : truncate pn la = some t) :
    Rfc.PacketNumber.sizeOk (bytesize t.len) pn la ∧
      ∀ n, 1 ≤ n → n < bytesize t.len → ¬ Rfc.PacketNumber.sizeOk n pn la := by
  unfold Rfc.PacketNumber.sizeOk
  rw [truncate_cases] at h
  repeat' split at h
  all_goals first
    | (exfalso; simp only [reduceCtorEq] at h; done)
    | (simp only [Option.some.injEq] at h; subst h
       simp only [bytesize, Nat.reduceAdd, Nat.reduceMul, Nat.reducePow]
       refine ⟨by omega, ?_⟩
       intro n h1 hn
       have hn' : n = 1 ∨ n = 2 ∨ n = 3 := by omega
       rcases hn' with r | r | r <;> subst r <;> simp only [Nat.reduceMul, Nat.reducePow] <;> omega)

/-- the Appendix A.2 pseudo-code (informative) never asks for more bytes than the code uses; it
    asks for fewer exactly at the distances 2^7, 2^15, 2^23 (where §17.1's "more than twice" and
    A.2's `log2 + 1` differ by one value) -/
theorem truncate_ge_a2 (pn la : Nat) (t : Truncated) (h : truncate pn la = some t) :
    Rfc.PacketNumber.a2NumBytes pn la ≤ bytesize t.len ∧
      (Rfc.PacketNumber.a2NumBytes pn la < bytesize t.len ↔
        pn - la = 2 ^ 7 ∨ pn - la = 2 ^ 15 ∨ pn - la = 2 ^ 23) := by
  rw [truncate_cases] at h
  unfold Rfc.PacketNumber.a2NumBytes
  simp only [Nat.reducePow]
  repeat' split at h
  all_goals first
    | (exfalso; simp only [reduceCtorEq] at h; done)
    | (simp only [Option.some.injEq] at h; subst h
       simp only [bytesize]
       repeat' split
       all_goals omega)

/-! ### expand: total, bounded, equal to RFC A.3 -/

/-- `decode_packet_number` never overflows its `u64` arithmetic and never returns a number above
    2^62 - 1, for every largest number and every well-formed truncated number -/
theorem expand_total (L : Nat) (t : Truncated) (hL : L ≤ maxPn) (ht : WF t) :
    ∃ pn, expand L t = some pn ∧ pn ≤ maxPn := by
  refine ⟨_, decode_eq_arith L t hL ht, ?_⟩
  rcases bitsize_cases ht.1 with h | h | h | h <;> rw [h]
  · exact le_max_8 L _
  · exact le_max_16 L _
  · exact le_max_24 L _
  · exact le_max_32 L _

theorem expand_le_max (L pn : Nat) (t : Truncated) (hL : L ≤ maxPn) (ht : WF t)
    (h : expand L t = some pn) : pn ≤ maxPn := by
  obtain ⟨q, hq, hle⟩ := expand_total L t hL ht
  rw [hq] at h; cases h; exact hle

/-- for ALL inputs the code's reconstruction equals RFC 9000 Appendix A.3 `DecodePacketNumber`
    (evaluated over the integers), clamped to the largest packet number 2^62 - 1 -/
theorem expand_eq_rfc (L : Nat) (t : Truncated) (hL : L ≤ maxPn) (ht : WF t) :
    ∃ pn, expand L t = some pn ∧
      (pn : Int) = min (Rfc.PacketNumber.decode L t.value (bitsize t.len)) (Rfc.PacketNumber.maxPn : Int) := by
  refine ⟨_, decode_eq_arith L t hL ht, ?_⟩
  obtain ⟨hlen, hv⟩ := ht
  rcases bitsize_cases hlen with h | h | h | h <;> rw [h] at hv ⊢
  · exact rfc_8 L _ hL hv
  · exact rfc_16 L _ hL hv
  · exact rfc_24 L _ hL hv
  · exact rfc_32 L _ hL hv

/-- the clamp only matters when the receiver's largest number is already 2^62 - 1: otherwise the
    result carries exactly the received low bits -/
theorem expand_congr (L pn : Nat) (t : Truncated) (hL : L ≤ maxPn) (ht : WF t)
    (h : expand L t = some pn) : pn % 2 ^ bitsize t.len = t.value ∨ (pn = maxPn ∧ L = maxPn) := by
  have h' := decode_eq_arith L t hL ht
  unfold expand at h
  rw [h'] at h; cases h
  obtain ⟨hlen, hv⟩ := ht
  rcases bitsize_cases hlen with h | h | h | h <;> rw [h] at hv ⊢
  · exact congr_8 L _ hL hv
  · exact congr_16 L _ hL hv
  · exact congr_24 L _ hL hv
  · exact congr_32 L _ hL hv

/-! ### the round trip -/

/-- the window the code guarantees (RFC A.3: greater than `expected - hwin`, at most
    `expected + hwin`, `expected = L + 1`): every packet number in it is reconstructed exactly
    from its low `8·(len+1)` bits -/
theorem expand_of_window (pn L len : Nat) (hp : pn ≤ maxPn) (hL : L ≤ maxPn) (hlen : len ≤ 3)
    (h1 : L + 2 ≤ pn + 2 ^ (bitsize len - 1)) (h2 : pn ≤ L + 1 + 2 ^ (bitsize len - 1)) :
    expand L (truncatePacketNumber len pn) = some pn := by
  unfold expand
  rw [decode_eq_arith L _ hL (truncatePacketNumber_wf len pn hlen), truncatePacketNumber_eq len pn hlen]
  simp only
  rcases bitsize_cases hlen with h | h | h | h <;> rw [h] at h1 h2 ⊢ <;>
    simp only [Nat.reduceSub, Nat.reducePow] at h1 h2 ⊢
  · rw [window_8 pn L hp hL h1 h2]
  · rw [window_16 pn L hp hL h1 h2]
  · rw [window_24 pn L hp hL h1 h2]
  · rw [window_32 pn L hp hL h1 h2]

/-- the window is exact: a number below it (further than `hwin - 2` behind the receiver's largest)
    or above it is NOT reconstructed (away from the 0 / 2^62 edges, where the code has no
    neighbouring candidate to confuse it with) -/
theorem expand_outside_window (pn L len : Nat) (hp : pn ≤ maxPn) (hL : L ≤ maxPn) (hlen : len ≤ 3)
    (h : (pn + 2 ^ (bitsize len - 1) < L + 2 ∧ pn + 2 ^ bitsize len ≤ maxPn) ∨
         (L + 1 + 2 ^ (bitsize len - 1) < pn ∧ 2 ^ bitsize len ≤ pn)) :
    expand L (truncatePacketNumber len pn) ≠ some pn := by
  unfold expand
  rw [decode_eq_arith L _ hL (truncatePacketNumber_wf len pn hlen), truncatePacketNumber_eq len pn hlen]
  simp only [ne_eq, Option.some.injEq]
  rcases bitsize_cases hlen with hk | hk | hk | hk <;> rw [hk] at h ⊢ <;>
    simp only [Nat.reduceSub, Nat.reducePow] at h ⊢
  · rcases h with ⟨a, b⟩ | ⟨a, b⟩
    · exact below_8 pn L hL a b
    · exact above_8 pn L hp a b
  · rcases h with ⟨a, b⟩ | ⟨a, b⟩
    · exact below_16 pn L hL a b
    · exact above_16 pn L hp a b
  · rcases h with ⟨a, b⟩ | ⟨a, b⟩
    · exact below_24 pn L hL a b
    · exact above_24 pn L hp a b
  · rcases h with ⟨a, b⟩ | ⟨a, b⟩
    · exact below_32 pn L hL a b
    · exact above_32 pn L hp a b

/-- C08: a packet number truncated against the sender's largest acknowledged number `la` is
    reconstructed exactly by every receiver whose reference `L` (the largest number it has
    processed) is at least `la` and less than `hwin - 1` ahead of `pn`. The first condition is what
    the sender knows (the peer acknowledged `la`, so it has processed it); the second bounds how many
    later packets may overtake `pn`. -/
theorem truncate_expand (pn la : Nat) (t : Truncated) (_hla : la ≤ pn) (hp : pn < 2 ^ 62)
    (ht : truncate pn la = some t) :
    ∀ L, la ≤ L → L ≤ maxPn → L + 2 ≤ pn + hwin t → expand L t = some pn := by
  intro L hl hL hw
  obtain ⟨hlen, hv, hle, hd⟩ := truncate_some pn la t ht
  have hp' : pn ≤ maxPn := by simp only [maxPn]; omega
  have ht' : t = truncatePacketNumber t.len pn := by
    rw [truncatePacketNumber_eq t.len pn hlen, ← hv]
  rw [ht']
  unfold hwin at hw
  apply expand_of_window pn L t.len hp' hL hlen hw
  -- upper edge: implied by `2·(pn - la) < 2^bits` and `la ≤ L`
  rcases bitsize_cases hlen with h | h | h | h <;> rw [h] at hd ⊢ <;>
    simp only [Nat.reduceSub, Nat.reducePow] at hd ⊢ <;> omega

/-- "… the peer, knowing only the largest number acknowledged so far, reconstructs exactly the
    number that was sent": the instance `L = la`, for all numbers in [0, 2^62) and all distances
    for which `truncate` produces an encoding -/
theorem truncate_expand_largest_acked (pn la : Nat) (t : Truncated) (hla : la ≤ pn) (hp : pn < 2 ^ 62)
    (ht : truncate pn la = some t) : expand la t = some pn := by
  apply truncate_expand pn la t hla hp ht la (Nat.le_refl _) (by simp only [maxPn]; omega)
  obtain ⟨hlen, _, _, _⟩ := truncate_some pn la t ht
  unfold hwin
  rcases bitsize_cases hlen with h | h | h | h <;> rw [h] <;> simp only [Nat.reduceSub, Nat.reducePow] <;> omega

/-- and whenever the distance is encodable at all, it is encoded: for every `la ≤ pn < 2^62` with
    `pn - la < 2^31` the round trip through the code succeeds -/
theorem roundtrip_total (pn la : Nat) (hla : la ≤ pn) (hp : pn < 2 ^ 62) (hd : pn - la < 2 ^ 31) :
    ∃ t, truncate pn la = some t ∧ expand la t = some pn := by
  cases ht : truncate pn la with
  | none =>
    rw [truncate_none_iff] at ht
    omega
  | some t => exact ⟨t, rfl, truncate_expand_largest_acked pn la t hla hp ht⟩

/-! ### packet numbers on the wire strictly increase (`PacketNumber::next`) -/

theorem next_strictly_increasing (pn q : Nat) (h : next pn = some q) : pn < q ∧ q ≤ maxPn := by
  unfold next at h
  split at h
  · cases h; omega
  · cases h

/-- `next` refuses to leave the packet-number range instead of wrapping -/
theorem next_none_iff (pn : Nat) : next pn = none ↔ maxPn ≤ pn := by
  unfold next
  split <;> simp <;> omega

/-! ### non-vacuity -/

-- RFC 9000 A.2: acked 0xabe8b3, sending 0xac5c02 needs 16 bits; 0xace8fe needs 24 bits
example : truncate 0xac5c02 0xabe8b3 = some ⟨1, 0x5c02⟩ := by decide
example : truncate 0xace8fe 0xabe8b3 = some ⟨2, 0xace8fe⟩ := by decide
-- RFC 9000 A.3: largest 0xa82f30ea, 16-bit 0x9b32 decodes to 0xa82f9b32
example : expand 0xa82f30ea ⟨1, 0x9b32⟩ = some 0xa82f9b32 := by decide
-- hypotheses of `truncate_expand` are satisfiable with L strictly between la and the window edge
example : truncate 1000 900 = some ⟨0, 232⟩ ∧ 900 ≤ 1100 ∧ 1100 + 2 ≤ 1000 + hwin ⟨0, 232⟩
    ∧ expand 1100 ⟨0, 232⟩ = some 1000 := by decide
-- … and the window edge is sharp: one further and the number is mis-reconstructed by 2^8
example : expand 1127 ⟨0, 232⟩ = some 1256 := by decide
-- at the top of the range
example : truncate 4611686018427387903 4611686018427387900 = some ⟨0, 255⟩ ∧
    expand 4611686018427387900 ⟨0, 255⟩ = some 4611686018427387903 := by decide
-- truncate fails: pn < la, distance 2^31
example : truncate 5 6 = none ∧ truncate (2 ^ 31) 0 = none ∧ (truncate (2 ^ 31 - 1) 0).isSome := by decide
-- the clamp in `expand_eq_rfc` is live: A.3 yields 2^62 + 5 here
example : expand 4611686018427387903 ⟨0, 5⟩ = some 4611686018427387903 ∧
    Rfc.PacketNumber.decode 4611686018427387903 5 8 = 4611686018427387909 := by decide
-- §17.1 vs A.2 at distance 2^7: the code (and §17.1) use two bytes, A.2 would use one
example : truncate 128 0 = some ⟨1, 128⟩ ∧ Rfc.PacketNumber.a2NumBytes 128 0 = 1 := by decide
example : next 7 = some 8 ∧ next 4611686018427387903 = none := by decide

/-! ### `PacketNumberRange`: the iterator ACK processing walks over -/

theorem range_collect_done (k : Nat) (r : Range) (h : r.exhausted = true ∨ r.stop < r.start) :
    Range.collect (k + 1) r = [] := by
  unfold Range.collect Range.next
  rcases h with h | h
  · simp [h]
  · have : ¬ r.start ≤ r.stop := by omega
    simp [this]

theorem range_collectBack_done (k : Nat) (r : Range) (h : r.exhausted = true ∨ r.stop < r.start) :
    Range.collectBack (k + 1) r = [] := by
  unfold Range.collectBack Range.nextBack
  rcases h with h | h
  · simp [h]
  · have : ¬ r.start ≤ r.stop := by omega
    simp [this]

/-- the forward iterator of `PacketNumberRange::new(s, e)` yields exactly `s, s+1, …, e` and then
    stops (also when `e` is the largest packet number, where `next()` has no successor) -/
theorem range_iter_forward (n s e : Nat) (hse : s ≤ e) (he : e ≤ maxPn) (hn : e - s = n) :
    Range.collect (n + 2) ⟨s, e, false⟩ = List.range' s (n + 1) := by
  induction n generalizing s with
  | zero =>
    have : s = e := by omega
    subst this
    unfold Range.collect Range.next
    simp only [Bool.not_false, Nat.le_refl, decide_true, Bool.and_self, if_true]
    cases hx : Codec.PacketNumber.next s with
    | none =>
      simp only
      rw [range_collect_done 0 _ (Or.inl rfl)]
      rfl
    | some q =>
      simp only
      have : q = s + 1 := by
        unfold Codec.PacketNumber.next at hx; split at hx
        · cases hx; rfl
        · cases hx
      subst this
      rw [range_collect_done 0 _ (Or.inr (by simp only; omega))]
      rfl
  | succ n ih =>
    have hlt : s + 1 ≤ maxPn := by omega
    unfold Range.collect Range.next
    have h1 : s ≤ e := hse
    simp only [Bool.not_false, h1, decide_true, Bool.and_self, if_true, Codec.PacketNumber.next, if_pos hlt]
    rw [ih (s + 1) (by omega) (by omega)]
    simp [List.range'_succ]

theorem range_iter_backward (n s e : Nat) (hse : s ≤ e) (hn : e - s = n) :
    Range.collectBack (n + 2) ⟨s, e, false⟩ = (List.range' s (n + 1)).reverse := by
  induction n generalizing e with
  | zero =>
    have : s = e := by omega
    subst this
    unfold Range.collectBack Range.nextBack
    simp only [Bool.not_false, Nat.le_refl, decide_true, Bool.and_self, if_true]
    cases hx : Codec.PacketNumber.prev s with
    | none =>
      simp only
      rw [range_collectBack_done 0 _ (Or.inl rfl)]
      rfl
    | some q =>
      simp only
      have hq : q = s - 1 ∧ 1 ≤ s := by
        unfold Codec.PacketNumber.prev at hx; split at hx
        · cases hx; exact ⟨rfl, by assumption⟩
        · cases hx
      rw [range_collectBack_done 0 _ (Or.inl (by simp only [decide_eq_true_eq]; omega))]
      rfl
  | succ n ih =>
    have hlt : 1 ≤ e := by omega
    unfold Range.collectBack Range.nextBack
    have h1 : s ≤ e := hse
    have h2 : ¬ s > e - 1 := by omega
    simp only [Bool.not_false, h1, decide_true, Bool.and_self, if_true, Codec.PacketNumber.prev, if_pos hlt, h2, decide_false]
    rw [ih (e - 1) (by omega) (by omega)]
    have : e = s + (n + 1) := by omega
    subst this
    rw [List.range'_concat (s := s) (n := n + 1), List.reverse_append]
    simp
-- non-vacuity: at the top of the packet-number space the forward iterator still terminates
example : Range.collect 5 ⟨4611686018427387901, 4611686018427387903, false⟩
    = [4611686018427387901, 4611686018427387902, 4611686018427387903] := by decide
example : Range.collectBack 5 ⟨0, 2, false⟩ = [2, 1, 0] := by decide

end Quic.Proofs.C08
