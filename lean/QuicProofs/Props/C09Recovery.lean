import QuicProofs.Lemmas.Recovery
/-
  C09 — "A sent packet is declared lost only if a packet sent after it has been acknowledged and
  it is either at least three packet numbers older than the largest acknowledged packet or was
  sent more than 9/8 of the current RTT estimate (never less than 1 ms) earlier; a probe-timeout
  expiry alone never marks packets lost. Every sent packet is resolved exactly once … and the
  bytes-in-flight figure always equals the total size of the unresolved congestion-controlled
  packets … RTT estimates stay within the range of the samples observed, and the probe timeout is
  never below the timer granularity and doubles with each consecutive expiry."

  Units: timestamps µs, durations ns (as in the code).  Part 1 (this section): the public
  components `loss::detect`, `RttEstimator`, `Pto` (tied to /repo by G and D).
-/
namespace Quic.Proofs.C09
open Quic.Recovery Quic.Recovery.Rtt Quic.Proofs.Lemmas.Recovery

/-! ## loss detection -/

/-- FULL-STRENGTH statement of the first sentence of C09 for `loss::detect` (strict reading:
    "sent MORE than the threshold earlier", i.e. `now - time_sent > time_threshold`).
    It is FALSE of the code, see `lost_sound_strict_counterexample` (known finding F2). -/
def lost_sound_strict : Prop :=
  ∀ thr sent k pn la now, Loss.detect thr sent k pn la now = some Loss.Outcome.lost →
    la > pn ∧ (la - pn ≥ k ∨ sent * 1000 + thr < now * 1000)

/-- F2: with a 9 ms threshold a packet sent at t = 1000 µs is declared lost at
    t = 1000 + 9000 − 999 µs, i.e. 999 µs before the threshold has elapsed, at packet distance 1:
    `Timestamp::has_elapsed` adds the 1 ms timer granularity.  (The repo's own test
    `packet_declared_lost_less_than_1_ms_from_loss_threshold` asserts this behaviour.) -/
theorem lost_sound_strict_counterexample : ¬ lost_sound_strict := by
  intro h
  have := h 9000000 1000 3 10 11 9001 (by decide)
  omega

/-- the concrete call of the counterexample, for the replay on the real code:
    `detect 9000000 1000 K 10 11 9001` answers `ok lost` -/
example : Loss.detect 9000000 1000 Loss.K_PACKET_THRESHOLD 10 11 9001 = some Loss.Outcome.lost := by decide

/-- What does hold (`…_partial` of `lost_sound_strict`: the time condition carries the
    `K_GRANULARITY` term): a packet is declared lost only if a later packet was acknowledged and
    it is at least `k` packet numbers older than the largest acknowledged one, or the time
    threshold will have elapsed within less than the timer granularity (1 ms). -/
theorem lost_sound (thr sent k pn la now : Nat)
    (h : Loss.detect thr sent k pn la now = some Loss.Outcome.lost) :
    la > pn ∧ (la - pn ≥ k ∨ sent * 1000 + thr < now * 1000 + Time.K_GRANULARITY_NS) := by
  rw [detect_spec] at h
  simp only [Time.K_GRANULARITY_NS]
  by_cases h1 : la ≤ pn
  · simp [h1] at h
  · simp only [h1, if_false] at h
    by_cases h2 : sent + thr / 1000 < now + 1000 ∨ la - pn ≥ k
    · refine ⟨by omega, ?_⟩
      rcases h2 with h2 | h2
      · right; omega
      · left; exact h2
    · simp [h2] at h

example : Loss.detect 9000000 1000 3 10 11 9001 = some Loss.Outcome.lost := by decide   -- non-vacuity (time)
example : Loss.detect 9000000 1000 3 10 13 1000 = some Loss.Outcome.lost := by decide   -- non-vacuity (packet threshold)

/-- the early margin is bounded by the granularity and nothing else: whenever neither condition
    of the strict statement is within 1 ms, `detect` does not declare the packet lost -/
theorem not_lost_before_granularity (thr sent k pn la now : Nat) (hpn : la - pn < k)
    (ht : now * 1000 + Time.K_GRANULARITY_NS ≤ sent * 1000 + thr) :
    Loss.detect thr sent k pn la now ≠ some Loss.Outcome.lost := by
  intro h
  have := lost_sound thr sent k pn la now h
  omega

/-- the threshold the manager passes: `loss_time_threshold()` is 9/8 of `max(smoothed, latest)`
    (integer ns) and never less than 1 ms -/
theorem loss_time_threshold_spec (r : RttEstimator)
    (h1 : r.smoothedRtt < 18446744073709551616) (h2 : r.latestRtt < 18446744073709551616) :
    lossTimeThreshold r = max (9 * max r.smoothedRtt r.latestRtt / 8) 1000000 := by
  simp only [lossTimeThreshold, u64, K_GRANULARITY, Nat.mod_eq_of_lt h1, Nat.mod_eq_of_lt h2]
  rcases Nat.le_total r.smoothedRtt r.latestRtt with h | h
  · simp only [Nat.max_eq_right h]; omega
  · simp only [Nat.max_eq_left h]; omega

theorem loss_time_threshold_ge_granularity (r : RttEstimator) : 1000000 ≤ lossTimeThreshold r := by
  simp only [lossTimeThreshold, u64, K_GRANULARITY]
  omega

example : lossTimeThreshold (exRtt 8000000 4000000 0) = 9000000 := by decide

/-- `loss_time_threshold()` against RFC 9002 A.10 `loss_delay` (kept exact by the factor 8):
    the code's value is the RFC's rounded down to whole nanoseconds -/
theorem loss_time_threshold_eq_rfc (r : RttEstimator)
    (h1 : r.smoothedRtt < 18446744073709551616) (h2 : r.latestRtt < 18446744073709551616) :
    lossTimeThreshold r = Quic.Rfc.Recovery.lossDelay8 r.latestRtt r.smoothedRtt / 8 := by
  simp only [lossTimeThreshold, u64, K_GRANULARITY, Quic.Rfc.Recovery.lossDelay8, Quic.Rfc.Recovery.kTimeThresholdNum,
    Quic.Rfc.Recovery.kTimeThresholdDen, Quic.Rfc.Recovery.kGranularity, Nat.mod_eq_of_lt h1, Nat.mod_eq_of_lt h2]
  rcases Nat.le_total r.smoothedRtt r.latestRtt with h | h
  · simp only [Nat.max_eq_right h, Nat.max_eq_left h]; omega
  · simp only [Nat.max_eq_left h, Nat.max_eq_right h]; omega

/-- `detect` against the RFC 9002 §6.1 / A.10 conditions: for a packet sent prior to the largest
    acknowledged one, the code declares it lost exactly when the RFC condition holds *with the
    clock read (granularity − 1 ns) ahead* (all times in ns) — the granularity term again -/
theorem detect_eq_rfc (thr sent pn la now : Nat) (h : pn < la) :
    Loss.detect thr sent Loss.K_PACKET_THRESHOLD pn la now = some Loss.Outcome.lost ↔
      Quic.Rfc.Recovery.lostCond thr (sent * 1000) pn la (now * 1000 + (Quic.Rfc.Recovery.kGranularity - 1)) = true := by
  rw [detect_spec, lostCond_iff]
  simp only [Loss.K_PACKET_THRESHOLD, Quic.Rfc.Recovery.kGranularity]
  have h1 : ¬ la ≤ pn := by omega
  simp only [h1, if_false]
  by_cases h2 : sent + thr / 1000 < now + 1000 ∨ la - pn ≥ 3
  · simp only [h2, if_true, true_iff]
    omega
  · simp only [h2, if_false]
    constructor
    · intro hh; cases hh
    · intro hh; exfalso; omega

/-- and when it is not lost yet, the timer `detect` asks for is the RFC's
    `loss_time = time_sent + loss_delay`, truncated to the µs clock -/
theorem detect_timer_eq_rfc (thr sent k pn la now t : Nat)
    (h : Loss.detect thr sent k pn la now = some (Loss.Outcome.notLostYet t)) :
    t * 1000 ≤ Quic.Rfc.Recovery.lossTime thr (sent * 1000) ∧
      Quic.Rfc.Recovery.lossTime thr (sent * 1000) < (t + 1) * 1000 := by
  rw [detect_spec] at h
  by_cases h1 : la ≤ pn
  · simp [h1] at h
  · simp only [h1, if_false] at h
    by_cases h2 : sent + thr / 1000 < now + 1000 ∨ la - pn ≥ k
    · simp [h2] at h
    · simp only [h2, if_false, Option.some.injEq, Loss.Outcome.notLostYet.injEq] at h
      subst h
      simp only [Quic.Rfc.Recovery.lossTime]
      omega

example : Loss.detect 9000000 1000 3 10 11 5000 = some (Loss.Outcome.notLostYet 10000) := by decide

/-- `detect` refuses (debug assertion) to judge a packet that was not sent before the largest
    acknowledged one: "only if a packet sent after it has been acknowledged" -/
theorem detect_requires_later_ack (thr sent k pn la now : Nat) (h : la ≤ pn) :
    Loss.detect thr sent k pn la now = none := by
  rw [detect_spec]; simp [h]

/-! ## RTT estimator -/

/-- "RTT estimates stay within the range of the samples observed": after any history of
    `update_rtt` / `on_persistent_congestion` / `on_max_ack_delay` calls on a fresh estimator, if
    at least one sample was taken since the last reset, `smoothed_rtt` lies between any bounds
    `lo ≤ hi` of those samples — provided `lo` is a multiple of 8 ns (see
    `rtt_in_sample_range_needs_mul8`; the clock is µs-granular, so real samples are multiples of
    1000 ns) and the samples fit `u64` nanoseconds.  A sample is `max(rtt_sample, MIN_RTT)`. -/
theorem rtt_in_sample_range (r0 : RttEstimator) (h0 : r0.firstRttSample = none) (ops : List RttOp)
    (hw : window ops ≠ []) (lo hi : Nat) (h8 : 8 ∣ lo) (hhi : hi < 18446744073709551616)
    (hb : ∀ s ∈ window ops, lo ≤ s ∧ s ≤ hi) :
    lo ≤ (run r0 ops).smoothedRtt ∧ (run r0 ops).smoothedRtt ≤ hi := by
  have hinv := inv_run r0 [] ops (inv_init r0 h0)
  have g := hinv.2 hw
  exact ⟨g.smoothed_ge lo hi h8 hhi hb, g.smoothed_le hi (fun s hs => (hb s hs).2)⟩

/-- the same with the minimum and maximum sample themselves as bounds, when every sample is a
    multiple of 8 ns: some sample is ≤ smoothed_rtt and some sample is ≥ it -/
theorem rtt_in_sample_range_minmax (r0 : RttEstimator) (h0 : r0.firstRttSample = none) (ops : List RttOp)
    (hw : window ops ≠ []) (h8 : ∀ s ∈ window ops, 8 ∣ s) (hdom : ∀ s ∈ window ops, s < 18446744073709551616) :
    (∃ a ∈ window ops, a ≤ (run r0 ops).smoothedRtt) ∧ (∃ b ∈ window ops, (run r0 ops).smoothedRtt ≤ b) := by
  have hinv := inv_run r0 [] ops (inv_init r0 h0)
  have g := hinv.2 hw
  -- the minimum is min_rtt, the maximum exists in any non-empty list
  obtain ⟨mx, hmx, hmax⟩ : ∃ m ∈ window ops, ∀ s ∈ window ops, s ≤ m := by
    generalize window ops = w at hw
    induction w with
    | nil => exact absurd rfl hw
    | cons x xs ih =>
      by_cases hxs : xs = []
      · subst hxs; exact ⟨x, by simp, by simp⟩
      · obtain ⟨m, hm, hle⟩ := ih hxs
        rcases Nat.le_total x m with h | h
        · exact ⟨m, List.mem_cons_of_mem _ hm, fun s hs => by
            rcases List.mem_cons.mp hs with rfl | hs
            · exact h
            · exact hle s hs⟩
        · exact ⟨x, by simp, fun s hs => by
            rcases List.mem_cons.mp hs with rfl | hs
            · exact Nat.le_refl _
            · exact Nat.le_trans (hle s hs) h⟩
  refine ⟨⟨(run r0 ops).minRtt, g.min_mem, ?_⟩, ⟨mx, hmx, g.smoothed_le mx hmax⟩⟩
  exact g.smoothed_ge _ mx (h8 _ g.min_mem) (hdom _ hmx) (fun s hs => ⟨g.min_le s hs, hmax s hs⟩)

/-- non-vacuity: two 1 ms / 2 ms samples -/
example : window [RttOp.update 0 1000000 5 true .applicationData, RttOp.update 0 2000000 9 true .applicationData]
    = [1000000, 2000000] := by decide

/-- Without the multiple-of-8 hypothesis the statement is false: `weighted_average` divides
    before it multiplies, so with samples 1015 ns, 1015 ns the estimate drops to 1008 ns, 7 ns
    below every sample.  (Replayed on the real code: `new 1000; update 0 1015 3 1 2; update 0 1015 4 1 2`.) -/
theorem rtt_in_sample_range_needs_mul8 :
    ∃ (r0 : RttEstimator) (ops : List RttOp), r0.firstRttSample = none ∧ window ops = [1015, 1015] ∧
      (run r0 ops).smoothedRtt = 1008 := by
  refine ⟨exRtt 1000 1000 500,
    [RttOp.update 0 1015 3 true .applicationData, RttOp.update 0 1015 4 true .applicationData], rfl, ?_, ?_⟩ <;> decide

/-- the undershoot is never more than 7 ns (any bounds, no divisibility hypothesis) -/
theorem weighted_average_undershoot (a b lo : Nat) (ha : lo ≤ a) (hb : lo ≤ b)
    (ha' : a < 18446744073709551616) (hb' : b < 18446744073709551616) : lo ≤ weightedAverage a b 8 + 7 := by
  simp only [weightedAverage, u64]
  omega

/-- one `weighted_average(·,·,8)` step against RFC 9002 A.7 `7/8·smoothed + 1/8·adjusted` (× 8):
    the code's value is the RFC's rounded down by less than 7 ns -/
theorem smoothed_step_eq_rfc (s adj : Nat) (hs : s < 18446744073709551616) (ha : adj < 18446744073709551616) :
    8 * weightedAverage s adj 8 ≤ Quic.Rfc.Recovery.smoothedNext8 s adj ∧
      Quic.Rfc.Recovery.smoothedNext8 s adj ≤ 8 * weightedAverage s adj 8 + 56 := by
  simp only [weightedAverage, u64, Quic.Rfc.Recovery.smoothedNext8]
  omega

/-- `min_rtt` is the minimum of the samples since the last reset (no hypotheses on the samples) -/
theorem min_rtt_is_min (r0 : RttEstimator) (h0 : r0.firstRttSample = none) (ops : List RttOp)
    (hw : window ops ≠ []) :
    (run r0 ops).minRtt ∈ window ops ∧ ∀ s ∈ window ops, (run r0 ops).minRtt ≤ s := by
  have g := (inv_run r0 [] ops (inv_init r0 h0)).2 hw
  exact ⟨g.min_mem, g.min_le⟩

/-- `latest_rtt` is the latest sample -/
theorem latest_rtt_is_sample (r0 : RttEstimator) (h0 : r0.firstRttSample = none) (ops : List RttOp)
    (hw : window ops ≠ []) : (run r0 ops).latestRtt ∈ window ops :=
  ((inv_run r0 [] ops (inv_init r0 h0)).2 hw).latest_mem

/-- `RttEstimator::new` produces a fresh estimator (hypothesis `h0` above is satisfiable) -/
example : ∃ r, Rtt.new 333000000 = some r ∧ r.firstRttSample = none := ⟨_, rfl, rfl⟩

/-! ## probe timeout -/

/-- "the probe timeout is never below the timer granularity" -/
theorem pto_ge_granularity (r : RttEstimator) (backoff : Nat) (sp : Space) :
    K_GRANULARITY ≤ ptoPeriod r backoff sp := by
  simp only [ptoPeriod, gran_us]
  simp only [K_GRANULARITY]
  omega

/-- "… and doubles with each consecutive expiry": the period for a doubled back-off is twice
    the period (back-off starts at 1 and is doubled by `Manager::on_timeout`) -/
theorem pto_backoff_doubles (r : RttEstimator) (backoff : Nat) (sp : Space) (hb : 1 ≤ backoff) :
    ptoPeriod r (2 * backoff) sp = 2 * ptoPeriod r backoff sp := by
  obtain ⟨base, hbase, hcalc⟩ := basePto_ge r sp
  simp only [ptoPeriod, hcalc, gran_us]
  have h1 : 1000 ≤ base * backoff := by
    calc 1000 = 1000 * 1 := rfl
      _ ≤ base * backoff := Nat.mul_le_mul hbase hb
  have h2 : base * (2 * backoff) = 2 * (base * backoff) := by
    rw [Nat.mul_left_comm]
  rw [h2]
  omega

example : ptoPeriod (exRtt 1000 1000 500) 2 .handshake = 2002000 := by decide

/-- §6.2.1 against the code for a µs-granular state: the period is the RFC's PTO (whole µs) -/
theorem pto_eq_rfc (r : RttEstimator) (count : Nat) (sp : Space)
    (hs : r.smoothedRtt % 1000 = 0) (hv : r.rttvar % 1000 = 0) (hm : r.maxAckDelay % 1000 = 0)
    (hd1 : r.smoothedRtt < 18446744073709551616) (hd2 : r.rttvar < 4611686018427387904)
    (hd3 : r.maxAckDelay < 18446744073709551616) :
    ptoPeriod r (2 ^ count) sp =
      Quic.Rfc.Recovery.pto r.smoothedRtt r.rttvar r.maxAckDelay sp.isApplicationData count := by
  obtain ⟨base, hbase, hcalc⟩ := basePto_ge r sp
  have h1 : 1000 ≤ base * 2 ^ count := by
    calc 1000 = 1000 * 1 := rfl
      _ ≤ base * 2 ^ count := Nat.mul_le_mul hbase (Nat.one_le_two_pow)
  have hbase' : base * 1000 = r.smoothedRtt + max (4 * r.rttvar) 1000000 +
      (if sp.isApplicationData = true then r.maxAckDelay else 0) := by
    rw [← basePto_exact r sp hs hv hm hd1 hd2 hd3, hcalc 1, Nat.mul_one]
  simp only [ptoPeriod, hcalc, gran_us, Quic.Rfc.Recovery.pto, Quic.Rfc.Recovery.kGranularity]
  rw [Nat.max_eq_left h1, ← hbase', Nat.mul_right_comm]

/-! ## Pto state machine -/

/-- an expiry is reported only for an armed timer within the granularity of its deadline; it
    disarms the timer and requests 2 probes when packets are in flight, otherwise 1 -/
theorem pto_on_timeout_ready (p : Pto.Pto) (infl : Bool) (now : Nat) (p' : Pto.Pto)
    (h : Pto.onTimeout p infl now = (p', true)) :
    (∃ t, p.timer = some t ∧ t < now + Time.K_GRANULARITY_US) ∧ p'.timer = none ∧
      Pto.transmissions p' = (if infl then 2 else 1) := by
  simp only [Pto.onTimeout] at h
  split at h
  · simp at h
  · rename_i he
    simp only [Prod.mk.injEq, and_true] at h
    subst h
    refine ⟨?_, rfl, ?_⟩
    · cases ht : p.timer with
      | none => simp [Time.timerExpired, ht] at he
      | some t =>
        simp only [Time.timerExpired, ht, Time.hasElapsed, Bool.not_eq_true', decide_eq_false_iff_not] at he
        exact ⟨t, rfl, by omega⟩
    · cases infl <;> rfl

/-- no expiry, no change -/
theorem pto_on_timeout_pending (p : Pto.Pto) (infl : Bool) (now : Nat) (p' : Pto.Pto)
    (h : Pto.onTimeout p infl now = (p', false)) : p' = p := by
  simp only [Pto.onTimeout] at h
  split at h
  · simp only [Prod.mk.injEq, and_true] at h; exact h.symm
  · simp at h

end Quic.Proofs.C09
