import QuicProofs.Lemmas.RecoveryManager
import QuicProofs.Props.C09Recovery
/-
  C09, part 2: the stateful `recovery::Manager` (model in `QuicModel/Recovery/Manager.lean`):
  every history of `send / burstComplete / ackFrame / timeout / discardSpace / retry / …`
  operations starting from `Manager::new`.

  `run m ops` returns the final state and the concatenated reports of the operations:
  `sent` (packet numbers accepted by `on_packet_sent`), `acked`, `lost`, `discarded`.
-/
namespace Quic.Proofs.C09
open Quic.Recovery Quic.Recovery.Manager Quic.Proofs.Lemmas.RecoveryManager

/-- "a probe-timeout expiry alone never marks packets lost": a `timeout` step taken through the
    PTO branch (no loss timer armed) reports no lost packet and leaves `sent` unchanged. -/
theorem pto_never_loses (m : Manager) (now : Nat) (h : m.lossTimer = none) :
    (step m (.timeout now)).1.sent = m.sent ∧ (step m (.timeout now)).2.1.lost = [] := by
  simp only [step]
  split
  · exact ⟨rfl, rfl⟩
  · exact onTimeout_pto_branch (tick m (.timeout now)) now h

/-- non-vacuity: an armed PTO that expires with one packet in flight — the packet stays tracked,
    two probes are requested and the back-off doubles -/
def exPtoState : Manager :=
  (run (init .handshake) [.send 0 1200 true true 10 0 false, .burstComplete 10]).1

example : exPtoState.lossTimer = none ∧ exPtoState.pto.timer = some 999010 := by decide
example : ((step exPtoState (.timeout 999010)).1.sent.map (·.pn), Pto.transmissions (step exPtoState (.timeout 999010)).1.pto,
    ((step exPtoState (.timeout 999010)).1.paths 0).ptoBackoff) = ([0], 2, 2) := by decide

/-- "… and doubles with each consecutive expiry": a PTO expiry sets the active path's back-off to
    `min(2·backoff, max_pto_backoff)` (and `pto_backoff_doubles` turns that into a doubled period) -/
theorem pto_expiry_doubles_backoff (m : Manager) (now : Nat)
    (hexp : (Pto.onTimeout m.pto (!m.sent.isEmpty) now).2 = true) :
    ((onPtoTimeout m now).1.paths m.activePath).ptoBackoff =
      min (2 * (m.paths m.activePath).ptoBackoff) m.maxPtoBackoff := by
  simp only [onPtoTimeout, hexp, if_true]
  obtain ⟨_, u2, _, _⟩ := updatePtoTimer_fields
    { m with pto := (Pto.onTimeout m.pto (!m.sent.isEmpty) now).1,
             paths := setPath m.paths m.activePath
               { m.paths m.activePath with ptoBackoff := min ((m.paths m.activePath).ptoBackoff * 2) m.maxPtoBackoff } } now
  rw [u2]
  simp only [setPath, if_true, Nat.mul_comm]

/-- `lost_sound` for the manager: over any history, whenever an operation reports a packet lost,
    that packet was tracked, a LATER packet number is the manager's largest acknowledged one, and
    either it is ≥ `K_PACKET_THRESHOLD` = 3 older, or it was sent so long ago that the time
    threshold `thr` elapses within less than the timer granularity (`lost_sound`; the strict
    reading is refuted by F2).  `thr` is the current `loss_time_threshold()` of the RTT estimator
    of the path the packet was sent on — 9/8 of `max(smoothed_rtt, latest_rtt)`, never less than
    1 ms (`loss_time_threshold_spec`, `loss_time_threshold_ge_granularity`). -/
theorem manager_lost_sound (m : Manager) (op : Op) (hm : HInv m) :
    ∀ pn ∈ (step m op).2.1.lost, ∃ p ∈ m.sent, p.pn = pn ∧ ∃ la now thr,
      op.now? = some now ∧ (step m op).1.largestAcked = some la ∧ la > pn ∧
      thr = Rtt.lossTimeThreshold ((step m op).1.paths p.pathId).rtt ∧ 1000000 ≤ thr ∧
      (la - pn ≥ 3 ∨ p.timeSent * 1000 + thr < now * 1000 + Time.K_GRANULARITY_NS) := by
  intro pn hpn
  obtain ⟨p, hp, hpn', la, now, hnow, hla, hdet⟩ := (step_ok m op hm.inv).lost pn hpn
  have := lost_sound _ _ _ _ _ _ hdet
  subst hpn'
  exact ⟨p, hp, rfl, la, now, _, hnow, hla, this.1, rfl, loss_time_threshold_ge_granularity _, this.2⟩

/-- `bytes_in_flight_exact`: after every operation of every history, for every path the
    congestion controller's bytes-in-flight counter equals the total size of the unresolved packets
    sent on that path, the checked counter never underflowed ("can neither go negative nor leak"),
    and only congestion-controlled packets contribute (`sent_bytes = 0` otherwise). -/
theorem bytes_in_flight_exact (sp : Rtt.Space) (ops : List Op) :
    (run (init sp) ops).1.underflow = false ∧
    (∀ path, ((run (init sp) ops).1.paths path).bytesInFlight = unresolvedBytes path (run (init sp) ops).1.sent) ∧
    (∀ p ∈ (run (init sp) ops).1.sent, p.congestionControlled = false → p.sentBytes = 0) := by
  have h := hinv_run ops (init sp) (hinv_init sp)
  exact ⟨h.inv.noUnderflow, h.inv.exact, h.ccBytes⟩

/-- the same as a step invariant (for any state satisfying it, not only reachable ones) -/
theorem bytes_in_flight_exact_step (m : Manager) (op : Op) (hm : HInv m) : HInv (step m op).1 := hinv_step m op hm

/-- `resolved_exactly_once`: over any history, every packet number accepted by `on_packet_sent`
    ends up in exactly one place exactly once — reported acknowledged, reported lost, reported
    discarded (with its keys / on Retry), or still tracked in `sent_packets`. -/
theorem resolved_exactly_once (sp : Rtt.Space) (ops : List Op) :
    ∀ pn ∈ (run (init sp) ops).2.sent,
      List.count pn (run (init sp) ops).2.acked + List.count pn (run (init sp) ops).2.lost +
        List.count pn (run (init sp) ops).2.discarded + List.count pn ((run (init sp) ops).1.sent.map (·.pn)) = 1 := by
  intro pn hpn
  have h1 := run_count ops (init sp) (hinv_init sp) pn
  have h2 := run_sent_count ops (init sp) (hinv_init sp) pn
  have h3 : 1 ≤ List.count pn (run (init sp) ops).2.sent := List.one_le_count_iff.mpr hpn
  have h4 : List.count pn ((init sp).sent.map (·.pn)) = 0 := by simp [init]
  omega

/-- … and nothing is reported that was not sent -/
theorem resolved_only_sent (sp : Rtt.Space) (ops : List Op) (pn : Nat)
    (h : pn ∉ (run (init sp) ops).2.sent) :
    pn ∉ (run (init sp) ops).2.acked ∧ pn ∉ (run (init sp) ops).2.lost ∧ pn ∉ (run (init sp) ops).2.discarded ∧
      pn ∉ (run (init sp) ops).1.sent.map (·.pn) := by
  have h1 := run_count ops (init sp) (hinv_init sp) pn
  have h3 : List.count pn (run (init sp) ops).2.sent = 0 := List.count_eq_zero.mpr h
  have h4 : List.count pn ((init sp).sent.map (·.pn)) = 0 := by simp [init]
  refine ⟨?_, ?_, ?_, ?_⟩ <;> (apply List.count_eq_zero.mp; omega)

/-- non-vacuity: packets 0..4 sent, an ACK for 3..4 arrives: 3,4 acknowledged, 0,1 lost by the
    packet threshold, 2 still tracked with the loss timer armed; the timer then declares 2 lost;
    bytes in flight go 6000 → 1200 → 0 -/
def exHistory : List Op :=
  [.send 0 1200 true true 1000 0 false, .send 1 1200 true true 1010 0 false, .send 2 1200 true true 1020 0 false,
   .send 3 1200 true true 1030 0 false, .send 4 1200 true true 1040 0 false, .burstComplete 1040,
   .ackFrame [(3, 4)] 0 51040 0]

example : (run (init .handshake) exHistory).2 = { sent := [0, 1, 2, 3, 4], acked := [3, 4], lost := [0, 1], discarded := [] } := by
  decide
example : ((run (init .handshake) exHistory).1.sent.map (·.pn), ((run (init .handshake) exHistory).1.paths 0).bytesInFlight,
    (run (init .handshake) exHistory).1.lossTimer) = ([2], 1200, some 57270) := by decide
example : (run (init .handshake) (exHistory ++ [.timeout 56271])).2.lost = [0, 1, 2] ∧
    ((run (init .handshake) (exHistory ++ [.timeout 56271])).1.paths 0).bytesInFlight = 0 := by decide
/-- discarding the space resolves what is left -/
example : (run (init .handshake) (exHistory ++ [.discardSpace 0])).2.discarded = [2] ∧
    ((run (init .handshake) (exHistory ++ [.discardSpace 0])).1.paths 0).bytesInFlight = 0 := by decide

end Quic.Proofs.C09
