import QuicModel.Conn.Wakers
import QuicModel.Conn.WakersResetFlush
/-
  C02 (stream write waiter, the `reset` + `flush` request of the transport-level request API): a writer that resets the stream
  and waits for the RESET_STREAM acknowledgement is parked only in `ResetSent`, stays parked exactly until the RESET_STREAM is
  acknowledged or the connection ends, and BOTH of those events report its wake-up — over every history of network events
  (acknowledgements of data / FIN, STOP_SENDING, MAX_STREAM_DATA, in any order and number).  After a connection close no
  acknowledgement can arrive any more, so the wake-up of `on_internal_reset` is the only thing that can release the task.

  `C02Timers.no_parked_without_wakeup` covers the requests of the public stream API (which offers no reset+flush).
  Tie G: `Bridge/TxWake.lean` (wake guards of `on_internal_reset` / `on_stop_sending` translated from /repo on every run).

  Observation (model, internal API only): reset+flush on a stream whose data sender has already `Finished` (FIN acknowledged)
  stores a waker although `init_reset` did nothing — `reset_flush_after_finish_parks_counterexample`; only a connection close
  releases it.  The public API cannot issue the request.
-/
namespace Quic.Proofs.Props.C02ResetFlush
open Quic.Conn.Wakers Quic.Conn.Wakers.WriteWaiter

/-- the state a writer is parked in by reset+flush -/
def ParkedOnReset (s : State) : Prop := s.st = .resetSent ∧ s.waiter = some true

/-- reset+flush on a stream that is still open (not finished) parks the writer in `ResetSent` -/
theorem reset_flush_parks_in_reset_sent (s : State) (hst : s.st = .sending) (hds : s.ds ≠ .finished) :
    ParkedOnReset (pollResetFlush s) := by
  obtain ⟨st, ds, enq, cap, waiter⟩ := s
  simp only at hst hds
  subst hst
  cases ds <;> cases waiter <;> simp_all [ParkedOnReset, pollResetFlush, initReset, storeWaker]

/-- one network event on a writer parked by reset+flush: a releasing event (reset acknowledged / connection ended) wakes it,
    every other event leaves it parked in `ResetSent` and reports no wake-up -/
theorem parked_on_reset_step (s : State) (op : NetOp) (h : ParkedOnReset s) :
    (op.releases = true → (netStep s op).2 = true ∧ (netStep s op).1.waiter = none) ∧
    (op.releases = false → (netStep s op).2 = false ∧ ParkedOnReset (netStep s op).1) := by
  obtain ⟨st, ds, enq, cap, waiter⟩ := s
  obtain ⟨h1, h2⟩ := h
  simp only at h1 h2
  subst h1 h2
  cases op with
  | ack n f r =>
    cases r <;> simp [NetOp.releases, netStep, onPacketAck, wake, ParkedOnReset]
  | stopSending => simp [NetOp.releases, netStep, onStopSending, initReset, ParkedOnReset]
  | internalReset => simp [NetOp.releases, netStep, onInternalReset, initReset, wake]
  | maxStreamData => simp [NetOp.releases, netStep, onMaxStreamData, ParkedOnReset]

/-- over every history of network events: the parked writer has been woken iff a releasing event occurred; until then it is
    still parked in `ResetSent` -/
theorem reset_flush_waiter_released_by_ack_or_close (s : State) (ops : List NetOp) (h : ParkedOnReset s) :
    ((∃ op ∈ ops, op.releases = true) → (netRun s ops).2 = true) ∧
    ((∀ op ∈ ops, op.releases = false) → (netRun s ops).2 = false ∧ ParkedOnReset (netRun s ops).1) := by
  induction ops generalizing s with
  | nil => exact ⟨(fun ⟨_, hm, _⟩ => by cases hm), fun _ => ⟨rfl, h⟩⟩
  | cons op ops ih =>
    have hs := parked_on_reset_step s op h
    constructor
    · rintro ⟨o, hm, ho⟩
      show ((netStep s op).2 || (netRun (netStep s op).1 ops).2) = true
      cases hr : op.releases with
      | true => simp [(hs.1 hr).1]
      | false =>
        have hp := (hs.2 hr).2
        rcases List.mem_cons.1 hm with rfl | hm'
        · rw [hr] at ho; cases ho
        · simp [((ih _ hp).1 ⟨o, hm', ho⟩)]
    · intro hall
      have hr := hall op List.mem_cons_self
      have hp := hs.2 hr
      have := (ih _ hp.2).2 (fun o ho => hall o (List.mem_cons_of_mem _ ho))
      show ((netStep s op).2 || (netRun (netStep s op).1 ops).2) = false ∧ ParkedOnReset (netRun (netStep s op).1 ops).1
      exact ⟨by simp [hp.1, this.1], this.2⟩

/-- non-vacuity: 100 bytes queued, reset+flush parks; a data acknowledgement and a MAX_STREAM_DATA leave the writer parked,
    the connection close wakes it -/
example :
    let s := pollResetFlush (pollRequest { cap := 1000 } (.send 100)).1
    s.st = .resetSent ∧ s.waiter = some true ∧
    (netRun s [.ack 10 false false, .maxStreamData, .stopSending]).2 = false ∧
    (netRun s [.ack 10 false false, .maxStreamData, .internalReset]).2 = true := by decide

/-- COUNTEREXAMPLE (model, internal request API): reset+flush after the stream has finished stores a waker that no stream
    event but the connection close releases -/
theorem reset_flush_after_finish_parks_counterexample :
    let s0 : State := { cap := 10, ds := .finished }
    (pollResetFlush s0).waiter = some true ∧ (pollResetFlush s0).st = .sending ∧ blocked (pollResetFlush s0) true = false := by
  decide

end Quic.Proofs.Props.C02ResetFlush
