import QuicProofs.Lemmas.FrameSeq
/-
  C05 (frames), second half: the layout is that of RFC 9000 §12.4/§19 (and RFC 9221 §4) -
  the implementation model agrees with the independently written RFC transcription
  `Rfc.Frame.parseFrame` on every input. `absRes` forgets the error class and maps the decoded value
  through the abstraction `Codec.Frame.toRfc` (drops `is_last_frame`, `None` reason = empty reason,
  the two s2n extension frames have no RFC counterpart).
-/
namespace Quic.Proofs.C05
open Quic Quic.Codec Quic.Codec.Frame Quic.Proofs.Frame

/-- The decoder and the RFC parser compute the same partial function: on every in-range byte
    string (shorter than 2^62 bytes) that does not begin with two PADDING bytes, `decodeFrame`
    accepts iff RFC 9000 §19 accepts, with the same value and the same remaining bytes. In
    particular every unknown first byte is rejected, and a frame type in a non-shortest encoding
    (first byte `0x40..=0xff`) is never taken for an RFC frame.
    (Full strength for PADDING runs: `impl_eq_rfc_padding` and `impl_eq_rfc_frames`.) -/
theorem impl_eq_rfc_frame (b : List Nat) (hb : BytesOk b) (hl : b.length < 2 ^ 62)
    (hp : ∀ t, b ≠ 0 :: 0 :: t) : absRes (decodeFrame b) = Rfc.Frame.parseFrame b :=
  codec_eq_rfc b hb hl hp

/-- non-vacuity: an ACK frame with ECN counts and a gap, followed by other bytes -/
example : absRes (decodeFrame [3, 10, 0, 1, 2, 1, 2, 7, 8, 9, 1]) =
    some (.ack 10 0 [(8, 10), (3, 5)] (some (7, 8, 9)), [1]) := by rfl
example : Rfc.Frame.parseFrame [3, 10, 0, 1, 2, 1, 2, 7, 8, 9, 1] =
    some (.ack 10 0 [(8, 10), (3, 5)] (some (7, 8, 9)), [1]) := by rfl

/-- PADDING: the RFC's frame is one byte; the implementation hands the whole run of zero bytes to
    the caller as one value whose `length` is the number of RFC PADDING frames it stands for -/
theorem impl_eq_rfc_padding (t : List Nat) (hb : BytesOk (0 :: t)) :
    decodeFrame (0 :: t) = .ok (.padding (zeroRun t + 1), t.drop (zeroRun t)) ∧
    Rfc.Frame.parseFrame (0 :: t) = some (.padding, t) ∧
    toRfcList (.padding (zeroRun t + 1)) = some (List.replicate (zeroRun t + 1) .padding) :=
  ⟨decodeFrame_zero t, parseFrame_padding t hb, rfl⟩

/-- A whole packet payload: the frame-sequence loop of the implementation and the RFC's "sequence
    of frames" yield the same frames (a PADDING run of length `n` = `n` PADDING frames), or both
    reject. No restriction on PADDING here. -/
theorem impl_eq_rfc_frames (b : List Nat) (hb : BytesOk b) (hl : b.length < 2 ^ 62) :
    (decodeFrames b).bind (fun x => absSeq x) = Rfc.Frame.parseFrames b := by
  have : decodeFrames b = some (decodeFramesWF b) := decodeFramesFuel_eq_wf b.length b (Nat.le_refl _)
  rw [this]
  simp only [Option.bind_some]
  exact frames_agree b.length b (Nat.le_refl _) hb hl

example : (decodeFrames [0, 0, 0, 1, 4, 1, 2, 3, 30]).bind (fun x => absSeq x) =
    some [.padding, .padding, .padding, .ping, .resetStream 1 2 3, .handshakeDone] := by rfl

/-- first byte `0x40..=0xff`: only the two documented s2n extension frames are ever produced -/
theorem extension_only_documented (h : Nat) (t r : List Nat) (f : Frame) (h1 : 64 ≤ h)
    (hd : decodeFrame (h :: t) = .ok (f, r)) :
    (∃ toks, f = .dcStatelessResetTokens toks) ∨ (∃ m, f = .mtuProbingComplete m) := by
  have : decodeFrame (h :: t) = handleExtension (h :: t) := by simp [decodeFrame, h1]
  rw [this] at hd
  unfold handleExtension at hd
  repeat' (res_split hd)
  · unfold decDcTokens at hd
    repeat' (res_split hd)
    simp at hd
    exact Or.inl ⟨_, hd.1.symm⟩
  · unfold decMtu at hd
    repeat' (res_split hd)
    simp at hd
    exact Or.inr ⟨_, hd.1.symm⟩

/-- every one-byte type value that RFC 9000 Table 3 / RFC 9221 do not define is rejected with
    `InvariantViolation("invalid frame")` -/
theorem unknown_tag_rejected (h : Nat) (t : List Nat) (hu : (31 ≤ h ∧ h ≤ 47) ∨ (50 ≤ h ∧ h ≤ 63)) :
    decodeFrame (h :: t) = .error .invalidFrame := by
  have hv := decVar_small h t (by omega)
  have h1 : h ≠ dcTag := by simp [dcTag]; omega
  have h2 : h ≠ mtuTag := by simp [mtuTag]; omega
  unfold decodeFrame
  simp only []
  repeat (rw [if_neg (by omega)])
  unfold handleExtension
  rw [hv]
  simp [h1, h2]

end Quic.Proofs.C05
