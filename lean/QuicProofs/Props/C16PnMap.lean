import QuicModel.Data.PnMap
import QuicProofs.Lemmas.PnMap
/-
  C16 (packet-number map): `packet::number::Map` (quic/s2n-quic-core/src/packet/number/map.rs, ring
  buffer `values/start/end/index` with resize) contains exactly what a plain association list would
  after the same operations.

  `PnMap` (QuicModel/Data/PnMap.lean) transcribes the Rust code; `RefMap` is a plain association
  list.  `Inv` is the ring-buffer invariant (Lemmas/PnMap.lean): empty marker ⇒ every slot vacant;
  otherwise `index` in bounds, `start ≤ end`, `end - start < capacity`, the slots of `start` and
  `end` occupied, every slot outside the logical range vacant.  `Sim s m` says `lookup m k = get s k`
  for every key.  `pre s op` is the precondition the code `debug_assert!`s and its callers satisfy
  (strictly increasing `insert`, `insert_or_update` not below `start`, ordered ranges); without it
  the code panics in debug builds — see `pnmap_insert_not_monotone_panics`.

  `upd prev v` is what the `update` closure of `insert_or_update` stores (arbitrary).
-/
namespace Quic.Proofs.C16
open Quic.Data Quic.Data.PnMap
open Quic.Proofs.Lemmas.PnMap

/-- The invariant holds initially and `Map::default()` represents the empty association list. -/
theorem pnmap_init : Inv init ∧ Sim init RefMap.init := ⟨inv_init, sim_init⟩

/-- Refinement, one step: from any state satisfying the invariant and representing `m`, an
    operation that meets the precondition does not panic, returns what the association list
    returns, and the new state satisfies the invariant and represents the new association list
    (`abs (step s op) = Spec.step (abs s) op`, with `abs s = fun k => get s k`). -/
theorem pnmap_refines_map_step (upd : Nat → Nat → Nat) {s : State} {m : RefMap.State}
    (hinv : Inv s) (hsim : Sim s m) (op : Op) (hpre : pre s op = true) :
    ∃ s', step upd s op = some (s', (RefMap.step upd m op).2) ∧ Inv s' ∧
      ∀ k, PnMap.get s' k = RefMap.lookup (RefMap.step upd m op).1 k := by
  obtain ⟨s', e1, e2, e3⟩ := step_refines upd hinv hsim op hpre
  exact ⟨s', e1, e2, fun k => (e3 k).symm⟩

/-- Refinement, whole histories from `Map::default()`: if every operation meets the precondition,
    nothing panics, all returned values (removed value, drained range) are those of the association
    list, and the final contents agree key by key. -/
theorem pnmap_refines_map (upd : Nat → Nat → Nat) (ops : List Op) (hpre : preAll upd init ops = true) :
    ∃ s', run upd init ops = some (s', (RefMap.run upd RefMap.init ops).2) ∧ Inv s' ∧
      ∀ k, PnMap.get s' k = RefMap.lookup (RefMap.run upd RefMap.init ops).1 k := by
  obtain ⟨s', e1, e2, e3⟩ := run_refines upd ops inv_init sim_init hpre
  exact ⟨s', e1, e2, fun k => (e3 k).symm⟩

/-- `iter()` yields exactly the bindings, each once, in strictly ascending key order. -/
theorem pnmap_iter_exact {s : State} (hinv : Inv s) :
    (∀ k v, (k, v) ∈ iter s ↔ PnMap.get s k = some v) ∧ (iter s).Pairwise (fun a b => a.1 < b.1) := by
  rw [iter_eq_sliceF hinv]
  cases hemp : isEmpty s with
  | true =>
    simp only [if_true, List.not_mem_nil, false_iff, List.Pairwise.nil, and_true]
    intro k v; rw [get_empty hemp]; simp
  | false =>
    simp only [Bool.false_eq_true, if_false]
    refine ⟨?_, sliceF_sorted _ _ _⟩
    intro k v
    rw [mem_sliceF]
    constructor
    · rintro ⟨_, _, h⟩; exact h
    · intro h
      have hb := (bounds_exact hinv hemp).2.2 k (by rw [h]; rfl)
      exact ⟨hb.1, by omega, h⟩

/-- `is_empty()` is true exactly when no key has a binding; otherwise `get_range()` is
    (smallest key, largest key). -/
theorem pnmap_bounds_exact {s : State} (hinv : Inv s) :
    (isEmpty s = true ↔ ∀ k, PnMap.get s k = none) ∧
    (isEmpty s = false →
      getRange s = some (s.start, s.endPn) ∧ (PnMap.get s s.start).isSome ∧ (PnMap.get s s.endPn).isSome ∧
      ∀ k, (PnMap.get s k).isSome → s.start ≤ k ∧ k ≤ s.endPn) := by
  refine ⟨empty_iff hinv, ?_⟩
  intro hne
  obtain ⟨b1, b2, b3⟩ := bounds_exact hinv hne
  refine ⟨?_, b1, b2, b3⟩
  have := (b3 s.start b1).2
  unfold getRange
  have h : ¬ s.start > s.endPn := by omega
  simp [h]

/-- `get` after `insert`: the inserted key reads back the value, every other key is untouched
    (in any state satisfying the invariant, under the monotone-insert precondition). -/
theorem pnmap_get_after_insert {s : State} (hinv : Inv s) (pn v : Nat) (hpre : pre s (.insert pn v) = true) :
    ∃ s', PnMap.insert s pn v = some s' ∧ Inv s' ∧ PnMap.get s' pn = some v ∧
      ∀ k, k ≠ pn → PnMap.get s' k = PnMap.get s k := by
  have hp : isEmpty s = true ∨ (pn > s.start ∧ pn > s.endPn) := by
    simp only [pre, Bool.or_eq_true, Bool.and_eq_true, decide_eq_true_eq] at hpre; exact hpre
  obtain ⟨s', e1, e2, e3⟩ := insert_spec hinv v hp
  refine ⟨s', e1, e2, by rw [e3]; simp, ?_⟩
  intro k hk
  rw [e3]; simp [hk]

/-- `remove_range(lo..=hi)` returns exactly the bindings with keys in `[lo, hi]`, ascending, each
    once; afterwards those keys are gone and every other key is untouched. -/
theorem pnmap_remove_range_exact {s : State} (hinv : Inv s) {lo hi : Nat} (hle : lo ≤ hi) :
    ∃ s' out, removeRange s lo hi = some (s', out) ∧ Inv s' ∧
      (∀ k v, (k, v) ∈ out ↔ lo ≤ k ∧ k ≤ hi ∧ PnMap.get s k = some v) ∧
      out.Pairwise (fun a b => a.1 < b.1) ∧
      ∀ k, PnMap.get s' k = if lo ≤ k ∧ k ≤ hi then none else PnMap.get s k := by
  obtain ⟨m, hm⟩ := exists_sim hinv
  obtain ⟨s', e1, e2, e3⟩ := removeRange_spec hinv hm hle
  refine ⟨s', _, e1, e2, ?_, ?_, e3⟩
  · intro k v
    rw [slice_eq_sliceF, mem_sliceF, hm]
    constructor
    · rintro ⟨a, b, c⟩; exact ⟨a, by omega, c⟩
    · rintro ⟨a, b, c⟩; exact ⟨a, by omega, c⟩
  · rw [slice_eq_sliceF]; exact sliceF_sorted _ _ _

/-- `iter_mut()`: assigning `f pn v` through every yielded reference changes exactly the bindings
    (`get k` becomes `f k v`), nothing else, and keeps the invariant. -/
theorem pnmap_iter_mut_exact {s : State} (hinv : Inv s) (f : Nat → Nat → Nat) :
    Inv (iterMut s f) ∧ ∀ k, PnMap.get (iterMut s f) k = (PnMap.get s k).map (f k) :=
  iterMut_spec hinv f

/-- What the callers guarantee ("packet numbers are monotonically generated and inserted"), stated
    on the reference map, implies the precondition the code asserts on its own fields. -/
theorem pnmap_caller_precondition {s : State} {m : RefMap.State} (hinv : Inv s) (hsim : Sim s m)
    (pn v : Nat) (habove : ∀ k x, RefMap.lookup m k = some x → k < pn) :
    pre s (.insert pn v) = true :=
  pre_insert_of_ref hinv hsim v habove

/-! ### non-vacuity, and what happens without the precondition -/

/-- the precondition is satisfiable: a sliding history with a gap, a wrap of the ring (index 7 → 0
    at capacity 8), a resize (distance 8), updates, removals at both ends and a range -/
example : preAll (fun p v => p * 31 + v) init
    [.insert 3 30, .insert 4 40, .insert 6 60, .insertOrUpdate 5 50, .insertOrUpdate 5 1,
     .remove 3, .insert 10 100, .insert 11 110, .remove 4, .insert 13 130, .removeRange 6 10,
     .insert 40 400, .remove 40, .removeRange 0 100, .insert 2 20, .clear] = true := by decide

example : (run (fun p v => p * 31 + v) init
    [.insert 3 30, .insert 4 40, .insert 6 60, .insertOrUpdate 5 50, .insertOrUpdate 5 1,
     .remove 3, .insert 10 100, .insert 11 110, .remove 4, .insert 13 130, .removeRange 6 10]).map
      (fun r => (iter r.1, r.2.getLast?))
    = some ([(5, 1551), (11, 110), (13, 130)], some (.entries [(6, 60), (10, 100)])) := by decide

/-- hypotheses of `pnmap_get_after_insert` / `pnmap_remove_range_exact` / `pnmap_iter_exact` are
    satisfiable (and every state reached by a valid history satisfies `Inv`, by `pnmap_refines_map`) -/
example : Inv init ∧ pre init (.insert 5 1) = true ∧ pre init (.removeRange 2 9) = true :=
  ⟨inv_init, by decide, by decide⟩

/-- Without the precondition the code panics (debug assertion): inserting a packet number that is
    not above the current end. This is why the refinement carries `pre`. -/
theorem pnmap_insert_not_monotone_panics :
    run (fun p v => p * 31 + v) init [.insert 1 1, .insert 2 2, .insert 2 3] = none ∧
    run (fun p v => p * 31 + v) init [.insert 3 1, .insertOrUpdate 2 2] = none := by decide

end Quic.Proofs.C16
