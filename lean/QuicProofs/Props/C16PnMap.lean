import QuicModel.Data.PnMap
namespace Quic.Proofs.C16
open Quic.Data.PnMap

theorem pnmap_init_empty : isEmpty init = true := by decide

end Quic.Proofs.C16
