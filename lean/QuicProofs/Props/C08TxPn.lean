import QuicModel.Conn.TxPn
import QuicProofs.Lemmas.TxPn
/-
  C08 (first half): "Packet numbers on the wire strictly increase within a space" — over every
  history of transmissions (with any pattern of PTO-probe skips, optimistic-ACK skips and packets
  that could not be encoded) and ACK processing of `Conn.TxPn`, the transcription of
  `TxPacketNumbers` and of the packet-number choice in the packet spaces' `on_transmit`.
-/
namespace Quic.Proofs.C08
open Quic Quic.Codec Quic.Conn.TxPn Quic.Proofs.TxPn

/-- state invariant: the largest acknowledged number and the skipped number were both issued
    before `next` -/
structure TxInv (s : State) : Prop where
  acked_le : s.largestSentAcked ≤ s.next
  skip_lt : ∀ sk, s.skip = some sk → sk < s.next

theorem txinv_init (now : Nat) : TxInv (init now) :=
  ⟨Nat.le_refl _, fun _ h => by cases h⟩

/-- facts about one step, in the form the inductions below need -/
theorem step_facts (s : State) (op : Op) (hi : TxInv s) :
    let r := step s op
    TxInv r.1 ∧ s.next ≤ r.1.next ∧ s.largestSentAcked ≤ r.1.largestSentAcked ∧
    (∀ pn, r.2 = .sent pn → s.next ≤ pn ∧ r.1.next = pn + 1 ∧ pn < PacketNumber.maxPn ∧
        s.largestSentAcked ≤ pn ∧
        (r.1.skip = s.skip ∨ ∃ sk, r.1.skip = some sk ∧ s.next ≤ sk ∧ sk < pn)) ∧
    ((∀ pn, r.2 ≠ .sent pn) → r.1.next = s.next ∧ (r.1.skip = s.skip ∨ r.1.skip = none)) := by
  cases op with
  | transmit p c e =>
    simp only [step]
    cases ht : transmit s p c e with
    | error err =>
      dsimp only
      exact ⟨hi, Nat.le_refl _, Nat.le_refl _, fun pn h => (by cases h), fun _ => ⟨rfl, Or.inl rfl⟩⟩
    | ok r =>
      obtain ⟨s', o⟩ := r
      cases o with
      | none =>
        have := transmit_not_sent ht
        subst this
        dsimp only
        exact ⟨hi, Nat.le_refl _, Nat.le_refl _, fun pn h => (by cases h), fun _ => ⟨rfl, Or.inl rfl⟩⟩
      | some pn =>
        obtain ⟨a1, _, a3, a4, a5, a6⟩ := transmit_sent ht
        dsimp only
        have hinv : TxInv s' := by
          constructor
          · have := hi.acked_le; omega
          · intro sk hsk
            rcases a6 with h | ⟨sk', h1, _, _, h4⟩
            · rw [h] at hsk; have := hi.skip_lt sk hsk; omega
            · rw [h1] at hsk; cases hsk; omega
        refine ⟨hinv, by omega, by omega, ?_, ?_⟩
        · intro pn' h
          simp only [Out.sent.injEq] at h
          subst h
          refine ⟨a1, a3, a4, by have := hi.acked_le; omega, ?_⟩
          rcases a6 with h | ⟨sk', h1, _, h3, h4⟩
          · left; exact h
          · right; exact ⟨sk', h1, h3, h4⟩
        · intro h; exact absurd rfl (h pn)
  | ack ts set low =>
    simp only [step]
    cases ha : onPacketAck s ts set low with
    | error err =>
      dsimp only
      exact ⟨hi, Nat.le_refl _, Nat.le_refl _, fun pn h => (by cases h), fun _ => ⟨rfl, Or.inl rfl⟩⟩
    | ok s' =>
      obtain ⟨b1, b2, b3, b4, _⟩ := ack_spec ha
      dsimp only
      have hinv : TxInv s' := by
        constructor
        · have := hi.acked_le; omega
        · intro sk hsk
          rcases b4 with h | h
          · rw [h] at hsk; have := hi.skip_lt sk hsk; omega
          · rw [h] at hsk; cases hsk
      exact ⟨hinv, by omega, by omega, fun pn h => (by cases h), fun _ => ⟨b1, b4⟩⟩

/-- the invariant holds after every history -/
theorem txinv_run (s : State) (ops : List Op) (hi : TxInv s) : TxInv (run s ops).1 := by
  induction ops generalizing s with
  | nil => exact hi
  | cons op ops ih =>
    simp only [run]
    exact ih _ (step_facts s op hi).1

/-- everything a history puts on the wire lies between the `next` it started with and the `next`
    it ends with, in strictly increasing order -/
theorem run_wire (s : State) (ops : List Op) (hi : TxInv s) :
    s.next ≤ (run s ops).1.next ∧
      (∀ pn ∈ wire (run s ops).2, s.next ≤ pn ∧ pn < (run s ops).1.next ∧ pn < PacketNumber.maxPn) ∧
      (wire (run s ops).2).Pairwise (· < ·) := by
  induction ops generalizing s with
  | nil => exact ⟨Nat.le_refl _, fun pn h => by simp [run, wire] at h, by simp [run, wire]⟩
  | cons op ops ih =>
    obtain ⟨hinv, hle, _, hsent, hnot⟩ := step_facts s op hi
    obtain ⟨i1, i2, i3⟩ := ih (step s op).1 hinv
    simp only [run]
    cases ho : (step s op).2 with
    | sent pn =>
      obtain ⟨c1, c2, c3, _, _⟩ := hsent pn ho
      simp only [wire]
      refine ⟨by omega, ?_, ?_⟩
      · intro q hq
        simp only [List.mem_cons] at hq
        rcases hq with h | h
        · subst h; exact ⟨c1, by omega, c3⟩
        · obtain ⟨d1, d2, d3⟩ := i2 q h; exact ⟨by omega, d2, d3⟩
      · rw [List.pairwise_cons]
        refine ⟨?_, i3⟩
        intro q hq
        obtain ⟨d1, _, _⟩ := i2 q hq
        omega
    | notSent =>
      simp only [wire]
      exact ⟨by omega, fun q hq => by obtain ⟨d1, d2, d3⟩ := i2 q hq; exact ⟨by omega, d2, d3⟩, i3⟩
    | acked =>
      simp only [wire]
      exact ⟨by omega, fun q hq => by obtain ⟨d1, d2, d3⟩ := i2 q hq; exact ⟨by omega, d2, d3⟩, i3⟩
    | err e =>
      simp only [wire]
      exact ⟨by omega, fun q hq => by obtain ⟨d1, d2, d3⟩ := i2 q hq; exact ⟨by omega, d2, d3⟩, i3⟩

/-- C08: over ALL operation sequences, every transmitted packet number is greater than all
    earlier ones in the space -/
theorem txpn_strictly_increasing (now : Nat) (ops : List Op) :
    (wire (run (init now) ops).2).Pairwise (· < ·) :=
  (run_wire (init now) ops (txinv_init now)).2.2

/-- hence no packet number is ever reused (RFC 9000 §12.3), and all stay below 2^62 - 1 -/
theorem txpn_no_reuse (now : Nat) (ops : List Op) : (wire (run (init now) ops).2).Nodup := by
  have h := txpn_strictly_increasing now ops
  exact h.imp (fun hlt => Nat.ne_of_lt hlt)

theorem txpn_in_range (now : Nat) (ops : List Op) :
    ∀ pn ∈ wire (run (init now) ops).2, pn < PacketNumber.maxPn :=
  fun pn h => ((run_wire (init now) ops (txinv_init now)).2.1 pn h).2.2

/-- the reference the sender truncates against never exceeds the number being sent: `truncate`
    is never called with `pn < largest_acked` (its first `None` case), after any history -/
theorem txpn_largest_acked_le_sent (now : Nat) (ops : List Op) (p c e : Bool) (s' : State) (pn : Nat)
    (h : transmit (run (init now) ops).1 p c e = .ok (s', some pn)) :
    (run (init now) ops).1.largestSentAcked ≤ pn := by
  have hi := txinv_run (init now) ops (txinv_init now)
  have := (transmit_sent h).1
  have := hi.acked_le
  omega

/-- an ACK that names a packet number at or above `next` (never sent), or the deliberately
    skipped number, is rejected and changes nothing -/
theorem txpn_ack_unsent_rejected (s : State) (ts low : Nat) (a : AckSet)
    (h : s.next ≤ a.largest ∨ ∃ sk, s.skip = some sk ∧ a.contains sk = true) :
    onPacketAck s ts a low = .error .protocolViolation := by
  unfold onPacketAck
  simp only
  by_cases hl : a.largest ≥ s.next
  · rw [if_pos hl]
  · rw [if_neg hl]
    rcases h with h | ⟨sk, h1, h2⟩
    · omega
    · rw [h1]; simp only [h2, if_true]

/-- the skipped number is never put on the wire: whatever `skip_packet_number` holds after a
    history is not among the transmitted numbers (so an ACK for it proves the peer lies) -/
theorem run_skip_not_sent (s : State) (ops : List Op) (hi : TxInv s) :
    ∀ sk, (run s ops).1.skip = some sk →
      (s.skip = some sk ∨ s.next ≤ sk) ∧ sk ∉ wire (run s ops).2 := by
  induction ops generalizing s with
  | nil => intro sk h; exact ⟨Or.inl h, by simp [run, wire]⟩
  | cons op ops ih =>
    intro sk h
    obtain ⟨hinv, hle, _, hsent, hnot⟩ := step_facts s op hi
    simp only [run] at h ⊢
    obtain ⟨j1, j2⟩ := ih (step s op).1 hinv sk h
    cases ho : (step s op).2 with
    | sent pn =>
      obtain ⟨c1, c2, _, _, c5⟩ := hsent pn ho
      simp only [wire, List.mem_cons, not_or]
      rcases j1 with j | j
      · rcases c5 with c | ⟨sk', c, d1, d2⟩
        · rw [c] at j
          have := hi.skip_lt sk j
          exact ⟨Or.inl j, by omega, j2⟩
        · rw [c] at j; cases j
          exact ⟨Or.inr d1, by omega, j2⟩
      · exact ⟨Or.inr (by omega), by omega, j2⟩
    | notSent =>
      have hn := hnot (fun pn hp => by rw [ho] at hp; cases hp)
      simp only [wire]
      refine ⟨?_, j2⟩
      rcases j1 with j | j
      · rcases hn.2 with c | c
        · rw [c] at j; exact Or.inl j
        · rw [c] at j; cases j
      · right; omega
    | acked =>
      have hn := hnot (fun pn hp => by rw [ho] at hp; cases hp)
      simp only [wire]
      refine ⟨?_, j2⟩
      rcases j1 with j | j
      · rcases hn.2 with c | c
        · rw [c] at j; exact Or.inl j
        · rw [c] at j; cases j
      · right; omega
    | err e =>
      have hn := hnot (fun pn hp => by rw [ho] at hp; cases hp)
      simp only [wire]
      refine ⟨?_, j2⟩
      rcases j1 with j | j
      · rcases hn.2 with c | c
        · rw [c] at j; exact Or.inl j
        · rw [c] at j; cases j
      · right; omega

theorem txpn_skip_never_sent (now : Nat) (ops : List Op) (sk : Nat)
    (h : (run (init now) ops).1.skip = some sk) : sk ∉ wire (run (init now) ops).2 :=
  (run_skip_not_sent (init now) ops (txinv_init now) sk h).2

-- non-vacuity: a history with a PTO-probe skip, an optimistic-ack skip, a failed encoding and ACKs
example :
    wire (run (init 0) [.transmit false false true, .transmit true false true, .ack 5 [(0, 0)] 2,
      .transmit false true true, .transmit false false false, .transmit false false true,
      .ack 9 [(2, 4)] 2, .ack 10 [(2, 2)] 5]).2 = [0, 2, 4, 5] := by decide
example :
    (run (init 0) [.transmit false false true, .transmit true false true, .ack 5 [(0, 0)] 2,
      .transmit false true true, .transmit false false false, .transmit false false true,
      .ack 9 [(2, 4)] 2, .ack 10 [(2, 2)] 5]).2.getLast? = some .acked ∧
    (run (init 0) [.transmit false false true, .transmit true false true, .ack 5 [(0, 0)] 2,
      .transmit false true true, .transmit false false false, .transmit false false true,
      .ack 9 [(2, 4)] 2]).2.getLast? = some (.err .protocolViolation) := by decide

end Quic.Proofs.C08
