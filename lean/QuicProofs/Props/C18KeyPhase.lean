import QuicModel.Dc.KeyPhase
import QuicProofs.Lemmas.DcKeyPhase
/-
  C18 (key-phase wrapper half) — "A packet is acted upon only if its authentication tag verifies under
  the path secret it names: changing any header, payload or tag byte gets it rejected and leaves stream
  data, KEY STATE and the path-secret map untouched."

  Object: `path::secret::{open,seal}::Application` / `::Once` of dc/s2n-quic-dc/src/path/secret/key.rs and
  the `update()` call sites of the stream code (`stream::crypto::Crypto::{open_with, seal_with}`), model
  `QuicModel.Dc.KeyPhase`. LEVEL: proof with the AEAD ASSUMED IDEAL (`aeadOpens`: a key opens exactly the
  unaltered packets sealed with that very key; C18/C15 use the same assumption).

  (a) `keyphase_unauthentic_no_state_change*`  a packet that fails the AEAD leaves the ENTIRE opener
      (both slots, next-key pointer, expected phase, needs_update, dedup cell) as it was, on both paths;
  (b) `keyphase_needs_update_only_authenticated` the flag rises only through an authenticated packet of
      the other phase;
  (c) `keyphase_forged_traffic_is_invisible`, `keyphase_genuine_always_open`, `keyphase_inorder_stream_never_desyncs`
      for every history handled by `open_with`: forged packets change neither the final state nor any
      genuine packet's result; every genuine packet of the opener's current or next generation opens; the
      in-order output of a reliable stream's sealer (any batches, any update points the real code takes)
      always opens, whatever forged traffic is interleaved;
  and `keyphase_flag_before_authentication_counterexample`: with the flag raised before authentication one
  forged packet makes the following genuine packet fail.
-/
namespace Quic.Proofs.C18
open Quic.Dc.KeyPhase Quic.Proofs.DcKeyPhase

/-! ### (a) unauthenticated packets do not touch the opener -/

/-- `decrypt` (copying path): AEAD failure ⇒ `InvalidTag` and the whole opener is unchanged -/
theorem keyphase_unauthentic_no_state_change_copy (o : Opener) (w : Wire) (mapAnswer : Option OpenError)
    (h : aeadOpens o.chain (o.slot w.phase) w = false) :
    o.decrypt w mapAnswer = (o, .error .invalidTag) :=
  decrypt_unauth o w mapAnswer h

/-- `decrypt_in_place`: the same -/
theorem keyphase_unauthentic_no_state_change_in_place (o : Opener) (w : Wire) (mapAnswer : Option OpenError)
    (h : aeadOpens o.chain (o.slot w.phase) w = false) :
    o.decryptInPlace w mapAnswer = (o, .error .invalidTag) := by
  rw [decryptInPlace_eq_decrypt]; exact decrypt_unauth o w mapAnswer h

/-- changing any header / ciphertext / tag / packet-number byte (`altered`), or bytes no sealer produced,
    is an AEAD failure whatever the slots hold -/
theorem keyphase_altered_never_authentic (chain gen : Nat) (w : Wire) (h : w.altered = true ∨ w.origin = none) :
    aeadOpens chain gen w = false := by
  unfold aeadOpens
  rcases h with h | h
  · cases w.origin <;> simp [h]
  · simp [h]

/-- the map (replay window) is consulted, and the dedup cell filled, only by an authenticated packet -/
theorem keyphase_dedup_touched_only_authenticated (ip : Bool) (o : Opener) (w : Wire) (mapAnswer : Option OpenError)
    (h : (o.open ip w mapAnswer).1.dedup ≠ o.dedup) : aeadOpens o.chain (o.slot w.phase) w = true := by
  cases ha : aeadOpens o.chain (o.slot w.phase) w
  · rw [open_eq_decrypt, decrypt_unauth o w mapAnswer ha] at h; exact absurd rfl h
  · rfl

example : aeadOpens 0 1 ⟨true, some ⟨0, 1, 7, [1], [2]⟩, false⟩ = true := by decide
example : aeadOpens 0 1 ⟨true, some ⟨0, 1, 7, [1], [2]⟩, true⟩ = false := by decide
example : ((Opener.new 0 Dedup.new).open true ⟨false, some ⟨0, 0, 7, [1], [2]⟩, false⟩ none).1.dedup ≠ (Opener.new 0 Dedup.new).dedup := by decide

/-! ### (b) needs_update -/

/-- `needs_update` becomes true only through a packet that passed the AEAD and the dedup check (the call
    returns Ok) and carries the other key phase -/
theorem keyphase_needs_update_only_authenticated (ip : Bool) (o : Opener) (w : Wire) (mapAnswer : Option OpenError)
    (h : (o.open ip w mapAnswer).1.needsUpdate = true) :
    o.needsUpdate = true ∨
      (aeadOpens o.chain (o.slot w.phase) w = true ∧ w.phase ≠ o.keyPhase ∧ isOk (o.open ip w mapAnswer).2 = true) := by
  rw [open_eq_decrypt] at h ⊢
  cases ha : aeadOpens o.chain (o.slot w.phase) w
  · rw [decrypt_unauth o w mapAnswer ha] at h; exact Or.inl h
  · rw [decrypt_auth o w mapAnswer ha] at h ⊢
    cases hc : (o.dedup.check mapAnswer).2 with
    | some e => rw [hc] at h; exact Or.inl h
    | none =>
      rw [hc] at h
      simp only [Opener.notePhase] at h
      by_cases hp : (w.phase != o.keyPhase) = true
      · right; exact ⟨rfl, by simpa using hp, rfl⟩
      · left; simpa [hp] using h

/-- and it falls only in `update()` (never inside a decrypt call) -/
theorem keyphase_needs_update_sticky (ip : Bool) (o : Opener) (w : Wire) (mapAnswer : Option OpenError)
    (h : o.needsUpdate = true) : (o.open ip w mapAnswer).1.needsUpdate = true := by
  rw [open_eq_decrypt]
  cases ha : aeadOpens o.chain (o.slot w.phase) w
  · rw [decrypt_unauth o w mapAnswer ha]; exact h
  · rw [decrypt_auth o w mapAnswer ha]
    cases (o.dedup.check mapAnswer).2 with
    | some e => exact h
    | none => simp only [Opener.notePhase]; split <;> simp [h]

example : ((Opener.new 0 Dedup.disabled).open false ⟨true, some ⟨0, 1, 7, [1], [2]⟩, false⟩ none).1.needsUpdate = true := by decide

/-! ### (c) histories handled by the stream code -/

/-- forged arrivals are invisible: under the invariant the final opener of a history equals the final
    opener of the history with every non-genuine packet removed -/
theorem keyphase_forged_traffic_is_invisible (o : Opener) (G : Nat) (inv : Inv o G) (h : List Arrival) :
    runState o h = runState o (h.filter (fun a => Genuine o.chain a.wire)) := by
  induction h generalizing o G with
  | nil => rfl
  | cons a t ih =>
    cases hg : Genuine o.chain a.wire
    · rw [List.filter_cons_of_neg (by simp [hg])]
      simp only [runState, openWith_forged a.inPlace o G inv a.wire a.mapAnswer hg]
      exact ih o G inv
    · rw [List.filter_cons_of_pos (by simp [hg])]
      simp only [runState]
      obtain ⟨G', inv'⟩ := openWith_inv a.inPlace o G inv a.wire a.mapAnswer
      have := ih _ G' inv'
      rw [openWith_chain] at this
      exact this

/-- every forged arrival is answered `InvalidTag`, every genuine arrival gets exactly the answer it gets
    in the history without the forged ones -/
theorem keyphase_forged_traffic_results (o : Opener) (G : Nat) (inv : Inv o G) (h : List Arrival) :
    (∀ p ∈ h.zip (runOut o h), Genuine o.chain p.1.wire = false → p.2 = .error .invalidTag) ∧
    ((h.zip (runOut o h)).filter (fun p => Genuine o.chain p.1.wire)).map (·.2)
      = runOut o (h.filter (fun a => Genuine o.chain a.wire)) := by
  induction h generalizing o G with
  | nil => exact ⟨fun _ hp => (by cases hp), rfl⟩
  | cons a t ih =>
    cases hg : Genuine o.chain a.wire
    · have e := openWith_forged a.inPlace o G inv a.wire a.mapAnswer hg
      obtain ⟨i1, i2⟩ := ih o G inv
      simp only [runOut, e, List.zip_cons_cons]
      refine ⟨?_, ?_⟩
      · intro p hp hpg
        rcases List.mem_cons.mp hp with rfl | hp
        · rfl
        · exact i1 p hp hpg
      · rw [List.filter_cons_of_neg (by simp [hg]), List.filter_cons_of_neg (by simp [hg])]
        exact i2
    · obtain ⟨G', inv'⟩ := openWith_inv a.inPlace o G inv a.wire a.mapAnswer
      obtain ⟨i1, i2⟩ := ih _ G' inv'
      rw [openWith_chain] at i1 i2
      simp only [runOut, List.zip_cons_cons]
      refine ⟨?_, ?_⟩
      · intro p hp hpg
        rcases List.mem_cons.mp hp with rfl | hp
        · rw [hg] at hpg; cases hpg
        · exact i1 p hp hpg
      · rw [List.filter_cons_of_pos (by simp [hg]), List.filter_cons_of_pos (by simp [hg])]
        simp only [List.map_cons, runOut, i2]

/-- every genuine packet of the current or the next generation opens — whatever forged packets (altered
    bytes, flipped phase bits, foreign keys) arrive in between, on either decrypt path -/
theorem keyphase_genuine_always_open (o : Opener) (G : Nat) (inv : Inv o G) (h : List Arrival)
    (hd : DedupFine o.dedup h) (hw : InWindow o.chain G h) :
    ∀ p ∈ h.zip (runOut o h), Genuine o.chain p.1.wire = true → p.2 = .ok () := by
  induction h generalizing o G with
  | nil => intro p hp; cases hp
  | cons a t ih =>
    cases hg : Genuine o.chain a.wire
    · have e := openWith_forged a.inPlace o G inv a.wire a.mapAnswer hg
      have hd' : DedupFine o.dedup t := by
        rcases hd with hd | ⟨h1, h2, h3⟩
        · exact Or.inl hd
        · exact Or.inr ⟨h1, h2, fun x hx => h3 x (List.mem_cons_of_mem _ hx)⟩
      have hw' : InWindow o.chain G t := by
        unfold InWindow at hw ⊢
        rwa [List.filter_cons_of_neg (by simp [hg])] at hw
      intro p hp hpg
      simp only [runOut, e, List.zip_cons_cons] at hp
      rcases List.mem_cons.mp hp with rfl | hp
      · rw [hg] at hpg; cases hpg
      · exact ih o G inv hd' hw' p hp hpg
    · unfold InWindow at hw
      rw [List.filter_cons_of_pos (by simp [hg]), List.map_cons] at hw
      obtain ⟨hgen, hrest⟩ := hw
      have hda : DedupOk o.dedup a.mapAnswer := by
        rcases hd with hd | ⟨h1, h2, h3⟩
        · exact Or.inl hd
        · exact Or.inr ⟨h1, h2, h3 a (List.mem_cons_self ..)⟩
      obtain ⟨r1, r2, r3⟩ := openWith_genuine a.inPlace o G inv a.wire a.mapAnswer hg hgen hda
      have ih' := ih (openWith a.inPlace o a.wire a.mapAnswer).1 a.wire.gen r2 (Or.inl r3)
        (by unfold InWindow; rw [openWith_chain]; exact hrest)
      rw [openWith_chain] at ih'
      intro p hp hpg
      simp only [runOut, List.zip_cons_cons] at hp
      rcases List.mem_cons.mp hp with rfl | hp
      · exact r1
      · exact ih' p hp hpg

/-- End to end: a reliable stream's sealer (any `transmit` batches; it updates exactly where
    `Crypto::seal_with` does, record budget `maxRec ≥ 1`) and the peer's freshly derived opener. Deliver the
    sealer's packets in order, interleaved with ANY forged arrivals: every genuine packet opens. Forged
    traffic cannot desynchronise the key phases. -/
theorem keyphase_inorder_stream_never_desyncs (chain maxRec : Nat) (hm : 1 ≤ maxRec)
    (batches : List (List (Nat × List Nat × List Nat))) (dedup : Dedup) (h : List Arrival)
    (hdel : (h.filter (fun a => Genuine chain a.wire)).map (·.wire) = sealRun maxRec (Sealer.new chain) batches)
    (hd : DedupFine dedup h) :
    ∀ p ∈ h.zip (runOut (Opener.new chain dedup) h), Genuine chain p.1.wire = true → p.2 = .ok () := by
  have hs := sealRun_steps maxRec hm (Sealer.new chain) (sinv_new chain) (by show 0 < maxRec; omega) batches
  have hw : InWindow chain 0 h := by
    unfold InWindow
    have : (h.filter (fun a => Genuine chain a.wire)).map (·.wire.gen)
        = ((h.filter (fun a => Genuine chain a.wire)).map (·.wire)).map Wire.gen := by
      rw [List.map_map]; rfl
    rw [this, hdel]
    exact hs.2.1
  exact keyphase_genuine_always_open (Opener.new chain dedup) 0 (inv_new chain dedup) h hd hw

/-- the sealer puts the generation's parity into the phase bit, and what it emits is genuine for its chain -/
theorem keyphase_sealer_output_genuine (chain maxRec : Nat) (hm : 1 ≤ maxRec)
    (batches : List (List (Nat × List Nat × List Nat))) :
    ∀ w ∈ sealRun maxRec (Sealer.new chain) batches, Genuine chain w = true :=
  (sealRun_steps maxRec hm (Sealer.new chain) (sinv_new chain) (by show 0 < maxRec; omega) batches).2.2

/-- a genuine packet of a generation the opener does not hold (older than current, or more than one
    ahead) is rejected without any state change -/
theorem keyphase_stale_generation_rejected (ip : Bool) (o : Opener) (G : Nat) (inv : Inv o G) (w : Wire)
    (mapAnswer : Option OpenError) (hg : ¬ (w.gen = G ∨ w.gen = G + 1)) :
    openWith ip o w mapAnswer = (o, .error .invalidTag) :=
  openWith_stale ip o G inv w mapAnswer hg

/-! non-vacuity: a concrete sealer run with an update inside (budget 2), delivered with forged packets
    (flipped phase bit, altered bytes, foreign chain) in between; every hypothesis holds and the history
    contains three genuine packets of two generations -/

def keyphaseExBatches : List (List (Nat × List Nat × List Nat)) := [[(1, [1], [10]), (2, [2], [20])], [(3, [3], [30])]]
def keyphaseExPackets : List Wire := sealRun 2 (Sealer.new 5) keyphaseExBatches
def keyphaseExForged : List Wire :=
  [⟨true, some ⟨5, 0, 1, [1], [10]⟩, false⟩,      -- first packet, phase bit flipped
   ⟨false, some ⟨5, 0, 1, [1], [10]⟩, true⟩,      -- first packet, a byte changed
   ⟨true, some ⟨6, 1, 3, [3], [30]⟩, false⟩,      -- sealed by another chain
   ⟨true, none, true⟩]                            -- noise
def keyphaseExHistory : List Arrival :=
  match keyphaseExPackets, keyphaseExForged with
  | [p1, p2, p3], [f1, f2, f3, f4] =>
    [⟨false, f1, none⟩, ⟨false, p1, none⟩, ⟨true, f2, none⟩, ⟨false, f4, none⟩, ⟨true, p2, none⟩, ⟨false, f3, none⟩,
     ⟨false, f1, none⟩, ⟨true, p3, none⟩, ⟨true, f1, none⟩]
  | _, _ => []

example : keyphaseExPackets.map Wire.gen = [0, 0, 1] := by decide
example : (keyphaseExHistory.filter (fun a => Genuine 5 a.wire)).map (·.wire) = sealRun 2 (Sealer.new 5) keyphaseExBatches := by decide
example : DedupFine Dedup.new keyphaseExHistory := Or.inr ⟨rfl, rfl, by decide⟩
example : (runOut (Opener.new 5 Dedup.new) keyphaseExHistory).map isOk = [false, true, false, false, true, false, false, true, false] := by decide
example : (runState (Opener.new 5 Dedup.new) keyphaseExHistory).keyPhase = true := by decide
example : Inv (Opener.new 5 Dedup.new) 0 := inv_new 5 Dedup.new

/-! ### the seeded variant is caught: flag raised before authentication -/

/-- With `if key_phase != self.key_phase { needs_update = true }` in front of the AEAD call (copying path):
    ONE forged packet with the other phase bit is rejected yet makes `open_with` rotate the keys, after
    which a genuine packet of the current generation fails — while the real order keeps opening it. -/
theorem keyphase_flag_before_authentication_counterexample :
    ∃ (o : Opener) (forged genuine : Wire),
      Inv o 0 ∧ Genuine o.chain forged = false ∧ Genuine o.chain genuine = true ∧ genuine.gen = 0 ∧
      isOk (openWithFlagFirst o forged none).2 = false ∧
      (openWithFlagFirst o forged none).1 ≠ o ∧
      isOk (openWith false (openWithFlagFirst o forged none).1 genuine none).2 = false ∧
      isOk (openWith false (openWith false o forged none).1 genuine none).2 = true :=
  ⟨Opener.new 0 Dedup.disabled, ⟨true, none, true⟩, ((Sealer.new 0).encrypt 7 [1] [2]).2,
   inv_new 0 Dedup.disabled, by decide, by decide, by decide, by decide, by decide, by decide, by decide⟩

/-! ### Once keys -/

/-- `open::Once`: a packet with the other phase bit or failing the AEAD changes nothing -/
theorem keyphase_once_unauthentic_no_state_change (o : OnceOpener) (w : Wire) (mapAnswer : Option OpenError)
    (h : w.phase = true ∨ aeadOpens o.chain 0 w = false) :
    (o.decrypt w mapAnswer).1 = o ∧ isOk (o.decrypt w mapAnswer).2 = false := by
  unfold OnceOpener.decrypt
  rcases h with h | h
  · simp [h, isOk]
  · cases hp : w.phase <;> simp [h, isOk]

/-- a Once opener opens at most one packet in any history (genuine, replayed or forged) -/
theorem keyphase_once_opens_at_most_once (o : OnceOpener) (l : List (Wire × Option OpenError)) :
    ((runOnce o l).filter isOk).length ≤ 1 := by
  induction l generalizing o with
  | nil => simp [runOnce]
  | cons x t ih =>
    obtain ⟨w, a⟩ := x
    simp only [runOnce, List.filter_cons]
    cases hk : isOk (o.decrypt w a).2
    · simpa using ih _
    · have := runOnce_opened_none_ok _ (once_ok_sets_opened o w a hk) t
      simp [this]

example : (runOnce (OnceOpener.new 2) [(⟨false, some ⟨2, 0, 1, [], [9]⟩, false⟩, none), (⟨false, some ⟨2, 0, 1, [], [9]⟩, false⟩, none)]).map isOk
    = [true, false] := by decide

end Quic.Proofs.C18
