import QuicModel.Conn.Amplification
import QuicModel.Conn.StatelessReset
import QuicModel.Conn.VersionNeg
import QuicModel.Conn.InitialPadding
import QuicProofs.Lemmas.Amplification
/-
  C11 — no amplification towards unvalidated / unknown peers: the property theorems.

  Known finding F4: the quantitative clause at full strength (`amp_bound`, kept below as a comment) is
  FALSE of the pinned code, because `tx_allowance` is a saturating counter that forgets the debt of an
  overshooting datagram. `amp_bound_counterexample` proves the negation on the concrete witness;
  `amp_bound_partial` / `amp_bound_with_forgiven` are what does hold.
-/
namespace Quic.Proofs.C11
open Quic.Conn Quic.Conn.Amplification Quic.Proofs.Lemmas.Amplification

/- ======================================================================================
   1. the allowance counter -/

/-- At the amplification limit no datagram is started: a `send` of the connection leaves the path (and the
    ghost byte counter) untouched, and the raw `on_bytes_transmitted` call is rejected by its debug assertion. -/
theorem no_start_at_limit (p : Path) (n : Nat) (h : atAmplificationLimit p = true) :
    started p n = false ∧ step p (.send n) = p ∧ (n ≠ 0 → onBytesTransmitted p n = none) := by
  refine ⟨by simp [started, canTransmit, h], step_send_at_limit p n h, ?_⟩
  intro hn
  simp [onBytesTransmitted, hn, h]

/-- Conversely the byte counter moves only when the path was not at the limit. -/
theorem sent_moves_only_below_limit (p : Path) (n : Nat) (h : (step p (.send n)).sent ≠ p.sent) :
    atAmplificationLimit p = false := by
  cases hl : atAmplificationLimit p with
  | false => rfl
  | true => rw [step_send_at_limit p n hl] at h; exact absurd rfl h

/-- A datagram that is started on an unvalidated path has credit left, where credit counts the debt the
    saturating counter has forgotten so far; with no earlier overshoot (`forgiven = 0`) this is exactly
    "bytes sent have not reached three times the bytes received". -/
theorem start_has_credit (d : Nat) (hd : d ≤ u32Max) (ops : List Op) (hs : sendsLe d ops = true)
    (p : Path) (hp : p ∈ states (newServer multiplier) ops) (n : Nat) (hst : started p n = true)
    (hv : isValidated p = false) :
    p.sent < 3 * p.recv + p.forgiven := by
  have hinv := inv_states d hd ops (newServer multiplier) (inv_init _) hs p hp
  have hm : p.mult = 3 := states_mult ops _ p hp
  unfold Lemmas.Amplification.Inv at hinv
  cases hst' : p.state with
  | validated => simp [isValidated, hst'] at hv
  | limited a =>
    rw [hst', hm] at hinv
    simp only at hinv
    have : a ≠ 0 := by
      simp [started, canTransmit, atAmplificationLimit, hst'] at hst
      exact hst.1
    omega

example : started (run (newServer multiplier) [.recv 1200, .send 1200]) 1200 = true := by decide

/-
  FULL-STRENGTH quantitative clause (FALSE of the pinned code — known finding F4):

  theorem amp_bound (d : Nat) (ops : List Op) (hs : sendsLe d ops = true) :
      ∀ p ∈ states (newServer multiplier) ops, boundHolds d p = true
-/

/-- F4: the full-strength bound fails on `recv 1200; send 1200,1200,1100,1200; recv 40; send 1200`
    (5900 bytes sent, 1240 received, 3·1240 + 1200 = 4920). -/
theorem amp_bound_counterexample :
    ¬ (∀ (d : Nat) (ops : List Op), sendsLe d ops = true →
        ∀ p ∈ states (newServer multiplier) ops, boundHolds d p = true) := by
  intro h
  have := h 1200 f4Witness (by decide +kernel) (run (newServer multiplier) f4Witness) (by decide +kernel)
  exact absurd this (by decide +kernel)

/-- the witness, spelled out -/
theorem amp_bound_counterexample_values :
    (run (newServer multiplier) f4Witness).sent = 5900 ∧ (run (newServer multiplier) f4Witness).recv = 1240
      ∧ isValidated (run (newServer multiplier) f4Witness) = false := by decide +kernel

/-- What holds: as long as nothing is received after an overshoot (`quiet`), the total stays below
    3x plus one datagram, for every history and every prefix of it. -/
theorem amp_bound_partial (d : Nat) (hd0 : 0 < d) (hd : d ≤ u32Max) (ops : List Op)
    (hs : sendsLe d ops = true) (hq : quiet (newServer multiplier) ops = true) :
    ∀ p ∈ states (newServer multiplier) ops, boundHolds d p = true := by
  intro p hp
  have hinv := qinv_states d hd ops (newServer multiplier) (qinv_init d _) hs hq p hp
  have hm : p.mult = 3 := states_mult ops _ p hp
  unfold QInv at hinv
  unfold boundHolds
  cases hst : p.state with
  | validated => simp [isValidated, hst]
  | limited a =>
    rw [hst, hm] at hinv
    simp only at hinv
    simp only [isValidated, hst, Bool.false_or, decide_eq_true_eq]
    rcases hinv with ⟨_, h⟩ | ⟨_, _, h⟩ <;> omega

example : sendsLe 1200 [.recv 1200, .send 1200, .send 1200, .send 1100, .send 1200] = true
    ∧ quiet (newServer multiplier) [.recv 1200, .send 1200, .send 1200, .send 1100, .send 1200] = true := by decide

/-- What holds unconditionally: bytes sent never exceed 3x received plus the debt forgotten by the
    saturating counter (each overshoot forgets less than one datagram). -/
theorem amp_bound_with_forgiven (d : Nat) (hd : d ≤ u32Max) (ops : List Op) (hs : sendsLe d ops = true) :
    ∀ p ∈ states (newServer multiplier) ops, isValidated p = true ∨ p.sent ≤ 3 * p.recv + p.forgiven := by
  intro p hp
  have hinv := inv_states d hd ops (newServer multiplier) (inv_init _) hs p hp
  have hm : p.mult = 3 := states_mult ops _ p hp
  unfold Lemmas.Amplification.Inv at hinv
  cases hst : p.state with
  | validated => left; simp [isValidated, hst]
  | limited a =>
    rw [hst, hm] at hinv
    simp only at hinv
    right; omega

/-- a client path is never amplification limited -/
theorem client_never_limited (m : Nat) (ops : List Op) :
    ∀ p ∈ states (newClient m) ops, atAmplificationLimit p = false := by
  suffices h : ∀ q : Path, q.state = .validated → ∀ p ∈ states q ops, p.state = .validated by
    intro p hp
    simp [atAmplificationLimit, h (newClient m) rfl p hp]
  induction ops with
  | nil => intro q hq p hp; simp [states] at hp; subst hp; exact hq
  | cons op rest ih =>
    intro q hq p hp
    simp only [states, List.mem_cons] at hp
    rcases hp with rfl | hp
    · exact hq
    · refine ih (step q op) ?_ p hp
      cases op with
      | recv n => simp [step, onBytesReceived, hq]
      | send n =>
        simp only [step, canTransmit, atAmplificationLimit, hq, onBytesTransmitted]
        by_cases h0 : n = 0 <;> simp [h0, hq]
      | validate => rfl

/- ======================================================================================
   2. stateless reset -/
open StatelessReset in
/-- A stateless reset is strictly smaller than the datagram that caused it, fits the buffer and is at
    least the indistinguishable minimum (for every outcome of the random draw). -/
theorem sreset_strictly_smaller (tag trig buf r n : Nat) (h : encodeLen tag trig buf r = some n) :
    Admissible tag trig buf n := by
  unfold encodeLen at h
  simp only at h
  split at h
  · exact absurd h (by simp)
  · rename_i hlt
    have hle : minIndistinguishablePacketLen tag ≤ maxLen trig buf := by omega
    have hmin : 16 ≤ minIndistinguishablePacketLen tag := by
      unfold minIndistinguishablePacketLen minLenWithoutTag tagByteLen packetNumberMaxLen connectionIdMaxLen; omega
    have hr := genRangeBiased_range r (minIndistinguishablePacketLen tag - tokenLen) (maxLen trig buf - tokenLen)
      (by unfold tokenLen; omega)
    injection h with h
    unfold Admissible
    unfold maxLen tokenLen at *
    unfold minIndistinguishablePacketLen minLenWithoutTag tagByteLen packetNumberMaxLen connectionIdMaxLen at *
    have : min (trig - 1) buf ≤ trig - 1 := Nat.min_le_left _ _
    have : min (trig - 1) buf ≤ buf := Nat.min_le_right _ _
    omega

open StatelessReset in
/-- No stateless reset is sent if and only if no admissible length exists. -/
theorem sreset_none_iff (tag trig buf r : Nat) :
    encodeLen tag trig buf r = none ↔ ¬ ∃ n, Admissible tag trig buf n := by
  constructor
  · intro h ⟨n, hn⟩
    unfold encodeLen at h
    simp only at h
    split at h
    · rename_i hlt
      unfold Admissible at hn
      unfold maxLen minIndistinguishablePacketLen minLenWithoutTag tagByteLen packetNumberMaxLen connectionIdMaxLen at hlt
      have : n ≤ min (trig - 1) buf := Nat.le_min.mpr ⟨by omega, hn.2.1⟩
      omega
    · exact absurd h (by simp)
  · intro h
    cases he : encodeLen tag trig buf r with
    | none => rfl
    | some n => exact absurd ⟨n, sreset_strictly_smaller tag trig buf r n he⟩ h

open StatelessReset in
example : encodeLen 16 43 1200 0 = some 42 ∧ encodeLen 16 42 1200 0 = none ∧ encodeLen 16 1500 1200 7 = some 49 := by decide

open StatelessReset in
/-- the first byte is a short header with the fixed bit set -/
theorem sreset_first_byte (b0 : Nat) : 64 ≤ firstByte b0 ∧ firstByte b0 < 128 := by
  unfold firstByte; omega

/- ======================================================================================
   3. Version Negotiation -/
open VersionNeg in
/-- Version Negotiation is queued only by a server, only for an Initial of an unsupported version in a
    datagram of at least 1200 bytes, and never in reply to a Version Negotiation packet. -/
theorem vn_only_large_never_for_vn (isServer : Bool) (kind : Kind) (supported : Bool) (len q mp : Nat) :
    ((onPacket isServer kind supported len q mp).vnQueued = true →
        isServer = true ∧ kind = .initial ∧ supported = false ∧ 1200 ≤ len) ∧
    (onPacket isServer .versionNegotiation supported len q mp).vnQueued = false := by
  constructor
  · intro h
    unfold onPacket VersionNeg.minimumMaxDatagramSize at h
    cases isServer <;> cases kind <;> cases supported <;> simp at h ⊢
    all_goals (split at h <;> simp_all)
    all_goals omega
  · unfold onPacket; cases isServer <;> simp

open VersionNeg in
example : (onPacket true .initial false 1200 0 10).vnQueued = true ∧ (onPacket true .initial false 1199 0 10).vnQueued = false := by decide

open VersionNeg in
/-- the Version Negotiation packet (one supported version) is smaller than any datagram that can trigger it -/
theorem vn_smaller_than_trigger (dcid scid len : Nat) (hd : dcid ≤ connectionIdMaxLen) (hs : scid ≤ connectionIdMaxLen)
    (hl : 1200 ≤ len) : vnLen dcid scid supportedVersions.length < len := by
  unfold vnLen connectionIdMaxLen supportedVersions at *
  simp only [List.length_cons, List.length_nil]
  omega

/- ======================================================================================
   4. Initial padding -/
open InitialPadding in
/-- A client datagram that carries an Initial packet fills the whole datagram capacity (≥ 1200 bytes),
    provided the packet-number space selected for padding did write its packet.

    Full-strength statement (every client datagram with an Initial has ≥ 1200 bytes) needs that proviso in
    this model: `spaceToPad` is chosen from the transmission *interest* of the later spaces, and if the
    chosen later space then fails to write (e.g. `InsufficientSpace` after a large Initial) nobody pads; see
    the `example` below. Whether the real spaces can do that is outside the model (not reproduced). -/
theorem client_initial_padded (cap tag : Nat) (ini hs app : SpaceTx) (hcap : 1200 ≤ cap)
    (hi : (build false cap tag ini hs app).initialLen ≠ 0)
    (hw : padSpaceWrote ini hs app (build false cap tag ini hs app) = true) :
    (build false cap tag ini hs app).len = cap ∧ 1200 ≤ (build false cap tag ini hs app).len := by
  suffices h : (build false cap tag ini hs app).len = cap by omega
  obtain ⟨ii, inat, iack⟩ := ini
  obtain ⟨hh, hnat, hack⟩ := hs
  obtain ⟨aa, anat, aack⟩ := app
  cases ii <;> cases hh <;> cases aa <;> cases inat <;> cases hnat <;> cases anat <;>
    simp [build, spaceToPad, writePacket, minimumPacketLen, padSpaceWrote, Datagram.len] at hi hw ⊢
  all_goals (repeat' split at hw)
  all_goals (repeat' split at hi)
  all_goals (repeat' split)
  all_goals omega

open InitialPadding in
example : (build false 1200 16 ⟨true, some 300, true⟩ ⟨true, some 200, true⟩ SpaceTx.idle).len = 1200
    ∧ padSpaceWrote ⟨true, some 300, true⟩ ⟨true, some 200, true⟩ SpaceTx.idle
        (build false 1200 16 ⟨true, some 300, true⟩ ⟨true, some 200, true⟩ SpaceTx.idle) = true := by decide

open InitialPadding in
/-- why the proviso is there (model level only): Initial of 1150 bytes, Handshake has interest but cannot fit -/
example : (build false 1200 16 ⟨true, some 1150, true⟩ ⟨true, some 80, true⟩ SpaceTx.idle).len = 1150 := by decide

open InitialPadding in
/-- a server drops datagrams below 1200 bytes that would start a connection -/
theorem server_drops_small_initial (n : Nat) : serverAcceptsInitialDatagram n = true ↔ 1200 ≤ n := by
  unfold serverAcceptsInitialDatagram; simp

end Quic.Proofs.C11
