import QuicProofs.Lemmas.TpAuthWire
/-
  C14 — "connection-ID parameters that do not match the handshake make the handshake fail with
  TRANSPORT_PARAMETER_ERROR", stated on the BYTES of the quic_transport_parameters extension.

  `Conn.TpAuth.onPeerBlock role h blk` is the transcription of `SessionContext::on_server_params` /
  `on_client_params` (quic/s2n-quic-transport/src/space/session_context.rs) from the raw extension bytes to the
  accept / `TRANSPORT_PARAMETER_ERROR(reason)` decision; it is the function the end-to-end tie compares with real
  endpoints (tools/e2e_c14_auth.py, family `tpauth`: the facts `h` and the bytes `blk` are read from the wire).
  `Rfc.TpAuth.authenticItems role h its` is RFC 9000 §7.3 on the parsed (id, value) items of the block.
-/
namespace Quic.Proofs.C14
open Quic Quic.Codec Quic.Codec.TransportParams Quic.Proofs.TransportParams Quic.Conn.TpAuth
open Quic.Rfc.TransportParams (parseItems)
open Quic.Rfc.TpAuth (authenticItems valuesOf)

/-- the three `Option<…ConnectionId>` fields of the decoded struct are exactly what the block carries on the wire:
    `None` iff no item with that id occurs, `Some v` iff the one item with that id has the value bytes `v` -/
theorem tp_cids_on_wire (role : Role) (blk : List Nat) (hb : BytesOk blk) (ps : Params) (its : List (Nat × List Nat))
    (hp : parseItems blk.length blk = some its) (hd : decodeParameters pinnedFields role blk = .ok ps) :
    (peerCids ps).iscid.toList = valuesOf its 0x0f ∧ (peerCids ps).odcid.toList = valuesOf its 0x00 ∧
      (peerCids ps).rscid.toList = valuesOf its 0x10 :=
  ⟨cidOf_eq_wire role blk hb ps its hp hd 0x0f _ 0 rfl rfl rfl,
   cidOf_eq_wire role blk hb ps its hp hd 0x00 _ 8 rfl rfl rfl,
   cidOf_eq_wire role blk hb ps its hp hd 0x10 _ 4 rfl rfl rfl⟩

/-- FULL STRENGTH for the code as transcribed: the validator accepts a peer's block exactly when the decoder accepts it
    (§7.4/§18.2: `tp_accept_iff_rfc_partial`) AND its connection-ID items are the ones RFC 9000 §7.3 demands for this
    handshake: initial_source_connection_id = Source Connection ID of the peer's first Initial; from a server also
    original_destination_connection_id = Destination Connection ID of the client's first Initial, and
    retry_source_connection_id present exactly when a Retry was followed, with that Retry's Source Connection ID. -/
theorem tp_block_auth_iff (role : Role) (h : Handshake) (blk : List Nat) (hb : BytesOk blk) :
    accepted (onPeerBlock role h blk) = true ↔
      accepts pinnedFields role blk = true ∧
        ∃ its, parseItems blk.length blk = some its ∧ authenticItems role h its = true := by
  unfold onPeerBlock onPeerBlockWith
  cases hd : decodeParameters pinnedFields role blk with
  | error e =>
    simp only [accepted]
    constructor
    · intro hf; cases hf
    · intro hacc
      have : accepts pinnedFields role blk = false := by unfold accepts; rw [hd]; rfl
      rw [this] at hacc; cases hacc.1
  | ok ps =>
    have hacc : accepts pinnedFields role blk = true := by unfold accepts; rw [hd]; rfl
    have hitems := accepts_eq_items pinnedFields role blk hb
    rw [hacc] at hitems
    cases hp : parseItems blk.length blk with
    | none => rw [hp] at hitems; cases hitems
    | some its =>
      obtain ⟨h1, h2, h3⟩ := tp_cids_on_wire role blk hb ps its hp hd
      have hauth := tp_cid_auth role h (peerCids ps)
      have hrfc : Rfc.TpAuth.authentic role h (peerCids ps) = authenticItems role h its :=
        authentic_eq_items role h (peerCids ps) its h1 h2 h3
      have hEq : accepted (liftAuth (authenticate role h (peerCids ps))) = Conn.TpAuth.isOk (authenticate role h (peerCids ps)) := by
        cases authenticate role h (peerCids ps) <;> rfl
      simp only [hEq, hauth, hrfc]
      constructor
      · intro ha; exact ⟨hacc, its, rfl, ha⟩
      · rintro ⟨_, its', hp', ha⟩
        injection hp' with hp'
        subst hp'
        exact ha

/-- … hence, on every block that stays away from the four value classes where the pinned decoder deviates from
    RFC 9000 §18.2 (F10/F11/F12, `Avoids pinnedKnobs`), acceptance by the validator is EXACTLY RFC 9000 §7.3 + §7.4 -/
theorem tp_block_auth_iff_rfc (role : Role) (h : Handshake) (blk : List Nat) (hb : BytesOk blk)
    (hav : ∀ its, parseItems blk.length blk = some its → ∀ it ∈ its, Avoids pinnedKnobs it.1 it.2) :
    accepted (onPeerBlock role h blk) = true ↔
      Rfc.TransportParams.accepts role blk = true ∧
        ∃ its, parseItems blk.length blk = some its ∧ authenticItems role h its = true := by
  rw [tp_block_auth_iff role h blk hb, tp_accept_iff_rfc_partial role blk hb hav]

/-- every rejection is a TRANSPORT_PARAMETER_ERROR (0x08) - for undecodable blocks and for each §7.3 case -/
theorem tp_block_reject_code (role : Role) (h : Handshake) (blk : List Nat) (e : Reject)
    (he : onPeerBlock role h blk = .error e) : e.code = 0x08 := by
  cases e <;> rfl

/-- a client's block that carries original_destination_connection_id, retry_source_connection_id,
    stateless_reset_token or preferred_address (any value, anywhere) never passes, whatever the handshake -/
theorem tp_block_client_server_only (h : Handshake) (blk : List Nat) (hb : BytesOk blk) (its : List (Nat × List Nat))
    (id : Nat) (val : List Nat) (hp : parseItems blk.length blk = some its) (hmem : (id, val) ∈ its)
    (hid : id = 0x00 ∨ id = 0x10 ∨ id = 0x02 ∨ id = 0x0d) :
    accepted (onPeerBlock .client h blk) = false := by
  have hrej : accepts pinnedFields .client blk = false := by
    rcases hid with rfl | rfl | rfl | rfl
    · exact tp_server_only_from_client_rejected pinnedFields blk hb its _ val
        ⟨"original_destination_connection_id", 0x00, true, .cid 8, [], none⟩ hp hmem rfl rfl
    · exact tp_server_only_from_client_rejected pinnedFields blk hb its _ val
        ⟨"retry_source_connection_id", 0x10, true, .cid 4, [], none⟩ hp hmem rfl rfl
    · exact tp_server_only_from_client_rejected pinnedFields blk hb its _ val
        ⟨"stateless_reset_token", 0x02, true, .token, [], none⟩ hp hmem rfl rfl
    · exact tp_server_only_from_client_rejected pinnedFields blk hb its _ val
        ⟨"preferred_address", 0x0d, true, .preferredAddress 0, [], none⟩ hp hmem rfl rfl
  cases hacc : accepted (onPeerBlock .client h blk) with
  | false => rfl
  | true => rw [((tp_block_auth_iff .client h blk hb).mp hacc).1] at hrej; cases hrej

/-- `BytesOk` of a literal byte list -/
macro "bytes_ok" : tactic =>
  `(tactic| (intro x hx; simp only [List.mem_cons, List.not_mem_nil, or_false] at hx; omega))

/-! ### non-vacuity: the handshake of Figure 8 (Retry) and of Figure 7 (no Retry), on bytes -/

/-- S1 = eight 1s (original DCID), S2 = 02 02 02 02 (Retry SCID), S3 = 03 03 03 03 (server's Initial SCID) -/
def fig8 : Handshake := ⟨[3, 3, 3, 3], some [2, 2, 2, 2], [1, 1, 1, 1, 1, 1, 1, 1]⟩
def fig7 : Handshake := ⟨[3, 3, 3, 3], none, [1, 1, 1, 1, 1, 1, 1, 1]⟩

/-- odcid=S1, iscid=S3, rscid=S2, initial_max_data=7 -/
def fig8Block : List Nat :=
  [0x00, 8, 1, 1, 1, 1, 1, 1, 1, 1, 0x0f, 4, 3, 3, 3, 3, 0x10, 4, 2, 2, 2, 2, 0x04, 1, 7]

example : accepted (onPeerBlock .server fig8 fig8Block) = true := rfl
example : accepts pinnedFields .server fig8Block = true ∧
    ∃ its, parseItems fig8Block.length fig8Block = some its ∧ authenticItems .server fig8 its = true :=
  (tp_block_auth_iff .server fig8 fig8Block (by unfold fig8Block; bytes_ok)).mp rfl

/-- the same bytes without a Retry: retry_source_connection_id must not be there (the seeded change that folded the
    `(None, Some(_))` arm into the no-op arm accepts this block) -/
example : onPeerBlock .server fig7 fig8Block = .error (.auth .rscidPresentWithoutRetry) := rfl

/-- dropping / altering each of the three parameters after a Retry -/
example :
    onPeerBlock .server fig8 [0x00, 8, 1, 1, 1, 1, 1, 1, 1, 1, 0x0f, 4, 3, 3, 3, 3] = .error (.auth .rscidAbsentAfterRetry) ∧
    onPeerBlock .server fig8 [0x00, 8, 1, 1, 1, 1, 1, 1, 1, 1, 0x0f, 4, 3, 3, 3, 3, 0x10, 4, 2, 2, 2, 3] = .error (.auth .rscidMismatch) ∧
    onPeerBlock .server fig8 [0x00, 8, 2, 2, 2, 2, 2, 2, 2, 2, 0x0f, 4, 3, 3, 3, 3, 0x10, 4, 2, 2, 2, 2] = .error (.auth .odcidMismatch) ∧
    onPeerBlock .server fig8 [0x0f, 4, 3, 3, 3, 3, 0x10, 4, 2, 2, 2, 2] = .error (.auth .odcidMissing) ∧
    onPeerBlock .server fig8 [0x00, 8, 1, 1, 1, 1, 1, 1, 1, 1, 0x10, 4, 2, 2, 2, 2] = .error (.auth .iscidMissing) ∧
    onPeerBlock .server fig8 [0x00, 8, 1, 1, 1, 1, 1, 1, 1, 1, 0x0f, 3, 3, 3, 3, 0x10, 4, 2, 2, 2, 2] = .error (.auth .iscidMismatch) ∧
    onPeerBlock .server fig8 [0x00, 7, 1, 1, 1, 1, 1, 1, 1, 0x0f, 4, 3, 3, 3, 3, 0x10, 4, 2, 2, 2, 2] = .error (.decode .invalid) ∧
    onPeerBlock .server fig8 (fig8Block ++ [0x0f, 4, 3, 3, 3, 3]) = .error (.decode .duplicate) :=
  ⟨rfl, rfl, rfl, rfl, rfl, rfl, rfl, rfl⟩

/-- a client's block: its initial_source_connection_id only; a server-only parameter makes it undecodable -/
example :
    onPeerBlock .client ⟨[9, 9], none, [1, 1, 1, 1, 1, 1, 1, 1]⟩ [0x0f, 2, 9, 9] = .ok () ∧
    onPeerBlock .client ⟨[9, 9], none, [1, 1, 1, 1, 1, 1, 1, 1]⟩ [0x0f, 2, 9, 8] = .error (.auth .iscidMismatch) ∧
    onPeerBlock .client ⟨[9, 9], none, [1, 1, 1, 1, 1, 1, 1, 1]⟩ [0x04, 1, 7] = .error (.auth .iscidMissing) ∧
    onPeerBlock .client ⟨[9, 9], none, [1, 1, 1, 1, 1, 1, 1, 1]⟩ [0x0f, 2, 9, 9, 0x00, 8, 1, 1, 1, 1, 1, 1, 1, 1]
      = .error (.decode .disabled) := ⟨rfl, rfl, rfl, rfl⟩

/-- `tp_block_auth_iff_rfc`'s hypothesis is satisfiable by a block with all three connection IDs -/
example : ∀ its, parseItems fig8Block.length fig8Block = some its → ∀ it ∈ its, Avoids pinnedKnobs it.1 it.2 := by
  intro its h
  have h2 : parseItems fig8Block.length fig8Block
      = some [(0x00, [1, 1, 1, 1, 1, 1, 1, 1]), (0x0f, [3, 3, 3, 3]), (0x10, [2, 2, 2, 2]), (0x04, [7])] := by decide
  rw [h2] at h; injection h with h; subst h
  intro it hit
  simp only [List.mem_cons, List.not_mem_nil, or_false] at hit
  rcases hit with rfl | rfl | rfl | rfl <;> refine ⟨?_, ?_, ?_, ?_⟩ <;> simp [pinnedKnobs]

example : accepted (onPeerBlock .client ⟨[9, 9], none, [1, 1, 1, 1, 1, 1, 1, 1]⟩ [0x0f, 2, 9, 9, 0x10, 4, 1, 2, 3, 4]) = false :=
  tp_block_client_server_only _ _ (by bytes_ok) [(0x0f, [9, 9]), (0x10, [1, 2, 3, 4])] 0x10 [1, 2, 3, 4] (by decide) (by decide)
    (by decide)

end Quic.Proofs.C14
