import QuicProofs.Lemmas.RecvViolations
/-
  Property C04 — peer violations are rejected with the right transport error and deliver nothing; advertised
  credit never exceeds consumed + configured window.

  Model: `Quic.Stream.RecvFlow` (transcription of s2n-quic-transport's receive side), `Quic.Conn.FrameTable`
  (tie G). Reference: `Quic.Rfc.errorFor`, `Quic.Rfc.permitted` (Table 3), `Quic.Rfc.commits` (RFC 9000).
-/
namespace Quic.Proofs.C04
open Quic.Stream.RecvFlow Quic.Rfc
open Quic.Conn (Space FrameTable)
open Quic.Proofs.Lemmas.RecvFlow Quic.Proofs.Lemmas.RecvViolations

/-- G table = RFC 9000 §12.4 Table 3 (columns I, H, 1): the frames a packet-number space processes are
    exactly the frames the RFC permits in that packet type; everything else is PROTOCOL_VIOLATION. -/
theorem frames_allowed_table_eq_rfc :
    ∀ sp t, FrameTable sp t = permitted (packetTypeOf sp) t := by
  intro sp t; cases sp <;> cases t <;> decide

/-- Every rejection is justified: if the endpoint closes the connection for a frame, the frame commits a
    violation of RFC 9000 and the code is the one the RFC prescribes for it (or a generic one, §11).
    In particular frames that stay inside every limit are never rejected. -/
theorem rejection_sound {s : State} {sp : Space} {f : Frame} {c : ErrorCode}
    (hl : Live s) (hw : WFStreams s) (h : s.onFrame sp f = .error c) :
    ∃ v, commits s sp f v ∧ c ∈ errorFor v :=
  onFrame_err h hl hw

/-- Table theorem. Full strength would be: `commits s sp f v → ∃ c v', onFrame = error c ∧ …` for EVERY
    violation. That is false of the code for the shapes excluded by `Covered` (see the `_counterexample`
    theorems below: RESET_STREAM with a final size below the data already received; STREAM / RESET_STREAM /
    STREAM_DATA_BLOCKED on an already created send-only stream; STOP_SENDING on a receive-only stream; any
    stream-level violation once the stream left the `Receiving` state).  For all covered shapes: the frame is
    refused with a code the RFC permits for a violation the frame commits, and — `onFrame` being a function
    into `Except` — no state (no buffer) is produced from the offending frame. -/
theorem violation_rejected_with_code_partial {s : State} {sp : Space} {f : Frame} {v : Violation}
    (hl : Live s) (hw : WFStreams s) (hn : NextLe s) (hv : commits s sp f v) (hc : Covered s f v) :
    ∃ c v', s.onFrame sp f = .error c ∧ commits s sp f v' ∧ c ∈ errorFor v' := by
  obtain ⟨c, hcode⟩ := covered_rejected hl hw hn hv hc
  obtain ⟨v', h1, h2⟩ := onFrame_err hcode hl hw
  exact ⟨c, v', hcode, h1, h2⟩

/-- Instance the adversarial scenarios exercise: a peer-initiated stream that is referenced for the first time
    (inside the advertised stream limit) starts with the configured window `s.window sid`; STREAM data beyond
    that window is refused with a code RFC 9000 permits — no hypothesis about existing streams is needed. -/
theorem fresh_stream_beyond_window_rejected {s : State} {sid off : Nat} {d : List Nat} {fin : Bool}
    (hl : Live s) (hw : WFStreams s) (hn : NextLe s) (hloc : localInitiated s sid = false)
    (hnew : sidIndex sid ≥ s.next (sidServer sid) (sidUni sid)) (hlim : sidIndex sid < advertisedStreams s sid)
    (hwin : s.window sid ≤ maxVarInt) (hbad : off + d.length > s.window sid) :
    ∃ c v', s.onFrame .application (.stream sid off d fin) = .error c
      ∧ commits s .application (.stream sid off d fin) v' ∧ c ∈ errorFor v' := by
  have hv := view_fresh hl hloc hnew hlim
  obtain ⟨p1, p2, p3⟩ := newStream_remote_props s sid hloc hwin
  refine violation_rejected_with_code_partial hl hw hn (v := .streamDataLimit)
    ⟨rfl, sid, _, hv, Or.inl ⟨off, d, fin, rfl, by rw [p2]; exact hbad⟩⟩ ?_
  intro sid' h
  simp only [frameStream] at h
  injection h with h; subst h
  exact ⟨_, hv, p1, p3⟩

/-- A rejected packet contributes exactly its legal prefix: processing stops at the first offending frame,
    whose data (and everything after it) reaches no buffer. -/
theorem offending_frame_has_no_effect {s : State} {sp : Space} {fs : List Frame} {c : ErrorCode}
    (h : s.onPacket sp fs = .error c) :
    ∃ pre f post s', fs = pre ++ f :: post ∧ s.onPacket sp pre = .ok s' ∧ s'.onFrame sp f = .error c := by
  induction fs generalizing s with
  | nil => simp [State.onPacket] at h
  | cons a t ih =>
    simp only [State.onPacket] at h
    split at h
    · rename_i e he
      injection h with h; subst h
      exact ⟨[], a, t, s, rfl, rfl, he⟩
    · rename_i s1 h1
      obtain ⟨pre, f, post, s', e1, e2, e3⟩ := ih h
      refine ⟨a :: pre, f, post, s', by simp [e1], ?_, e3⟩
      simp only [State.onPacket, h1, e2]

/-- For ALL histories of data / resets / reads / STOP_SENDING requests on any number of streams:
    every MAX_STREAM_DATA value the endpoint would send is at most (bytes its application consumed from
    that stream) + (the stream's configured window), and every MAX_DATA value is at most (bytes consumed
    over all streams, a reset stream counting with the credit it had used up) + (connection window). -/
theorem advertised_credit_bound (w : Nat) (hw : w ≤ maxVarInt) (ops : List Op) :
    let s := (Sys.init w).run ops
    (∀ i v, s.maxStreamData i = some v → ∃ r, s.streams[i]? = some r ∧ v ≤ r.appRead + r.fc.desired)
    ∧ (∀ v, s.maxData = some v → v ≤ sumBy creditUsed s.streams + w) := by
  intro s
  have hs : SysInv w s := sysInv_run (sysInv_init w hw) ops
  obtain ⟨⟨c1, c2, c3, c4⟩, hd, hr, ha, hc⟩ := hs
  constructor
  · intro i v hv
    unfold Sys.maxStreamData at hv
    split at hv
    · cases hv
    · cases hi : s.streams[i]? with
      | none => rw [hi] at hv; cases hv
      | some r =>
        rw [hi] at hv
        simp only [Option.bind_some, Recv.advertised] at hv
        split at hv
        · cases hv
        · rename_i hstop
          injection hv with hv
          obtain ⟨r1, r2, r3, r4, r5, _⟩ := hr r (List.mem_of_getElem? hi)
          have hne : r.state ≠ .reset := by
            intro h; have := r5.1 h; rw [this] at hstop; exact hstop rfl
          have := r5.2 hne
          exact ⟨r, rfl, by omega⟩
  · intro v hv
    unfold Sys.maxData at hv
    split at hv
    · cases hv
    · injection hv with hv
      have : sumBy (fun r => r.fc.released) s.streams = sumBy creditUsed s.streams := by
        apply sumBy_congr
        intro r hmem
        obtain ⟨_, _, _, _, r5, _⟩ := hr r hmem
        unfold creditUsed
        split
        · rfl
        · rename_i hne; exact r5.2 hne
      omega

/-- Hence no peer can make the endpoint hold more than the window: per stream, the span between the read
    cursor and the highest offset received never exceeds the stream window; over all streams it never
    exceeds the connection window. -/
theorem buffered_le_window (w : Nat) (hw : w ≤ maxVarInt) (ops : List Op) :
    let s := (Sys.init w).run ops
    (∀ r ∈ s.streams, r.buffered ≤ r.fc.desired) ∧ sumBy Recv.buffered s.streams ≤ w := by
  intro s
  have hs : SysInv w s := sysInv_run (sysInv_init w hw) ops
  obtain ⟨⟨c1, c2, c3, c4⟩, hd, hr, ha, hc⟩ := hs
  constructor
  · intro r hmem
    obtain ⟨r1, r2, r3, r4, r5, r6, r7, r8⟩ := hr r hmem
    omega
  · have h1 : sumBy (fun r => r.buffered + r.fc.released) s.streams ≤ sumBy (fun r => r.fc.acquired) s.streams :=
      sumBy_mono _ _ _ (fun r hmem => (hr r hmem).2.2.2.2.2.2.2)
    have h2 := sumBy_add Recv.buffered (fun r => r.fc.released) s.streams
    omega

/-! ### where the full-strength table theorem fails (shapes excluded by `Covered`) -/

/-- RESET_STREAM with final size 2 after 4 bytes were received: a FINAL_SIZE_ERROR per RFC 9000 §20.1, but
    `init_reset` only checks the flow-control window when no final size is known -/
theorem reset_below_received_counterexample :
    commits exState .application (.resetStream 0 2) .finalSizeBelowReceived
    ∧ outcome (exState.onFrame .application (.resetStream 0 2)) = none := by
  refine ⟨⟨rfl, 0, (view exState 0).get (by decide), by simp, by decide, Or.inr ⟨2, rfl, by decide⟩⟩, by decide⟩

/-- STREAM on an already created send-only stream: STREAM_STATE_ERROR per §19.8, but the closed receive half
    (`DataRead`) silently ignores the data -/
theorem stream_on_open_send_only_counterexample :
    commits exStateUni .application (.stream 3 0 [9] false) .frameForSendOnlyStream
    ∧ outcome (exStateUni.onFrame .application (.stream 3 0 [9] false)) = none := by
  refine ⟨⟨rfl, 3, rfl, by decide, by decide, Or.inl ⟨0, [9], false, rfl⟩⟩, by decide⟩

/-- STOP_SENDING for a receive-only stream: STREAM_STATE_ERROR per §19.5, but accepted -/
theorem stop_sending_on_receive_only_counterexample :
    commits (State.init true 1000 100 100 100 10 10) .application (.stopSending 2) .frameForReceiveOnlyStream
    ∧ outcome ((State.init true 1000 100 100 100 10 10).onFrame .application (.stopSending 2)) = none := by
  refine ⟨⟨rfl, 2, rfl, by decide, by decide, Or.inr rfl⟩, by decide⟩

/-! ### non-vacuity -/

-- the hypotheses of the table theorem hold in a reachable state, and a covered violation exists there
example : Live exState ∧ NextLe exState := ⟨⟨by decide, by decide⟩, by decide, by decide⟩

example : commits exState .application (.stream 0 100 [7] false) .streamDataLimit :=
  ⟨rfl, 0, (view exState 0).get (by decide), by simp, Or.inl ⟨100, [7], false, rfl, by decide⟩⟩

example : Covered exState (.stream 0 100 [7] false) .streamDataLimit := by
  intro sid h
  simp only [frameStream] at h
  injection h with h; subst h
  refine ⟨(view exState 0).get (by decide), by simp, by decide, ?_⟩
  refine ⟨by decide, by decide, by decide, by decide, ⟨by decide, by decide⟩, ⟨?_, by decide, by decide⟩, by decide, by decide⟩
  decide

example : outcome (exState.onFrame .application (.stream 0 100 [7] false)) = some .flowControlError := by decide
example : outcome (exState.onFrame .application (.stream 0 99 [7] false)) = none := by decide
example : outcome ((State.init true 1000 100 100 100 10 10).onFrame .application (.stream 40 0 [7] false))
    = some .streamLimitError := by decide
example : outcome ((State.init true 1000 100 100 100 10 10).onFrame .application (.stream 1 0 [7] false))
    = some .streamStateError := by decide
example : outcome ((State.init true 1000 100 100 100 10 10).onFrame .initial (.maxData 5)) = some .protocolViolation := by decide
example : outcome ((State.init true 1000 100 100 100 10 10).onFrame .application (.maxStreams true (2 ^ 60 + 1)))
    = some .protocolViolation := by decide
example : outcome ((State.init true 1000 100 100 100 10 10).onFrame .application (.maxStreams true (2 ^ 60))) = none := by decide

-- a history in which credit is really advertised: 4 bytes arrive, the application reads them
example : ((Sys.init 100).run [.openStream 10, .data 0 0 [1, 2, 3, 4] false, .read 0 4]).maxStreamData 0 = some 14 := by decide
example : ((Sys.init 100).run [.openStream 10, .data 0 0 [1, 2, 3, 4] false, .read 0 4]).maxData = some 104 := by decide
-- and one in which a violation closes the connection
example : ((Sys.init 100).run [.openStream 10, .data 0 10 [1] false]).closed = some .flowControlError := by decide

end Quic.Proofs.C04
