import QuicProofs.Lemmas.Frame
import QuicProofs.Lemmas.FrameWf
/-
  C05 (frames): the property theorems. `WF` / `RestOk` and the helper lemmas live in
  `QuicProofs/Lemmas/Frame.lean`; the model is `QuicModel/Codec/Frame.lean`, the independent RFC
  transcription is `QuicModel/Rfc/Frame.lean`.
-/
namespace Quic.Proofs.C05
open Quic Quic.Codec Quic.Codec.Frame Quic.Proofs.Frame

/-! ## round trip, per frame type: `decodeFrame (encodeFrame f ++ rest) = ok (f, rest)` -/

theorem frame_roundtrip_ping (rest : List Nat) :
    decodeFrame (encodeFrame .ping ++ rest) = .ok (.ping, rest) := by
  simp [encodeFrame, decodeFrame]

theorem frame_roundtrip_handshakeDone (rest : List Nat) :
    decodeFrame (encodeFrame .handshakeDone ++ rest) = .ok (.handshakeDone, rest) := by
  simp [encodeFrame, decodeFrame]

theorem frame_roundtrip_maxData (v : Nat) (rest : List Nat) (h : WF (.maxData v)) :
    decodeFrame (encodeFrame (.maxData v) ++ rest) = .ok (.maxData v, rest) := by
  simp [WF] at h
  simp [encodeFrame, decodeFrame, dec1, decVar_enc, h]

theorem frame_roundtrip_resetStream (a b c : Nat) (rest : List Nat) (h : WF (.resetStream a b c)) :
    decodeFrame (encodeFrame (.resetStream a b c) ++ rest) = .ok (.resetStream a b c, rest) := by
  simp [WF] at h
  simp [encodeFrame, decodeFrame, dec3, decVar_enc, h]

theorem frame_roundtrip_stopSending (a b : Nat) (rest : List Nat) (h : WF (.stopSending a b)) :
    decodeFrame (encodeFrame (.stopSending a b) ++ rest) = .ok (.stopSending a b, rest) := by
  simp [WF] at h
  simp [encodeFrame, decodeFrame, dec2, decVar_enc, h]

theorem frame_roundtrip_maxStreamData (a b : Nat) (rest : List Nat) (h : WF (.maxStreamData a b)) :
    decodeFrame (encodeFrame (.maxStreamData a b) ++ rest) = .ok (.maxStreamData a b, rest) := by
  simp [WF] at h
  simp [encodeFrame, decodeFrame, dec2, decVar_enc, h]

theorem frame_roundtrip_dataBlocked (v : Nat) (rest : List Nat) (h : WF (.dataBlocked v)) :
    decodeFrame (encodeFrame (.dataBlocked v) ++ rest) = .ok (.dataBlocked v, rest) := by
  simp [WF] at h
  simp [encodeFrame, decodeFrame, dec1, decVar_enc, h]

theorem frame_roundtrip_streamDataBlocked (a b : Nat) (rest : List Nat) (h : WF (.streamDataBlocked a b)) :
    decodeFrame (encodeFrame (.streamDataBlocked a b) ++ rest) = .ok (.streamDataBlocked a b, rest) := by
  simp [WF] at h
  simp [encodeFrame, decodeFrame, dec2, decVar_enc, h]

theorem frame_roundtrip_retireConnectionId (v : Nat) (rest : List Nat) (h : WF (.retireConnectionId v)) :
    decodeFrame (encodeFrame (.retireConnectionId v) ++ rest) = .ok (.retireConnectionId v, rest) := by
  simp [WF] at h
  simp [encodeFrame, decodeFrame, dec1, decVar_enc, h]

theorem bound_le_max : maxStreamsBound ≤ VarInt.maxValue := by decide

theorem frame_roundtrip_maxStreams (bidi : Bool) (v : Nat) (rest : List Nat) (h : WF (.maxStreams bidi v)) :
    decodeFrame (encodeFrame (.maxStreams bidi v) ++ rest) = .ok (.maxStreams bidi v, rest) := by
  simp [WF] at h
  have hv : V v := Nat.le_trans h bound_le_max
  cases bidi <;> simp [encodeFrame, decodeFrame, decStreamLimit, decVar_enc, h, hv]

theorem frame_roundtrip_streamsBlocked (bidi : Bool) (v : Nat) (rest : List Nat) (h : WF (.streamsBlocked bidi v)) :
    decodeFrame (encodeFrame (.streamsBlocked bidi v) ++ rest) = .ok (.streamsBlocked bidi v, rest) := by
  simp [WF] at h
  have hv : V v := Nat.le_trans h bound_le_max
  cases bidi <;> simp [encodeFrame, decodeFrame, decStreamLimit, decVar_enc, h, hv]

theorem frame_roundtrip_pathChallenge (d rest : List Nat) (h : WF (.pathChallenge d)) :
    decodeFrame (encodeFrame (.pathChallenge d) ++ rest) = .ok (.pathChallenge d, rest) := by
  simp [WF] at h
  simp [encodeFrame, decodeFrame, decPath, decSlice_append' _ _ _ h]

theorem frame_roundtrip_pathResponse (d rest : List Nat) (h : WF (.pathResponse d)) :
    decodeFrame (encodeFrame (.pathResponse d) ++ rest) = .ok (.pathResponse d, rest) := by
  simp [WF] at h
  simp [encodeFrame, decodeFrame, decPath, decSlice_append' _ _ _ h]

theorem frame_roundtrip_crypto (off : Nat) (d rest : List Nat) (h : WF (.crypto off d)) :
    decodeFrame (encodeFrame (.crypto off d) ++ rest) = .ok (.crypto off d, rest) := by
  simp [WF] at h
  simp [encodeFrame, decodeFrame, decCrypto, decVar_enc, decSliceVar_enc, h]

theorem frame_roundtrip_newToken (t rest : List Nat) (h : WF (.newToken t)) :
    decodeFrame (encodeFrame (.newToken t) ++ rest) = .ok (.newToken t, rest) := by
  simp [WF] at h
  simp [encodeFrame, decodeFrame, decNewToken, decSliceVar_enc, h]

theorem frame_roundtrip_newConnectionId (seq rpt : Nat) (cid tok rest : List Nat)
    (h : WF (.newConnectionId seq rpt cid tok)) :
    decodeFrame (encodeFrame (.newConnectionId seq rpt cid tok) ++ rest)
      = .ok (.newConnectionId seq rpt cid tok, rest) := by
  simp [WF, cidLenMin, cidLenMax] at h
  obtain ⟨h1, h2, h3, h4, h5⟩ := h
  have hr : V rpt := Nat.le_trans h2 h1
  simp [encodeFrame, decodeFrame, decNewConnectionId, decVar_enc, decU8_cons, h1, hr, decSlice_append,
    decSlice_append' _ _ _ h5, cidLenMin, cidLenMax]
  have hne : cid ≠ [] := by intro hc; simp [hc] at h3
  rw [if_neg (by omega), if_neg (by simp [hne]; omega)]

theorem frame_roundtrip_connectionClose (code : Nat) (ft : Option Nat) (reason : Option (List Nat))
    (rest : List Nat) (h : WF (.connectionClose code ft reason)) :
    decodeFrame (encodeFrame (.connectionClose code ft reason) ++ rest)
      = .ok (.connectionClose code ft reason, rest) := by
  simp [WF] at h
  obtain ⟨h1, h2, h3⟩ := h
  cases ft <;> cases reason <;> simp [OptAll] at h2 h3 <;>
    simp [encodeFrame, decodeFrame, decConnectionClose, decVar_enc, decSliceVar_enc, decSliceVar_zero, h1, h2, h3]

/-- a PADDING run followed by anything: the decoder takes the maximal run of zero bytes -/
theorem padding_run (k : Nat) (rest : List Nat) :
    decodeFrame (encodeFrame (.padding (k + 1)) ++ rest)
      = .ok (.padding (k + 1 + zeroRun rest), rest.drop (zeroRun rest)) := by
  simp only [encodeFrame, List.replicate_succ, List.cons_append]
  simp only [decodeFrame, decPadding]
  simp [zeroRun_replicate]
  constructor
  · omega
  · rw [List.drop_append]
    simp

theorem frame_roundtrip_padding (n : Nat) (rest : List Nat) (h : WF (.padding n))
    (hr : RestOk (.padding n) rest) :
    decodeFrame (encodeFrame (.padding n) ++ rest) = .ok (.padding n, rest) := by
  simp [WF] at h
  simp [RestOk] at hr
  obtain ⟨k, rfl⟩ : ∃ k, n = k + 1 := ⟨n - 1, by omega⟩
  have hz : zeroRun rest = 0 := zeroRun_of_head rest (by simpa using hr)
  rw [padding_run, hz]
  simp

theorem frame_roundtrip_mtuProbingComplete (m : Nat) (rest : List Nat) (h : WF (.mtuProbingComplete m)) :
    decodeFrame (encodeFrame (.mtuProbingComplete m) ++ rest) = .ok (.mtuProbingComplete m, rest) := by
  simp [WF] at h
  simp only [encodeFrame, List.append_assoc, decodeFrame_mtuTag]
  have hv : V mtuTag := by decide
  have hne : mtuTag ≠ dcTag := by decide
  unfold handleExtension
  rw [decVar_enc _ _ hv]
  simp only [hne, if_false, if_true, decMtu, decU16]
  rw [decSlice_append' 2 _ _ (by simp [beBytes])]
  simp [beVal_beBytes2 m h]

theorem frame_roundtrip_dcStatelessResetTokens (toks rest : List Nat)
    (h : WF (.dcStatelessResetTokens toks)) :
    decodeFrame (encodeFrame (.dcStatelessResetTokens toks) ++ rest)
      = .ok (.dcStatelessResetTokens toks, rest) := by
  simp [WF, resetTokenLen, dcMaxCount] at h
  obtain ⟨h1, h2, h3⟩ := h
  simp only [encodeFrame, List.append_assoc, decodeFrame_dcTag]
  have hv : V dcTag := by decide
  have hc : V (toks.length / resetTokenLen) := by
    simp [resetTokenLen, V, VarInt.maxValue]; omega
  unfold handleExtension
  rw [decVar_enc _ _ hv]
  simp only [if_true, decDcTokens]
  rw [decVar_enc _ _ hc]
  have hmul : toks.length / resetTokenLen * resetTokenLen = toks.length := by
    simp [resetTokenLen]; omega
  simp only [hmul]
  rw [if_neg (by simp [resetTokenLen]; omega), if_neg (by simp [resetTokenLen, dcMaxCount]; omega),
    if_neg (by simp)]
  simp

theorem frame_roundtrip_datagram (isLast : Bool) (d rest : List Nat) (h : WF (.datagram isLast d))
    (hr : RestOk (.datagram isLast d) rest) :
    decodeFrame (encodeFrame (.datagram isLast d) ++ rest) = .ok (.datagram isLast d, rest) := by
  simp [WF] at h
  cases isLast
  · simp [encodeFrame, decodeFrame, decDatagram, decSliceVar_enc, h]
  · simp [RestOk] at hr
    simp [encodeFrame, decodeFrame, decDatagram, hr]

/-- the last-frame form swallows whatever follows it in the packet -/
theorem datagram_last_swallows (d rest : List Nat) :
    decodeFrame (encodeFrame (.datagram true d) ++ rest) = .ok (.datagram true (d ++ rest), []) := by
  simp [encodeFrame, decodeFrame, decDatagram]

theorem frame_roundtrip_stream (sid off : Nat) (isLast isFin : Bool) (d rest : List Nat)
    (h : WF (.stream sid off isLast isFin d)) (hr : RestOk (.stream sid off isLast isFin d) rest) :
    decodeFrame (encodeFrame (.stream sid off isLast isFin d) ++ rest)
      = .ok (.stream sid off isLast isFin d, rest) := by
  simp [WF] at h
  obtain ⟨h1, h2, h3⟩ := h
  by_cases ho : off = 0
  · subst ho
    cases isLast <;> cases isFin <;> simp [RestOk] at hr <;>
      simp [encodeFrame, streamTag, decodeFrame, decStream, decVar_enc, decSliceVar_enc, h1, h3, hr]
  · cases isLast <;> cases isFin <;> simp [RestOk] at hr <;>
      simp [encodeFrame, streamTag, ho, decodeFrame, decStream, decVar_enc, decSliceVar_enc, h1, h2, h3, hr]

theorem stream_last_swallows (sid off : Nat) (isFin : Bool) (d rest : List Nat)
    (h : WF (.stream sid off true isFin d)) :
    decodeFrame (encodeFrame (.stream sid off true isFin d) ++ rest)
      = .ok (.stream sid off true isFin (d ++ rest), []) := by
  simp [WF] at h
  obtain ⟨h1, h2, h3⟩ := h
  by_cases ho : off = 0
  · subst ho
    cases isFin <;>
      simp [encodeFrame, streamTag, decodeFrame, decStream, decVar_enc, h1]
  · cases isFin <;>
      simp [encodeFrame, streamTag, ho, decodeFrame, decStream, decVar_enc, h1, h2]

theorem frame_roundtrip_ack (delay : Nat) (ranges : List (Nat × Nat)) (ecn : Option (Nat × Nat × Nat))
    (rest : List Nat) (h : WF (.ack delay ranges ecn)) :
    decodeFrame (encodeFrame (.ack delay ranges ecn) ++ rest) = .ok (.ack delay ranges ecn, rest) := by
  simp only [WF] at h
  obtain ⟨hd, hr, he⟩ := h
  match ranges, hr with
  | (s, e) :: rs, hr =>
    simp only [AckRangesWF] at hr
    obtain ⟨hse, hve, hb, hlen⟩ := hr
    have hc : V rs.length := by unfold V; omega
    have key : ∀ tail, decAckRanges e (encVar rs.length ++ (encVar (e - s) ++ (encAckTail s rs ++ tail)))
        = .ok ((s, e) :: rs, tail) := by
      intro tail
      unfold decAckRanges
      rw [decVar_enc _ _ hc]
      simp only []
      rw [if_neg (by omega), ackIter_enc rs s e tail hse hve hb]
    match ecn, he with
    | none, _ =>
      simp only [encodeFrame, encAck, Option.isSome_none, List.append_assoc, List.cons_append,
        List.nil_append]
      simp [decodeFrame, decAck, decVar_enc, hve, hd, key]
    | some (a, b, c), he =>
      simp only [OptAll] at he
      obtain ⟨ha, hb', hc'⟩ := he
      simp only [encodeFrame, encAck, Option.isSome_some, List.append_assoc, List.cons_append,
        List.nil_append]
      simp [decodeFrame, decAck, decEcn, decVar_enc, hve, hd, key, ha, hb', hc']

/-- everything an encoder emits decodes back to the same value (all 23 frame types) -/
theorem frame_roundtrip (f : Frame) (rest : List Nat) (h : WF f) (hr : RestOk f rest) :
    decodeFrame (encodeFrame f ++ rest) = .ok (f, rest) := by
  cases f with
  | padding n => exact frame_roundtrip_padding n rest h hr
  | ping => exact frame_roundtrip_ping rest
  | ack d rs e => exact frame_roundtrip_ack d rs e rest h
  | resetStream a b c => exact frame_roundtrip_resetStream a b c rest h
  | stopSending a b => exact frame_roundtrip_stopSending a b rest h
  | crypto o d => exact frame_roundtrip_crypto o d rest h
  | newToken t => exact frame_roundtrip_newToken t rest h
  | stream s o l f d => exact frame_roundtrip_stream s o l f d rest h hr
  | maxData v => exact frame_roundtrip_maxData v rest h
  | maxStreamData a b => exact frame_roundtrip_maxStreamData a b rest h
  | maxStreams b v => exact frame_roundtrip_maxStreams b v rest h
  | dataBlocked v => exact frame_roundtrip_dataBlocked v rest h
  | streamDataBlocked a b => exact frame_roundtrip_streamDataBlocked a b rest h
  | streamsBlocked b v => exact frame_roundtrip_streamsBlocked b v rest h
  | newConnectionId s r c t => exact frame_roundtrip_newConnectionId s r c t rest h
  | retireConnectionId v => exact frame_roundtrip_retireConnectionId v rest h
  | pathChallenge d => exact frame_roundtrip_pathChallenge d rest h
  | pathResponse d => exact frame_roundtrip_pathResponse d rest h
  | connectionClose c ft r => exact frame_roundtrip_connectionClose c ft r rest h
  | handshakeDone => exact frame_roundtrip_handshakeDone rest
  | datagram l d => exact frame_roundtrip_datagram l d rest h hr
  | dcStatelessResetTokens t => exact frame_roundtrip_dcStatelessResetTokens t rest h
  | mtuProbingComplete m => exact frame_roundtrip_mtuProbingComplete m rest h


/-- non-vacuity: a STREAM frame with offset, length and trailing bytes; an ACK with three ranges and
    ECN counts; a NEW_CONNECTION_ID at both cid-length bounds -/
example : WF (.stream 4 70000 false true [1, 2, 3]) ∧ RestOk (.stream 4 70000 false true [1, 2, 3]) [9, 9] := by decide
example : WF (.ack 25 [(90, 100), (70, 80), (0, 5)] (some (1, 2, 3))) := by decide
example : WF (.newConnectionId 7 7 [1] (List.replicate 16 0)) ∧
    WF (.newConnectionId 7 0 (List.replicate 20 5) (List.replicate 16 0)) := by decide
example : WF (.maxStreams true maxStreamsBound) ∧ ¬ WF (.maxStreams true (maxStreamsBound + 1)) := by decide
example : decodeFrame (encodeFrame (.ack 25 [(90, 100), (70, 80), (0, 5)] none) ++ [1]) =
    .ok (.ack 25 [(90, 100), (70, 80), (0, 5)] none, [1]) := by rfl

/-! ## announced size -/

/-- the encoder writes exactly the number of bytes `encoding_size()` announces (every value, no
    well-formedness needed) -/
theorem frame_size (f : Frame) : (encodeFrame f).length = encodingSize f := by
  cases f with
  | ack d rs e =>
    match rs, e with
    | [], _ => simp [encodeFrame, encAck, encodingSize]
    | (s, e') :: rs, none =>
      simp [encodeFrame, encAck, encodingSize, encVar_length, encAckTail_length]; omega
    | (s, e') :: rs, some (a, b, c) =>
      simp [encodeFrame, encAck, encodingSize, encVar_length, encAckTail_length]; omega
  | stream s o l f d =>
    by_cases ho : o = 0 <;> cases l <;> simp [encodeFrame, encodingSize, encLenVar, encVar_length, ho] <;> omega
  | connectionClose c ft r =>
    cases ft <;> cases r <;> simp [encodeFrame, encodingSize, encLenVar, encVar_length] <;> omega
  | datagram l d => cases l <;> simp [encodeFrame, encodingSize, encLenVar, encVar_length] <;> omega
  | mtuProbingComplete m => simp [encodeFrame, encodingSize, encVar_length, beBytes]
  | _ => simp [encodeFrame, encodingSize, encLenVar, encVar_length] <;> omega


/-! ## the guards of `WF` are exact: every excluded point is rejected (or normalised) by the decoder -/

/-- `Padding { length: 0 }` encodes to nothing at all -/
theorem padding_zero_vanishes (rest : List Nat) :
    decodeFrame (encodeFrame (.padding 0) ++ rest) = decodeFrame rest := by
  simp [encodeFrame]

theorem newToken_empty_rejected (rest : List Nat) :
    decodeFrame (encodeFrame (.newToken []) ++ rest) = .error .emptyToken := by
  simp [encodeFrame, decodeFrame, decNewToken, encLenVar, encVar_zero, decSliceVar_zero]

theorem maxStreams_rejected (bidi : Bool) (v : Nat) (rest : List Nat) (hv : V v) (h : maxStreamsBound < v) :
    decodeFrame (encodeFrame (.maxStreams bidi v) ++ rest) = .error .maxStreams := by
  cases bidi <;> simp [encodeFrame, decodeFrame, decStreamLimit, decVar_enc, hv, Nat.not_le.mpr h]

theorem streamsBlocked_rejected (bidi : Bool) (v : Nat) (rest : List Nat) (hv : V v) (h : maxStreamsBound < v) :
    decodeFrame (encodeFrame (.streamsBlocked bidi v) ++ rest) = .error .maxStreams := by
  cases bidi <;> simp [encodeFrame, decodeFrame, decStreamLimit, decVar_enc, hv, Nat.not_le.mpr h]

theorem newConnectionId_retire_rejected (seq rpt : Nat) (cid tok rest : List Nat) (h1 : V seq) (h2 : V rpt)
    (h : seq < rpt) :
    decodeFrame (encodeFrame (.newConnectionId seq rpt cid tok) ++ rest) = .error .retirePriorTo := by
  simp [encodeFrame, decodeFrame, decNewConnectionId, decVar_enc, h1, h2, h]

theorem newConnectionId_cidLen_rejected (seq rpt : Nat) (cid tok rest : List Nat) (h1 : V seq)
    (h2 : rpt ≤ seq) (h : cid.length < cidLenMin ∨ cidLenMax < cid.length) :
    decodeFrame (encodeFrame (.newConnectionId seq rpt cid tok) ++ rest) = .error .cidLen := by
  have hr : V rpt := Nat.le_trans h2 h1
  simp [encodeFrame, decodeFrame, decNewConnectionId, decVar_enc, decU8_cons, h1, hr, Nat.not_lt.mpr h2, h]

/-- `reason: Some(&[])` is encoded like `None` and decodes to `None` -/
theorem connectionClose_empty_reason_normalised (code : Nat) (ft : Option Nat) (rest : List Nat)
    (h1 : V code) (h2 : OptAll V ft) :
    decodeFrame (encodeFrame (.connectionClose code ft (some [])) ++ rest)
      = .ok (.connectionClose code ft none, rest) := by
  cases ft <;> simp [OptAll] at h2 <;>
    simp [encodeFrame, decodeFrame, decConnectionClose, decVar_enc, encLenVar, encVar_zero, decSliceVar_zero, h1, h2]

theorem dcTokens_empty_rejected (toks rest : List Nat) (h : toks.length < resetTokenLen) :
    decodeFrame (encodeFrame (.dcStatelessResetTokens toks) ++ rest) = .error .dcZero := by
  simp only [encodeFrame, List.append_assoc, decodeFrame_dcTag]
  have hv : V dcTag := by decide
  have h0 : toks.length / resetTokenLen = 0 := Nat.div_eq_of_lt h
  unfold handleExtension
  rw [decVar_enc _ _ hv, h0]
  simp only [if_true, decDcTokens]
  rw [decVar_enc _ _ (by decide)]
  simp

theorem dcTokens_tooMany_rejected (toks rest : List Nat) (hv' : V (toks.length / resetTokenLen))
    (h : dcMaxCount < toks.length / resetTokenLen) :
    decodeFrame (encodeFrame (.dcStatelessResetTokens toks) ++ rest) = .error .dcTooMany := by
  simp only [encodeFrame, List.append_assoc, decodeFrame_dcTag]
  have hv : V dcTag := by decide
  unfold handleExtension
  rw [decVar_enc _ _ hv]
  simp only [if_true, decDcTokens]
  rw [decVar_enc _ _ hv']
  simp only []
  rw [if_neg (by simp [dcMaxCount] at h; omega), if_pos h]

/-- decode ∘ encode is the identity on values, encode ∘ decode is NOT the identity on bytes:
    a STREAM frame with the OFF bit and offset 0 is re-encoded without the offset field -/
theorem stream_reencode_not_identity :
    decodeFrame [0x0c, 1, 0] = .ok (.stream 1 0 true false [], []) ∧
    encodeFrame (.stream 1 0 true false []) = [0x08, 1] := ⟨by rfl, by decide⟩

/-- Every value the decoder returns is well-formed: `WF` is exactly the range of the decoder, and
    a decoded frame can always be re-encoded (no `VarInt` underflow / missing-range panic in the
    ACK encoder, cid length fits its `u8` prefix, …). -/
theorem decoded_frame_wf {b r : List Nat} {f : Frame} (hb : BytesOk b) (hl : b.length < 2 ^ 62)
    (h : decodeFrame b = .ok (f, r)) : WF f := decodeFrame_wf hb hl h

theorem restOk_nil (f : Frame) : RestOk f [] := by
  unfold RestOk
  split <;> simp

/-- `decode (encode (decode b)) = decode b` on values, for every input (the re-encoded bytes may
    differ from `b`: `stream_reencode_not_identity`) -/
theorem reencode_roundtrip {b r : List Nat} {f : Frame} (hb : BytesOk b) (hl : b.length < 2 ^ 62)
    (h : decodeFrame b = .ok (f, r)) : decodeFrame (encodeFrame f) = .ok (f, []) := by
  have := frame_roundtrip f [] (decodeFrame_wf hb hl h) (restOk_nil f)
  simpa using this

/-! ## totality: progress and termination of the frame-sequence loop -/

/-- every decoded frame consumes at least one byte -/
theorem frames_decode_progress {b r : List Nat} {f : Frame} (h : decodeFrame b = .ok (f, r)) :
    r.length < b.length := decodeFrame_progress h

/-- the ACK range loop: `n` calls of `AckRangesIter::next` either fail or consume at least `n`
    bytes and yield exactly `n` ranges (so a huge ACK Range Count cannot make the loop run long) -/
theorem ackRanges_terminates (n largest : Nat) (buf : List Nat) {rs : List (Nat × Nat)} {r : List Nat}
    (h : ackIter n largest buf = some (rs, r)) : r.length + n ≤ buf.length ∧ rs.length = n :=
  ackIter_len n largest buf h

/-- the fuel (= payload length) of the executable loop never runs out: it computes exactly the
    well-founded loop `decodeFramesWF`, whose termination proof is `frames_decode_progress` -/
theorem decodeFrames_fuel_sufficient (b : List Nat) : decodeFrames b = some (decodeFramesWF b) :=
  decodeFramesFuel_eq_wf b.length b (Nat.le_refl _)

/-- decoding a payload always terminates with a list of frames or an error -/
theorem decodeFrames_total (b : List Nat) : ∃ res, decodeFrames b = some res :=
  ⟨_, decodeFrames_fuel_sufficient b⟩

/-- success means the whole payload was consumed, frame by frame -/
theorem decodeFrames_ok_iff (b : List Nat) (fs : List Frame) :
    decodeFrames b = some (.ok fs) ↔ Segments b fs := by
  rw [decodeFrames_fuel_sufficient]
  simp only [Option.some.injEq]
  exact decodeFramesWF_ok_iff b fs

end Quic.Proofs.C05
