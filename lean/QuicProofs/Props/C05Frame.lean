import QuicProofs.Lemmas.Frame
/-
  C05 (frames): the property theorems. `WF` / `RestOk` and the helper lemmas live in
  `QuicProofs/Lemmas/Frame.lean`; the model is `QuicModel/Codec/Frame.lean`, the independent RFC
  transcription is `QuicModel/Rfc/Frame.lean`.
-/
namespace Quic.Proofs.C05
open Quic Quic.Codec Quic.Codec.Frame Quic.Proofs.Frame

/-! ## round trip, per frame type: `decodeFrame (encodeFrame f ++ rest) = ok (f, rest)` -/

theorem frame_roundtrip_ping (rest : List Nat) :
    decodeFrame (encodeFrame .ping ++ rest) = .ok (.ping, rest) := by
  simp [encodeFrame, decodeFrame]

theorem frame_roundtrip_handshakeDone (rest : List Nat) :
    decodeFrame (encodeFrame .handshakeDone ++ rest) = .ok (.handshakeDone, rest) := by
  simp [encodeFrame, decodeFrame]

theorem frame_roundtrip_maxData (v : Nat) (rest : List Nat) (h : WF (.maxData v)) :
    decodeFrame (encodeFrame (.maxData v) ++ rest) = .ok (.maxData v, rest) := by
  simp [WF] at h
  simp [encodeFrame, decodeFrame, dec1, decVar_enc, h]

theorem frame_roundtrip_resetStream (a b c : Nat) (rest : List Nat) (h : WF (.resetStream a b c)) :
    decodeFrame (encodeFrame (.resetStream a b c) ++ rest) = .ok (.resetStream a b c, rest) := by
  simp [WF] at h
  simp [encodeFrame, decodeFrame, dec3, decVar_enc, h]

theorem frame_roundtrip_stopSending (a b : Nat) (rest : List Nat) (h : WF (.stopSending a b)) :
    decodeFrame (encodeFrame (.stopSending a b) ++ rest) = .ok (.stopSending a b, rest) := by
  simp [WF] at h
  simp [encodeFrame, decodeFrame, dec2, decVar_enc, h]

theorem frame_roundtrip_maxStreamData (a b : Nat) (rest : List Nat) (h : WF (.maxStreamData a b)) :
    decodeFrame (encodeFrame (.maxStreamData a b) ++ rest) = .ok (.maxStreamData a b, rest) := by
  simp [WF] at h
  simp [encodeFrame, decodeFrame, dec2, decVar_enc, h]

theorem frame_roundtrip_dataBlocked (v : Nat) (rest : List Nat) (h : WF (.dataBlocked v)) :
    decodeFrame (encodeFrame (.dataBlocked v) ++ rest) = .ok (.dataBlocked v, rest) := by
  simp [WF] at h
  simp [encodeFrame, decodeFrame, dec1, decVar_enc, h]

theorem frame_roundtrip_streamDataBlocked (a b : Nat) (rest : List Nat) (h : WF (.streamDataBlocked a b)) :
    decodeFrame (encodeFrame (.streamDataBlocked a b) ++ rest) = .ok (.streamDataBlocked a b, rest) := by
  simp [WF] at h
  simp [encodeFrame, decodeFrame, dec2, decVar_enc, h]

theorem frame_roundtrip_retireConnectionId (v : Nat) (rest : List Nat) (h : WF (.retireConnectionId v)) :
    decodeFrame (encodeFrame (.retireConnectionId v) ++ rest) = .ok (.retireConnectionId v, rest) := by
  simp [WF] at h
  simp [encodeFrame, decodeFrame, dec1, decVar_enc, h]

theorem bound_le_max : maxStreamsBound ≤ VarInt.maxValue := by decide

theorem frame_roundtrip_maxStreams (bidi : Bool) (v : Nat) (rest : List Nat) (h : WF (.maxStreams bidi v)) :
    decodeFrame (encodeFrame (.maxStreams bidi v) ++ rest) = .ok (.maxStreams bidi v, rest) := by
  simp [WF] at h
  have hv : V v := Nat.le_trans h bound_le_max
  cases bidi <;> simp [encodeFrame, decodeFrame, decStreamLimit, decVar_enc, h, hv]

theorem frame_roundtrip_streamsBlocked (bidi : Bool) (v : Nat) (rest : List Nat) (h : WF (.streamsBlocked bidi v)) :
    decodeFrame (encodeFrame (.streamsBlocked bidi v) ++ rest) = .ok (.streamsBlocked bidi v, rest) := by
  simp [WF] at h
  have hv : V v := Nat.le_trans h bound_le_max
  cases bidi <;> simp [encodeFrame, decodeFrame, decStreamLimit, decVar_enc, h, hv]

theorem frame_roundtrip_pathChallenge (d rest : List Nat) (h : WF (.pathChallenge d)) :
    decodeFrame (encodeFrame (.pathChallenge d) ++ rest) = .ok (.pathChallenge d, rest) := by
  simp [WF] at h
  simp [encodeFrame, decodeFrame, decPath, decSlice_append' _ _ _ h]

theorem frame_roundtrip_pathResponse (d rest : List Nat) (h : WF (.pathResponse d)) :
    decodeFrame (encodeFrame (.pathResponse d) ++ rest) = .ok (.pathResponse d, rest) := by
  simp [WF] at h
  simp [encodeFrame, decodeFrame, decPath, decSlice_append' _ _ _ h]

theorem frame_roundtrip_crypto (off : Nat) (d rest : List Nat) (h : WF (.crypto off d)) :
    decodeFrame (encodeFrame (.crypto off d) ++ rest) = .ok (.crypto off d, rest) := by
  simp [WF] at h
  simp [encodeFrame, decodeFrame, decCrypto, decVar_enc, decSliceVar_enc, h]

theorem frame_roundtrip_newToken (t rest : List Nat) (h : WF (.newToken t)) :
    decodeFrame (encodeFrame (.newToken t) ++ rest) = .ok (.newToken t, rest) := by
  simp [WF] at h
  simp [encodeFrame, decodeFrame, decNewToken, decSliceVar_enc, h]

theorem frame_roundtrip_newConnectionId (seq rpt : Nat) (cid tok rest : List Nat)
    (h : WF (.newConnectionId seq rpt cid tok)) :
    decodeFrame (encodeFrame (.newConnectionId seq rpt cid tok) ++ rest)
      = .ok (.newConnectionId seq rpt cid tok, rest) := by
  simp [WF, cidLenMin, cidLenMax] at h
  obtain ⟨h1, h2, h3, h4, h5⟩ := h
  have hr : V rpt := Nat.le_trans h2 h1
  simp [encodeFrame, decodeFrame, decNewConnectionId, decVar_enc, decU8_cons, h1, hr, decSlice_append,
    decSlice_append' _ _ _ h5, cidLenMin, cidLenMax]
  have hne : cid ≠ [] := by intro hc; simp [hc] at h3
  rw [if_neg (by omega), if_neg (by simp [hne]; omega)]

theorem frame_roundtrip_connectionClose (code : Nat) (ft : Option Nat) (reason : Option (List Nat))
    (rest : List Nat) (h : WF (.connectionClose code ft reason)) :
    decodeFrame (encodeFrame (.connectionClose code ft reason) ++ rest)
      = .ok (.connectionClose code ft reason, rest) := by
  simp [WF] at h
  obtain ⟨h1, h2, h3⟩ := h
  cases ft <;> cases reason <;> simp [OptAll] at h2 h3 <;>
    simp [encodeFrame, decodeFrame, decConnectionClose, decVar_enc, decSliceVar_enc, decSliceVar_zero, h1, h2, h3]

/-- a PADDING run followed by anything: the decoder takes the maximal run of zero bytes -/
theorem padding_run (k : Nat) (rest : List Nat) :
    decodeFrame (encodeFrame (.padding (k + 1)) ++ rest)
      = .ok (.padding (k + 1 + zeroRun rest), rest.drop (zeroRun rest)) := by
  simp only [encodeFrame, List.replicate_succ, List.cons_append]
  simp only [decodeFrame, decPadding]
  simp [zeroRun_replicate]
  constructor
  · omega
  · rw [List.drop_append]
    simp

theorem frame_roundtrip_padding (n : Nat) (rest : List Nat) (h : WF (.padding n))
    (hr : RestOk (.padding n) rest) :
    decodeFrame (encodeFrame (.padding n) ++ rest) = .ok (.padding n, rest) := by
  simp [WF] at h
  simp [RestOk] at hr
  obtain ⟨k, rfl⟩ : ∃ k, n = k + 1 := ⟨n - 1, by omega⟩
  have hz : zeroRun rest = 0 := zeroRun_of_head rest (by simpa using hr)
  rw [padding_run, hz]
  simp

theorem frame_roundtrip_mtuProbingComplete (m : Nat) (rest : List Nat) (h : WF (.mtuProbingComplete m)) :
    decodeFrame (encodeFrame (.mtuProbingComplete m) ++ rest) = .ok (.mtuProbingComplete m, rest) := by
  simp [WF] at h
  simp only [encodeFrame, List.append_assoc, decodeFrame_mtuTag]
  have hv : V mtuTag := by decide
  have hne : mtuTag ≠ dcTag := by decide
  unfold handleExtension
  rw [decVar_enc _ _ hv]
  simp only [hne, if_false, if_true, decMtu, decU16]
  rw [decSlice_append' 2 _ _ (by simp [beBytes])]
  simp [beVal_beBytes2 m h]

theorem frame_roundtrip_dcStatelessResetTokens (toks rest : List Nat)
    (h : WF (.dcStatelessResetTokens toks)) :
    decodeFrame (encodeFrame (.dcStatelessResetTokens toks) ++ rest)
      = .ok (.dcStatelessResetTokens toks, rest) := by
  simp [WF, resetTokenLen, dcMaxCount] at h
  obtain ⟨h1, h2, h3⟩ := h
  simp only [encodeFrame, List.append_assoc, decodeFrame_dcTag]
  have hv : V dcTag := by decide
  have hc : V (toks.length / resetTokenLen) := by
    simp [resetTokenLen, V, VarInt.maxValue]; omega
  unfold handleExtension
  rw [decVar_enc _ _ hv]
  simp only [if_true, decDcTokens]
  rw [decVar_enc _ _ hc]
  have hmul : toks.length / resetTokenLen * resetTokenLen = toks.length := by
    simp [resetTokenLen]; omega
  simp only [hmul]
  rw [if_neg (by simp [resetTokenLen]; omega), if_neg (by simp [resetTokenLen, dcMaxCount]; omega),
    if_neg (by simp)]
  simp

theorem frame_roundtrip_datagram (isLast : Bool) (d rest : List Nat) (h : WF (.datagram isLast d))
    (hr : RestOk (.datagram isLast d) rest) :
    decodeFrame (encodeFrame (.datagram isLast d) ++ rest) = .ok (.datagram isLast d, rest) := by
  simp [WF] at h
  cases isLast
  · simp [encodeFrame, decodeFrame, decDatagram, decSliceVar_enc, h]
  · simp [RestOk] at hr
    simp [encodeFrame, decodeFrame, decDatagram, hr]

/-- the last-frame form swallows whatever follows it in the packet -/
theorem datagram_last_swallows (d rest : List Nat) :
    decodeFrame (encodeFrame (.datagram true d) ++ rest) = .ok (.datagram true (d ++ rest), []) := by
  simp [encodeFrame, decodeFrame, decDatagram]

theorem frame_roundtrip_stream (sid off : Nat) (isLast isFin : Bool) (d rest : List Nat)
    (h : WF (.stream sid off isLast isFin d)) (hr : RestOk (.stream sid off isLast isFin d) rest) :
    decodeFrame (encodeFrame (.stream sid off isLast isFin d) ++ rest)
      = .ok (.stream sid off isLast isFin d, rest) := by
  simp [WF] at h
  obtain ⟨h1, h2, h3⟩ := h
  by_cases ho : off = 0
  · subst ho
    cases isLast <;> cases isFin <;> simp [RestOk] at hr <;>
      simp [encodeFrame, streamTag, decodeFrame, decStream, decVar_enc, decSliceVar_enc, h1, h3, hr]
  · cases isLast <;> cases isFin <;> simp [RestOk] at hr <;>
      simp [encodeFrame, streamTag, ho, decodeFrame, decStream, decVar_enc, decSliceVar_enc, h1, h2, h3, hr]

theorem stream_last_swallows (sid off : Nat) (isFin : Bool) (d rest : List Nat)
    (h : WF (.stream sid off true isFin d)) :
    decodeFrame (encodeFrame (.stream sid off true isFin d) ++ rest)
      = .ok (.stream sid off true isFin (d ++ rest), []) := by
  simp [WF] at h
  obtain ⟨h1, h2, h3⟩ := h
  by_cases ho : off = 0
  · subst ho
    cases isFin <;>
      simp [encodeFrame, streamTag, decodeFrame, decStream, decVar_enc, h1]
  · cases isFin <;>
      simp [encodeFrame, streamTag, ho, decodeFrame, decStream, decVar_enc, h1, h2]

end Quic.Proofs.C05
