import QuicProofs.Lemmas.KeySet
import QuicProofs.Lemmas.KeyUpdateSystem
/-
  C15 — AEAD limits and key updates: the property theorems.

  Model: `Quic.Conn.KeySet` (transcription of `KeySet<K>` / `limited::Key<K>`, keys = generation
  numbers, ideal AEAD) and `Quic.Conn.KeyUpdateSystem` (two endpoints, a channel that reorders,
  duplicates and drops). `Repairs.pinned` is the code as it is; `Repairs.f5` adds the candidate
  repair of the rotate guard in `decrypt_packet`; `Repairs.full` also the one of `encryption_phase`.

  Full-strength statements that are FALSE of the pinned code are proved for the repaired models,
  refuted for the pinned model on concrete witnesses (`*_counterexample`, replayed on the real
  `KeySet` by the D harness), and proved for the pinned model as `*_partial` under the hypothesis
  `Calm`: no genuine old-phase packet opens, and no packet is sealed under a key that needs an
  update, while the derivation timer is armed.
-/
namespace Quic.Proofs.C15
open Quic.Conn.KeySet Quic.Conn.KeyUpdateSystem Quic.Proofs.KeySetLemmas Quic.Proofs.KeySystemLemmas

/-! ## 1. confidentiality limit -/

/-- per slot, after every history and for every repair setting: the packet counter of a key never
    exceeds the confidentiality limit of its cipher suite -/
theorem conf_limit_never_exceeded (r : Repairs) (c i w : Nat) (ops : List Op) :
    let s := (Conn.KeySet.run r (Conn.KeySet.init c i w, []) ops).1
    s.slot0.encrypted ≤ s.slot0.limit ∧ s.slot1.encrypted ≤ s.slot1.limit ∧ s.slot0.limit = c ∧ s.slot1.limit = c := by
  intro s
  have h : WF c s := wf_run r ops [] (wf_init c i w)
  have := h.lim0; have := h.lim1; have := h.cap0; have := h.cap1
  omega

/-- `encrypt` refuses (and changes nothing) rather than exceed the limit -/
theorem encrypt_refuses_at_limit (r : Repairs) (s : State)
    (h : (s.slot (s.encryptionPhase r)).limit ≤ (s.slot (s.encryptionPhase r)).encrypted) :
    encrypt r s = (s, .aeadLimit) := by
  unfold encrypt
  simp [Slot.expired, h]

/-- whenever it seals, the key it used was strictly below its limit and is charged exactly once -/
theorem encrypt_seals_below_limit (r : Repairs) (s s' : State) (ph : Bool) (g : Nat)
    (h : encrypt r s = (s', .sealed ph g)) :
    (s.slot ph).encrypted < (s.slot ph).limit ∧ (s'.slot ph).encrypted = (s.slot ph).encrypted + 1 ∧
      g = (s.slot ph).keyGen ∧ s'.slot (!ph) = s.slot (!ph) := by
  unfold encrypt at h
  by_cases he : (s.slot (s.encryptionPhase r)).expired = true
  · simp [he] at h
  · simp only [he, if_false, Bool.false_eq_true, Prod.mk.injEq, EncOut.sealed.injEq] at h
    obtain ⟨hs, hph, hg⟩ := h
    subst hs hph hg
    simp [Slot.expired] at he
    simp [he]

example : (encrypt Repairs.pinned (Conn.KeySet.init 10 3 3)).2 = .sealed false 0 := by decide

/-- FULL STRENGTH (per key, not per slot): with the repaired rotate guard no key generation ever
    seals more packets than the confidentiality limit, whatever the history -/
theorem conf_limit_per_generation (r : Repairs) (hr : r.rotateOnlyIfNoUpdateInProgress = true) (c i w : Nat)
    (ops : List Op) (g : Nat) :
    ((Conn.KeySet.run r (Conn.KeySet.init c i w, []) ops).2).count g ≤ c :=
  (inv_run r hr ops (inv_init c i w)).capped g

/-- … which is false of the pinned code: after a rotate-back the timer re-derives generation 1 into
    a slot with a fresh counter (limit 3, generation 1 seals 4 packets) -/
theorem conf_limit_per_generation_counterexample :
    ((Conn.KeySet.run Repairs.pinned (Conn.KeySet.init 3 9 2, [])
      [.decrypt true (some 1) 5 0 100, .encrypt, .encrypt, .decrypt false (some 0) 2 4 200, .timeout 1000000,
       .decrypt true (some 1) 6 4 1000300, .encrypt, .encrypt]).2).count 1 = 4 := by decide

/-- the pinned code on calm histories -/
theorem conf_limit_per_generation_partial (r : Repairs) (c i w : Nat) (ops : List Op)
    (h : Calm r (Conn.KeySet.init c i w) ops) (g : Nat) :
    ((Conn.KeySet.run r (Conn.KeySet.init c i w, []) ops).2).count g ≤ c := by
  rw [run_eq_full r ops _ _ h]
  exact conf_limit_per_generation Repairs.full rfl c i w ops g

/-! ## 2. the key update starts before the limit -/

/-- `needs_update` flips exactly `window − 1` packets before the limit -/
theorem needs_update_threshold (k : Slot) (w : Nat) :
    k.needsUpdate w = true ↔ k.limit - w + 1 ≤ k.encrypted := by
  simp [Slot.needsUpdate]; omega

/-- once the active key is inside the update window (and no update is in progress) every further
    packet is sealed under the NEXT phase: the key update has been initiated -/
theorem update_started_before_limit (r : Repairs) (s : State) (hn : s.active.needsUpdate s.window = true)
    (hidle : s.timer = none) : s.encryptionPhase r = !s.phase := by
  simp [State.encryptionPhase, hn, State.updateInProgress, hidle]

example : (Conn.KeySet.init 10 3 3).timer = none ∧
    ¬ (Conn.KeySet.init 10 3 3).active.needsUpdate 3 = true := by decide

/-- hence a key in the *current* phase is retired `window − 1` packets before its limit: a packet
    sealed under the current phase bit leaves the active key at most at `limit − window + 1` -/
theorem active_key_retired_before_limit (r : Repairs) (s s' : State) (g : Nat)
    (hidle : s.timer = none ∨ r.noInitiateWhileUpdateInProgress = false)
    (h : encrypt r s = (s', .sealed s.phase g)) :
    s'.active.encrypted ≤ s.active.limit - s.window + 1 := by
  rw [encrypt_eq] at h
  by_cases hu : usesOther r s = true
  · simp only [hu, if_true] at h
    split at h
    · cases h
    · simp only [Prod.mk.injEq, EncOut.sealed.injEq] at h
      have := h.2.1
      cases hp : s.phase <;> simp [hp] at this
  · simp only [hu, if_false, Bool.false_eq_true] at h
    split at h
    · cases h
    · simp only [Prod.mk.injEq, EncOut.sealed.injEq] at h
      rw [← h.1]
      have hnu : s.active.needsUpdate s.window = false := by
        unfold usesOther State.updateInProgress at hu
        rcases hidle with ht | hr
        · simpa [ht] using hu
        · simpa [hr] using hu
      simp [Slot.needsUpdate] at hnu
      simp [bump]; omega

/-! ## 3. integrity limit -/

/-- one failed authentication: the counter goes up by one and the connection is closed with
    AEAD_LIMIT_REACHED iff the counter has reached the integrity limit -/
theorem integrity_limit_step (r : Repairs) (s : State) (ph : Bool) (g : Option Nat) (pn la pto : Nat)
    (hfail : opens s ph g = false) :
    (decrypt r s ph g pn la pto).1.failures = s.failures + 1 ∧
      ((decrypt r s ph g pn la pto).2 = .aeadLimit ↔ s.integrityLimit ≤ s.failures + 1) ∧
      ((decrypt r s ph g pn la pto).2 = .aeadLimit ∨ (decrypt r s ph g pn la pto).2 = .decryptError) := by
  rw [decrypt_eq]
  simp only [hfail, if_false, Bool.false_eq_true]
  by_cases hi : integrityReached (s.failures + 1) s.integrityLimit = true <;>
    simp only [hi, if_true, if_false, Bool.false_eq_true] <;> simp [integrityReached] at hi <;> simp <;> omega

/-- over every history: the k-th packet that fails authentication (k = 0, 1, …; forged, corrupted or
    sealed under a key the endpoint no longer holds) is answered with AEAD_LIMIT_REACHED iff
    `k + 1 ≥ integrity limit` — i.e. exactly from the moment the number of failures reaches the limit -/
theorem integrity_limit_closes (r : Repairs) (c i w : Nat) (ops : List Op) (k : Nat) (o : Out)
    (h : (failuresOf (outputs r (Conn.KeySet.init c i w) ops))[k]? = some o) :
    o = .dec .aeadLimit ↔ i ≤ k + 1 := by
  have := failures_close r ops (Conn.KeySet.init c i w) k o h
  simpa [Conn.KeySet.init] using this

example : (failuresOf (outputs Repairs.pinned (Conn.KeySet.init 10 2 3)
    [.decrypt true none 1 0 10, .encrypt, .decrypt false none 2 0 10]))[1]? = some (.dec .aeadLimit) := by decide

/-! ## 4. a higher packet number is never protected with an older key generation -/

/-- the 3-event witness of DESIGN §5 F5 on the pinned transcription: a new-phase packet, then a
    delayed genuine packet of the previous phase (pn 3 < largest acked 5) while the derivation timer
    is armed — the endpoint ends up on the OLD key (generation 0) with its rotation counter at 2;
    the next packet is sealed with generation 0 -/
theorem phase_rotated_back_counterexample :
    let s₁ := (decrypt Repairs.pinned (Conn.KeySet.init 10 3 3) true (some 1) 10 0 9000).1
    let s₂ := (decrypt Repairs.pinned s₁ false (some 0) 3 5 9500).1
    s₁.active.keyGen = 1 ∧ s₁.generation = 1 ∧ s₂.active.keyGen = 0 ∧ s₂.generation = 2 ∧
      (encrypt Repairs.pinned s₂).2 = .sealed false 0 := by decide

/-- FALSE of the pinned code: packets 0 and 1 are sealed with generations 1 and 0 -/
theorem gen_monotone_counterexample :
    (Conn.KeySet.run Repairs.pinned (Conn.KeySet.init 10 3 3, [])
      [.decrypt true (some 1) 10 0 9000, .encrypt, .decrypt false (some 0) 3 5 9500, .encrypt]).2 = [0, 1] := by decide

/-- the rotate-guard repair alone is not enough: while the derivation timer is armed the "next" slot
    still holds the previous key, and `encryption_phase()` moves there as soon as the active key
    needs an update (limit 4, window 2: packets 0,1,2 generation 1, packet 3 generation 0) -/
theorem gen_monotone_counterexample_f5 :
    (Conn.KeySet.run Repairs.f5 (Conn.KeySet.init 4 3 2, [])
      [.decrypt true (some 1) 10 0 9000, .encrypt, .encrypt, .encrypt, .encrypt]).2 = [0, 1, 1, 1] := by decide

/-- FULL STRENGTH, both repairs, every history (any interleaving of sealing, genuine / delayed /
    duplicated / forged arrivals and timer expiries): the log of sealing generations (newest first)
    is non-increasing — a packet with a higher packet number is never protected with an older key
    generation than a packet with a lower one -/
theorem gen_monotone_in_pn (c i w : Nat) (ops : List Op) :
    ((Conn.KeySet.run Repairs.full (Conn.KeySet.init c i w, []) ops).2).Pairwise (· ≥ ·) :=
  (mono_run ops (inv_init c i w) ⟨by simp, List.Pairwise.nil⟩).sorted

/-- the pinned code (or the code with one repair) on calm histories -/
theorem gen_monotone_in_pn_partial (r : Repairs) (c i w : Nat) (ops : List Op) (h : Calm r (Conn.KeySet.init c i w) ops) :
    ((Conn.KeySet.run r (Conn.KeySet.init c i w, []) ops).2).Pairwise (· ≥ ·) := by
  rw [run_eq_full r ops _ _ h]
  exact gen_monotone_in_pn c i w ops

/-- non-vacuity: a calm history of the pinned model with a complete peer-initiated key update, the
    timer expiry, a locally initiated update, its completion, the next timer expiry and a packet of a
    discarded generation; it seals generations 0,1,1,1,2 -/
example : Calm Repairs.pinned (Conn.KeySet.init 4 3 2)
    [.encrypt, .decrypt true (some 1) 1 0 9000, .encrypt, .timeout 9000, .encrypt, .encrypt, .encrypt,
     .decrypt false (some 2) 2 1 20000, .timeout 30000, .decrypt true (some 1) 1 1 20000] ∧
    (Conn.KeySet.run Repairs.pinned (Conn.KeySet.init 4 3 2, [])
      [.encrypt, .decrypt true (some 1) 1 0 9000, .encrypt, .timeout 9000, .encrypt, .encrypt, .encrypt,
       .decrypt false (some 2) 2 1 20000, .timeout 30000, .decrypt true (some 1) 1 1 20000]).2 = [2, 1, 1, 1, 0] := by
  decide

/-- with the repaired rotate guard the active key generation never goes backwards -/
theorem active_generation_monotone (r : Repairs) (hr : r.rotateOnlyIfNoUpdateInProgress = true) (c i w : Nat)
    (ops more : List Op) :
    (Conn.KeySet.run r (Conn.KeySet.init c i w, []) ops).1.active.keyGen ≤
      (Conn.KeySet.run r (Conn.KeySet.init c i w, []) (ops ++ more)).1.active.keyGen := by
  have hsplit : ∀ (a b : List Op) (sl : State × List Nat),
      Conn.KeySet.run r sl (a ++ b) = Conn.KeySet.run r (Conn.KeySet.run r sl a) b := by
    intro a b
    induction a with
    | nil => intro sl; rfl
    | cons op a ih => intro sl; obtain ⟨s, log⟩ := sl; simp only [List.cons_append, Conn.KeySet.run]; exact ih _
  rw [hsplit]
  have hi := inv_run r hr ops (inv_init c i w)
  exact active_gen_le_run r hr more hi

/-! ## 5. two endpoints and a reordering / duplicating / dropping channel -/

/-- FULL STRENGTH (both repairs), system level: among the packets an endpoint has ever sealed, a
    higher packet number never carries an older key generation -/
theorem gen_monotone_in_pn_system (c i w : Nat) (ops : List SysOp) (x : Who) (p q : Packet) :
    let y := Conn.KeyUpdateSystem.run Repairs.full (Conn.KeyUpdateSystem.init c i w) ops
    p ∈ (y.get x).out → q ∈ (y.get x).out → p.pn < q.pn → p.gen ≤ q.gen := by
  intro y hp hq hlt
  have hi : SysInv c y := sysinv_run Repairs.full rfl ops (sysinv_init c i w)
  have hm : SysMono y := sysmono_run ops (sysinv_init c i w) (sysmono_init c i w)
  have h1 := (hi.ep x).numbered
  have h2 : (y.get x).out.Pairwise (fun a b => a.gen ≥ b.gen) := by
    have := (hm x).sorted
    unfold gens at this
    exact List.pairwise_map.mp this
  rcases pairwise_mem (h1.and h2) hp hq with rfl | h | h
  · omega
  · omega
  · exact h.2

/-- FULL STRENGTH (repaired rotate guard), every history of the two-endpoint system, every
    reordering / duplication / loss, forged packets included:
    (a) neither endpoint's active key is ever more than one generation ahead of the peer's;
    (b) whatever genuine packet of the peer the channel hands over — now, late, or again — it is
        decrypted whenever its generation is the receiver's current one, the next one (no update in
        progress) or the previous one (update in progress, old key retained), and
    (c) doing so never moves the receiver to an older key. -/
theorem peers_keep_decrypting (r : Repairs) (hr : r.rotateOnlyIfNoUpdateInProgress = true) (c i w : Nat)
    (ops : List SysOp) (x : Who) :
    let y := Conn.KeyUpdateSystem.run r (Conn.KeyUpdateSystem.init c i w) ops
    (y.get x).ks.active.keyGen ≤ (y.get x.peer).ks.active.keyGen + 1 ∧
    ∀ p ∈ (y.get x.peer).out, ∀ la pto,
      (p.gen = (y.get x).ks.active.keyGen ∨
        (p.gen = (y.get x).ks.active.keyGen + 1 ∧ (y.get x).ks.timer = none) ∨
        (p.gen + 1 = (y.get x).ks.active.keyGen ∧ (y.get x).ks.timer.isSome = true)) →
      (y.get x).ks.generation < generationMax →
      ((Conn.KeyUpdateSystem.step r y (.deliver x p.pn la pto)).2 = .dec .same ∨
        ∃ g, (Conn.KeyUpdateSystem.step r y (.deliver x p.pn la pto)).2 = .dec (.rotated g)) ∧
      (y.get x).ks.active.keyGen ≤ ((Conn.KeyUpdateSystem.step r y (.deliver x p.pn la pto)).1.get x).ks.active.keyGen := by
  intro y
  have hi : SysInv c y := sysinv_run r hr ops (sysinv_init c i w)
  refine ⟨sync_of_sysinv hi x, ?_⟩
  intro p hp la pto hheld hgen
  have hfind := findPn_of_mem (hi.ep x.peer).numbered hp
  have hinv := (hi.ep x).inv
  have hop : opens (y.get x).ks p.phase (some p.gen) = true := by
    refine opens_of_held hinv.wf _ _ ((hi.ep x.peer).tagged p hp).1 ?_
    rcases hheld with h | ⟨h, ht⟩ | ⟨h, ht⟩
    · exact Or.inl h
    · right; have := hinv.idle_gen ht; omega
    · right; have := hinv.armed_gen ht; omega
  have hstep : Conn.KeyUpdateSystem.step r y (.deliver x p.pn la pto) =
      (y.set x ((y.get x).receive r p.phase (some p.gen) p.pn la pto).1,
        ((y.get x).receive r p.phase (some p.gen) p.pn la pto).2) := by
    simp only [Conn.KeyUpdateSystem.step, hfind]
  rw [hstep]
  refine ⟨?_, ?_⟩
  · simp only [receive_snd]
    rw [decrypt_eq]
    simp only [hop, if_true]
    split
    · split
      · omega
      · exact Or.inr ⟨_, rfl⟩
    · exact Or.inl rfl
  · simp only [get_set_same]
    exact active_gen_le_step r hr hinv (.decrypt p.phase (some p.gen) p.pn la pto)

/-- non-vacuity of the hypotheses of `peers_keep_decrypting`: A has run into its update window and
    sealed packet 3 under the next generation; B (idle) holds exactly that key as its next one -/
example :
    let y := Conn.KeyUpdateSystem.run Repairs.f5 (Conn.KeyUpdateSystem.init 4 3 2) [.enc .A, .enc .A, .enc .A, .enc .A]
    ∃ p ∈ (y.get .A).out, p.pn = 3 ∧ p.gen = (y.get .B).ks.active.keyGen + 1 ∧ (y.get .B).ks.timer = none ∧
      (y.get .B).ks.generation < generationMax := by decide

/-- FALSE of the pinned code. Genuine packets only, no forgery: B updates (its key ran into the
    window), A follows and answers, B completes the update; a *delayed* packet of B's previous phase
    reaches A inside A's derivation window and rotates A back to generation 0; A's timer expires; B
    runs into the window again and moves to generation 2. A now sits two generations behind B and
    every packet B sends from now on fails authentication at A. -/
theorem peers_keep_decrypting_counterexample :
    let ops : List SysOp :=
      (List.replicate 9 (.enc .B)) ++
      [.deliver .A 8 0 9000, .enc .A, .deliver .B 0 0 9000, .timeout .B 9000, .deliver .A 0 5 9500, .timeout .A 9500] ++
      (List.replicate 9 (.enc .B))
    let y := Conn.KeyUpdateSystem.run Repairs.pinned (Conn.KeyUpdateSystem.init 10 4 3) ops
    y.a.ks.active.keyGen = 0 ∧ y.b.ks.active.keyGen = 1 ∧
      (y.b.findPn 17).map (·.gen) = some 2 ∧
      (Conn.KeyUpdateSystem.step Repairs.pinned y (.deliver .A 17 0 20000)).2 = .dec .decryptError := by
  decide +kernel

/-- the pinned code on calm histories: generations monotone in the packet number -/
theorem gen_monotone_in_pn_system_partial (r : Repairs) (c i w : Nat) (ops : List SysOp)
    (h : SysCalm r (Conn.KeyUpdateSystem.init c i w) ops) (x : Who) (p q : Packet) :
    let y := Conn.KeyUpdateSystem.run r (Conn.KeyUpdateSystem.init c i w) ops
    p ∈ (y.get x).out → q ∈ (y.get x).out → p.pn < q.pn → p.gen ≤ q.gen := by
  rw [sys_run_eq_full r ops _ h]
  exact gen_monotone_in_pn_system c i w ops x p q

/-- non-vacuity: a calm history of the pinned system — A initiates an update, B follows, A completes,
    both timers expire, a packet of a discarded generation and a forged one fail, a duplicate opens -/
example : SysCalm Repairs.pinned (Conn.KeyUpdateSystem.init 4 3 2)
    [.enc .A, .enc .A, .enc .A, .enc .A, .deliver .B 3 0 9000, .enc .B, .deliver .A 0 3 9500,
     .timeout .B 100000, .timeout .A 100000, .deliver .B 0 3 200000, .forge .A true 7 0 1, .deliver .B 3 3 200000, .enc .A] := by
  decide

/-- the pinned code on calm histories: the endpoints stay within one generation of each other -/
theorem peers_keep_decrypting_partial (r : Repairs) (c i w : Nat) (ops : List SysOp)
    (h : SysCalm r (Conn.KeyUpdateSystem.init c i w) ops) (x : Who) :
    let y := Conn.KeyUpdateSystem.run r (Conn.KeyUpdateSystem.init c i w) ops
    (y.get x).ks.active.keyGen ≤ (y.get x.peer).ks.active.keyGen + 1 ∧
    ∀ p ∈ (y.get x.peer).out,
      (p.gen = (y.get x).ks.active.keyGen ∨
        (p.gen = (y.get x).ks.active.keyGen + 1 ∧ (y.get x).ks.timer = none) ∨
        (p.gen + 1 = (y.get x).ks.active.keyGen ∧ (y.get x).ks.timer.isSome = true)) →
      opens (y.get x).ks p.phase (some p.gen) = true := by
  rw [sys_run_eq_full r ops _ h]
  intro y
  have hi : SysInv c y := sysinv_run Repairs.full rfl ops (sysinv_init c i w)
  refine ⟨sync_of_sysinv hi x, ?_⟩
  intro p hp hheld
  have hinv := (hi.ep x).inv
  refine opens_of_held hinv.wf _ _ ((hi.ep x.peer).tagged p hp).1 ?_
  rcases hheld with h | ⟨h, ht⟩ | ⟨h, ht⟩
  · exact Or.inl h
  · right; have := hinv.idle_gen ht; omega
  · right; have := hinv.armed_gen ht; omega

end Quic.Proofs.C15
