import QuicModel.Recovery.SendGate
import QuicProofs.Lemmas.Congestion
/-
  C10 — congestion control within RFC 9002 bounds.

  The theorems are about the SKELETONS `Recovery.Cubic` / `Recovery.Bbr`: every floating-point
  expression of cubic.rs and every value BBR derives from its network model is an oracle parameter of
  the step; the theorems quantify over ALL histories and ALL oracle values. Tie to the code: G
  (Bridge/Congestion.lean: constants, comparison operators, guard shapes) and relational D (the
  real controllers' every step is a step `accept` accepts, `cubic_admit_sound` / `bbr_admit_sound`).

  Hypotheses that are facts about floats (not enforced by a guard of the code):
    * `cubic_cwnd_ge_min_partial`: in the TCP-friendly branch `w_est * mds ≥ minimum_window`
      (`congestion_avoidance` assigns `w_est.min(max_cwnd)` without a lower clamp);
    * `cubic_loss_never_increases`: `fl(cwnd * BETA_CUBIC) ≤ cwnd` (β = 0.7 < 1 is bridged; rounding
      to nearest is monotone and `cwnd` is representable).
-/
namespace Quic.Proofs.C10
open Quic.Recovery
open Quic.Proofs.Lemmas

/-! ## CUBIC -/

/-- The window never falls below two maximum-size datagrams — PARTIAL.
    Full statement (kept visible):
      `∀ mds ≤ u16Max, ∀ h s, Cubic.run (Cubic.init mds) h = some s → 2 * s.mds ≤ s.w`.
    It is not provable for the skeleton (`cubic_cwnd_ge_min_skeleton_witness`): the TCP-friendly
    branch of `congestion_avoidance` assigns `w_est.min(max_cwnd)` with no lower clamp. Proved under
    the hypothesis that wherever that branch is taken `w_est` (in bytes) is at least the minimum
    window. In exact arithmetic the branch condition `w_cubic < w_est` implies it
    (`w_cubic(t) ≥ cwnd_start ≥ 2` datagrams for `t ≥ 0`); in f32 it is not evident, and
    tools/gen/congestion.py hunts for the excluded point on the real code (`near_min_history`:
    losses at 2..3 datagrams of window, recovery exits at t = 0, tiny/huge RTTs, MTU changes). Nothing
    found so far: no `cc:cubic:cwnd-below-min` in 3·10^5 generated ops per run; an f32 emulation of the
    first congestion-avoidance ack (t = 0) over every mds in 1200..9000 and every f32 window within
    ±0.06 bytes of 20/7·mds (the only place where `0.7·w_max` is within rounding error of 2) found
    `w_cubic(0)` at most one ulp below 2.0 and never below `w_est(0)` when that is below 2.0. -/
theorem cubic_cwnd_ge_min_partial (mds : Nat) (hm : mds ≤ Cubic.u16Max) (h : List (Cubic.Op × Cubic.Oracle))
    (s : Cubic.State) (hw : Cubic.Along Cubic.WEstOk (Cubic.init mds) h)
    (hr : Cubic.run (Cubic.init mds) h = some s) :
    2 * s.mds ≤ s.w :=
  (Cubic.run_minOk h _ s (Cubic.init_minOk hm) hw hr).1

/-- the hypothesis cannot be dropped in the skeleton: a history that ends below the minimum window
    (loss, fast retransmission, its ack taking the TCP-friendly branch with `w_est = 0`) -/
theorem cubic_cwnd_ge_min_skeleton_witness :
    ∃ (h : List (Cubic.Op × Cubic.Oracle)) (s : Cubic.State),
      Cubic.run (Cubic.init 1200) h = some s ∧ s.w < 2 * s.mds := by
  have key : (Cubic.run (Cubic.init 1200)
      [(.sent 1200 10 (some false), {}), (.lost 1200 false 20, { decrease := 8400 }),
       (.sent 1200 30 (some false), {}), (.ack 30 1200 40, { tcpFriendly := true, wEst := 0 })]).any
      (fun s => decide (s.w < 2 * s.mds)) = true := by decide
  cases hr : Cubic.run (Cubic.init 1200)
      [(.sent 1200 10 (some false), {}), (.lost 1200 false 20, { decrease := 8400 }),
       (.sent 1200 30 (some false), {}), (.ack 30 1200 40, { tcpFriendly := true, wEst := 0 })] with
  | none => rw [hr] at key; cases key
  | some s =>
    rw [hr] at key
    exact ⟨_, s, hr, by simpa using key⟩

/-- non-vacuity of `cubic_cwnd_ge_min_partial`: a history through slow start, loss, recovery exit and
    the TCP-friendly branch that satisfies the hypothesis -/
example : Cubic.Along Cubic.WEstOk (Cubic.init 1200)
    [(.sent 1200 10 (some false), {}), (.lost 1200 false 20, { decrease := 8400 }),
     (.sent 1200 30 (some false), {}), (.ack 30 1200 40, { tcpFriendly := true, wEst := 8400, maxCwndRaw := 9000 })] :=
  Cubic.along_of_alongB _ _ (by decide)

example : (Cubic.run (Cubic.init 1200)
    [(.sent 1200 10 (some false), {}), (.lost 1200 false 20, { decrease := 8400 }),
     (.sent 1200 30 (some false), {}), (.ack 30 1200 40, { tcpFriendly := true, wEst := 8400, maxCwndRaw := 9000 })]).map (·.w)
    = some 8400 := by decide

/-- `op` is a loss or ECN signal -/
def IsCongestionSignal : Cubic.Op → Prop
  | .lost _ _ _ => True
  | .ecn _ => True
  | _ => False

/-- A loss or ECN signal never increases the window: for every state reached by a history (as in
    `cubic_cwnd_ge_min_partial`), every loss / ECN call and every oracle value with
    `fl(cwnd * BETA_CUBIC) ≤ cwnd`. -/
theorem cubic_loss_never_increases (mds : Nat) (hm : mds ≤ Cubic.u16Max) (h : List (Cubic.Op × Cubic.Oracle))
    (s : Cubic.State) (hw : Cubic.Along Cubic.WEstOk (Cubic.init mds) h)
    (hr : Cubic.run (Cubic.init mds) h = some s)
    (op : Cubic.Op) (o : Cubic.Oracle) (hop : IsCongestionSignal op) (hβ : o.decrease ≤ s.w)
    (s' : Cubic.State) (hs : Cubic.step s op o = some s') : s'.w ≤ s.w := by
  have hmin := (Cubic.run_minOk h _ s (Cubic.init_minOk hm) hw hr).1
  cases op with
  | lost b p now =>
    simp only [Cubic.step, Cubic.onPacketLost] at hs
    split at hs
    · cases hs
    · split at hs
      · cases hs
      · split at hs
        · cases hs; exact hmin
        · cases hs
          exact Cubic.onCongestionEvent_le { s with inflight := s.inflight - b } now o hmin hβ
  | ecn now =>
    simp only [Cubic.step, Cubic.onExplicitCongestion] at hs
    cases hs
    exact Cubic.onCongestionEvent_le s now o hmin hβ
  | sent _ _ _ => exact absurd hop (by simp only [IsCongestionSignal, not_false_eq_true])
  | rtt _ => exact absurd hop (by simp only [IsCongestionSignal, not_false_eq_true])
  | ack _ _ _ => exact absurd hop (by simp only [IsCongestionSignal, not_false_eq_true])
  | mtu _ => exact absurd hop (by simp only [IsCongestionSignal, not_false_eq_true])
  | discard _ => exact absurd hop (by simp only [IsCongestionSignal, not_false_eq_true])

/-- non-vacuity: the multiplicative decrease 12000 → 8400 -/
example : (Cubic.step { Cubic.init 1200 with inflight := 1200 } (.lost 1200 false 20) { decrease := 8400 }).map (·.w) = some 8400 := by
  decide

/-- At most one reduction per recovery period. A loss or ECN signal outside a recovery period opens
    one at the time of the event … -/
theorem cubic_reduction_opens_recovery (s : Cubic.State) (now : Nat) (o : Cubic.Oracle)
    (hp : s.phase.isRecovery = false) :
    (Cubic.onCongestionEvent s now o).phase = .recovery now true := by
  unfold Cubic.onCongestionEvent
  split
  · rename_i h; rw [h] at hp; cases hp
  · rfl

/-- … and while it is open the window does not change, whatever happens: any sequence of sends, RTT
    updates, acks of packets sent at or before the recovery start, further (non-persistent) losses, ECN
    signals and discards, with any oracle values, leaves the window where the first reduction put it
    and the controller in the same recovery period. (Only an ack for a packet sent AFTER the start
    — one round trip later — ends the period; persistent congestion and MTU changes are separate
    events with their own rules.) -/
theorem cubic_one_reduction_per_recovery (s s' : Cubic.State) (t : Nat) (fr : Bool)
    (h : List (Cubic.Op × Cubic.Oracle)) (hp : s.phase = .recovery t fr)
    (hk : ∀ x ∈ h, Cubic.KeepsRecovery t x.1) (hr : Cubic.run s h = some s') :
    s'.w = s.w ∧ ∃ fr', s'.phase = .recovery t fr' :=
  Cubic.run_in_recovery h s s' t fr hp hk hr

/-- non-vacuity: after the reduction at t = 20, two more losses, an ECN signal and an ack of an old
    packet leave the window at 8400 -/
example : (Cubic.run { Cubic.init 1200 with inflight := 6000, lastSent := some 10, underUtilized := false }
    [(.lost 1200 false 20, { decrease := 8400 }), (.lost 1200 false 21, { decrease := 5880 }),
     (.ecn 22, { decrease := 100 }), (.ack 10 1200 23, {}), (.lost 1200 false 24, { decrease := 1 })]).map
      (fun s => (s.w, s.phase)) = some (8400, .recovery 20 true) := by decide

/-- Remark (not part of C10's text): the reaction does not look at the lost packet's send time. Once the
    period was ended by an ack for a packet sent after its start, the loss of a packet that was sent
    BEFORE that start reduces the window a second time (12000 → 8400 → 5880 here), where RFC 9002
    B.6 `InCongestionRecovery(sent_time)` would not react. The two reductions are at least one round
    trip apart. tools/gen/congestion.py counts these (`rfc_b6_deviations`, evidence only). -/
example : (Cubic.run { Cubic.init 1200 with inflight := 6000, lastSent := some 10, underUtilized := false }
    [(.lost 1200 false 20, { decrease := 8400 }), (.sent 1200 30 (some false), {}), (.ack 30 1200 40, { atMax := true }),
     (.lost 1200 false 41, { decrease := 5880 })]).map (·.w) = some 5880 := by decide

/-- The window does not grow while the sender is application-limited: once a send left the window
    application-limited and under-utilised (`under_utilized`, see `cubic_under_utilized_after_send`),
    no sequence of acks (RTT updates, discards) changes the window until the next send.
    "Application-limited" is the code's notion: `app_limited` as reported by the transport AND
    `is_congestion_window_under_utilized()` (more than 3 datagrams of room; in slow start additionally
    less than half the window in use). A send flagged `app_limited` that leaves less room than that
    does not stop growth (deliberate, kMaxBurstBytes of Chromium); the python oracle uses the same
    definition. -/
theorem cubic_no_growth_when_app_limited (s s' : Cubic.State) (h : List (Cubic.Op × Cubic.Oracle))
    (hu : s.underUtilized = true) (hq : ∀ x ∈ h, Cubic.Quiet x.1) (hr : Cubic.run s h = some s') :
    s'.w = s.w ∧ s'.underUtilized = true :=
  Cubic.run_quiet_under_utilized h s s' hu hq hr

/-- what the flag means: after a congestion-controlled send with `app_limited = Some(true)` it is
    exactly `is_congestion_window_under_utilized()` of the new state (with `Some(false)` it is false) -/
theorem cubic_under_utilized_after_send (s s' : Cubic.State) (b now : Nat) (a : Bool) (o : Cubic.Oracle) (hb : b ≠ 0)
    (hs : Cubic.step s (.sent b now (some a)) o = some s') :
    s'.underUtilized = (a && Cubic.isUnderUtilized s') := by
  simp only [Cubic.step, Cubic.onPacketSent, hb, if_false] at hs
  split at hs
  · cases hs
  · split at hs
    · cases hs
    · cases hs
      have hss : ∀ p : Cubic.Phase, p.clearFastRetransmission.isSlowStart = p.isSlowStart := by
        intro p; cases p with
        | slowStart => rfl
        | recovery t fr => cases fr <;> rfl
        | congAvoid t => rfl
      simp only [Cubic.underUtilizedAfterSend, Cubic.isUnderUtilized, Cubic.isCongestionLimited, hss]

example : (Cubic.step (Cubic.init 1200) (.sent 100 5 (some true)) {}).map (·.underUtilized) = some true := by decide
example : (Cubic.run (Cubic.init 1200) [(.sent 100 5 (some true), {}), (.ack 5 100 9, { maxCwndRaw := 99999, ssInc := 100 })]).map (·.w)
    = some 12000 := by decide
/-- … whereas the same ack grows the window when the send was not application-limited -/
example : (Cubic.run (Cubic.init 1200) [(.sent 100 5 (some false), {}), (.ack 5 100 9, { maxCwndRaw := 99999, ssInc := 100 })]).map (·.w)
    = some 12100 := by decide

/-- Persistent congestion collapses the window to the minimum and restarts slow start. -/
theorem cubic_persistent_congestion_collapses (s s' : Cubic.State) (b now : Nat) (o : Cubic.Oracle)
    (hs : Cubic.step s (.lost b true now) o = some s') :
    s'.w = 2 * s'.mds ∧ s'.phase = .slowStart := by
  simp only [Cubic.step, Cubic.onPacketLost] at hs
  split at hs
  · cases hs
  · split at hs
    · cases hs
    · simp only [if_true] at hs
      cases hs
      have := (Cubic.onCongestionEvent_fields { s with inflight := s.inflight - b } now o).1
      exact ⟨by simp only [Cubic.minimumWindow, Cubic.minWindowPackets]; rw [this], rfl⟩

example : (Cubic.step { Cubic.init 9000 with w := 500000, inflight := 9000 } (.lost 9000 true 7) {}).map (fun s => (s.w, s.phase))
    = some (18000, .slowStart) := by decide

/-- The in-flight counter is exact: along every history that does not panic,
    `bytes_in_flight + acked + lost + discarded = sent`. -/
theorem cubic_bif_exact (mds : Nat) (h : List (Cubic.Op × Cubic.Oracle)) (s : Cubic.State)
    (hr : Cubic.run (Cubic.init mds) h = some s) :
    s.inflight + Cubic.resolvedTotal h = Cubic.sentTotal h := by
  have := (Cubic.run_inflight h _ s hr).1
  simpa [Cubic.init] using this

/-- No overflow (CUBIC): window and in-flight counter stay within `u32` along every history, and
    under the caller contract (never resolve more than is in flight, never put more than `u32::MAX`
    bytes in flight, RTT updates only after a send) no call panics — for all oracle values. -/
theorem cubic_no_overflow (mds : Nat) (hm : mds ≤ Cubic.u16Max) (h : List (Cubic.Op × Cubic.Oracle)) (s : Cubic.State)
    (hr : Cubic.run (Cubic.init mds) h = some s) :
    s.w ≤ Cubic.u32Max ∧ s.inflight ≤ Cubic.u32Max ∧
    ∀ (op : Cubic.Op) (o : Cubic.Oracle), Cubic.Contract s op → ∃ s', Cubic.step s op o = some s' := by
  have hw0 : (Cubic.init mds).w ≤ Cubic.u32Max := by
    show Cubic.initialWindow mds ≤ Cubic.u32Max
    unfold Cubic.initialWindow Cubic.minimumWindow Cubic.minWindowPackets Cubic.initialWindowPackets
      Cubic.initialWindowLimit Cubic.initialWindowLimitPackets Cubic.u32Max
    unfold Cubic.u16Max at hm
    omega
  have hw := (Cubic.run_w_le h _ s hw0 hm hr).1
  have hi := (Cubic.run_inflight h _ s hr).2 (by show 0 ≤ Cubic.u32Max; omega)
  exact ⟨hw, hi, fun op o hc => Cubic.step_no_panic o hi hc⟩

/-- what `ok` of the relational driver means: the observed post-state is a step of the skeleton -/
theorem cubic_admit_sound (s s' : Cubic.State) (op : Cubic.Op) (obs : Cubic.Obs) (o : Cubic.Oracle)
    (h : Cubic.accept s op obs = some (o, s')) : Cubic.step s op o = some s' ∧ Cubic.observe s' = obs :=
  Cubic.accept_sound h

/-! ## BBR

  The growing write of `set_cwnd`'s not-filled-pipe branch exists in two variants (parameter `sat` of
  `Bbr.step`): `false` = `cwnd += newly_acked as u32` (what /repo has when `Bbr.saturatingGrowth = false`),
  `true` = `cwnd = cwnd.saturating_add(newly_acked as u32)`. Which one the source has is bridged
  (`Bridge.Congestion.bbr_growth_variant_eq`). Floor and ledger hold for both variants. -/

/-- The window never falls below four maximum-size datagrams, for all oracle values (i.e. whatever
    the bandwidth / round / probe state machines compute). -/
theorem bbr_cwnd_ge_min (sat : Bool) (mds : Nat) (s0 s : Bbr.State) (h : List (Bbr.Op × Bbr.Oracle))
    (h0 : Bbr.init mds = some s0) (hr : Bbr.run sat s0 h = some s) : 4 * s.mds ≤ s.cwnd :=
  (Bbr.run_inv sat h s0 s (Bbr.init_inv h0).1 hr).1.1

example : (Bbr.run false ⟨1200, 12000, 0, 2400, none, false⟩
    [(.ack 1 1200 5, { update := true, filledPipe := true, maxInflight := 10, capRaw := 0 })]).map (·.cwnd) = some 4800 := by
  decide

/-- The in-flight counter is exact. -/
theorem bbr_bif_exact (sat : Bool) (mds : Nat) (s0 s : Bbr.State) (h : List (Bbr.Op × Bbr.Oracle))
    (h0 : Bbr.init mds = some s0) (hr : Bbr.run sat s0 h = some s) :
    s.inflight + Bbr.resolvedTotal h = Bbr.sentTotal h := by
  have a := Bbr.init_inv h0
  have := (Bbr.run_inv sat h s0 s a.1 hr).2.1
  rw [a.2] at this
  omega

/-- No overflow (BBR), saturating variant of the write site: window and in-flight counter stay within
    `u32` along every history and under the caller contract no call panics, for all oracle values.
    This is the statement about /repo once `Bbr.saturatingGrowth = true` is bridged. -/
theorem bbr_no_overflow (mds : Nat) (s0 s : Bbr.State) (h : List (Bbr.Op × Bbr.Oracle))
    (h0 : Bbr.init mds = some s0) (hr : Bbr.run true s0 h = some s) :
    s.cwnd ≤ Bbr.u32Max ∧ s.inflight ≤ Bbr.u32Max ∧
    ∀ (op : Bbr.Op) (o : Bbr.Oracle), Bbr.Contract s op → ∃ s', Bbr.step true s op o = some s' := by
  have a := Bbr.init_inv h0
  have b := Bbr.run_inv true h s0 s a.1 hr
  have hi : s.inflight ≤ Bbr.u32Max := b.2.2 (by rw [a.2]; show 0 ≤ Bbr.u32Max; omega)
  exact ⟨b.1.2.1, hi, fun op o hc => Bbr.step_no_panic o hi hc (Or.inl rfl)⟩

/-- No overflow (BBR), either variant — PARTIAL for the unchecked `+=`. Window and in-flight counter
    stay within `u32` along every history that does not panic, and under the caller contract no call
    panics PROVIDED the addition fits (`GrowthFits`: `max cwnd prior_cwnd + newly_acked ≤ u32::MAX`).
    Without `GrowthFits` the statement is false for `sat = false`: `bbr_set_cwnd_overflow_counterexample`. -/
theorem bbr_no_overflow_partial (sat : Bool) (mds : Nat) (s0 s : Bbr.State) (h : List (Bbr.Op × Bbr.Oracle))
    (h0 : Bbr.init mds = some s0) (hr : Bbr.run sat s0 h = some s) :
    s.cwnd ≤ Bbr.u32Max ∧ s.inflight ≤ Bbr.u32Max ∧
    ∀ (op : Bbr.Op) (o : Bbr.Oracle), Bbr.Contract s op → Bbr.GrowthFits s op → ∃ s', Bbr.step sat s op o = some s' := by
  have a := Bbr.init_inv h0
  have b := Bbr.run_inv sat h s0 s a.1 hr
  have hi : s.inflight ≤ Bbr.u32Max := b.2.2 (by rw [a.2]; show 0 ≤ Bbr.u32Max; omega)
  exact ⟨b.1.2.1, hi, fun op o hc hf => Bbr.step_no_panic o hi hc (Or.inr hf)⟩

/-- non-vacuity of `GrowthFits` / the contract: an ordinary ack in Startup -/
example : Bbr.Contract ⟨1200, 12000, 0, 2400, none, false⟩ (.ack 1 1200 5) ∧ Bbr.GrowthFits ⟨1200, 12000, 0, 2400, none, false⟩ (.ack 1 1200 5) := by
  constructor
  · show (1200 : Nat) ≤ 2400; decide
  · show max (12000 : Nat) 0 + 1200 ≤ Bbr.u32Max; decide

/-- The unchecked addition (`sat = false`) does overflow under the caller contract: one send of
    `u32::MAX` bytes and its acknowledgement, in Startup (pipe not filled, little delivered):
    `12000 + 4294967295` does not fit (debug build: panic `attempt to add with overflow`; release
    build: the window wraps). Replayed on the real controller by tools/gen/congestion.py
    (`huge_history`, signature `cc:bbr:cwnd-overflow`). The saturating variant accepts the same call. -/
theorem bbr_set_cwnd_overflow_counterexample :
    ∃ (s0 : Bbr.State) (h : List (Bbr.Op × Bbr.Oracle)) (s : Bbr.State) (op : Bbr.Op) (o : Bbr.Oracle),
      Bbr.init 1200 = some s0 ∧ Bbr.run false s0 h = some s ∧ Bbr.Contract s op ∧
      Bbr.step false s op o = none ∧ (Bbr.step true s op o).isSome = true :=
  ⟨_, [(.sent 4294967295 3 (some false), {})], _, .ack 3 4294967295 4, { update := true, smallDelivered := true },
   rfl, rfl, by show (4294967295 : Nat) ≤ _; decide, by decide, by decide⟩

/-- `minimum_window` computes `MIN_PIPE_CWND_PACKETS as u32 * max_datagram_size as u32` (fix f3b18df): no
    overflow for any `u16` datagram size. Before the fix the product was taken in u16 and the constructor
    (and `on_mtu_update`) overflowed from 16384 bytes on (`Bbr.init 16384 = none` in the pre-fix model;
    found through the C20 simulations with MTU >= 16384). -/
theorem bbr_minimum_window_no_overflow : (Bbr.init 16384).isSome = true ∧ (Bbr.init 65535).isSome = true := by decide

/-- what `ok` of the relational driver means: the observed post-state is a step of the skeleton in the
    variant /repo has -/
theorem bbr_accept_sound (s s' : Bbr.State) (op : Bbr.Op) (obs : Bbr.Obs) (o : Bbr.Oracle)
    (h : Bbr.accept s op obs = some (o, s')) : Bbr.step Bbr.saturatingGrowth s op o = some s' ∧ Bbr.observe s' = obs :=
  Bbr.accept_sound h

/-! ## the send gate -/

open SendGate in
/-- `Path::transmission_constraint` as a decision table: the amplification limit dominates, then the
    congestion window (with the one-packet fast-retransmission allowance), else no constraint. -/
theorem send_gate_table (amp limited fastRtx : Bool) :
    (amp = true → transmissionConstraint amp limited fastRtx = .amplificationLimited) ∧
    (amp = false → limited = true → fastRtx = true → transmissionConstraint amp limited fastRtx = .retransmissionOnly) ∧
    (amp = false → limited = true → fastRtx = false → transmissionConstraint amp limited fastRtx = .congestionLimited) ∧
    (amp = false → limited = false → transmissionConstraint amp limited fastRtx = .none) ∧
    ((transmissionConstraint amp limited fastRtx).canTransmit = (!amp && !limited)) ∧
    ((transmissionConstraint amp limited fastRtx).canRetransmit = (!amp && (!limited || fastRtx))) := by
  cases amp <;> cases limited <;> cases fastRtx <;> decide

/-- New data is sent only while a whole datagram still fits below the window: `can_transmit` implies
    `bytes_in_flight + max_datagram_size ≤ cwnd` (in particular `bytes_in_flight < cwnd`), for both
    controllers. -/
theorem send_gate_below_window (amp fastRtx : Bool) (cwnd inflight mds : Nat) (hm : 0 < mds)
    (h : (SendGate.transmissionConstraint amp (SendGate.isCongestionLimited cwnd inflight mds) fastRtx).canTransmit = true) :
    inflight + mds ≤ cwnd := by
  have hl : SendGate.isCongestionLimited cwnd inflight mds = false := by
    cases hc : SendGate.isCongestionLimited cwnd inflight mds
    · rfl
    · rw [hc] at h; cases amp <;> cases fastRtx <;> cases h
  unfold SendGate.isCongestionLimited at hl
  simp only [decide_eq_false_iff_not] at hl
  omega

/-- The allowance "one packet when entering recovery" is one packet: a congestion-controlled send
    clears `requires_fast_retransmission` (CUBIC and BBR). -/
theorem fast_retransmission_allows_one_packet :
    (∀ (s s' : Cubic.State) (b now : Nat) (a : Option Bool) (o : Cubic.Oracle), b ≠ 0 →
        Cubic.step s (.sent b now a) o = some s' → Cubic.requiresFastRetransmission s' = false) ∧
    (∀ (s s' : Bbr.State) (b now : Nat) (a : Option Bool) (o : Bbr.Oracle), b ≠ 0 →
        ∀ sat, Bbr.step sat s (.sent b now a) o = some s' → Bbr.requiresFastRetransmission s' = false) := by
  constructor
  · intro s s' b now a o hb hs
    simp only [Cubic.step, Cubic.onPacketSent, hb, if_false] at hs
    split at hs
    · cases hs
    · split at hs
      · cases hs
      · cases hs
        unfold Cubic.requiresFastRetransmission
        simp only []
        cases hp : s.phase with
        | slowStart => rfl
        | recovery t fr => cases fr <;> rfl
        | congAvoid t => rfl
  · intro s s' b now a o hb sat hs
    simp only [Bbr.step, Bbr.onPacketSent, hb, if_false] at hs
    split at hs
    · cases hs
    · split at hs
      · cases hs
      · cases hs
        unfold Bbr.requiresFastRetransmission
        simp only []
        cases hr : s.recovery with
        | none => rfl
        | some p => obtain ⟨t, fr⟩ := p; cases fr <;> rfl

example : SendGate.transmissionConstraint false (SendGate.isCongestionLimited 12000 11000 1200) true = .retransmissionOnly := by decide
example : SendGate.transmissionConstraint false (SendGate.isCongestionLimited 12000 10800 1200) false = .none := by decide

end Quic.Proofs.C10
