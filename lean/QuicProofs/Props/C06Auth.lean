import QuicModel.Compose.Auth
import QuicModel.Compose.PacketLayout
import QuicProofs.Lemmas.Auth
import QuicProofs.Lemmas.PacketLayout
/-
  C06 — "A datagram that was not produced by the peer holding the connection's keys never changes
  what either application reads, is never acknowledged, and never causes an established connection
  to be closed or reset (a stateless reset carrying the peer's genuine token excepted).  A replayed
  genuine packet is processed at most once per packet number space, so replays cannot duplicate data
  or inflate ECN/ack state."

  LEVEL: PARTIAL.  The theorems are about `QuicModel/Compose/Auth.lean` (the receive pipeline of
  space/{application,handshake,initial}.rs with the real duplicate window `Data.SlidingWindow`) and
  hold for ALL histories (`List Datagram`: any interleaving of genuine, forged and replayed packets
  in the three packet-number spaces).  The cryptographic half is an ASSUMPTION (ideal AEAD:
  `Datagram.authentic` is decided by the environment and is `true` exactly for byte-identical copies
  of what the peer sealed under the current keys); `every_byte_authenticated` shows that under this
  assumption every changed wire byte leads to rejection, and the `packet_protection` differential
  exercises the assumption on the real primitives of every cipher suite.  Which key is current
  (key updates) and the value of the integrity limit are C15 (`integrity_limit_closes`).
-/
namespace Quic.Proofs.C06
open Quic Quic.Data Quic.Data.SlidingWindow Quic.Compose.Auth
open Quic.Proofs.Lemmas.Auth

/-! ### forged datagrams -/

/-- A non-authentic datagram — whatever packet number, payload, ECN mark, trailer it shows and
    whatever state the connection is in — leaves every space (duplicate window, processed log,
    ack list, ECN counters) and the token sets unchanged, never reaches frame processing, and only
    `failures` may grow (by at most one). -/
theorem forged_no_effect (c : Conn) (d : Datagram) (hf : d.authentic = false) :
    (receive c d).1.initial = c.initial ∧ (receive c d).1.handshake = c.handshake ∧
    (receive c d).1.app = c.app ∧
    (receive c d).1.peerTokens = c.peerTokens ∧ (receive c d).1.localTokens = c.localTokens ∧
    (receive c d).1.integrityLimit = c.integrityLimit ∧
    c.failures ≤ (receive c d).1.failures ∧ (receive c d).1.failures ≤ c.failures + 1 ∧
    (receive c d).2 ≠ .processed ∧ (receive c d).2 ≠ .frameError := by
  have hs := forged_spaces c d hf
  refine ⟨hs .initial, hs .handshake, hs .app, ?_⟩
  exact forged_rest c d hf

/-- … and it does not close the connection, unless it carries one of the PEER's stateless-reset
    tokens or the count of authentication failures reaches the AEAD integrity limit (C15). -/
theorem no_close_on_forgery (c : Conn) (d : Datagram) (hopen : c.status = .open)
    (hf : d.authentic = false) (htok : d.trailer ∉ c.peerTokens)
    (hlim : d.space = .app → c.failures + 1 < c.integrityLimit) :
    (receive c d).1.status = .open :=
  forged_stays_open c d hopen hf htok hlim

/-- A stateless reset is honoured only for a datagram whose trailing 16 bytes are one of the
    peer's tokens (and which failed authentication: a packet that opens is never a reset). -/
theorem reset_only_with_peer_token (c : Conn) (d : Datagram) (hopen : c.status = .open)
    (hr : (receive c d).1.status = .closed .statelessReset) :
    d.trailer ∈ c.peerTokens ∧ (d.hdrOk = false ∨ d.authentic = false) :=
  reset_needs_token c d hopen hr

/-- over a history: a connection that ends reset has seen a datagram with a peer token -/
theorem reset_only_with_peer_token_history (hist : List Datagram) (c : Conn) (hopen : c.status = .open)
    (hr : (receiveAll c hist).status = .closed .statelessReset) :
    ∃ d ∈ hist, d.trailer ∈ c.peerTokens ∧ (d.hdrOk = false ∨ d.authentic = false) :=
  reset_history hist c hopen hr

/-- the endpoint's OWN tokens play no role in the receive path -/
theorem local_tokens_irrelevant (c : Conn) (d : Datagram) (l : List Nat) :
    receive { c with localTokens := l } d = ({ (receive c d).1 with localTokens := l }, (receive c d).2) :=
  receive_localTokens c d l

/-- Non-interference, for whole histories: as long as no forged datagram carries a peer token and
    the integrity limit is not reached, the connection ends in the same state (all spaces: windows,
    processed logs, ack lists, ECN counters; status; tokens) as if the forged datagrams had never
    arrived — only `failures` differs. -/
theorem forgery_noninterference (hist : List Datagram) (c : Conn)
    (hbudget : c.failures + (hist.filter (fun d => !d.authentic)).length < c.integrityLimit)
    (htok : ∀ d ∈ hist, d.authentic = false → d.trailer ∉ c.peerTokens) :
    ∃ f, receiveAll c hist = { receiveAll c (hist.filter (·.authentic)) with failures := f } :=
  noninterference hist c hbudget htok

/-! ### replays -/

/-- the pipeline's use of the duplicate window IS a `SlidingWindow.run` of check/insert operations
    started from `SlidingWindow::default()`, and the packets whose processing completed are exactly
    the numbers that run accepted -/
theorem window_usage_is_run (L : Nat) (pt lt : List Nat) (hist : List Datagram) (sp : Space) :
    ((receiveAll (Conn.init L pt lt) hist).get sp).window
      = (run init (windowOpsAll sp (Conn.init L pt lt) hist)).1 ∧
    completedPns ((receiveAll (Conn.init L pt lt) hist).get sp).processed
      = accepted init (windowOpsAll sp (Conn.init L pt lt) hist) := by
  have h := receiveAll_inv hist (Conn.init L pt lt) sp [] (by cases sp <;> exact SpInv.initial _)
  simp only [List.nil_append] at h
  exact ⟨h.win, h.acc⟩

/-- At most once: in every history, per packet-number space, every packet number occurs at most
    once in the processed log — replays never reach frame processing a second time. -/
theorem replay_at_most_once (L : Nat) (pt lt : List Nat) (hist : List Datagram) (sp : Space) :
    (((receiveAll (Conn.init L pt lt) hist).get sp).processed.map (·.pn)).Nodup := by
  have h := receiveAll_inv hist (Conn.init L pt lt) sp [] (by cases sp <;> exact SpInv.initial _)
  exact h.nodup

/-- the completed packets are the `SlidingWindow`-accepted ones: `window_at_most_once` directly -/
theorem replay_at_most_once_completed (L : Nat) (pt lt : List Nat) (hist : List Datagram) (sp : Space) :
    (completedPns ((receiveAll (Conn.init L pt lt) hist).get sp).processed).Nodup := by
  rw [(window_usage_is_run L pt lt hist sp).2]
  exact Quic.Proofs.C16.window_at_most_once _

/-- counted: a packet number is processed at most once however often its packet is replayed -/
theorem replay_count_le_one (L : Nat) (pt lt : List Nat) (hist : List Datagram) (sp : Space) (pn : Nat) :
    (((receiveAll (Conn.init L pt lt) hist).get sp).processed.map (·.pn)).count pn ≤ 1 :=
  List.nodup_iff_count.mp (replay_at_most_once L pt lt hist sp) pn

/-- the `.expect("packet number was already checked")` of `on_processed_packet` never fires -/
theorem expect_never_fires (L : Nat) (pt lt : List Nat) (hist : List Datagram) :
    Verdict.panic ∉ verdicts (Conn.init L pt lt) hist :=
  no_panic hist (Conn.init L pt lt) (fun sp => ⟨[], by cases sp <;> exact SpInv.initial _⟩)

/-! ### what is processed, acknowledged, counted -/

/-- every entry of every processed log comes from an authentic datagram of the history, with that
    datagram's space, packet number, payload and ECN mark -/
theorem processed_only_authentic (L : Nat) (pt lt : List Nat) (hist : List Datagram) (sp : Space) (e : Entry)
    (he : e ∈ ((receiveAll (Conn.init L pt lt) hist).get sp).processed) :
    ∃ d ∈ hist, d.authentic = true ∧ d.hdrOk = true ∧ d.space = sp ∧ e = entryOf d := by
  rcases processed_from_history hist (Conn.init L pt lt) sp e he with h | h
  · cases sp <;> cases h
  · exact h

/-- with a sender log: if the environment marks as authentic only what the peer sealed, everything
    that reaches frame processing was sealed by the peer (same space, number, payload) -/
theorem processed_subset_sealed (L : Nat) (pt lt : List Nat) (hist : List Datagram)
    (sealed : List (Space × Nat × Nat))
    (henv : ∀ d ∈ hist, d.authentic = true → (d.space, d.pn, d.payload) ∈ sealed)
    (sp : Space) (e : Entry) (he : e ∈ ((receiveAll (Conn.init L pt lt) hist).get sp).processed) :
    (sp, e.pn, e.payload) ∈ sealed := by
  obtain ⟨d, hd, ha, _, hs, hed⟩ := processed_only_authentic L pt lt hist sp e he
  have := henv d hd ha
  rw [hed, ← hs]; exact this

/-- ECN / ack state is exact: the packet numbers handed to the ack manager are those of the packets
    whose processing completed, one each, and every ECN counter equals the number of completed
    packets that arrived with that codepoint — replays and forgeries cannot inflate them. -/
theorem ecn_ack_counts_exact (L : Nat) (pt lt : List Nat) (hist : List Datagram) (sp : Space) :
    let s := (receiveAll (Conn.init L pt lt) hist).get sp
    s.ackPns = completedPns s.processed ∧ s.ackPns.Nodup ∧
    s.ect0 = countEcn s.processed 2 ∧ s.ect1 = countEcn s.processed 1 ∧ s.ce = countEcn s.processed 3 ∧
    s.ect0 + s.ect1 + s.ce ≤ s.ackPns.length := by
  have h := receiveAll_inv hist (Conn.init L pt lt) sp [] (by cases sp <;> exact SpInv.initial _)
  refine ⟨h.ack, ?_, h.e0, h.e1, h.e3, ?_⟩
  · rw [h.ack]; exact replay_at_most_once_completed L pt lt hist sp
  · rw [h.e0, h.e1, h.e3, h.ack]; exact ecn_sum_le _

/-- while the connection is open, processed log, ack list and window agree entry by entry -/
theorem open_all_completed (L : Nat) (pt lt : List Nat) (hist : List Datagram) (sp : Space)
    (hopen : (receiveAll (Conn.init L pt lt) hist).status = .open) :
    ∀ e ∈ ((receiveAll (Conn.init L pt lt) hist).get sp).processed, e.completed = true := by
  have h := receiveAll_inv hist (Conn.init L pt lt) sp [] (by cases sp <;> exact SpInv.initial _)
  exact h.allc hopen

/-! ### coverage of the wire bytes (`PacketLayout`) -/

open Quic.Compose.PacketLayout in
/-- Every byte of a protected packet is accounted for: the receiver's map from wire bytes to AEAD
    input (AAD, ciphertext‖tag) — header-protection sample, mask, unmasking of the first byte and of
    the packet-number bytes, split — is injective, for every header-protection cipher `maskOf` and
    whatever header lengths the two datagrams are parsed with.  Two different datagrams (a flipped
    bit anywhere: clear header bits, header-protected bits incl. the packet-number length,
    packet-number bytes, ciphertext, tag; a truncation; a splice) never present the same AEAD
    input. -/
theorem every_byte_authenticated (maskOf : List Nat → List Nat) (hp hq : Nat) (p q : List Nat)
    (x : List Nat × List Nat) (h1 : 1 ≤ hp) (h2 : 1 ≤ hq)
    (ep : aeadInput maskOf hp p = some x) (eq : aeadInput maskOf hq q = some x) : p = q :=
  Quic.Proofs.Lemmas.PacketLayout.aeadInput_injective maskOf hp hq p q x h1 h2 ep eq

open Quic.Compose.PacketLayout in
/-- … hence, under the ideal-AEAD assumption (`opens` accepts only AEAD inputs that `seal` produced
    for one of the `sealed` datagrams), a datagram that is not byte-for-byte one of the sealed ones
    is rejected. -/
theorem tampered_rejected (maskOf : List Nat → List Nat) (hdrLenOf : List Nat → Nat)
    (hpos : ∀ p, 1 ≤ hdrLenOf p) (sealed : List (List Nat)) (opens : List Nat × List Nat → Bool)
    (ideal : ∀ x, opens x = true → ∃ p ∈ sealed, aeadInput maskOf (hdrLenOf p) p = some x)
    (q : List Nat) (hq : q ∉ sealed) (x : List Nat × List Nat)
    (hx : aeadInput maskOf (hdrLenOf q) q = some x) : opens x = false := by
  cases ho : opens x with
  | false => rfl
  | true =>
    obtain ⟨p, hp, hpx⟩ := ideal x ho
    have := every_byte_authenticated maskOf (hdrLenOf p) (hdrLenOf q) p q x (hpos p) (hpos q) hpx hx
    exact absurd (this ▸ hp) hq

open Quic.Compose.PacketLayout in
/-- the AEAD nonce `iv XOR (0³² ‖ pn)` (`Iv::nonce`) is injective in the packet number: a packet
    opened under a wrongly reconstructed packet number is opened under another nonce -/
theorem nonce_binds_packet_number (iv : List Nat) (pn1 pn2 : Nat) (h1 : pn1 < 2 ^ 64) (h2 : pn2 < 2 ^ 64)
    (h : nonce iv pn1 = nonce iv pn2) : pn1 = pn2 :=
  Quic.Proofs.Lemmas.PacketLayout.nonce_injective iv pn1 pn2 h1 h2 h

open Quic.Compose.PacketLayout in
/-- RFC 9001 A.5: iv e0459b3474bdd0e44a41c144, pn 654360564 ⇒ nonce e0459b3474bdd0e46d417eb0 -/
example : nonce [0xe0, 0x45, 0x9b, 0x34, 0x74, 0xbd, 0xd0, 0xe4, 0x4a, 0x41, 0xc1, 0x44] 654360564
    = [0xe0, 0x45, 0x9b, 0x34, 0x74, 0xbd, 0xd0, 0xe4, 0x6d, 0x41, 0x7e, 0xb0] := by decide

open Quic.Compose.PacketLayout in
/-- the layout has no gaps: every index below the packet length falls in exactly one region, whose
    kind is AAD, header-protected bits/bytes, ciphertext or tag (short and Initial layouts) -/
theorem layout_covers_short (dcidLen pnLen payloadLen i : Nat)
    (hi : i < total (shortRegions dcidLen pnLen payloadLen)) :
    ∃ r off, regionAt (shortRegions dcidLen pnLen payloadLen) i = some (r, off) ∧ off < r.len :=
  Quic.Proofs.Lemmas.PacketLayout.regionAt_covers _ i hi

open Quic.Compose.PacketLayout in
theorem layout_covers_initial (dcidLen scidLen tokLenLen tokenLen lengthLen pnLen payloadLen i : Nat)
    (hi : i < total (initialRegions dcidLen scidLen tokLenLen tokenLen lengthLen pnLen payloadLen)) :
    ∃ r off, regionAt (initialRegions dcidLen scidLen tokLenLen tokenLen lengthLen pnLen payloadLen) i = some (r, off)
      ∧ off < r.len :=
  Quic.Proofs.Lemmas.PacketLayout.regionAt_covers _ i hi

open Quic.Compose.PacketLayout in
/-- non-vacuity of `every_byte_authenticated` on the RFC 9001 A.5 packet (mask aefefe7d03 for its
    sample): header 4200bff4 is the AAD, the 17 remaining bytes are ciphertext‖tag; flipping the spin
    bit gives another AAD -/
example :
    let pkt := [0x4c, 0xfe, 0x41, 0x89, 0x65, 0x5e, 0x5c, 0xd5, 0x5c, 0x41, 0xf6, 0x90, 0x80, 0x57, 0x5d, 0x79, 0x99,
                0xc2, 0x5a, 0x5b, 0xfb]
    let maskOf : List Nat → List Nat := fun _ => [0xae, 0xfe, 0xfe, 0x7d, 0x03]
    aeadInput maskOf 1 pkt = some ([0x42, 0x00, 0xbf, 0xf4], pkt.drop 4) ∧
    aeadInput maskOf 1 (flip pkt 0 0x20) = some ([0x62, 0x00, 0xbf, 0xf4], pkt.drop 4) := by decide

/-! ### non-vacuity: a history with genuine, forged and replayed packets -/

/-- genuine app packet `pn` with payload id `p` -/
def genuine (sp : Space) (pn p ecn : Nat) : Datagram :=
  { space := sp, hdrOk := true, pn := pn, keyId := 1, payload := p, ecn := ecn, authentic := true,
    framesOk := true, trailer := 0 }

/-- forged datagram showing packet number `pn`, trailing bytes `tr` -/
def forged (sp : Space) (pn tr : Nat) : Datagram :=
  { space := sp, hdrOk := true, pn := pn, keyId := 9, payload := 666, ecn := 3, authentic := false,
    framesOk := true, trailer := tr }

/-- peer token 77, own token 55, integrity limit 4 -/
def demo : Conn := Conn.init 4 [77] [55]

def demoHistory : List Datagram :=
  [genuine .initial 0 10 0, genuine .handshake 0 20 0,
   genuine .app 0 100 2, forged .app 1 55, genuine .app 1 101 2, genuine .app 0 100 2,   -- replay of 0
   forged .app 0 0, genuine .app 3 103 3, genuine .app 1 101 2, genuine .app 2 102 1,     -- replay of 1, reordered 2
   { genuine .app 9 0 0 with hdrOk := false, authentic := false }]

example : verdicts demo demoHistory =
    [.processed, .processed, .processed, .decryptFailed, .processed, .duplicate .duplicate,
     .duplicate .duplicate, .processed, .duplicate .duplicate, .processed, .unprotectFailed] := by decide

example : ((receiveAll demo demoHistory).app.processed.map (fun e => (e.pn, e.payload)))
    = [(0, 100), (1, 101), (3, 103), (2, 102)] ∧
    (receiveAll demo demoHistory).app.ackPns = [0, 1, 3, 2] ∧
    ((receiveAll demo demoHistory).app.ect0, (receiveAll demo demoHistory).app.ect1, (receiveAll demo demoHistory).app.ce) = (2, 1, 1) ∧
    (receiveAll demo demoHistory).failures = 2 ∧ (receiveAll demo demoHistory).status = .open := by decide

/-- hypotheses of `forgery_noninterference` hold for the demo history (3 forged < limit 4, none
    with a peer token) and the forged datagrams change nothing but `failures` -/
example : demo.failures + (demoHistory.filter (fun d => !d.authentic)).length < demo.integrityLimit ∧
    (∀ d ∈ demoHistory, d.authentic = false → d.trailer ∉ demo.peerTokens) ∧
    receiveAll demo demoHistory = { receiveAll demo (demoHistory.filter (·.authentic)) with failures := 2 } := by
  decide

/-- the excepted case: a forged datagram ending in the PEER's token resets; one ending in the
    endpoint's OWN token does not -/
example : (receive demo (forged .app 5 77)).1.status = .closed .statelessReset ∧
    (receive demo (forged .app 5 55)).1.status = .open := by decide

/-- the integrity limit (C15): the fourth failed authentication closes with AEAD_LIMIT_REACHED; the
    hypothesis `failures + 1 < limit` of `no_close_on_forgery` is what excludes it -/
example : (receiveAll demo [forged .app 1 0, forged .app 2 0, forged .app 3 0, forged .app 4 0]).status
      = .closed .aeadLimit ∧
    (receiveAll demo [forged .app 1 0, forged .app 2 0, forged .app 3 0]).status = .open := by decide

/-- code quirk kept in the model: the duplicate check comes before the decryption result is looked
    at, so a forged datagram (even one carrying the peer's reset token) whose decoded packet number
    is a duplicate is just dropped: no reset, no AEAD_LIMIT close, `failures` still counted -/
example : (verdicts demo [genuine .app 4 1 0, forged .app 4 77]) = [.processed, .duplicate .duplicate] ∧
    (receiveAll demo [genuine .app 4 1 0, forged .app 4 77]).status = .open ∧
    (receiveAll demo [genuine .app 4 1 0, forged .app 4 77]).failures = 1 := by decide

/-- frame errors of an AUTHENTIC packet do close the connection (only the peer can do that) -/
example : (receiveAll demo [genuine .app 0 1 0, { genuine .app 1 2 0 with framesOk := false }, genuine .app 2 3 0]).status
      = .closed .frameError ∧
    (receiveAll demo [genuine .app 0 1 0, { genuine .app 1 2 0 with framesOk := false }, genuine .app 2 3 0]).app.ackPns = [0] := by
  decide

end Quic.Proofs.C06
