import QuicModel.Stream.SendTrace
import QuicModel.Stream.SendTraceSpec
import QuicProofs.Lemmas.SendTrace
import QuicModel.Stream.SendFlow
import QuicModel.Stream.OpenIds
import QuicProofs.Lemmas.SendFlow
import QuicProofs.Lemmas.OpenIds
/-
  Property C03 — an endpoint never exceeds the flow-control and stream limits received from its peer.
-/
namespace Quic.Proofs.C03

/-! ## component model: stream flow controllers sharing one connection flow controller
    (`QuicModel.Stream.SendFlow`), by induction over ALL op histories. `clamp = true` is the
    current code, `clamp = false` the code before the `fix:` (F3). `stateAfter clamp w pre` is
    the state reached from `initial_max_data = w` by the history `pre`. -/
section component
open Quic.Stream.SendFlow

/-- connection credit is conserved: what the streams hold plus what is still available is the
    total granted, and the total is the largest limit received (`initial_max_data`, MAX_DATA;
    frames that do not increase the limit are ignored). -/
theorem conn_credit_conserved (clamp : Bool) (w : Nat) (ops : List Op) :
    sumAcquired (stateAfter clamp w ops).streams + (stateAfter clamp w ops).conn.availableWindow
      = (stateAfter clamp w ops).conn.totalAvailableWindow ∧
    (stateAfter clamp w ops).conn.totalAvailableWindow = grantedData w ops :=
  let h := Quic.Proofs.SendFlow.inv_reach clamp w ops
  ⟨h.conserve, h.total⟩

/-- every STREAM frame emitted after any history `pre` ends within the stream limit in force,
    which is at most the largest limit received for that stream, and within the connection window
    the stream has acquired. -/
theorem stream_frame_within_limits (clamp : Bool) (w : Nat) (pre : List Op) (op : Op)
    (sid a b msd acq : Nat) (h : (step clamp (stateAfter clamp w pre) op).2 = .frame sid a b msd acq) :
    a < b ∧ b ≤ msd ∧ b ≤ acq ∧ msd ≤ grantedStream pre sid :=
  Quic.Proofs.SendFlow.frame_out op (Quic.Proofs.SendFlow.inv_reach clamp w pre) h

/-- the connection-wide sum of stream lengths on the wire (highest offset sent, or the final
    size of a reset stream) never exceeds the largest MAX_DATA received. -/
theorem sum_highest_sent_le_max_data (clamp : Bool) (w : Nat) (ops : List Op) :
    sumSent (stateAfter clamp w ops).streams ≤ grantedData w ops := by
  have h := Quic.Proofs.SendFlow.inv_reach clamp w ops
  rw [← h.total]
  exact Quic.Proofs.SendFlow.sumSent_le h

/-- CURRENT code: the final size of every RESET_STREAM is within the stream limit (≤ the
    largest limit received for the stream); with `sum_highest_sent_le_max_data` (which counts a
    reset stream with its final size) it obeys the connection limit too. -/
theorem reset_final_size_within_limits (w : Nat) (pre : List Op) (op : Op) (sid f msd : Nat)
    (h : (step true (stateAfter true w pre) op).2 = .resetFrame sid f msd) :
    f ≤ msd ∧ msd ≤ grantedStream pre sid :=
  Quic.Proofs.SendFlow.reset_out op (Quic.Proofs.SendFlow.inv_reach true w pre) h

/-- the F3 witness: stream window 100, ample connection credit, 500 bytes queued, one transmit, reset -/
def f3Witness : List Op := [.openStream 0 100, .transmit 0 0 500, .reset 0]

/-- BEFORE the fix the same statement is FALSE: the witness yields STREAM[0,100) and then
    RESET_STREAM with final size 500 > 100 = the stream limit. -/
theorem reset_final_size_counterexample_prefix :
    (run false (init 102400) f3Witness).2 = [.none, .frame 0 0 100 100 500, .resetFrame 0 500 100] ∧
    ¬ (500 ≤ 100) := by decide

/-- the current code on the same witness: final size 100 -/
example : (run true (init 102400) f3Witness).2 = [.none, .frame 0 0 100 100 100, .resetFrame 0 100 100] := by decide

/-- limits only grow: no step lowers the connection limit or the limit of an existing stream -/
theorem limits_monotone (clamp : Bool) (s : Sys) (op : Op) :
    s.conn.totalAvailableWindow ≤ (step clamp s op).1.conn.totalAvailableWindow ∧
    ∀ k st, find? s.streams k = some st →
      ∃ st', find? (step clamp s op).1.streams k = some st' ∧ st.fc.maxStreamData ≤ st'.fc.maxStreamData :=
  Quic.Proofs.SendFlow.step_limits_mono clamp s op

/-- non-vacuity: a history with two streams competing for connection credit, limit updates in
    "wrong" order (a smaller MAX_DATA after a larger one), blocking and a reset -/
def demoFlow : List Op :=
  [.openStream 0 100, .openStream 4 1000, .transmit 0 0 500, .transmit 4 0 300, .maxData 250, .maxData 200,
   .connWindowAvailable 4, .transmit 4 100 300, .maxStreamData 0 400, .maxData 600, .transmit 0 100 500, .reset 0]

example : (run true (init 200) demoFlow).2 =
    [.none, .none, .frame 0 0 100 100 100, .frame 4 0 100 1000 100, .none, .none, .none,
     .frame 4 100 150 1000 150, .none, .none, .frame 0 100 400 400 400, .resetFrame 0 400 400] := by decide
example : (stateAfter true 200 demoFlow).conn.totalAvailableWindow = 600 ∧ grantedData 200 demoFlow = 600 ∧
    (stateAfter true 200 demoFlow).conn.availableWindow = 50 := by decide

end component

/-! ## opening streams (`QuicModel.Stream.OpenIds`) -/
section openIds
open Quic.Stream.OpenIds

/-- a stream is only ever opened within the largest MAX_STREAMS limit received so far (and the
    local concurrency limit): the `n+1`-th stream of a type needs a limit of at least `n+1`. -/
theorem open_within_max_streams (server bidi : Bool) (l m0 : Nat) (pre : List Op) (op : Op) (id : Nat)
    (h : (step (run (init server bidi l m0) pre).1 op).2 = some id) :
    id = initialId server bidi + 4 * (openedIds (init server bidi l m0) pre).length ∧
    (openedIds (init server bidi l m0) pre).length + 1 ≤ grantedStreams m0 pre := by
  have hi := Quic.Proofs.OpenIds.inv_init server bidi l m0
  have hr := Quic.Proofs.OpenIds.run_inv pre hi
  have hn := Quic.Proofs.OpenIds.run_opened pre hi
  have hs := (Quic.Proofs.OpenIds.step_inv op hr).2.1 id h
  simp only [init] at hn
  simp only [init] at hs ⊢
  rw [hn] at hs
  exact ⟨by simpa using hs.1, by simpa using hs.2.1⟩

/-- the stream limit only grows -/
theorem stream_limit_monotone (c : Ctl) (op : Op) (base g : Nat) (h : Quic.Proofs.OpenIds.Inv base g c) :
    c.peerCumulativeStreamLimit ≤ (step c op).1.peerCumulativeStreamLimit :=
  (Quic.Proofs.OpenIds.step_inv op h).2.2.2

example : (run (init false true 100 1) [.openStream, .openStream, .maxStreams 3, .maxStreams 2, .openStream, .openStream, .openStream]).2
    = [some 0, none, none, none, some 4, some 8, none] := by decide

end openIds

open Quic.Stream.SendTrace Quic.Stream.SendTrace.Spec

/-- SOUNDNESS of the trace acceptor for C03: on every op sequence the acceptor answers `ok`
    throughout, at every position a STREAM frame / RESET_STREAM final size is within the largest
    stream limit and the connection-wide sum of stream lengths within the largest connection
    limit received strictly before that position, and streams are only opened / referenced within
    the largest MAX_STREAMS received (predicates of `SendTraceSpec`, stated over the raw op list). -/
theorem accepted_trace_satisfies_C03 (ops : List Op) (h : accepts ops = true) : C03Holds ops := by
  intro pre op post he
  simp only [accepts, Option.isSome_iff_exists] at h
  obtain ⟨sf, hsf⟩ := h
  have := Quic.Proofs.SendTrace.run_sound (pre := []) Quic.Proofs.SendTrace.inv_init hsf pre op post he
  simpa using this.1

/-- a small real-looking history (client, stream limit 100, connection limit 150) -/
def demo : List Op :=
  [ .tp ⟨150, 0, 100, 0, 1, 0, false⟩, .appOpen 0, .appWrite 0 500 7,
    .txStream 0 0 0 100 false (digest 7 0 100), .txBlocked 0 0 100,
    .rxMaxStreamData 0 300, .txStream 1 0 100 50 false (digest 7 100 50),
    .rxMaxData 400, .appReset 0, .txReset 2 0 300 ]

/-- non-vacuity: the demo history is accepted … -/
example : accepts demo = true := by decide +kernel
/-- … one more byte than the connection limit is rejected … -/
example : accepts (demo.take 6 ++ [.txStream 1 0 100 51 false (digest 7 100 51)]) = false := by decide +kernel
/-- … and so is a RESET_STREAM whose final size exceeds the stream limit (the pre-fix behaviour, F3). -/
example : accepts (demo.take 9 ++ [.txReset 2 0 500]) = false := by decide +kernel

end Quic.Proofs.C03
