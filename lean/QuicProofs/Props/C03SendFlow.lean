import QuicModel.Stream.SendTrace
import QuicModel.Stream.SendTraceSpec
import QuicProofs.Lemmas.SendTrace
/-
  Property C03 — an endpoint never exceeds the flow-control and stream limits received from its peer.
-/
namespace Quic.Proofs.C03
open Quic.Stream.SendTrace Quic.Stream.SendTrace.Spec

/-- SOUNDNESS of the trace acceptor for C03: on every op sequence the acceptor answers `ok`
    throughout, at every position a STREAM frame / RESET_STREAM final size is within the largest
    stream limit and the connection-wide sum of stream lengths within the largest connection
    limit received strictly before that position, and streams are only opened / referenced within
    the largest MAX_STREAMS received (predicates of `SendTraceSpec`, stated over the raw op list). -/
theorem accepted_trace_satisfies_C03 (ops : List Op) (h : accepts ops = true) : C03Holds ops := by
  intro pre op post he
  simp only [accepts, Option.isSome_iff_exists] at h
  obtain ⟨sf, hsf⟩ := h
  have := Quic.Proofs.SendTrace.run_sound (pre := []) Quic.Proofs.SendTrace.inv_init hsf pre op post he
  simpa using this.1

/-- a small real-looking history (client, stream limit 100, connection limit 150) -/
def demo : List Op :=
  [ .tp ⟨150, 0, 100, 0, 1, 0, false⟩, .appOpen 0, .appWrite 0 500 7,
    .txStream 0 0 0 100 false (digest 7 0 100), .txBlocked 0 0 100,
    .rxMaxStreamData 0 300, .txStream 1 0 100 50 false (digest 7 100 50),
    .rxMaxData 400, .appReset 0, .txReset 2 0 300 ]

/-- non-vacuity: the demo history is accepted … -/
example : accepts demo = true := by decide +kernel
/-- … one more byte than the connection limit is rejected … -/
example : accepts (demo.take 6 ++ [.txStream 1 0 100 51 false (digest 7 100 51)]) = false := by decide +kernel
/-- … and so is a RESET_STREAM whose final size exceeds the stream limit (the pre-fix behaviour, F3). -/
example : accepts (demo.take 9 ++ [.txReset 2 0 500]) = false := by decide +kernel

end Quic.Proofs.C03
