import QuicModel.Stream.SendTrace
import QuicModel.Stream.SendTraceSpec
import QuicProofs.Lemmas.SendTrace
/-
  Property C12 — what an endpoint sends on a stream and at close is self-consistent.
-/
namespace Quic.Proofs.C12
open Quic.Stream.SendTrace Quic.Stream.SendTrace.Spec

/-- SOUNDNESS of the trace acceptor for C12: on every op sequence the acceptor answers `ok`
    throughout, every STREAM frame carries exactly the bytes the application wrote at those
    offsets (so retransmissions are identical), nothing is sent beyond an announced final size,
    the final size never changes and is never below data already sent, no STREAM /
    STREAM_DATA_BLOCKED follows a RESET_STREAM, locally initiated stream ids are opened in
    increasing order without reuse, and after CONNECTION_CLOSE only copies of that packet are
    sent, at most one per incoming packet. -/
theorem accepted_trace_satisfies_C12 (ops : List Op) (h : accepts ops = true) : C12Holds ops := by
  intro pre op post he
  simp only [accepts, Option.isSome_iff_exists] at h
  obtain ⟨sf, hsf⟩ := h
  have := Quic.Proofs.SendTrace.run_sound (pre := []) Quic.Proofs.SendTrace.inv_init hsf pre op post he
  simpa using this.2

def demo : List Op :=
  [ .tp ⟨1000, 0, 1000, 0, 2, 0, false⟩, .appOpen 0, .appWrite 0 30 7, .appFinish 0,
    .txStream 0 0 0 0 false 0, .txStream 0 0 0 20 false (digest 7 0 20),
    .txStream 1 0 20 10 true (digest 7 20 10), .txStream 2 0 0 20 false (digest 7 0 20),
    .txStream 3 0 30 0 true 0, .appOpen 4, .txClose 4, .rxPkt, .txClose 4 ]

/-- non-vacuity: a history with a retransmission, a FIN, a re-sent FIN and a close copy is accepted … -/
example : accepts demo = true := by decide +kernel
/-- … altered bytes in a retransmission are rejected … -/
example : accepts (demo.take 7 ++ [.txStream 2 0 0 20 false (digest 7 0 20 + 1)]) = false := by decide +kernel
/-- … data beyond the final size is rejected … -/
example : accepts (demo.take 7 ++ [.txStream 2 0 30 1 false (digest 7 30 1)]) = false := by decide +kernel
/-- … a second close copy without a further incoming packet is rejected … -/
example : accepts (demo ++ [.txClose 4]) = false := by decide +kernel
/-- … and so is opening stream id 12 before 8. -/
example : accepts (demo.take 10 ++ [.appOpen 12]) = false := by decide +kernel

end Quic.Proofs.C12
