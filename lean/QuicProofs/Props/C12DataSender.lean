import QuicModel.Stream.SendTrace
import QuicModel.Stream.SendTraceSpec
import QuicProofs.Lemmas.SendTrace
import QuicModel.Stream.DataSender
import QuicModel.Stream.OpenIds
import QuicModel.Conn.CloseSender
import QuicProofs.Lemmas.DataSender
import QuicProofs.Lemmas.OpenIds
import QuicProofs.Lemmas.CloseSender
/-
  Property C12 — what an endpoint sends on a stream and at close is self-consistent.
-/
namespace Quic.Proofs.C12

/-! ## component model: the data sender of a stream (`QuicModel.Stream.DataSender`), by induction
    over ALL histories of push / finish / transmit (any packet number, capacity, constraint) /
    ack / loss (any packet-number ranges, any order) / reset / flow-control changes, for ANY flow
    controller (`FlowOps F`). `written` is the ghost record of every byte the application pushed. -/
section dataSender
open Quic.Stream.DataSender
open Quic.Proofs.DataSender (allFrames)
variable {F : Type}

/-- everything put on the wire is consistent with what the application wrote: every STREAM frame
    — first transmission or retransmission of lost data — carries exactly the bytes written at its
    offsets, lies inside what was written, and no `View` outside the buffer is ever taken (the
    buffer never releases bytes that may still have to be retransmitted). Hence bytes retransmitted
    for an offset are identical to the bytes first sent there. -/
theorem frames_consistent (ops : FlowOps F) (fc : F) (hist : List (Op (F := F))) :
    (∀ fr ∈ allFrames (run ops (initStream fc) hist).2,
      fr.data = ((run ops (initStream fc) hist).1.sender.written.drop fr.off).take fr.data.length ∧
      fr.stop ≤ (run ops (initStream fc) hist).1.sender.written.length) ∧
    (run ops (initStream fc) hist).1.sender.viewPanic = false := by
  have hi := Quic.Proofs.DataSender.ok_init fc
  have ⟨h1, h2, _⟩ := Quic.Proofs.DataSender.run_spec ops hist _ _ hi.1 hi.2
  refine ⟨fun fr hfr => h2.slice fr (by simpa using hfr), ?_⟩
  rcases h1 with ⟨_, _, h⟩ | ⟨_, h⟩
  · exact h
  · exact h.1.noPanic

/-- two frames covering the same offset carry the same byte there (retransmissions are identical) -/
theorem retransmission_identical (ops : FlowOps F) (fc : F) (hist : List (Op (F := F)))
    (fr fr' : Frame) (h : fr ∈ allFrames (run ops (initStream fc) hist).2)
    (h' : fr' ∈ allFrames (run ops (initStream fc) hist).2) (x : Nat)
    (hx : fr.off ≤ x ∧ x < fr.stop) (hx' : fr'.off ≤ x ∧ x < fr'.stop) :
    fr.data[x - fr.off]? = fr'.data[x - fr'.off]? := by
  have hc := (frames_consistent ops fc hist).1
  have h1 := (hc fr h).1
  have h2 := (hc fr' h').1
  simp only [Frame.stop] at hx hx'
  rw [h1, h2, List.getElem?_take, List.getElem?_take, if_pos (by omega), if_pos (by omega),
    List.getElem?_drop, List.getElem?_drop]
  congr 1
  omega

/-- once a FIN announced the final size, no STREAM frame — earlier or later — reaches beyond it:
    `fr'.stop ≤ fr.stop` for every frame `fr'` and every FIN frame `fr` of the history. -/
theorem no_data_beyond_final (ops : FlowOps F) (fc : F) (hist : List (Op (F := F)))
    (fr fr' : Frame) (h : fr ∈ allFrames (run ops (initStream fc) hist).2)
    (h' : fr' ∈ allFrames (run ops (initStream fc) hist).2) (hfin : fr.fin = true) :
    fr'.stop ≤ fr.stop := by
  have hi := Quic.Proofs.DataSender.ok_init fc
  have ⟨_, h2, _⟩ := Quic.Proofs.DataSender.run_spec ops hist _ _ hi.1 hi.2
  have a := (h2.fin fr (by simpa using h) hfin).1
  have b := (h2.slice fr' (by simpa using h')).2
  omega

/- FULL statement (`final_size_stable_and_ge_sent`): for every history of the send stream, all
   announcements of a final size — FIN frames AND the RESET_STREAM — carry the same value, and it
   is ≥ the end of every STREAM frame of the history.
   Proved below (`…_partial`): the statement for FIN frames. Missing: the RESET_STREAM final size
   lives in the flow controller (`acquired_connection_flow_controller_window`,
   `QuicModel.Stream.SendFlow`), where it is shown to be ≥ everything the stream sent and within
   the limits (`C03.stream_frame_within_limits`, `C03.reset_final_size_within_limits`, invariant
   `Good.sentAcq`); that it EQUALS the size announced by an earlier FIN needs the composition of
   both component models ("a FIN is only sent once `transmission_offset = total_len`, hence
   `acquired = total_len`") and is checked on real traces by the acceptor
   (`accepted_trace_satisfies_C12`: `final-size-changed`), not proved for the component models. -/
/-- the final size announced by FIN frames never changes (all FIN frames end at the same offset)
    and is never smaller than data already (or later) sent. -/
theorem final_size_stable_and_ge_sent_partial (ops : FlowOps F) (fc : F) (hist : List (Op (F := F)))
    (fr fr' : Frame) (h : fr ∈ allFrames (run ops (initStream fc) hist).2)
    (h' : fr' ∈ allFrames (run ops (initStream fc) hist).2) (hfin : fr.fin = true) :
    (fr'.fin = true → fr'.stop = fr.stop) ∧ fr'.stop ≤ fr.stop := by
  refine ⟨fun hfin' => ?_, no_data_beyond_final ops fc hist fr fr' h h' hfin⟩
  have := no_data_beyond_final ops fc hist fr fr' h h' hfin
  have := no_data_beyond_final ops fc hist fr' fr h' h hfin'
  omega

/-- after RESET_STREAM nothing else is put on the wire for the stream: every later step emits no
    STREAM frame (and the data sender, being `Cancelled`, has dropped its buffer). -/
theorem nothing_after_reset (ops : FlowOps F) (fc : F) (pre post : List (Op (F := F))) (op : Op (F := F))
    (h : (step ops (run ops (initStream fc) pre).1 op).2 = .resetStream) :
    ∀ o ∈ (run ops (step ops (run ops (initStream fc) pre).1 op).1 post).2, o = .frames [] := by
  have hi := Quic.Proofs.DataSender.ok_init fc
  have ⟨h1, h2, _⟩ := Quic.Proofs.DataSender.run_spec ops pre _ _ hi.1 hi.2
  have ⟨g1, g2, _⟩ := Quic.Proofs.DataSender.step_spec ops _ op _ h1 h2
  have hr := Quic.Proofs.DataSender.step_reset_out ops _ op h
  exact (Quic.Proofs.DataSender.run_spec ops post _ _ g1 g2).2.2 hr

/-- non-vacuity: 10 bytes pushed, sent in two packets, the first is lost and retransmitted in two
    pieces, FIN, everything acknowledged -/
def demoHist : List (Op (F := SimpleFc)) :=
  [.push [1, 2, 3, 4, 5, 6, 7, 8, 9, 10], .transmit 0 6 true true, .transmit 1 6 true true, .finish,
   .loss 0 0, .transmit 2 4 true true, .transmit 3 9 true true, .ack 1 3]

example : allFrames (run simpleFlow (initStream ⟨100, false⟩) demoHist).2 =
    [⟨0, [1, 2, 3, 4, 5, 6], false⟩, ⟨6, [7, 8, 9, 10], false⟩, ⟨0, [1, 2, 3, 4], false⟩, ⟨4, [5, 6], false⟩,
     ⟨10, [], true⟩] := by decide
example : (run simpleFlow (initStream ⟨100, false⟩) demoHist).1.sender.state = .finished := by decide

/-- the transmission interest the sender reports (`transmission::interest::Provider for DataSender`, the value the
    connection uses to decide whether the stream is asked to transmit at all) is consistent with what it does: a sender
    that reports NO interest writes nothing — no STREAM frame, no FIN — whatever the packet number, the capacity and
    the transmission constraint. (The observers `interest` / `isInflight` / `enqueuedLen` are compared with the real
    `DataSender` on every op of the in-crate differential run, part `C12_datasender`.) -/
theorem no_interest_no_frames (ops : FlowOps F) (s : Sender F) (pn cap : Nat) (cr ct : Bool)
    (h : s.interest ops = 0) : (onTransmit ops s pn cap cr ct).2 = [] := by
  unfold Sender.interest at h
  split at h <;> try omega
  split at h <;> try omega
  split at h <;> try omega
  split at h <;> try omega
  rename_i h1 h2 h3 h4
  have hl : s.lost = [] := by simpa using h2
  unfold onTransmit
  split
  · rfl
  · simp only [phaseLost, hl, transmitLost]
    cases cr <;> simp_all [phaseNew, phaseFin, State.canTransmitFin] <;> (repeat' split) <;> simp_all <;>
      (simp only [Sender.totalLen] at *; omega)

/-- non-vacuity: a fresh sender has no interest; after a push it has (and a transmit then writes a frame) -/
example : (initStream (F := SimpleFc) { allowed := 100 }).sender.interest simpleFlow = 0 := by decide
example : (push (initStream (F := SimpleFc) { allowed := 100 }).sender [1, 2, 3]).interest simpleFlow = 1 ∧
    (onTransmit simpleFlow (push (initStream (F := SimpleFc) { allowed := 100 }).sender [1, 2, 3]) 0 50 true true).2
      = [{ off := 0, data := [1, 2, 3], fin := false }] := by decide

/-- progress step (supports C02: written bytes get through): a sender in `Sending` with new data, not blocked, nothing
    lost, whose flow-control window extends beyond what it has transmitted, reports interest and — asked to transmit
    into any packet with room for a minimum-size write under no constraint — writes a STREAM frame: being asked to
    transmit while reporting interest is never a no-op (no busy loop of empty transmissions, no stall). Stated for the
    `simpleFlow` controller the differential run instantiates the real `DataSender` with. -/
theorem new_data_is_transmitted (s : Sender SimpleFc) (pn cap : Nat)
    (hst : s.state = .sending) (hl : s.lost = []) (hnew : s.transmissionOffset < s.totalLen)
    (hb : s.fc.blocked = false) (hw : s.transmissionOffset < s.fc.allowed) (hc : 32 ≤ cap) :
    s.interest simpleFlow = 1 ∧ (onTransmit simpleFlow s pn cap true true).2 ≠ [] := by
  constructor
  · simp [Sender.interest, hst, hl, hnew, hb, simpleFlow]
  · have hp := Quic.Proofs.DataSender.phaseNew_writes { s with lost := [] } pn cap
      (by simpa [Sender.totalLen] using hnew) (by simpa using hw) hc
    have e1 : phaseLost simpleFlow s pn cap true = ({ s with lost := [] }, [], cap, false) := by
      simp [phaseLost, hl, transmitLost]
    unfold onTransmit
    rw [if_neg (by simp [hst])]
    simp only [e1]
    have hb' : simpleFlow.isBlocked ({ s with lost := [] } : Sender SimpleFc).fc = false := by simpa [simpleFlow] using hb
    simp only [hb', Bool.false_eq_true, if_false]
    rw [if_neg (by simp [hp.2])]
    simp [hp.1]

/-- non-vacuity: the hypotheses hold for a sender that was just given three bytes and a window of 100 -/
example : let s := push (initStream (F := SimpleFc) { allowed := 100 }).sender [1, 2, 3]
    s.state = .sending ∧ s.lost = [] ∧ s.transmissionOffset < s.totalLen ∧ s.fc.blocked = false ∧
      s.transmissionOffset < s.fc.allowed := by decide

end dataSender

/-! ## stream ids (`QuicModel.Stream.OpenIds`) and the close sender (`QuicModel.Conn.CloseSender`) -/
section ids
open Quic.Stream.OpenIds

/-- stream ids of a type are handed out in increasing order and never reused: the ids opened by
    any history are exactly `base, base+4, base+8, …` (`base` = `StreamId::initial`). -/
theorem ids_increasing_never_reused (server bidi : Bool) (l m0 : Nat) (ops : List Op) :
    openedIds (init server bidi l m0) ops =
      (List.range (openedIds (init server bidi l m0) ops).length).map (fun i => initialId server bidi + 4 * i) := by
  have := Quic.Proofs.OpenIds.run_ids ops (Quic.Proofs.OpenIds.inv_init server bidi l m0)
  simpa [init] using this

/-- … in particular strictly increasing, hence without duplicates -/
theorem ids_strictly_increasing (server bidi : Bool) (l m0 : Nat) (ops : List Op) :
    (openedIds (init server bidi l m0) ops).Pairwise (· < ·) := by
  rw [ids_increasing_never_reused]
  rw [List.pairwise_map]
  have : (List.range (openedIds (init server bidi l m0) ops).length).Pairwise (· < ·) := List.pairwise_lt_range
  exact this.imp (fun h => by omega)

example : openedIds (init true false 10 5) [.openStream, .closeStream, .openStream, .maxStreams 1, .openStream] = [3, 7, 11] := by
  decide

end ids

section close
open Quic.Conn.CloseSender

/-- once CONNECTION_CLOSE has been sent the endpoint sends nothing but further copies of that
    packet, and only in response to incoming packets: in every history all packets the close
    sender puts on the wire are the same, and their number is at most one (the close itself) plus
    the number of datagrams received so far. (The statement holds for every history, hence for
    every prefix: each copy beyond the first is preceded by its own incoming datagram.) -/
theorem close_only_copies_only_on_rx (ops : List Op) :
    (∀ q ∈ sent ops, ∀ q' ∈ sent ops, q = q') ∧ (sent ops).length ≤ 1 + datagrams ops := by
  have h := Quic.Proofs.CloseSender.run_inv ops .idle [] 0 Quic.Proofs.CloseSender.inv_idle
  simp only [List.nil_append, Nat.zero_add] at h
  obtain ⟨hb, hi, hs, hc⟩ := h
  constructor
  · intro q hq q' hq'
    cases hst : (run .idle ops).1 with
    | idle => have := hi hst; simp only [sent] at hq; rw [this] at hq; cases hq
    | closed => exact hc hst q hq q' hq'
    | closing p l t =>
      have := hs p (by rw [hst]; rfl)
      rw [this q hq, this q' hq']
  · by_cases hst : (run .idle ops).1 = .idle
    · have := hi hst; simp only [sent]; rw [this]; simp
    · have := hb hst
      simp only [sent, datagrams]
      omega

/-- non-vacuity: close, two datagrams answered by one copy (factor 1 then 2), a third one pending -/
example : sent [.close 7, .transmit, .transmit, .datagramReceived, .debounceExpired, .transmit,
    .datagramReceived, .debounceExpired, .transmit, .datagramReceived, .debounceExpired, .transmit] = [7, 7, 7] := by decide

end close

open Quic.Stream.SendTrace Quic.Stream.SendTrace.Spec

/-- SOUNDNESS of the trace acceptor for C12: on every op sequence the acceptor answers `ok`
    throughout, every STREAM frame carries exactly the bytes the application wrote at those
    offsets (so retransmissions are identical), nothing is sent beyond an announced final size,
    the final size never changes and is never below data already sent, no STREAM /
    STREAM_DATA_BLOCKED follows a RESET_STREAM, locally initiated stream ids are opened in
    increasing order without reuse, and after CONNECTION_CLOSE only copies of that packet are
    sent, at most one per incoming packet. -/
theorem accepted_trace_satisfies_C12 (ops : List Op) (h : accepts ops = true) : C12Holds ops := by
  intro pre op post he
  simp only [accepts, Option.isSome_iff_exists] at h
  obtain ⟨sf, hsf⟩ := h
  have := Quic.Proofs.SendTrace.run_sound (pre := []) Quic.Proofs.SendTrace.inv_init hsf pre op post he
  simpa using this.2

def demo : List Op :=
  [ .tp ⟨1000, 0, 1000, 0, 2, 0, false⟩, .appOpen 0, .appWrite 0 30 7, .appFinish 0,
    .txStream 0 0 0 0 false 0, .txStream 0 0 0 20 false (digest 7 0 20),
    .txStream 1 0 20 10 true (digest 7 20 10), .txStream 2 0 0 20 false (digest 7 0 20),
    .txStream 3 0 30 0 true 0, .appOpen 4, .txClose 4, .rxPkt, .txClose 4 ]

/-- non-vacuity: a history with a retransmission, a FIN, a re-sent FIN and a close copy is accepted … -/
example : accepts demo = true := by decide +kernel
/-- … altered bytes in a retransmission are rejected … -/
example : accepts (demo.take 7 ++ [.txStream 2 0 0 20 false (digest 7 0 20 + 1)]) = false := by decide +kernel
/-- … data beyond the final size is rejected … -/
example : accepts (demo.take 7 ++ [.txStream 2 0 30 1 false (digest 7 30 1)]) = false := by decide +kernel
/-- … a second close copy without a further incoming packet is rejected … -/
example : accepts (demo ++ [.txClose 4]) = false := by decide +kernel
/-- … and so is opening stream id 12 before 8. -/
example : accepts (demo.take 10 ++ [.appOpen 12]) = false := by decide +kernel

end Quic.Proofs.C12
