import QuicProofs.Bridge.Reassembler
import QuicProofs.Bridge.VarInt
import QuicProofs.Lemmas.Reassembly
import QuicProofs.Lemmas.RefBuf
import QuicProofs.Props.C01Reassembly
import QuicProofs.Props.C05VarInt
import QuicProofs.Props.C16Reassembler
