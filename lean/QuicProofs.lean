import QuicProofs.Bridge.FrameTable
import QuicProofs.Bridge.VarInt
import QuicProofs.Lemmas.RecvFlow
import QuicProofs.Lemmas.RecvViolations
import QuicProofs.Props.C04RecvFlow
import QuicProofs.Props.C05VarInt
