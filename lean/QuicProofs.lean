import QuicProofs.Bridge.VarInt
import QuicProofs.Lemmas.LocalIds
import QuicProofs.Lemmas.PeerIds
import QuicProofs.Lemmas.PeerView
import QuicProofs.Props.C05VarInt
import QuicProofs.Props.C13ConnectionIds
