import QuicProofs.Bridge.VarInt
import QuicProofs.Props.C05VarInt
