import QuicProofs.Bridge.Recovery
import QuicProofs.Bridge.VarInt
import QuicProofs.Lemmas.Recovery
import QuicProofs.Lemmas.RecoveryManager
import QuicProofs.Props.C05VarInt
import QuicProofs.Props.C09Recovery
import QuicProofs.Props.C09RecoveryManager
