import QuicProofs.Bridge.AckRanges
import QuicProofs.Bridge.VarInt
import QuicProofs.Lemmas.AckRanges
import QuicProofs.Lemmas.IntervalSet
import QuicProofs.Props.C05VarInt
import QuicProofs.Props.C16AckRanges
import QuicProofs.Props.C16IntervalSet
