import QuicProofs.Bridge.Recovery
import QuicProofs.Bridge.VarInt
import QuicProofs.Props.C05VarInt
