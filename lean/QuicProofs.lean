import QuicProofs.Bridge.VarInt
import QuicProofs.Lemmas.LocalIds
import QuicProofs.Props.C05VarInt
import QuicProofs.Props.C13ConnectionIds
