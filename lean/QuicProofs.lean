import QuicProofs.Bridge.DcReplay
import QuicProofs.Bridge.VarInt
import QuicProofs.Lemmas.DcReplay
import QuicProofs.Props.C05VarInt
import QuicProofs.Props.C19Replay
