import QuicModel.Codec.VarInt
import QuicModel.Data.RefBuf
import QuicModel.Driver
import QuicModel.Drivers.All
import QuicModel.Drivers.Reassembler
import QuicModel.Drivers.VarInt
import QuicModel.Generated.VarInt
import QuicModel.Prelude
