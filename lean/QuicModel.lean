import QuicModel.Prelude
import QuicModel.Driver
import QuicModel.Codec.VarInt
import QuicModel.Drivers.All
