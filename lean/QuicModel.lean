import QuicModel.Codec.VarInt
import QuicModel.Driver
import QuicModel.Drivers.All
import QuicModel.Drivers.VarInt
import QuicModel.Generated.VarInt
import QuicModel.Prelude
