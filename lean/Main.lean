import QuicModel.Drivers.All
open Quic

def main (args : List String) : IO UInt32 := do
  match args with
  | [name] =>
    match Drivers.all.find? (fun c => c.name == name) with
    | some c =>
      let stdin ← IO.getStdin
      let stdout ← IO.getStdout
      runLoop c stdin stdout c.init
      return 0
    | none =>
      IO.eprintln s!"unknown component {name}"
      return 2
  | _ =>
    IO.eprintln ("usage: driver <component>; components: " ++ " ".intercalate (Drivers.all.map (·.name)))
    return 2
