import QuicModel.Dc.Packets
import QuicModel.Dc.ReplayWindow
/-
  The path-secret map as far as secret-control packets can touch it. Transcribes
  dc/s2n-quic-dc/src/path/secret/map/state.rs (`handle_unknown_path_secret_packet`,
  `handle_stale_key_packet`, `handle_replay_detected_packet`, `evict`, `request_handshake`,
  `on_new_path_secrets`, `on_handshake_complete`), map.rs (`handle_control_packet`,
  `handle_unexpected_packet`), map/handshake.rs (`on_possible_secret_control_packet`) and
  sender.rs (`update_for_stale_key` = `fetch_max`, `next_key_id`).

  Rust state                                       model
  -----------------------------------------------  ------------------------------------------------
  ids : IdMap (id -> Arc<Entry>)                   entries with `live = true` (an evicted entry stays
                                                   in the list with `live = false`: holders of the
                                                   `Arc<Entry>` can still read/advance its counters)
  peers : PeerMap (addr -> Arc<Entry>)             peers : List (peer × id)
  Entry.sender.current_id (AtomicU64)              currentId
  Entry.receiver (replay window)                   receiver : ReplayWindow.State (never touched here)
  Entry.creation_time.elapsed() > 10 s             aged
  request_handshake callback invocations           handshakes (peers, in call order)
  should_evict_on_unknown_path_secret              evictOnUnknown;  `cfg!(test)` = cfgTest

  AUTHENTICATION IS AN ORACLE (ideal-MAC assumption): the handlers receive `auth : Entry → SecretView
  → Bool`, standing for `packet.authenticate(key of that entry)`. The theorems quantify over every
  oracle; the driver instantiates it with `Packets.idealOpen` (true iff that entry's peer produced
  exactly this call).
-/
namespace Quic.Dc.SecretMap
open Quic.Dc.Packets

structure Entry where
  id : List Nat
  peer : Nat
  currentId : Nat
  receiver : ReplayWindow.State
  aged : Bool
  live : Bool
  deriving Repr, DecidableEq

structure State where
  entries : List Entry
  peers : List (Nat × List Nat)
  handshakes : List Nat
  evictOnUnknown : Bool
  cfgTest : Bool
  deriving Repr, DecidableEq

def init (evict : Bool) : State := ⟨[], [], [], evict, false⟩

/-- subscriber events of the handlers, in emission order -/
inductive Event where
  | received (k : SecretKind) (id : List Nat)
  | dropped (k : SecretKind) (id : List Nat)
  | rejected (k : SecretKind) (id : List Nat)
  | accepted (k : SecretKind) (id : List Nat) (evict : Bool) (value : Nat)
  | evictedId (id : List Nat)
  | evictedAddr (id : List Nat)
  deriving Repr, DecidableEq

/-- `self.ids.get(id)` -/
def lookup (s : State) (id : List Nat) : Option Entry :=
  s.entries.find? (fun e => e.live && e.id == id)

def secretsLen (s : State) : Nat := (s.entries.filter (·.live)).length

/-- the handshake callbacks: `on_new_path_secrets` inserts into `ids` (a duplicate id panics),
    `on_handshake_complete` makes the entry the current one for its peer address -/
def handshake (s : State) (id : List Nat) (peer : Nat) : Option State :=
  if (lookup s id).isSome then none
  else some { s with
    entries := s.entries ++ [⟨id, peer, 0, ReplayWindow.init, false, true⟩],
    peers := (peer, id) :: s.peers.filter (fun p => p.1 != peer) }

/-- `State::evict`: drop from `ids`; drop from `peers` only when this exact entry is the current one -/
def evict (s : State) (e : Entry) : State × List Event :=
  let idRemoved := (lookup s e.id).isSome
  let peerRemoved := s.peers.any (fun p => p.1 == e.peer && p.2 == e.id)
  ({ s with
      entries := s.entries.map (fun x => if x.live && x.id == e.id then { x with live := false } else x),
      peers := s.peers.filter (fun p => !(p.1 == e.peer && p.2 == e.id)) },
   (if idRemoved then [Event.evictedId e.id] else []) ++ (if peerRemoved then [Event.evictedAddr e.id] else []))

/-- `request_handshake(peer, Remote)`: the registered callback is invoked with the entry's peer -/
def requestHandshake (s : State) (peer : Nat) : State := { s with handshakes := s.handshakes ++ [peer] }

/-- `update_for_stale_key`: `current_id.fetch_max(min_key_id)` -/
def updateForStaleKey (s : State) (id : List Nat) (minKeyId : Nat) : State :=
  { s with entries := s.entries.map (fun x =>
      if x.live && x.id == id then { x with currentId := max x.currentId minKeyId } else x) }

def handleUnknownPathSecret (auth : Entry → SecretView → Bool) (s : State) (v : SecretView) : State × List Event :=
  match lookup s v.credId with
  | none => (s, [.received .unknownPathSecret v.credId, .dropped .unknownPathSecret v.credId])
  | some e =>
    if !auth e v then (s, [.received .unknownPathSecret v.credId, .rejected .unknownPathSecret v.credId])
    else
      let shouldEvict := s.evictOnUnknown && (s.cfgTest || e.aged)
      let s1 := requestHandshake s e.peer
      let ev := [Event.received .unknownPathSecret v.credId, .accepted .unknownPathSecret v.credId shouldEvict 0]
      if shouldEvict then
        let r := evict s1 e
        (r.1, ev ++ r.2)
      else (s1, ev)

def handleStaleKey (auth : Entry → SecretView → Bool) (s : State) (v : SecretView) : State × List Event :=
  match lookup s v.credId with
  | none => (s, [.received .staleKey v.credId, .dropped .staleKey v.credId])
  | some e =>
    if !auth e v then (s, [.received .staleKey v.credId, .rejected .staleKey v.credId])
    else (updateForStaleKey s e.id v.value, [.received .staleKey v.credId, .accepted .staleKey v.credId false v.value])

def handleReplayDetected (auth : Entry → SecretView → Bool) (s : State) (v : SecretView) : State × List Event :=
  match lookup s v.credId with
  | none => (s, [.received .replayDetected v.credId, .dropped .replayDetected v.credId])
  | some e =>
    if !auth e v then (s, [.received .replayDetected v.credId, .rejected .replayDetected v.credId])
    else (requestHandshake s e.peer,
          [.received .replayDetected v.credId, .accepted .replayDetected v.credId false v.value])

/-- the ideal-MAC instance of the oracle: `sealed` lists what peers produced, as (credential id of
    the entry whose key / token was used, primitive call); a packet authenticates under entry `e` iff
    exactly its call was produced with `e`'s secrets -/
def idealAuth (sealed : List (List Nat × CryptoCall)) : Entry → SecretView → Bool :=
  fun e v => sealed.any (fun p => p.1 == e.id && p.2 == secretOpenCall v)

/-- `Map::handle_control_packet` -/
def handleControlPacket (auth : Entry → SecretView → Bool) (s : State) (v : SecretView) : State × List Event :=
  match v.kind with
  | .unknownPathSecret => handleUnknownPathSecret auth s v
  | .staleKey => handleStaleKey auth s v
  | .replayDetected => handleReplayDetected auth s v

/-- `dc::Endpoint::on_possible_secret_control_packet`: decode, require an empty tail, handle.
    `none` = the datagram was not taken (`false`). -/
def onPossibleSecretControlPacket (auth : Entry → SecretView → Bool) (s : State) (bytes : List Nat) :
    Option (State × List Event) :=
  match decodeSecretControl bytes with
  | .error _ => none
  | .ok (v, tail) => if tail.isEmpty then some (handleControlPacket auth s v) else none

/-- a datagram decoded by the tag dispatcher and handed to `Map::handle_unexpected_packet`:
    stream / datagram / control packets are ignored, the tail is not looked at -/
def handleUnexpectedPacket (auth : Entry → SecretView → Bool) (s : State) (bytes : List Nat) :
    Option (State × List Event) :=
  match decodeAny bytes with
  | .error _ => none
  | .ok (.secret v, _) => some (handleControlPacket auth s v)
  | .ok (_, _) => some (s, [])

/-- `sender::State::next_key_id`: `fetch_update(+1)`, refuses (panics) at `VarInt::MAX` -/
def nextKeyId (s : State) (k : Nat) : Option (State × Nat) :=
  match s.entries[k]? with
  | none => none
  | some e =>
    if e.currentId + 1 ≥ Quic.Codec.VarInt.maxValue then none
    else some ({ s with entries := s.entries.set k { e with currentId := e.currentId + 1 } }, e.currentId)

/-- the digest the harness prints for one entry: in `ids`?, current for its peer?, sender counter,
    receiver `minimum_unseen_key_id` -/
def entryDigest (s : State) (e : Entry) : Bool × Bool × Nat × Nat :=
  (e.live, s.peers.any (fun p => p.1 == e.peer && p.2 == e.id), e.currentId,
   ReplayWindow.minimumUnseenKeyId e.receiver)

end Quic.Dc.SecretMap
