import QuicModel.Prelude
/-
  dc sender key-id counter: transcription of dc/s2n-quic-dc/src/path/secret/sender.rs
  (`sender::State::{new, next_key_id, update_for_stale_key}`) as an interleaving machine.

  The whole shared state is one `AtomicU64` (`current_id`). Every operation on it is a single
  atomic read-modify-write:
    * `next_key_id`          = `fetch_update(|c| VarInt::try_from(c + 1).ok().filter(|id| id != VarInt::MAX))`
                               — a CAS loop; the successful CAS is the linearisation point, the
                               closure is pure. Returns the *previous* value; `None` (nothing
                               stored) makes the caller panic ("2^62 integer incremented per-path
                               will not wrap").
    * `update_for_stale_key` = `fetch_max(min_key_id)` — the value is used as is (no plus-one or minus-one
                               adjustment: the StaleKey packet already carries the receiver's
                               `minimum_unseen_key_id` = max_seen + 1).
  Atomic RMWs on one location are totally ordered (modification order), so a concurrent execution
  with any number of caller threads is a *sequence* of these steps; threads only label the steps.
  All orderings are Relaxed: nothing but the counter value itself is communicated.
-/
namespace Quic.Dc.KeyIds

/-- `VarInt::MAX` = 2^62 - 1 -/
def varIntMax : Nat := 4611686018427387903

/-- `State::new`: `AtomicU64::new(0)` -/
def init : Nat := 0

/-- one atomic step, labelled with the calling thread -/
inductive Step where
  | next (tid : Nat)
  | stale (tid : Nat) (minKeyId : Nat)
  deriving Repr, DecidableEq

/-- the closure passed to `fetch_update`: the new value to store, or `none` -/
def nextUpdate (current : Nat) : Option Nat :=
  -- `current + 1` is a checked u64 addition in debug builds; VarInt::try_from rejects > 2^62-1
  if current + 1 ≤ varIntMax then
    (if current + 1 ≠ varIntMax then some (current + 1) else none)
  else none

/-- `next_key_id`: new counter and `some previous` (the issued id) or `none` (= panic, nothing stored) -/
def next (c : Nat) : Nat × Option Nat :=
  match nextUpdate c with
  | some c' => (c', some c)
  | none => (c, none)

/-- `update_for_stale_key(min_key_id)`: `fetch_max` -/
def staleKey (c : Nat) (v : Nat) : Nat := max c v

def step (c : Nat) : Step → Nat × Option Nat
  | .next _ => next c
  | .stale _ v => (staleKey c v, none)

def Step.tid : Step → Nat
  | .next t => t
  | .stale t _ => t

/-- counter after an interleaving -/
def runState (c : Nat) : List Step → Nat
  | [] => c
  | s :: ss => runState (step c s).1 ss

/-- ids issued along an interleaving, in linearisation order -/
def issued (c : Nat) : List Step → List Nat
  | [] => []
  | s :: ss =>
    match (step c s).2 with
    | some id => id :: issued (step c s).1 ss
    | none => issued (step c s).1 ss

/-- ids issued to one thread, in that thread's program order -/
def issuedTo (t : Nat) (c : Nat) : List Step → List Nat
  | [] => []
  | s :: ss =>
    match (step c s).2 with
    | some id => if s.tid = t then id :: issuedTo t (step c s).1 ss else issuedTo t (step c s).1 ss
    | none => issuedTo t (step c s).1 ss

/-- number of `next` calls that panicked (refused) -/
def refused (c : Nat) : List Step → Nat
  | [] => 0
  | .next _ :: ss => (if (next c).2 = none then 1 else 0) + refused (next c).1 ss
  | .stale _ v :: ss => refused (staleKey c v) ss

end Quic.Dc.KeyIds
