import QuicModel.Prelude
/-
  dc replay window: transcription of dc/s2n-quic-dc/src/path/secret/receiver.rs
  (`receiver::State::{new, pre_authentication, minimum_unseen_key_id, post_authentication}`).

  Rust state                                  model
  ------------------------------------------  ----------------------------------------------
  max_seen_key_id : AtomicU64 (u64::MAX =     maxSeen : Option Nat   (none = the sentinel)
    "nothing seen yet" sentinel)
  seen : Mutex<BitArr!(for WINDOW)>           seen : List Bool, length = WINDOW = 896;
                                              bit i  <->  key id (max_seen - i)

  `post_authentication` takes the mutex in its first statement after the (pure) pre-check and
  holds it to the end; the only accesses to `max_seen_key_id` outside the lock are the Relaxed
  load in `minimum_unseen_key_id` (advisory, feeds StaleKey packets only). Therefore every
  concurrent history of `post_authentication` calls is a sequential history of `postAuthentication`
  steps in lock-acquisition order (ASSUMPTION: `std::sync::Mutex` gives mutual exclusion and
  the usual happens-before between critical sections). `bitvec`'s `shift_end`/`fill`/`get_mut`
  are modelled by their documented behaviour (`shiftEnd` below), not verified.

  `Spec` is the independent reference: the plain set of accepted ids and the highest accepted
  id, with the acceptance rule of the property text.
-/
namespace Quic.Dc.ReplayWindow

/-- `const WINDOW: usize = 896;` (re-extracted by tools/extractors/dc_replay.py, bridged) -/
def WINDOW : Nat := 896

/-- `KeyId::MAX` = `VarInt::MAX` = 2^62 - 1 -/
def keyIdMax : Nat := 4611686018427387903

/-- `receiver::Error` -/
inductive Error where
  | alreadyExists   -- "packet definitely already seen before"
  | unknown         -- "packet may have been seen before" (too old / reserved id)
  deriving Repr, DecidableEq

structure State where
  maxSeen : Option Nat
  seen : List Bool
  deriving Repr, DecidableEq

/-- `State::new()` -/
def init : State := ⟨none, List.replicate WINDOW false⟩

/-- `pre_authentication`: only the reserved maximum id is refused. -/
def preAuthentication (keyId : Nat) : Except Error Unit :=
  if keyId = keyIdMax then .error .unknown else .ok ()

/-- `minimum_unseen_key_id`: `KeyId::try_from(max_seen.wrapping_add(1)).unwrap_or(KeyId::MAX)`;
    the sentinel u64::MAX wraps to 0. -/
def minimumUnseenKeyId (s : State) : Nat :=
  match s.maxSeen with
  | none => 0
  | some m => if m + 1 ≤ keyIdMax then m + 1 else keyIdMax

/-- `BitSlice::shift_end(by)` (bitvec 1.x): no-op for 0, clear for `by = len`, otherwise
    move bit i to i+by and clear the first `by` bits. (`by > len` panics in bitvec; the caller
    excludes it by the `delta > seen.len()` test.) -/
def shiftEnd (seen : List Bool) (by_ : Nat) : List Bool :=
  if by_ = 0 then seen
  else if by_ = seen.length then List.replicate seen.length false
  else List.replicate by_ false ++ seen.take (seen.length - by_)

/-- `let mut previous_max = load(); let new_max = if previous_max == u64::MAX { previous_max = 0; key_id }
    else { previous_max.max(key_id) };` — the pair (previous_max, new_max) after this statement -/
def prevNew (s : State) (keyId : Nat) : Nat × Nat :=
  match s.maxSeen with
  | none => (0, keyId)
  | some m => (m, max m keyId)

/-- `if let Some(mut entry) = seen.get_mut(idx) { if *entry { return Err(AlreadyExists) } entry.set(true); Ok(()) }
    else { return Err(Unknown) }` with the state left behind (`max_seen_key_id` was already stored) -/
def testAndSet (newMax : Nat) (seen : List Bool) (idx : Nat) : State × Except Error Unit :=
  match seen[idx]? with
  | some true => (⟨some newMax, seen⟩, .error .alreadyExists)
  | some false => (⟨some newMax, seen.set idx true⟩, .ok ())
  | none => (⟨some newMax, seen⟩, .error .unknown)

/-- `post_authentication`, statement by statement. The returned state is what is left in
    `self` when the function returns (also on the error paths: the new maximum is stored and the
    window shifted *before* the bit is tested). -/
def postAuthentication (s : State) (keyId : Nat) : State × Except Error Unit :=
  -- self.pre_authentication(identity)?;
  match preAuthentication keyId with
  | .error e => (s, .error e)
  | .ok () =>
    -- let mut previous_max = load(); let new_max = if previous_max == u64::MAX { previous_max = 0; key_id } else { previous_max.max(key_id) };
    let previousMax := (prevNew s keyId).1
    let newMax := (prevNew s keyId).2
    -- let delta = new_max - previous_max;
    let delta := newMax - previousMax
    -- if delta > seen.len() { seen.fill(false) } else { seen.shift_end(delta) }
    let seen := if delta > s.seen.length then List.replicate s.seen.length false else shiftEnd s.seen delta
    -- let Ok(idx) = usize::try_from(new_max - key_id)   (never fails on a 64-bit target)
    let idx := newMax - keyId
    -- seen.get_mut(idx)
    testAndSet newMax seen idx

def isOk : Except Error Unit → Bool
  | .ok _ => true
  | .error _ => false

/-- state after a whole (linearised) history of `post_authentication` calls -/
def runState (s : State) : List Nat → State
  | [] => s
  | k :: ks => runState (postAuthentication s k).1 ks

/-- results of a whole history -/
def runOut (s : State) : List Nat → List (Except Error Unit)
  | [] => []
  | k :: ks => (postAuthentication s k).2 :: runOut (postAuthentication s k).1 ks

/-- the ids that were answered `Ok(())` in a history, most recent first -/
def acceptedIds (s : State) : List Nat → List Nat → List Nat
  | acc, [] => acc
  | acc, k :: ks =>
    acceptedIds (postAuthentication s k).1 (if isOk (postAuthentication s k).2 then k :: acc else acc) ks

/-- ids currently remembered by the window (ascending distance from the maximum) -/
def marked (s : State) : List Nat :=
  match s.maxSeen with
  | none => []
  | some m => (List.range s.seen.length).filterMap (fun i => if s.seen.getD i false then some (m - i) else none)

/-! ### independent reference: set of accepted ids + highest accepted id -/

structure Spec where
  accepted : List Nat
  max : Option Nat
  deriving Repr, DecidableEq

def Spec.init : Spec := ⟨[], none⟩

/-- the property's acceptance rule: not the reserved id, not yet accepted, and above — or less than
    `WINDOW` below — the highest id accepted so far -/
def Spec.accepts (sp : Spec) (k : Nat) : Bool :=
  decide (k ≠ keyIdMax) && !sp.accepted.contains k &&
    (match sp.max with
     | none => true
     | some m => decide (k > m) || decide (m - k < WINDOW))

def Spec.newMax (sp : Spec) (k : Nat) : Nat :=
  match sp.max with
  | none => k
  | some m => Nat.max m k

def Spec.step (sp : Spec) (k : Nat) : Spec × Bool :=
  if sp.accepts k then
    (⟨k :: sp.accepted, some (sp.newMax k)⟩, true)
  else (sp, false)

/-- the highest element of a list of ids -/
def highest : List Nat → Option Nat
  | [] => none
  | k :: ks => some (match highest ks with | none => k | some m => Nat.max m k)

def Spec.runState (sp : Spec) : List Nat → Spec
  | [] => sp
  | k :: ks => Spec.runState (sp.step k).1 ks

end Quic.Dc.ReplayWindow
