import QuicModel.Data.RefBufSpec
/-
  `Dc.StreamSend` — sender SKELETON of an s2n-quic-dc stream (reliable stream over a datagram
  transport). What each definition abstracts (dc/s2n-quic-dc/src/stream/send/…):

    * `Send` (application part)   `flow::non_blocking::State` (`stream_offset` = `written.length`,
                                  FINISHED_MASK = `finWritten`, `flow_offset` = `flowOffset`),
                                  `shared.sender.packet_number` (`nextPn`) and
                                  `application_transmission_queue` (`pending`).
    * `Send` (worker part)        `state::State`: `sent_stream_packets`, `sent_recovery_packets`,
                                  `stream_packet_buffers` (`live`), `retransmissions` (the BinaryHeap
                                  is a FIFO list here), `recovery_packet_number`, `max_sent_offset`,
                                  `max_data`, `local_max_data_window`, `unacked_ranges` (kept as the
                                  list `acked` of removed ranges), `state: stream::state::Sender`,
                                  `pto.transmissions()`, `error`. The congestion controller is two
                                  oracle numbers (`cwnd`, `bytesInFlight`) that the `cca` op may set
                                  to anything (CUBIC/BBR are floating point; C10/C11 cover them).
    * `computeFlowOffset`         `State::flow_offset` (state.rs ~l.225): min of the CCA offset, the
                                  local offset and the peer's MAX_DATA. The expression is re-read from
                                  the source on every run (tools/extractors/dc_stream.py, tie G).
    * `write`                     `application::Inner::poll_write_from` + `flow::…::poll_acquire`
                                  (credits = `flow_offset − stream_offset`, a zero-length FIN needs no
                                  credit, `Request::clamp`) + `application::state::transmit` (the
                                  payload is cut into packets of at most `mss` bytes, the last one
                                  carries the FIN) — the application itself seals and sends them.
    * `load`                      `State::load_transmission_queue` / `on_transmit_segment`.
    * `ack`                       `on_frame_ack` for ONE ack range of one space (+ `try_finish`); the
                                  per-packet loops of `ack`, `detectLost`, `load` are written as
                                  filters/maps over the affected packets.
    * `detectLost`                `detect_lost_packets` (packet threshold 2, retransmission of the
                                  stored segment only while its buffer is still alive).
    * `maxData`                   `FrameMut::MaxData` in `on_control_packet_impl`.
    * `release` / `releaseMax`    `worker::Snapshot::apply` → `flow.release` / `flow.release_max`.
    * `timeout`                   PTO expiry (`Pto::on_timeout` sets the number of probes).
    * `transmit`                  `fill_transmit_queue_impl`: `make_stream_packets_as_pto_probes`,
                                  `try_transmit_retransmissions` (the SAME stored segment is sent
                                  again under a fresh recovery packet number — `decoder::Packet::
                                  retransmit` rewrites only tag/packet number/auth tag; `budget` =
                                  how many the congestion window lets through), `try_transmit_probe`
                                  (empty payload at `max_sent_offset`, FIN iff `state.is_data_sent()`).
    * `detach`                    worker `waiting::State::Detached`: application queue flushed and
                                  loaded, `on_send_fin()` forced, `pto.force_transmit()`.
    * `fail`                      `State::on_error` + `clean_up`.

  A segment's metadata (`transmission::Info {stream_offset, payload_len, included_fin}`) and the
  bytes of its stored buffer are ONE `Frame` here (the wire bytes of a retransmission come from the
  buffer, the bookkeeping from the metadata; their agreement is by construction in
  `application::state::transmit`). Eager instead of lazy removal of retransmissions whose buffer was
  acknowledged (`stream_packet_buffers.get_mut(..) == None ⇒ pop; continue`).
  Not modelled: packet encoding, pacing, ECN, RTT/PTO timers and backoff, idle timer of the sender
  (same structure as the receiver's), unreliable streams, VarInt overflow of offsets.
-/
namespace Quic.Dc.StreamSend
open Quic.Data.RefBuf (Frame Consistent maxOffset)

/-- `stream::state::Sender` -/
inductive SState
  | ready | send | dataSent | dataRecvd | resetQueued | resetSent | resetRecvd
  deriving DecidableEq, Repr

/-- `on_send_stream(Ready => Send)` (result ignored) -/
def SState.onSendStream : SState → SState
  | .ready => .send
  | s => s
/-- `on_send_fin(Ready | Send => DataSent)`; `some` = `Ok` -/
def SState.onSendFin : SState → Option SState
  | .ready => some .dataSent
  | .send => some .dataSent
  | _ => none
/-- `on_recv_all_acks(DataSent | ResetQueued => DataRecvd)` -/
def SState.onRecvAllAcks : SState → Option SState
  | .dataSent => some .dataRecvd
  | .resetQueued => some .dataRecvd
  | _ => none
/-- `on_queue_reset(Ready | Send | DataSent => ResetQueued)` -/
def SState.onQueueReset : SState → SState
  | .ready => .resetQueued
  | .send => .resetQueued
  | .dataSent => .resetQueued
  | s => s

/-- a packet put on the wire -/
structure Wire where
  recovery : Bool
  pn : Nat
  frame : Frame
  deriving Repr, DecidableEq

structure Send where
  written : List Nat := []
  finWritten : Bool := false
  flowOffset : Nat
  nextPn : Nat := 0
  pending : List (Nat × Frame) := []
  state : SState := .ready
  sentStream : List (Nat × Frame) := []
  /-- `(pn, info, has a retransmittable segment)`; probes have none -/
  sentRecovery : List (Nat × Frame × Bool) := []
  live : List Frame := []
  retransmissions : List Frame := []
  recoveryPn : Nat := 0
  maxSentOffset : Nat := 0
  maxData : Nat
  localWindow : Nat
  /-- offsets removed from `unacked_ranges`: `[lo, hi)`, or `[lo, ∞)` for `none` -/
  acked : List (Nat × Option Nat) := []
  cwnd : Nat
  bytesInFlight : Nat := 0
  ptoTransmissions : Nat := 0
  error : Bool := false
  deriving Repr

/-- `State::new`: `max_data = params.remote_max_data`, `local_max_data_window =
    params.local_send_max_data`; the flow state starts at `flow_offset()` of the fresh state -/
def init (remoteMaxData localSendMaxData cwnd : Nat) : Send :=
  { flowOffset := min (min cwnd (min localSendMaxData maxOffset)) remoteMaxData,
    maxData := remoteMaxData, localWindow := localSendMaxData, cwnd := cwnd }

def inRange (r : Nat × Option Nat) (x : Nat) : Bool :=
  decide (r.1 ≤ x) && (match r.2 with
    | none => true
    | some hi => decide (x < hi))

/-- `unacked_ranges.min_value()`: smallest offset in no removed range (`none` = the set is empty) -/
def unackedMin (acked : List (Nat × Option Nat)) : Nat → Nat → Option Nat
  | 0, cur => some cur
  | fuel + 1, cur =>
    match acked.find? (fun r => inRange r cur) with
    | none => some cur
    | some (_, none) => none
    | some (_, some hi) => unackedMin acked fuel hi

def unackedStart (s : Send) : Option Nat := unackedMin s.acked (s.acked.length + 1) 0

/-- `cca_offset` of `State::flow_offset` -/
def ccaOffset (s : Send) : Nat :=
  let extraWindow := s.cwnd - s.bytesInFlight
  let extraWindow := if !s.retransmissions.isEmpty then 0 else extraWindow
  s.maxSentOffset + extraWindow

/-- `local_offset` of `State::flow_offset` (`saturating_add`) -/
def localOffset (s : Send) : Nat := min ((unackedStart s).getD 0 + s.localWindow) maxOffset

/-- `remote_offset` of `State::flow_offset` -/
def remoteOffset (s : Send) : Nat := s.maxData

/-- the combination `cca_offset.min(local_offset).min(remote_offset)` as data (pinned; the bridge
    `QuicProofs.Bridge.DcStream` proves the expression extracted from the source equal to it) -/
def flowCombine (cca loc remote : Nat) : Nat := min (min cca loc) remote

/-- `State::flow_offset` -/
def computeFlowOffset (s : Send) : Nat := flowCombine (ccaOffset s) (localOffset s) (remoteOffset s)

/-- `application::state::transmit`: cut the accepted bytes into packets of at most `mss` payload
    bytes starting at `off`; only the last one carries the FIN -/
def cut (mss : Nat) : Nat → Nat → List Nat → Bool → List Frame
  | 0, _, _, _ => []
  | fuel + 1, off, d, fin =>
    if d.length ≤ mss then [⟨off, d, fin⟩]
    else ⟨off, d.take mss, false⟩ :: cut mss fuel (off + mss) (d.drop mss) fin

/-- consecutive packet numbers -/
def number : Nat → List Frame → List (Nat × Frame)
  | _, [] => []
  | pn, f :: fs => (pn, f) :: number (pn + 1) fs

inductive WriteOut
  | accepted (n : Nat)
  | blocked
  | err
  deriving Repr, DecidableEq

/-- `poll_write_from(buf, is_fin)` for a buffer holding `data` -/
def write (s : Send) (data : List Nat) (fin : Bool) (mss : Nat) : Send × List Wire × WriteOut :=
  if s.error then (s, [], .err)
  -- `!matches!(self.status, Status::Open)`
  else if s.finWritten then (s, [], if data.isEmpty && fin then .accepted 0 else .err)
  else
    let cur := s.written.length
    -- `flow_offset.checked_sub(current_offset)`, filtered: a bare FIN needs no credit
    if s.flowOffset < cur then (s, [], .blocked)
    else
      let credits := s.flowOffset - cur
      if credits = 0 ∧ ¬ (data.isEmpty ∧ fin) then (s, [], .blocked)
      else
        -- `request.clamp(flow_credits)`
        let len := min data.length credits
        let fin' := fin && decide (len = data.length)
        let accepted := data.take len
        if len = 0 ∧ !fin' then (s, [], .accepted 0)
        else
          let frames := number s.nextPn (cut (max mss 1) (len + 1) cur accepted fin')
          ({ s with written := s.written ++ accepted, finWritten := fin',
                    nextPn := s.nextPn + frames.length, pending := s.pending ++ frames },
           frames.map (fun pf => ⟨false, pf.1, pf.2⟩), .accepted len)

/-- `on_transmit_segment`, the state machine part: `on_send_stream`, and `on_send_fin` for a FIN -/
def segState (st : SState) (f : Frame) : SState :=
  let st := st.onSendStream
  if f.fin then (st.onSendFin).getD st else st

/-- `on_transmit_segment` for one segment (everything but the `sent_*_packets` insertion) -/
def onTransmitSegment (s : Send) (f : Frame) : Send :=
  { s with
    maxSentOffset := max s.maxSentOffset f.end_
    state := segState s.state f
    -- `unacked_ranges.remove(final_offset..)`
    acked := if f.fin then (f.end_, none) :: s.acked else s.acked }

/-- `load_transmission_queue`: `on_transmit_segment` for every queued application transmission (the
    per-segment loop written field by field), then `reset_pto_timer` if there was any -/
def load (s : Send) : Send :=
  let fs := s.pending.map (·.2)
  { s with
    pending := []
    sentStream := s.sentStream ++ s.pending
    live := s.live ++ fs
    maxSentOffset := (fs.map Frame.end_).foldl max s.maxSentOffset
    state := fs.foldl segState s.state
    acked := ((fs.filter (·.fin)).map (fun f => (f.end_, (none : Option Nat)))).reverse ++ s.acked
    ptoTransmissions := if s.pending.isEmpty then s.ptoTransmissions else 0 }

/-- `tracking_range` of a segment -/
def trackingRange (f : Frame) : Nat × Option Nat := (f.off, if f.fin then none else some f.end_)

/-- `clean_up` -/
def cleanUp (s : Send) : Send :=
  { s with retransmissions := [], sentStream := [], sentRecovery := [], acked := [(0, none)], live := [] }

/-- `try_finish` -/
def tryFinish (s : Send) : Send :=
  if (unackedStart s).isSome then s
  else if s.error then s
  else
    match s.state.onRecvAllAcks with
    | some st => cleanUp { s with state := st }
    | none => s

/-- `on_frame_ack` for the range `lo..=hi` of one space (the per-packet loop written field by
    field: the acknowledged packets leave the sent map, their tracking ranges leave `unacked_ranges`,
    the stored segments are freed and with them their queued retransmissions), then `try_finish` -/
def ack (s : Send) (recovery : Bool) (lo hi : Nat) : Send :=
  let hit (pn : Nat) : Bool := decide (lo ≤ pn) && decide (pn ≤ hi)
  let ackedS := if recovery then [] else s.sentStream.filter (fun p => hit p.1)
  let ackedR := if recovery then s.sentRecovery.filter (fun p => hit p.1) else []
  let freed : List Frame := ackedS.map (·.2) ++ (ackedR.filter (·.2.2)).map (·.2.1)
  let ranges := ackedS.map (fun p => trackingRange p.2) ++ ackedR.map (fun p => trackingRange p.2.1)
  tryFinish
    { s with
      sentStream := if recovery then s.sentStream else s.sentStream.filter (fun p => !hit p.1)
      sentRecovery := if recovery then s.sentRecovery.filter (fun p => !hit p.1) else s.sentRecovery
      acked := ranges.reverse ++ s.acked
      live := s.live.filter (fun f => !freed.contains f)
      retransmissions := s.retransmissions.filter (fun f => !freed.contains f) }

/-- `detect_lost_packets(space, max)`: everything at or below `max − 2` is lost; a lost packet's
    stored segment is queued for retransmission while its buffer is still alive -/
def detectLost (s : Send) (recovery : Bool) (maxAcked : Nat) : Send :=
  if maxAcked < 2 then s
  else
    let threshold := maxAcked - 2
    let lostS := if recovery then [] else s.sentStream.filter (fun p => decide (p.1 ≤ threshold))
    let lostR := if recovery then s.sentRecovery.filter (fun p => decide (p.1 ≤ threshold)) else []
    let again : List (Nat × Frame) :=
      (lostS ++ (lostR.filter (·.2.2)).map (fun p => (p.1, p.2.1))).filter (fun p => s.live.contains p.2)
    { s with
      sentStream := if recovery then s.sentStream else s.sentStream.filter (fun p => !decide (p.1 ≤ threshold))
      sentRecovery := if recovery then s.sentRecovery.filter (fun p => !decide (p.1 ≤ threshold)) else s.sentRecovery
      recoveryPn := (again.map (fun p => p.1 + 1)).foldl max s.recoveryPn
      retransmissions := s.retransmissions ++ again.map (·.2) }

/-- `make_stream_packets_as_pto_probes`: the oldest in-flight segments become retransmissions -/
def makeProbes (s : Send) : Send :=
  match s.sentStream with
  | [] => s
  | first :: _ =>
    if s.ptoTransmissions < s.retransmissions.length then s
    else
      let remaining := s.ptoTransmissions - s.retransmissions.length
      let picked := (s.sentStream.take remaining).map (·.2)
      -- "if we only have a single in-flight segment we transmit it `remaining` times"
      let picked := picked ++ List.replicate (remaining - picked.length) first.2
      { s with retransmissions := s.retransmissions ++ picked,
               recoveryPn := max s.recoveryPn (((s.sentStream.take remaining).map (·.1)).foldl max 0 + 1) }

/-- one retransmission: the stored segment under a fresh recovery packet number -/
def retransmitOne (s : Send) (f : Frame) : Send × Wire :=
  let pn := s.recoveryPn
  let s := onTransmitSegment { s with recoveryPn := pn + 1 } f
  ({ s with sentRecovery := s.sentRecovery ++ [(pn, f, true)],
            ptoTransmissions := s.ptoTransmissions - 1 }, ⟨true, pn, f⟩)

/-- `try_transmit_retransmissions` with the congestion window letting `budget` of them through -/
def retransmit : Nat → Send → Send × List Wire
  | 0, s => (s, [])
  | budget + 1, s =>
    match s.retransmissions with
    | [] => (s, [])
    | f :: rest =>
      let r := retransmitOne { s with retransmissions := rest } f
      let r' := retransmit budget r.1
      (r'.1, r.2 :: r'.2)

/-- one PTO probe: no payload, offset `max_sent_offset`, FIN iff `state.is_data_sent()` -/
def probeOne (s : Send) : Send × Wire :=
  let pn := s.recoveryPn
  let f : Frame := ⟨s.maxSentOffset, [], decide (s.state = .dataSent)⟩
  let s := onTransmitSegment { s with recoveryPn := pn + 1 } f
  ({ s with sentRecovery := s.sentRecovery ++ [(pn, f, false)],
            ptoTransmissions := s.ptoTransmissions - 1 }, ⟨true, pn, f⟩)

/-- `try_transmit_probe`: `while self.pto.transmissions() > 0` -/
def probes : Nat → Send → Send × List Wire
  | 0, s => (s, [])
  | fuel + 1, s =>
    if s.ptoTransmissions = 0 then (s, [])
    else
      let r := probeOne s
      let r' := probes fuel r.1
      (r'.1, r.2 :: r'.2)

/-- `fill_transmit_queue_impl` -/
def transmit (s : Send) (budget : Nat) : Send × List Wire :=
  let s := if s.ptoTransmissions > 0 then makeProbes { s with recoveryPn := s.recoveryPn + 1 } else s
  let r := retransmit budget s
  let p := probes r.1.ptoTransmissions r.1
  (p.1, r.2 ++ p.2)

/-- worker `waiting::State::Detached` -/
def detach (s : Send) : Send :=
  let s := load s
  let s := { s with finWritten := true }
  match s.state.onSendFin with
  | some st => { s with state := st, ptoTransmissions := max s.ptoTransmissions 1 }
  | none => s

/-- `State::on_error` -/
def fail (s : Send) : Send :=
  if s.error then s
  else
    let s := cleanUp { s with error := true, state := s.state.onQueueReset }
    { s with ptoTransmissions := max s.ptoTransmissions 1 }

inductive Op
  | write (data : List Nat) (fin : Bool) (mss : Nat)
  | load
  | ack (recovery : Bool) (lo hi : Nat)
  | detectLost (recovery : Bool) (maxAcked : Nat)
  | maxData (v : Nat)
  | cca (cwnd bytesInFlight : Nat)
  | release
  | releaseMax
  | timeout (probes : Nat)
  | transmit (budget : Nat)
  | detach
  | fail
  deriving Repr

def step (s : Send) : Op → Send × List Wire
  | .write d fin mss => let r := write s d fin mss; (r.1, r.2.1)
  | .load => (load s, [])
  | .ack rec lo hi => (ack s rec lo hi, [])
  | .detectLost rec m => (detectLost s rec m, [])
  | .maxData v => ({ s with maxData := max s.maxData v }, [])
  | .cca c b => ({ s with cwnd := c, bytesInFlight := b }, [])
  | .release => ({ s with flowOffset := computeFlowOffset s }, [])
  | .releaseMax => ({ s with flowOffset := max s.flowOffset (computeFlowOffset s) }, [])
  | .timeout n => ({ s with ptoTransmissions := n }, [])
  | .transmit b => transmit s b
  | .detach => (detach s, [])
  | .fail => (fail s, [])

/-- sender plus the ghost list of everything it ever put on the wire -/
structure Trace where
  send : Send
  emitted : List Wire := []

def Trace.step (t : Trace) (op : Op) : Trace :=
  let r := StreamSend.step t.send op
  { send := r.1, emitted := t.emitted ++ r.2 }

def run (s : Send) (ops : List Op) : Trace := ops.foldl Trace.step { send := s }

end Quic.Dc.StreamSend
