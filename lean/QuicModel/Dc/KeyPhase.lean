import QuicModel.Prelude
/-
  dc key-phase wrappers: transcription of dc/s2n-quic-dc/src/path/secret/key.rs
  (`seal::Application`, `seal::Once`, `open::Application`, `open::Once`), of `map::Dedup`
  (path/secret/map/status.rs) and of the two call sites of `update()` in the stream code
  (`stream::crypto::Crypto::{seal_with, open_with}`, closure of `send/application.rs`).

  Keys are ABSTRACT: a key is named by the chain it belongs to (one chain per (path secret, key id,
  derivation label, direction)) and its generation in that chain (`schedule::{SealUpdate,OpenUpdate}::next`
  derives generation g+1 from generation g). IDEAL-AEAD ASSUMPTION (the one already used by C18/C15):
  `awslc::open::Application::{decrypt, decrypt_in_place}` succeed iff the opener key is exactly the key
  the packet was sealed with (same chain, same generation) and packet number, header, ciphertext and tag
  are the ones the sealing call produced; otherwise they fail with `InvalidTag` (`aeadOpens`).

  Rust                                             model
  -----------------------------------------------  -------------------------------------------------
  KeyPhase::{Zero, One}                            Bool (false = Zero, true = One); `next_phase` = `!`
  seal::Application.{sealer, ku}                   Sealer.{chain, gen}
  seal::Application.encrypted_records: AtomicU64   Sealer.encryptedRecords : Nat   (2^64 wrap not modelled)
  open::Application.openers: [_; 2]                Opener.{slot0, slot1} : generation held by each slot
  open::Application.ku                             Opener.kuNext : generation the next `ku.next()` yields
  open::Application.needs_update: AtomicBool       Opener.needsUpdate
  map::Dedup { cell: OnceCell<Result>, init }      Dedup.{cell, init}
  map.store.check_dedup(..) (replay window, C19)   the `mapAnswer` argument (consulted at most once)

  The wrappers are `&self` with Relaxed atomics; the stream code only touches them under
  `Mutex<Opener>` / `Mutex<Sealer>` (stream/crypto.rs), so a sequential model is exact there.
-/
namespace Quic.Dc.KeyPhase

/-- `crypto::open::Error` (the variants these types can produce) -/
inductive OpenError where
  | replayPotentially      -- ReplayPotentiallyDetected { gap }
  | replayDefinitely       -- ReplayDefinitelyDetected
  | invalidTag
  | singleUseKey
  | rotationNotSupported
  deriving Repr, DecidableEq

/-- one call of `seal::Application::encrypt`: which key sealed what -/
structure Sealed where
  chain : Nat
  gen : Nat
  pn : Nat
  hdr : List Nat
  payload : List Nat
  deriving Repr, DecidableEq

/-- what an opener is handed: the key-phase bit found in the packet's tag byte, and the
    (pn, header, ciphertext, tag) bytes, described by the sealing call they stem from (if any) and
    whether ANY of those bytes differs from what that call produced. -/
structure Wire where
  phase : Bool
  origin : Option Sealed
  altered : Bool
  deriving Repr, DecidableEq

/-- ideal AEAD: the key (chain, gen) opens the packet iff it is the sealing key and nothing was altered -/
def aeadOpens (chain gen : Nat) (w : Wire) : Bool :=
  match w.origin with
  | none => false
  | some s => !w.altered && s.chain == chain && s.gen == gen

/-! ### map::Dedup -/

/-- `cell`: `none` = OnceCell not initialised; `some none` = `Ok(())`; `some (some e)` = `Err(e)`.
    `init`: the `Cell<Option<DedupInit>>` still holds `Some(..)`. -/
structure Dedup where
  cell : Option (Option OpenError)
  init : Bool
  deriving Repr, DecidableEq

/-- `Dedup::new(entry, key_id, queue_id, map)` -/
def Dedup.new : Dedup := ⟨none, true⟩

/-- `Dedup::disabled()` -/
def Dedup.disabled : Dedup := ⟨some none, false⟩

/-- `Dedup::check`: `*self.cell.get_or_init(|| match self.init.take() { Some(..) => map.store.check_dedup(..),
    None => Err(ReplayPotentiallyDetected { gap: None }) })`; `mapAnswer` is what `check_dedup` returns if asked now. -/
def Dedup.check (d : Dedup) (mapAnswer : Option OpenError) : Dedup × Option OpenError :=
  match d.cell with
  | some r => (d, r)
  | none =>
    let r := if d.init then mapAnswer else some .replayPotentially
    (⟨some r, false⟩, r)

/-- does this `check` call reach the map (replay window)? -/
def Dedup.asksMap (d : Dedup) : Bool := d.cell.isNone && d.init

/-! ### seal::Application -/

structure Sealer where
  chain : Nat
  gen : Nat
  keyPhase : Bool
  encryptedRecords : Nat
  deriving Repr, DecidableEq

/-- `seal::Application::new` -/
def Sealer.new (chain : Nat) : Sealer := ⟨chain, 0, false, 0⟩

/-- RFC 9001 §6.6 limit and threshold, and the debug-build record budget (`TEST_MAX_RECORDS`) -/
def LIMIT : Nat := 2 ^ 23
def THRESHOLD : Nat := 2 ^ 16
def TEST_MAX_RECORDS : Nat := 4096

/-- `const MAX_RECORDS: u64 = if cfg!(debug_assertions) { TEST_MAX_RECORDS } else { LIMIT - THRESHOLD };` -/
def maxRecords (debugAssertions : Bool) : Nat :=
  if debugAssertions then TEST_MAX_RECORDS else LIMIT - THRESHOLD

/-- `needs_update`: `self.encrypted_records.load(Relaxed) >= MAX_RECORDS` -/
def Sealer.needsUpdate (maxRec : Nat) (s : Sealer) : Bool := decide (s.encryptedRecords ≥ maxRec)

/-- `encrypt`: `self.encrypted_records.fetch_add(1, Relaxed); self.sealer.encrypt(..)`; the caller puts
    `key_phase()` into the packet's tag byte. -/
def Sealer.encrypt (s : Sealer) (pn : Nat) (hdr payload : List Nat) : Sealer × Wire :=
  ({ s with encryptedRecords := s.encryptedRecords + 1 },
   ⟨s.keyPhase, some ⟨s.chain, s.gen, pn, hdr, payload⟩, false⟩)

/-- `update`: next sealer of the chain, fresh record counter, `key_phase.next_phase()` -/
def Sealer.update (s : Sealer) : Sealer :=
  { s with gen := s.gen + 1, encryptedRecords := 0, keyPhase := !s.keyPhase }

/-- `n` calls of `encrypt` (one `transmit` batch); only the counter matters -/
def Sealer.encryptN (s : Sealer) (n : Nat) : Sealer :=
  { s with encryptedRecords := s.encryptedRecords + n }

/-- `Crypto::seal_with(seal, update)`: run the sealing closure, then `if guard.needs_update() { update(&mut guard) }`
    where the closure of `send/application.rs` is `if features.is_reliable() { sealer.update(..) } else { /* TODO */ }`.
    `afterSeal` is the sealer the closure left behind. -/
def sealWithTail (maxRec : Nat) (reliable : Bool) (afterSeal : Sealer) : Sealer :=
  if afterSeal.needsUpdate maxRec then
    (if reliable then afterSeal.update else afterSeal)
  else afterSeal

/-! ### open::Application -/

structure Opener where
  chain : Nat
  slot0 : Nat
  slot1 : Nat
  kuNext : Nat
  keyPhase : Bool
  dedup : Dedup
  needsUpdate : Bool
  deriving Repr, DecidableEq

/-- `open::Application::new(opener, ku, dedup)`: `let (opener2, ku) = ku.next(); openers = [opener, opener2]` -/
def Opener.new (chain : Nat) (dedup : Dedup) : Opener :=
  ⟨chain, 0, 1, 2, false, dedup, false⟩

/-- `match key_phase { Zero => &self.openers[0], One => &self.openers[1] }` -/
def Opener.slot (o : Opener) (phase : Bool) : Nat := if phase then o.slot1 else o.slot0

/-- `on_decrypt_success`: `self.dedup.check()` (the payload is zeroised on error) -/
def Opener.onDecryptSuccess (o : Opener) (mapAnswer : Option OpenError) : Opener × Option OpenError :=
  let r := o.dedup.check mapAnswer
  ({ o with dedup := r.1 }, r.2)

/-- `if key_phase != self.key_phase { self.needs_update.store(true, Relaxed); }` -/
def Opener.notePhase (o : Opener) (phase : Bool) : Opener :=
  if phase != o.keyPhase then { o with needsUpdate := true } else o

/-- `open::Application::decrypt` (the copying path), statement by statement -/
def Opener.decrypt (o : Opener) (w : Wire) (mapAnswer : Option OpenError) : Opener × Except OpenError Unit :=
  -- let opener = match key_phase { .. };  opener.decrypt(KeyPhase::Zero, ..)?;
  if !aeadOpens o.chain (o.slot w.phase) w then (o, .error .invalidTag)
  else
    -- self.on_decrypt_success(payload_out)?;
    match o.onDecryptSuccess mapAnswer with
    | (o1, some e) => (o1, .error e)
    | (o1, none) =>
      -- if key_phase != self.key_phase { needs_update = true }   Ok(())
      (o1.notePhase w.phase, .ok ())

/-- `open::Application::decrypt_in_place`, statement by statement (a separate transcription: the two
    Rust functions are separate code) -/
def Opener.decryptInPlace (o : Opener) (w : Wire) (mapAnswer : Option OpenError) : Opener × Except OpenError Unit :=
  -- opener.decrypt_in_place(KeyPhase::Zero, ..)?;
  if !aeadOpens o.chain (o.slot w.phase) w then (o, .error .invalidTag)
  else
    -- self.on_decrypt_success(payload.into())?;
    match o.onDecryptSuccess mapAnswer with
    | (o1, some e) => (o1, .error e)
    | (o1, none) =>
      (o1.notePhase w.phase, .ok ())

/-- either path -/
def Opener.open (inPlace : Bool) (o : Opener) (w : Wire) (mapAnswer : Option OpenError) : Opener × Except OpenError Unit :=
  if inPlace then o.decryptInPlace w mapAnswer else o.decrypt w mapAnswer

/-- `update`: `idx = key_phase; (opener, ku) = self.ku.next(); openers[idx] = opener; key_phase = next_phase();
    needs_update = false` -/
def Opener.update (o : Opener) : Opener :=
  let o1 := if o.keyPhase then { o with slot1 := o.kuNext } else { o with slot0 := o.kuNext }
  { o1 with kuNext := o.kuNext + 1, keyPhase := !o.keyPhase, needsUpdate := false }

/-- tail of `Crypto::open_with`: `if guard.needs_update() { guard.update(clock, subscriber) }` -/
def openWithTail (o : Opener) : Opener := if o.needsUpdate then o.update else o

/-- `Crypto::open_with(|opener| .. opener.decrypt*(..) ..)` for one packet (`recv/shared.rs` `on_packet`) -/
def openWith (inPlace : Bool) (o : Opener) (w : Wire) (mapAnswer : Option OpenError) : Opener × Except OpenError Unit :=
  let r := o.open inPlace w mapAnswer
  (openWithTail r.1, r.2)

/-! ### the seeded variant (NOT the code): flag raised before authentication in the copying path -/

def Opener.decryptFlagFirst (o : Opener) (w : Wire) (mapAnswer : Option OpenError) : Opener × Except OpenError Unit :=
  let o0 := o.notePhase w.phase
  if !aeadOpens o0.chain (o0.slot w.phase) w then (o0, .error .invalidTag)
  else
    match o0.onDecryptSuccess mapAnswer with
    | (o1, some e) => (o1, .error e)
    | (o1, none) => (o1, .ok ())

def openWithFlagFirst (o : Opener) (w : Wire) (mapAnswer : Option OpenError) : Opener × Except OpenError Unit :=
  let r := o.decryptFlagFirst w mapAnswer
  (openWithTail r.1, r.2)

/-! ### seal::Once / open::Once -/

structure OnceSealer where
  chain : Nat
  sealed : Bool
  deriving Repr, DecidableEq

/-- `seal::Once::encrypt`: `assert!(!self.sealed.swap(true))` — `none` = the assertion fails (panic);
    `key_phase()` is always Zero -/
def OnceSealer.encrypt (s : OnceSealer) (pn : Nat) (hdr payload : List Nat) : OnceSealer × Option Wire :=
  if s.sealed then (s, none)
  else ({ s with sealed := true }, some ⟨false, some ⟨s.chain, 0, pn, hdr, payload⟩, false⟩)

structure OnceOpener where
  chain : Nat
  dedup : Dedup
  opened : Bool
  deriving Repr, DecidableEq

def OnceOpener.new (chain : Nat) : OnceOpener := ⟨chain, Dedup.new, false⟩

/-- `open::Once::{decrypt, decrypt_in_place}` (same statements in both):
    `ensure!(key_phase == Zero, Err(RotationNotSupported)); self.key.decrypt*(..)?; self.on_decrypt_success(..)?;
     ensure!(!self.opened.swap(true), Err(SingleUseKey)); Ok(())` -/
def OnceOpener.decrypt (o : OnceOpener) (w : Wire) (mapAnswer : Option OpenError) : OnceOpener × Except OpenError Unit :=
  if w.phase then (o, .error .rotationNotSupported)
  else if !aeadOpens o.chain 0 w then (o, .error .invalidTag)
  else
    let r := o.dedup.check mapAnswer
    match r.2 with
    | some e => ({ o with dedup := r.1 }, .error e)
    | none =>
      if o.opened then ({ o with dedup := r.1, opened := true }, .error .singleUseKey)
      else ({ o with dedup := r.1, opened := true }, .ok ())

/-! ### histories -/

/-- one packet arriving at an opener: which decrypt path the receiver takes, the bytes, and what the
    replay window would answer if this call is the one that consults it -/
structure Arrival where
  inPlace : Bool
  wire : Wire
  mapAnswer : Option OpenError
  deriving Repr, DecidableEq

def isOk : Except OpenError Unit → Bool
  | .ok _ => true
  | .error _ => false

/-- final opener after a history processed by the stream code (`open_with` per packet) -/
def runState (o : Opener) : List Arrival → Opener
  | [] => o
  | a :: as => runState (openWith a.inPlace o a.wire a.mapAnswer).1 as

/-- the result of every packet of the history -/
def runOut (o : Opener) : List Arrival → List (Except OpenError Unit)
  | [] => []
  | a :: as => (openWith a.inPlace o a.wire a.mapAnswer).2 :: runOut (openWith a.inPlace o a.wire a.mapAnswer).1 as

/-- the packet is exactly what a sealer of `chain` emitted: unaltered bytes of one of its sealing calls,
    carrying the phase bit that sealer had (generation parity, `sealer_phase_parity`) -/
def Genuine (chain : Nat) (w : Wire) : Bool :=
  match w.origin with
  | none => false
  | some s => !w.altered && s.chain == chain && (w.phase == decide (s.gen % 2 = 1))

/-- generation of the sealing call behind a wire packet (0 when there is none) -/
def Wire.gen (w : Wire) : Nat :=
  match w.origin with
  | none => 0
  | some s => s.gen

/-! ### source shape the transcription relies on (re-read from /repo by tools/extractors/dc_keyphase.py and
   compared in QuicProofs/Bridge/DcKeyPhase.lean): the recognised statements of each function in source order.
   `aead?` / `dedup?` = the call is followed by the `?` operator (early return on error). -/

/-- `open::Application::decrypt` and `decrypt_in_place` (`Opener.decrypt`, `Opener.decryptInPlace`): slot selection,
    AEAD open, dedup, and only then the phase comparison and `needs_update.store(true)` -/
def pinnedDecryptOrder : List String := ["select", "aead?", "dedup?", "guard", "flag", "ok"]

/-- `KeyPhase::Zero => &self.openers[0], KeyPhase::One => &self.openers[1]` (`Opener.slot`) -/
def pinnedSlots : List Nat := [0, 1]

/-- `open::Application::update` (`Opener.update`) -/
def pinnedUpdateOrder : List String := ["idx=phase", "next", "slot[idx]", "ku", "flip", "clear"]

/-- `open::Once::{decrypt, decrypt_in_place}` (`OnceOpener.decrypt`) -/
def pinnedOnceOrder : List String := ["phase-zero", "aead?", "dedup?", "single-use", "ok"]

/-- `seal::Application::update` (`Sealer.update`) -/
def pinnedSealUpdateOrder : List String := ["next", "sealer", "ku", "records=0", "flip"]

/-- `Crypto::{open_with, seal_with}` (`openWithTail`, `sealWithTail`) -/
def pinnedWithOrder : List String := ["lock", "closure", "if-needs-update", "update", "result"]

end Quic.Dc.KeyPhase
