import QuicModel.Data.RefBufSpec
import QuicModel.Data.SlidingWindow
import QuicModel.Recovery.Loss
/-
  `Dc.StreamRecv` — receiver SKELETON of an s2n-quic-dc stream over an unreliable datagram
  transport (`TransportFeatures::UDP`: not reliable, not a stream, not flow controlled).
  What each definition abstracts (dc/s2n-quic-dc/src/stream/recv/…):

    * `Recv`                 `state::State` without ECN counts, the tick timer (platform timer churn
                             only), `fin_ack_packet_number`/`transmission` bookkeeping of the ACK
                             spaces; plus the `Reassembler` that `shared::Inner` keeps next to it
                             (`buf`, as `Data.RefBuf`).
    * `init`                 `State::new` (arms the idle timer at `now + idle_timeout`).
    * `RState`, `on*`        `s2n_quic_core::stream::state::Receiver` and its `event!` transitions.
    * `dedupe`               `ack::StreamFilter::on_packet` = `SlidingWindow::insert` on the packet's
                             space (`Data.SlidingWindow.step … (.insert pn)`, the transcription proved
                             in C16) followed by `space.packets.insert_packet_number`.
    * `onCleartext`          `State::on_cleartext_stream_packet`: dedupe, ACK bookkeeping, idle timer
                             update (`Recv | SizeKnown` or offset 0), control frames
                             (undecodable ⇒ `Decode`; CONNECTION_CLOSE ⇒ `on_error(.., Remote)`).
    * `authenticate`         `State::on_stream_packet_in_place` / `on_stream_packet_copy`
                             (`decrypt*` then `on_cleartext_stream_packet`) as reached from
                             `packet::Packet::read_chunk` / `partial_copy_into`. IDEAL-PRIMITIVE
                             ASSUMPTION: opening succeeds iff `Packet.authentic`.
    * `onStreamPacketImpl`   `State::on_stream_packet_impl`: `ensure_max_data`, then
                             `out_buf.read_from(&mut packet)` = `Reassembler::write_reader` with the
                             FALLIBLE reader: `handle_reader_fin` first (an `InvalidFin`/`OutOfRange`
                             is reported only after `packet.read_chunk(0)?` authenticated the packet),
                             then the first `read_chunk` authenticates; when that fails
                             `self.cursors = snapshot` and nothing was copied — the buffer is
                             UNCHANGED (rollback branch). Every branch authenticates exactly once.
    * `onStreamPacket`       `State::on_stream_packet` (fatal errors go to `on_error(.., Local)`;
                             `Decode | Crypto | Duplicate` are not fatal on datagram transports:
                             `Error::is_fatal`).
    * `onReadBuffer`         `State::on_read_buffer` with `AcceptState::Accepted` (MAX_DATA update,
                             `on_receive_fin`, `on_receive_all_data`, `on_app_read_all_data`).
    * `read`                 the application's `poll_read_into`: bytes are taken from the reassembler
                             (`RefBuf.pop`), then `on_read_buffer`. The `duplex::Interposer` fast path
                             (contiguous packet decrypted straight into the application buffer, then
                             `Reassembler::skip`) is modelled as write-then-pop.
    * `onTimeout`, `onIdleExpired`  `State::on_timeout` + `poll_idle_timer` (`Timer::poll_expiration` is
                             `Timestamp::has_elapsed`, 1 ms granularity; `load_last_activity` is the
                             event's `lastPeerActivity`), `silent_shutdown`, `on_error(IdleTimeout)`.
    * `onError`              `State::on_error`; `checkError` `State::check_error`.

  Not modelled: ACK/MAX_DATA/CONNECTION_CLOSE transmission (`on_transmit*`), ECN, credentials and
  stream-id checks (a packet for another stream is simply not an event here), TCP framing
  (`features.is_stream()` precheck of in-order packet numbers/offsets), the worker/application split.
-/
namespace Quic.Dc.StreamRecv
open Quic.Data Quic.Data.RefBuf
open Quic.Recovery.Time (hasElapsed timerExpired)

/-- `stream::state::Receiver` -/
inductive RState
  | recv | sizeKnown | dataRecvd | dataRead | resetRecvd | resetRead
  deriving DecidableEq, Repr

/-- `on_receive_fin(Recv => SizeKnown)`, result ignored by every caller -/
def RState.onReceiveFin : RState → RState
  | .recv => .sizeKnown
  | s => s
/-- `on_receive_all_data(SizeKnown => DataRecvd)`: `some` = `Ok` -/
def RState.onReceiveAllData : RState → Option RState
  | .sizeKnown => some .dataRecvd
  | _ => none
/-- `on_app_read_all_data(DataRecvd => DataRead)` -/
def RState.onAppReadAllData : RState → Option RState
  | .dataRecvd => some .dataRead
  | _ => none
/-- `on_reset(Recv | SizeKnown => ResetRecvd)` -/
def RState.onReset : RState → Option RState
  | .recv => some .resetRecvd
  | .sizeKnown => some .resetRecvd
  | _ => none
/-- `on_app_read_reset(ResetRecvd => ResetRead)` -/
def RState.onAppReadReset : RState → Option RState
  | .resetRecvd => some .resetRead
  | _ => none

/-- `matches!(self.state, Receiver::Recv | Receiver::SizeKnown)` -/
def RState.expectsData : RState → Bool
  | .recv => true
  | .sizeKnown => true
  | _ => false

/-- `recv::error::Kind` (the ones this skeleton can produce) -/
inductive ErrKind
  | decode | crypto | duplicate | maxDataExceeded | invalidFin | outOfRange | idleTimeout
  | transportError (code : Nat) | applicationError (code : Nat)
  deriving DecidableEq, Repr

/-- `Error::is_fatal` for a datagram transport -/
def ErrKind.isFatal : ErrKind → Bool
  | .decode => false
  | .crypto => false
  | .duplicate => false
  | _ => true

inductive Space
  | stream | recovery
  deriving DecidableEq, Repr

/-- control frames of a stream packet, as far as the receiver looks at them -/
inductive Control
  | none
  | undecodable
  | close (transport : Bool) (code : Nat)
  deriving DecidableEq, Repr

/-- a stream packet on the wire (for the right stream and credentials) -/
structure Packet where
  space : Space
  pn : Nat
  off : Nat
  data : List Nat
  /-- `packet.final_offset()` is present (then it is `off + data.length`) -/
  fin : Bool
  /-- ideal-primitive assumption: `decrypt`/`decrypt_in_place` succeed iff the peer sealed it -/
  authentic : Bool
  control : Control := .none
  deriving DecidableEq, Repr

def Packet.frame (p : Packet) : Frame := ⟨p.off, p.data, p.fin⟩

structure Recv where
  streamFilter : SlidingWindow.State := SlidingWindow.init
  recoveryFilter : SlidingWindow.State := SlidingWindow.init
  /-- `stream_ack.packets` / `recovery_ack.packets` as plain lists (most recent first) -/
  streamAcks : List Nat := []
  recoveryAcks : List Nat := []
  buf : RefBuf := {}
  state : RState := .recv
  /-- `idle_timer.expiration` (µs) -/
  idleTimer : Option Nat
  /-- `idle_timeout` (µs) -/
  idleTimeout : Nat
  maxData : Nat
  maxDataWindow : Nat
  /-- `error` with `source == Location::Local` -/
  error : Option (ErrKind × Bool) := none
  shouldTransmit : Bool := false
  deriving Repr

/-- `State::new` (datagram transport: `initial_max_data = params.remote_max_data`,
    `max_data_window = params.local_recv_max_data`) -/
def init (now idleTimeout remoteMaxData localRecvMaxData : Nat) : Recv :=
  { idleTimer := some (now + idleTimeout), idleTimeout := idleTimeout,
    maxData := remoteMaxData, maxDataWindow := localRecvMaxData }

/-- `needs_transmission`: on a datagram transport always sets `_should_transmit` -/
def needsTransmission (r : Recv) : Recv := { r with shouldTransmit := true }

/-- `silent_shutdown` -/
def silentShutdown (r : Recv) : Recv :=
  { r with shouldTransmit := false, idleTimer := none, streamAcks := [], recoveryAcks := [] }

/-- `update_idle_timer(clock)` -/
def updateIdleTimer (r : Recv) (now : Nat) : Recv := { r with idleTimer := some (now + r.idleTimeout) }

/-- `State::on_error` -/
def onError (r : Recv) (e : ErrKind) (isLocal : Bool) : Recv :=
  -- `let _ = self.state.on_reset(); self.stream_ack.clear(); self.recovery_ack.clear();`
  let r := { r with state := (r.state.onReset).getD r.state, streamAcks := [], recoveryAcks := [] }
  -- `ensure!(self.error.is_none())`
  match r.error with
  | some _ => r
  | none =>
    let r := { r with error := some (e, isLocal) }
    if isLocal then needsTransmission r
    else silentShutdown { r with state := (r.state.onAppReadReset).getD r.state }

/-- `State::check_error` -/
def checkError (r : Recv) : Option ErrKind :=
  match r.state with
  | .dataRead => none
  | .dataRecvd => none
  | _ => r.error.map (·.1)

/-- `on_read_buffer`, MAX_DATA part: `out_buf.current_offset().saturating_add(self.max_data_window)` -/
def orbMaxData (r : Recv) : Recv :=
  let newMaxData := min (r.buf.consumed + r.maxDataWindow) maxOffset
  if newMaxData > r.maxData then needsTransmission { r with maxData := newMaxData } else r

/-- `if out_buf.final_offset().is_some() { let _ = self.state.on_receive_fin(); }` -/
def orbFin (r : Recv) : Recv :=
  if r.buf.finalSize.isSome then { r with state := r.state.onReceiveFin } else r

/-- `if out_buf.has_buffered_fin() && self.state.on_receive_all_data().is_ok()` -/
def orbAllData (r : Recv) : Recv :=
  if isWritingComplete r.buf then
    match r.state.onReceiveAllData with
    | some s => needsTransmission { r with state := s }
    | none => r
  else r

/-- `if out_buf.is_consumed() && self.state.on_app_read_all_data().is_ok()` -/
def orbRead (r : Recv) : Recv :=
  if isReadingComplete r.buf then
    match r.state.onAppReadAllData with
    | some s => needsTransmission { r with state := s }
    | none => r
  else r

/-- `State::on_read_buffer` (empty chunk, `AcceptState::Accepted`) -/
def onReadBuffer (r : Recv) : Recv := orbRead (orbAllData (orbFin (orbMaxData r)))

def filterOf (r : Recv) : Space → SlidingWindow.State
  | .stream => r.streamFilter
  | .recovery => r.recoveryFilter

/-- `space.filter.on_packet(packet)` + `space.packets.insert_packet_number(..)`; `true` = accepted -/
def dedupe (r : Recv) (sp : Space) (pn : Nat) : Recv × Bool :=
  let res := SlidingWindow.step (filterOf r sp) (.insert pn)
  let ok := decide (res.2 = .ok)
  match sp with
  | .stream => ({ r with streamFilter := res.1, streamAcks := if ok then pn :: r.streamAcks else r.streamAcks }, ok)
  | .recovery => ({ r with recoveryFilter := res.1, recoveryAcks := if ok then pn :: r.recoveryAcks else r.recoveryAcks }, ok)

/-- `on_cleartext_stream_packet` after the duplicate filter let the packet through -/
def armIdle (r : Recv) (now : Nat) (p : Packet) : Recv :=
  -- "update the idle timer since we received a valid packet"
  if r.state.expectsData || p.off == 0 then updateIdleTimer r now else r

/-- `on_cleartext_stream_packet` after the duplicate filter let the packet through -/
def afterDedupe (r : Recv) (now : Nat) (p : Packet) : Recv × Option ErrKind :=
  let r := armIdle (needsTransmission r) now p
  match p.control with
  | .undecodable => (r, some .decode)
  | .close transport code =>
    let e := if transport then ErrKind.transportError code else ErrKind.applicationError code
    (onError r e false, some e)
  | .none => (r, none)

/-- `State::on_cleartext_stream_packet` -/
def onCleartext (r : Recv) (now : Nat) (p : Packet) : Recv × Option ErrKind :=
  let d := dedupe r p.space p.pn
  if !d.2 then (d.1, some .duplicate) else afterDedupe d.1 now p

/-- `on_stream_packet_in_place` / `on_stream_packet_copy` -/
def authenticate (r : Recv) (now : Nat) (p : Packet) : Recv × Option ErrKind :=
  if !p.authentic then (r, some .crypto) else onCleartext r now p

def ofBufErr : RefBuf.Err → ErrKind
  | .invalidFin => .invalidFin
  | .outOfRange => .outOfRange
  | .readerError => .crypto

/-- `State::on_stream_packet_impl`; the `Bool` says whether the payload was committed to the buffer -/
def onStreamPacketImpl (r : Recv) (now : Nat) (p : Packet) : Recv × Option ErrKind × Bool :=
  -- `ensure_max_data`
  if !decide (p.off + p.data.length ≤ r.maxData) then
    match authenticate r now p with
    | (r, some e) => (r, some e, false)
    | (r, none) => (onError r .maxDataExceeded true, some .maxDataExceeded, false)
  else
    match RefBuf.write r.buf p.off p.data p.fin with
    | .error e =>
      -- refused by `handle_reader_fin`: `let _ = packet.read_chunk(0)?; return Err(e.into())`
      match authenticate r now p with
      | (r, some e') => (r, some e', false)
      | (r, none) => (r, some (ofBufErr e), false)
    | .ok b =>
      match authenticate r now p with
      -- reader error: cursors restored from the snapshot, nothing copied
      | (r, some e') => (r, some e', false)
      | (r, none) => (onReadBuffer { r with buf := b }, none, true)

/-- `State::on_stream_packet` -/
def onStreamPacket (r : Recv) (now : Nat) (p : Packet) : Recv × Option ErrKind × Bool :=
  match onStreamPacketImpl r now p with
  | (r, some e, c) => (if e.isFatal then onError r e true else r, some e, c)
  | (r, none, c) => (r, none, c)

/-- the application reads: one `pop` of the reassembler, then `on_read_buffer` -/
def read (r : Recv) (watermark : Option Nat) : Recv × List Nat :=
  let res := RefBuf.pop r.buf watermark
  (onReadBuffer { r with buf := res.1 }, res.2)

/-- the idle timer really expired (`poll_idle_timer` returned `Ready`): `silent_shutdown`, and an
    `IdleTimeout` error if data was still expected -/
def onIdleExpired (r : Recv) : Recv :=
  let r := silentShutdown r
  -- `ensure!(matches!(self.state, Receiver::Recv | Receiver::SizeKnown))`
  if !r.state.expectsData then r
  else
    -- `did_transition |= on_reset().is_ok(); did_transition |= on_app_read_reset().is_ok()`
    let s1 := (r.state.onReset).getD r.state
    let s2 := (s1.onAppReadReset).getD s1
    -- `self.on_error(IdleTimeout, Local, ..); self._should_transmit = false`
    { onError { r with state := s2 } .idleTimeout true with shouldTransmit := false }

/-- `State::on_timeout` with `poll_idle_timer` inlined: the idle timer is polled, when it expired
    (`poll_expiration` cancels it) it is re-armed from the last peer activity and polled again -/
def onTimeout (r : Recv) (now lastPeerActivity : Nat) : Recv :=
  if !timerExpired r.idleTimer now then r
  else
    let rearmed := lastPeerActivity + r.idleTimeout
    if !timerExpired (some rearmed) now then { r with idleTimer := some rearmed }
    else onIdleExpired { r with idleTimer := none }

/-! ### histories -/

inductive Ev
  | packet (now : Nat) (p : Packet)
  | read (watermark : Option Nat)
  | timeout (now : Nat) (lastPeerActivity : Nat)
  deriving Repr

/-- receiver plus ghost history -/
structure Trace where
  recv : Recv
  /-- everything handed to the application, in order -/
  reads : List Nat := []
  /-- ghost: the reassembler-level history (committed payloads and reads) in C01's vocabulary -/
  bufEvs : List RefBuf.Ev := []
  /-- ghost: packet numbers that passed the duplicate filter, per space, most recent first -/
  acceptedStream : List Nat := []
  acceptedRecovery : List Nat := []
  /-- ghost: `(space, pn)` of the packets whose payload was committed, most recent first -/
  committed : List (Space × Nat) := []
  /-- ghost: time of the latest idle-timer (re)arm -/
  lastArm : Nat

def Trace.init (now idleTimeout remoteMaxData localRecvMaxData : Nat) : Trace :=
  { recv := StreamRecv.init now idleTimeout remoteMaxData localRecvMaxData, lastArm := now }

/-- did this packet pass the duplicate filter (it is reached exactly when the packet is authentic) -/
def passesFilter (r : Recv) (p : Packet) : Bool :=
  p.authentic && (dedupe r p.space p.pn).2

def Trace.step (t : Trace) : Ev → Trace
  | .packet now p =>
    let res := onStreamPacket t.recv now p
    let pass := passesFilter t.recv p
    { t with
      recv := res.1
      bufEvs := if res.2.2 then t.bufEvs ++ [.frame p.frame] else t.bufEvs
      committed := if res.2.2 then (p.space, p.pn) :: t.committed else t.committed
      acceptedStream := if pass && p.space == .stream then p.pn :: t.acceptedStream else t.acceptedStream
      acceptedRecovery := if pass && p.space == .recovery then p.pn :: t.acceptedRecovery else t.acceptedRecovery
      lastArm := if pass && (t.recv.state.expectsData || p.off == 0) then now else t.lastArm }
  | .read w =>
    let res := read t.recv w
    { t with recv := res.1, reads := t.reads ++ res.2, bufEvs := t.bufEvs ++ [.pop w] }
  | .timeout now last =>
    -- the first poll expired, the re-armed timer (last peer activity) has not: armed at `last`
    let rearmed := timerExpired t.recv.idleTimer now && !timerExpired (some (last + t.recv.idleTimeout)) now
    { t with recv := onTimeout t.recv now last, lastArm := if rearmed then last else t.lastArm }

def run (t : Trace) (evs : List Ev) : Trace := evs.foldl Trace.step t

end Quic.Dc.StreamRecv
