import QuicModel.Prelude
import QuicModel.Codec.VarInt
/-
  s2n-quic-dc packet forms: byte-level layouts exactly as the encoders write them and the decoders
  read them. Transcribes dc/s2n-quic-dc/src/packet/{tag.rs, stream/{encoder,decoder,id}.rs,
  datagram/{encoder,decoder}.rs, control/{encoder,decoder}.rs, secret_control.rs,
  secret_control/{decoder,encoder,unknown_path_secret,stale_key,replay_detected}.rs, wire_version.rs},
  credentials.rs and the call structure of crypto.rs / crypto/awslc.rs.

  CRYPTOGRAPHIC PRIMITIVES ARE ASSUMED IDEAL. AES-GCM, HMAC and the constant-time compare are not
  modelled; ciphertext and authentication tags are opaque byte strings. What IS modelled is which
  bytes are handed to which primitive (`CryptoCall`): `open`/`verify` succeeds iff exactly that call
  was produced by the sealing side (`SecretMap`/the driver apply this assumption; the differential
  run exercises the real aws-lc primitives).

  Two structures per packet kind: `…In` = the encoder's arguments (plus the sealed payload / tag),
  `…View` = what `decoder::Packet` exposes. `View.toIn` projects the view back to encoder arguments;
  the round-trip theorems (QuicProofs.Props.C18DcPackets) say decode ∘ encode recovers them.
  Code quirks kept: the stream header's unused u16 is ignored by the decoder; a set
  "has application header"/"has control data" bit with length 0 decodes to an empty field;
  `retransmission_packet_number_offset` is a `u8` cast; UnknownPathSecret's "auth tag" is the stateless
  reset token of the credential id and does not cover the other header bytes.
-/
namespace Quic.Dc.Packets
open Quic.Codec

/-- `s2n_codec::DecoderError` reduced to the two kinds these decoders produce -/
inductive DErr where
  | eof          -- UnexpectedEof
  | invariant    -- InvariantViolation(..)
  deriving Repr, DecidableEq

abbrev P (α : Type) := List Nat → Except DErr (α × List Nat)

/-! ### constants (re-extracted by tools/extractors/dc_packets.py, bridged) -/

def tagLen : Nat := 16                 -- crypto tag length of every dc packet (AEAD, truncated HMAC, token)
def credIdLen : Nat := 16              -- credentials::Id
def maxQueueId : Nat := 1152921504606846976   -- 1 << 60

namespace StreamTag
def hasSourceQueueId : Nat := 32
def isRecovery : Nat := 16
def hasControlData : Nat := 8
def hasFinalOffset : Nat := 4
def hasAppHeader : Nat := 2
def keyPhase : Nat := 1
def min : Nat := 0
def max : Nat := 63
def base : Nat := 0
end StreamTag

namespace DatagramTag
def ackEliciting : Nat := 8
def isConnected : Nat := 4
def hasAppHeader : Nat := 2
def keyPhase : Nat := 1
def min : Nat := 64
def max : Nat := 79
def base : Nat := 64
end DatagramTag

namespace ControlTag
def hasSourceQueueId : Nat := 8
def isStream : Nat := 4
def hasAppHeader : Nat := 2
def min : Nat := 80
def max : Nat := 95
def base : Nat := 80
end ControlTag

namespace SecretTag
def unknownPathSecret : Nat := 96
def staleKey : Nat := 97
def replayDetected : Nat := 98
def hasQueueId : Nat := 4
end SecretTag

/-- `Common::get`: `self.0 & mask != 0` -/
def hasBit (tag mask : Nat) : Bool := tag &&& mask != 0

/-- `Common::set`: `self.0 & !mask | if enabled { mask } else { 0 }` on a `u8` -/
def setBit (tag mask : Nat) (enabled : Bool) : Nat :=
  (tag &&& (255 - mask)) ||| (if enabled then mask else 0)

/-! ### primitive decoders -/

def pU8 : P Nat
  | [] => .error .eof
  | h :: t => .ok (h, t)

/-- `decode_slice(n)` -/
def pBytes (n : Nat) : P (List Nat) := fun b =>
  if b.length < n then .error .eof else .ok (b.take n, b.drop n)

def pU16 : P Nat := fun b =>
  match pBytes 2 b with
  | .ok (x, r) => .ok (beVal x, r)
  | .error e => .error e

def pU32 : P Nat := fun b =>
  match pBytes 4 b with
  | .ok (x, r) => .ok (beVal x, r)
  | .error e => .error e

def pVarint : P Nat := fun b =>
  match VarInt.decode b with
  | some (v, r) => .ok (v, r)
  | none => .error .eof

/-- an optional varint guarded by a tag bit -/
def pOptVarint (present : Bool) : P (Option Nat) := fun b =>
  if present then
    match pVarint b with
    | .ok (v, r) => .ok (some v, r)
    | .error e => .error e
  else .ok (none, b)

/-- `skip(n)` -/
def pSkip (n : Nat) (b : List Nat) : Except DErr (List Nat) :=
  if b.length < n then .error .eof else .ok (b.drop n)

structure Creds where
  id : List Nat
  keyId : Nat
  deriving Repr, DecidableEq

/-- `Credentials::decode`: 16-byte id (zerocopy) then a varint key id -/
def pCreds : P Creds := fun b =>
  match pBytes credIdLen b with
  | .error e => .error e
  | .ok (id, r) =>
    match pVarint r with
    | .error e => .error e
    | .ok (k, r') => .ok (⟨id, k⟩, r')

def encCreds (c : Creds) : List Nat := c.id ++ VarInt.encode c.keyId

/-- `WireVersion::decode`: one byte, must be 0 -/
def pWireVersion : P Nat := fun b =>
  match pU8 b with
  | .error e => .error e
  | .ok (v, r) => if v = 0 then .ok (v, r) else .error .invariant

structure StreamId where
  queueId : Nat
  reliable : Bool
  bidi : Bool
  deriving Repr, DecidableEq

/-- `Id::into_varint`: `(queue_id << 2) | is_reliable | is_bidirectional` -/
def StreamId.toVarint (s : StreamId) : Nat :=
  s.queueId * 4 + (if s.reliable then 2 else 0) + (if s.bidi then 1 else 0)

/-- `Id::from_varint` -/
def StreamId.ofVarint (v : Nat) : Except DErr StreamId :=
  if v / 4 ≥ maxQueueId then .error .invariant
  else .ok ⟨v / 4, v / 2 % 2 == 1, v % 2 == 1⟩

def pStreamId : P StreamId := fun b =>
  match pVarint b with
  | .error e => .error e
  | .ok (v, r) =>
    match StreamId.ofVarint v with
    | .error e => .error e
    | .ok s => .ok (s, r)

def encOptVarint : Option Nat → List Nat
  | some v => VarInt.encode v
  | none => []

def encOptStreamId : Option StreamId → List Nat
  | some s => VarInt.encode s.toVarint
  | none => []

/-- next-expected-control-packet and the control data length, written only for ack-eliciting datagrams -/
def encAckFields (nect : Option Nat) (controlDataLen : Nat) : List Nat :=
  match nect with
  | some n => VarInt.encode n ++ VarInt.encode controlDataLen
  | none => []

/-- a tag byte validated against `MIN..=MAX` (`impl_tag_codec!` + `validate`) -/
def pTagIn (lo hi : Nat) : P Nat := fun b =>
  match pU8 b with
  | .error e => .error e
  | .ok (t, r) => if lo ≤ t ∧ t ≤ hi then .ok (t, r) else .error .invariant

/-! ### stream packets -/

structure StreamIn where
  keyPhase : Bool
  recovery : Bool                 -- packet space (`encode` = Stream, `probe` = Recovery, `retransmit` sets it)
  creds : Creds
  sourceQueueId : Option Nat
  streamId : StreamId
  pn : Nat                        -- original packet number
  relOffset : Nat                 -- RelativeRetransmissionOffset (u32), on the wire iff reliable
  nect : Nat                      -- next expected control packet
  offset : Nat
  finalOffset : Option Nat
  appHeader : List Nat
  controlData : List Nat
  payload : List Nat              -- as on the wire
  authTag : List Nat
  deriving Repr, DecidableEq

def streamTagOf (i : StreamIn) : Nat :=
  let t := StreamTag.base
  let t := setBit t StreamTag.keyPhase i.keyPhase
  let t := setBit t StreamTag.hasControlData (i.controlData.length > 0)
  let t := setBit t StreamTag.hasFinalOffset i.finalOffset.isSome
  let t := setBit t StreamTag.hasAppHeader (i.appHeader.length > 0)
  let t := setBit t StreamTag.hasSourceQueueId i.sourceQueueId.isSome
  setBit t StreamTag.isRecovery i.recovery

/-- `encode_header` up to and including the optional application-header length -/
def encStreamFixed (i : StreamIn) : List Nat :=
  [streamTagOf i] ++ encCreds i.creds ++ [0] ++ [0, 0]
    ++ VarInt.encode i.streamId.toVarint ++ encOptVarint i.sourceQueueId
    ++ VarInt.encode i.pn
    ++ (if i.streamId.reliable then beBytes 4 i.relOffset else [])
    ++ VarInt.encode i.nect ++ VarInt.encode i.offset ++ encOptVarint i.finalOffset
    ++ (if i.controlData.length > 0 then VarInt.encode i.controlData.length else [])
    ++ VarInt.encode i.payload.length
    ++ (if i.appHeader.length > 0 then VarInt.encode i.appHeader.length else [])

/-- everything before the payload = the AEAD's associated data / the MAC input -/
def encStreamHeader (i : StreamIn) : List Nat :=
  encStreamFixed i ++ i.appHeader ++ i.controlData

def encodeStream (i : StreamIn) : List Nat :=
  encStreamHeader i ++ i.payload ++ i.authTag

structure StreamView where
  tag : Nat
  creds : Creds
  wireVersion : Nat
  sourceQueueId : Option Nat
  streamId : StreamId
  origPn : Nat
  pn : Nat
  rpnOffset : Nat                 -- `retransmission_packet_number_offset` (u8)
  nect : Nat
  offset : Nat
  finalOffset : Option Nat
  header : List Nat
  appHeader : List Nat
  controlData : List Nat
  payload : List Nat
  authTag : List Nat
  deriving Repr, DecidableEq

structure StreamPeek where
  tag : Nat
  creds : Creds
  wireVersion : Nat
  sourceQueueId : Option Nat
  streamId : StreamId
  origPn : Nat
  pn : Nat
  rpnOffset : Nat
  nect : Nat
  offset : Nat
  finalOffset : Option Nat
  headerLen : Nat
  appHeaderLen : Nat
  controlDataLen : Nat
  payloadLen : Nat

/-- the retransmission offset field of reliable streams: `original + rel`, overflow = invariant -/
def pRetransmission (reliable : Bool) (origPn : Nat) : P Nat := fun b =>
  if reliable then
    match pU32 b with
    | .error e => .error e
    | .ok (rel, r) => if origPn + rel > VarInt.maxValue then .error .invariant else .ok (origPn + rel, r)
  else .ok (origPn, b)

/-- the first block of `stream::decoder::Packet::decode` (works on `buffer.peek()`), up to `header_len` -/
def peekStream (b : List Nat) : Except DErr (StreamPeek × List Nat) := do
  let (tag, b1) ← pTagIn StreamTag.min StreamTag.max b
  let (creds, b2) ← pCreds b1
  let (wv, b3) ← pWireVersion b2
  let (_, b4) ← pU16 b3
  let (sid, b5) ← pStreamId b4
  let (sqid, b6) ← pOptVarint (hasBit tag StreamTag.hasSourceQueueId) b5
  let (opn, b7) ← pVarint b6
  let rpnOffset := (b.length - b7.length) % 256
  let (pn, b8) ← pRetransmission sid.reliable opn b7
  let (nect, b9) ← pVarint b8
  let (off, b10) ← pVarint b9
  let (fin, b11) ← pOptVarint (hasBit tag StreamTag.hasFinalOffset) b10
  let (cdl, b12) ← pOptVarint (hasBit tag StreamTag.hasControlData) b11
  let (pll, b13) ← pVarint b12
  let (ahl, b14) ← pOptVarint (hasBit tag StreamTag.hasAppHeader) b13
  pure (⟨tag, creds, wv, sqid, sid, opn, pn, rpnOffset, nect, off, fin,
          b.length - b14.length, ahl.getD 0, cdl.getD 0, pll⟩, b14)

/-- `stream::decoder::Packet::decode` (crypto tag length 16) -/
def decodeStream (b : List Nat) : Except DErr (StreamView × List Nat) := do
  let (p, r) ← peekStream b
  let r1 ← pSkip p.appHeaderLen r
  let r2 ← pSkip p.controlDataLen r1
  let r3 ← pSkip p.payloadLen r2
  let _ ← pSkip tagLen r3
  let total := p.headerLen + p.appHeaderLen + p.controlDataLen
  let header := b.take total
  let rest := b.drop total
  pure (⟨p.tag, p.creds, p.wireVersion, p.sourceQueueId, p.streamId, p.origPn, p.pn, p.rpnOffset, p.nect, p.offset,
          p.finalOffset, header, (header.drop p.headerLen).take p.appHeaderLen,
          (header.drop (p.headerLen + p.appHeaderLen)).take p.controlDataLen,
          rest.take p.payloadLen, (rest.drop p.payloadLen).take tagLen⟩,
        (rest.drop p.payloadLen).drop tagLen)

def StreamView.toIn (v : StreamView) : StreamIn :=
  { keyPhase := hasBit v.tag StreamTag.keyPhase, recovery := hasBit v.tag StreamTag.isRecovery,
    creds := v.creds, sourceQueueId := v.sourceQueueId, streamId := v.streamId, pn := v.origPn,
    relOffset := v.pn - v.origPn, nect := v.nect, offset := v.offset, finalOffset := v.finalOffset,
    appHeader := v.appHeader, controlData := v.controlData, payload := v.payload, authTag := v.authTag }

/-! ### datagram packets -/

structure DatagramIn where
  keyPhase : Bool
  creds : Creds
  sourceControlPort : Nat
  pn : Option Nat                 -- `is_connected`
  nect : Option Nat               -- `ack_eliciting` (the encoder requires `pn` to be present then)
  appHeader : List Nat
  controlData : List Nat          -- written only for ack-eliciting datagrams
  payload : List Nat
  authTag : List Nat
  deriving Repr, DecidableEq

def datagramTagOf (i : DatagramIn) : Nat :=
  let t := DatagramTag.base
  let t := setBit t DatagramTag.isConnected i.pn.isSome
  let t := setBit t DatagramTag.hasAppHeader (i.appHeader.length > 0)
  let t := setBit t DatagramTag.ackEliciting i.nect.isSome
  setBit t DatagramTag.keyPhase i.keyPhase

def encDatagramFixed (i : DatagramIn) : List Nat :=
  [datagramTagOf i] ++ encCreds i.creds ++ [0] ++ beBytes 2 i.sourceControlPort
    ++ (if i.pn.isSome ∨ i.nect.isSome then VarInt.encode (i.pn.getD 0) else [])
    ++ VarInt.encode i.payload.length
    ++ encAckFields i.nect i.controlData.length
    ++ (if i.appHeader.length > 0 then VarInt.encode i.appHeader.length else [])

def encDatagramHeader (i : DatagramIn) : List Nat :=
  encDatagramFixed i ++ i.appHeader ++ (if i.nect.isSome then i.controlData else [])

def encodeDatagram (i : DatagramIn) : List Nat :=
  encDatagramHeader i ++ i.payload ++ i.authTag

structure DatagramView where
  tag : Nat
  creds : Creds
  wireVersion : Nat
  sourceControlPort : Nat
  pn : Nat
  nect : Option Nat
  header : List Nat
  appHeader : List Nat
  controlData : List Nat
  payload : List Nat
  authTag : List Nat
  deriving Repr, DecidableEq

structure DatagramPeek where
  tag : Nat
  creds : Creds
  wireVersion : Nat
  sourceControlPort : Nat
  pn : Nat
  nect : Option Nat
  headerLen : Nat
  appHeaderLen : Nat
  controlDataLen : Nat
  payloadLen : Nat

/-- next-expected-control-packet + control data length, present iff ack-eliciting -/
def pAckFields (present : Bool) : P (Option Nat × Nat) := fun b =>
  if present then
    match pVarint b with
    | .error e => .error e
    | .ok (n, r) =>
      match pVarint r with
      | .error e => .error e
      | .ok (l, r') => .ok ((some n, l), r')
  else .ok ((none, 0), b)

def peekDatagram (b : List Nat) : Except DErr (DatagramPeek × List Nat) := do
  let (tag, b1) ← pTagIn DatagramTag.min DatagramTag.max b
  let (creds, b2) ← pCreds b1
  let (wv, b3) ← pWireVersion b2
  let (port, b4) ← pU16 b3
  let (pn, b5) ← pOptVarint (hasBit tag DatagramTag.isConnected || hasBit tag DatagramTag.ackEliciting) b4
  let (pll, b6) ← pVarint b5
  let (ack, b7) ← pAckFields (hasBit tag DatagramTag.ackEliciting) b6
  let (ahl, b8) ← pOptVarint (hasBit tag DatagramTag.hasAppHeader) b7
  pure (⟨tag, creds, wv, port, pn.getD 0, ack.1, b.length - b8.length, ahl.getD 0, ack.2, pll⟩, b8)

/-- `datagram::decoder::Packet::decode`: unlike stream/control the peek block does not look at the
    payload / tag; the slices are taken afterwards -/
def decodeDatagram (b : List Nat) : Except DErr (DatagramView × List Nat) := do
  let (p, r) ← peekDatagram b
  let r1 ← pSkip p.appHeaderLen r
  let _ ← pSkip p.controlDataLen r1
  let total := p.headerLen + p.appHeaderLen + p.controlDataLen
  let header := b.take total
  let rest := b.drop total
  let (payload, rest1) ← pBytes p.payloadLen rest
  let (authTag, rest2) ← pBytes tagLen rest1
  pure (⟨p.tag, p.creds, p.wireVersion, p.sourceControlPort, p.pn, p.nect, header,
          (header.drop p.headerLen).take p.appHeaderLen,
          (header.drop (p.headerLen + p.appHeaderLen)).take p.controlDataLen, payload, authTag⟩, rest2)

def DatagramView.toIn (v : DatagramView) : DatagramIn :=
  { keyPhase := hasBit v.tag DatagramTag.keyPhase, creds := v.creds, sourceControlPort := v.sourceControlPort,
    pn := if hasBit v.tag DatagramTag.isConnected then some v.pn else none,
    nect := v.nect, appHeader := v.appHeader, controlData := v.controlData, payload := v.payload,
    authTag := v.authTag }

/-! ### control packets -/

structure ControlIn where
  creds : Creds
  sourceQueueId : Option Nat
  streamId : Option StreamId
  pn : Nat
  appHeader : List Nat
  controlData : List Nat
  authTag : List Nat
  deriving Repr, DecidableEq

def controlTagOf (i : ControlIn) : Nat :=
  let t := ControlTag.base
  let t := setBit t ControlTag.hasSourceQueueId i.sourceQueueId.isSome
  let t := setBit t ControlTag.isStream i.streamId.isSome
  setBit t ControlTag.hasAppHeader (i.appHeader.length > 0)

def encControlFixed (i : ControlIn) : List Nat :=
  [controlTagOf i] ++ encCreds i.creds ++ [0]
    ++ encOptStreamId i.streamId
    ++ encOptVarint i.sourceQueueId
    ++ VarInt.encode i.pn
    ++ VarInt.encode i.controlData.length
    ++ (if i.appHeader.length > 0 then VarInt.encode i.appHeader.length else [])

/-- the whole packet before the auth tag = the MAC input -/
def encControlHeader (i : ControlIn) : List Nat :=
  encControlFixed i ++ i.appHeader ++ i.controlData

def encodeControl (i : ControlIn) : List Nat := encControlHeader i ++ i.authTag

structure ControlView where
  tag : Nat
  creds : Creds
  wireVersion : Nat
  sourceQueueId : Option Nat
  streamId : Option StreamId
  pn : Nat
  header : List Nat
  appHeader : List Nat
  controlData : List Nat
  authTag : List Nat
  deriving Repr, DecidableEq

structure ControlPeek where
  tag : Nat
  creds : Creds
  wireVersion : Nat
  sourceQueueId : Option Nat
  streamId : Option StreamId
  pn : Nat
  headerLen : Nat
  appHeaderLen : Nat
  controlDataLen : Nat

def pOptStreamId (present : Bool) : P (Option StreamId) := fun b =>
  if present then
    match pStreamId b with
    | .ok (v, r) => .ok (some v, r)
    | .error e => .error e
  else .ok (none, b)

def peekControl (b : List Nat) : Except DErr (ControlPeek × List Nat) := do
  let (tag, b1) ← pTagIn ControlTag.min ControlTag.max b
  let (creds, b2) ← pCreds b1
  let (wv, b3) ← pWireVersion b2
  let (sid, b4) ← pOptStreamId (hasBit tag ControlTag.isStream) b3
  let (sqid, b5) ← pOptVarint (hasBit tag ControlTag.hasSourceQueueId) b4
  let (pn, b6) ← pVarint b5
  let (cdl, b7) ← pVarint b6
  let (ahl, b8) ← pOptVarint (hasBit tag ControlTag.hasAppHeader) b7
  pure (⟨tag, creds, wv, sqid, sid, pn, b.length - b8.length, ahl.getD 0, cdl⟩, b8)

def decodeControl (b : List Nat) : Except DErr (ControlView × List Nat) := do
  let (p, r) ← peekControl b
  let r1 ← pSkip p.appHeaderLen r
  let r2 ← pSkip p.controlDataLen r1
  let _ ← pSkip tagLen r2
  let total := p.headerLen + p.appHeaderLen + p.controlDataLen
  let header := b.take total
  let rest := b.drop total
  pure (⟨p.tag, p.creds, p.wireVersion, p.sourceQueueId, p.streamId, p.pn, header,
          (header.drop p.headerLen).take p.appHeaderLen,
          (header.drop (p.headerLen + p.appHeaderLen)).take p.controlDataLen, rest.take tagLen⟩,
        rest.drop tagLen)

def ControlView.toIn (v : ControlView) : ControlIn :=
  { creds := v.creds, sourceQueueId := v.sourceQueueId, streamId := v.streamId, pn := v.pn,
    appHeader := v.appHeader, controlData := v.controlData, authTag := v.authTag }

/-! ### secret-control packets (UnknownPathSecret, StaleKey, ReplayDetected) -/

inductive SecretKind where
  | unknownPathSecret | staleKey | replayDetected
  deriving Repr, DecidableEq

def SecretKind.tag : SecretKind → Nat
  | .unknownPathSecret => SecretTag.unknownPathSecret
  | .staleKey => SecretTag.staleKey
  | .replayDetected => SecretTag.replayDetected

/-- UnknownPathSecret carries no value field -/
def SecretKind.hasValue : SecretKind → Bool
  | .unknownPathSecret => false
  | _ => true

/-- the decoded value (`UnknownPathSecret` / `StaleKey` / `ReplayDetected`) plus the crypto tag -/
structure SecretIn where
  kind : SecretKind
  credId : List Nat
  wireVersion : Nat
  queueId : Option Nat
  value : Nat                     -- min_key_id / rejected_key_id; 0 for UnknownPathSecret
  authTag : List Nat              -- HMAC tag, or the stateless reset token for UnknownPathSecret
  deriving Repr, DecidableEq

/-- `Tag::default().with_queue_id(..)` -/
def secretTagOf (k : SecretKind) (hasQueue : Bool) : Nat :=
  if hasQueue then k.tag ||| SecretTag.hasQueueId else k.tag

/-- the bytes before the crypto tag (`encoder::finish` signs exactly these; UnknownPathSecret appends
    the token instead) -/
def encSecretHeader (i : SecretIn) : List Nat :=
  [secretTagOf i.kind i.queueId.isSome] ++ i.credId ++ [i.wireVersion] ++ encOptVarint i.queueId
    ++ (if i.kind.hasValue then VarInt.encode i.value else [])

def encodeSecret (i : SecretIn) : List Nat := encSecretHeader i ++ i.authTag

structure SecretView where
  kind : SecretKind
  tag : Nat
  credId : List Nat
  wireVersion : Nat
  queueId : Option Nat
  value : Nat
  header : List Nat
  authTag : List Nat
  deriving Repr, DecidableEq

/-- the `DecoderValue` impl of the value type: tag ∈ {$tag, $tag | HAS_QUEUE_ID}, id, version, optional
    queue id, value -/
def pSecretValue (k : SecretKind) : P (Nat × List Nat × Nat × Option Nat × Nat) := fun b =>
  match pU8 b with
  | .error e => .error e
  | .ok (t, b1) =>
    if t = k.tag ∨ t = (k.tag ||| SecretTag.hasQueueId) then
      match pBytes credIdLen b1 with
      | .error e => .error e
      | .ok (id, b2) =>
        match pWireVersion b2 with
        | .error e => .error e
        | .ok (wv, b3) =>
          match pOptVarint (hasBit t SecretTag.hasQueueId) b3 with
          | .error e => .error e
          | .ok (q, b4) =>
            if k.hasValue then
              match pVarint b4 with
              | .error e => .error e
              | .ok (v, b5) => .ok ((t, id, wv, q, v), b5)
            else .ok ((t, id, wv, q, 0), b4)
    else .error .invariant

/-- `impl_packet!` / `unknown_path_secret::Packet::decode`: `header_len` on a peeked buffer, then
    `decoder::header` slices header and the 16-byte crypto tag -/
def decodeSecret (k : SecretKind) (b : List Nat) : Except DErr (SecretView × List Nat) :=
  match pSecretValue k b with
  | .error e => .error e
  | .ok ((t, id, wv, q, v), r) =>
    let headerLen := b.length - r.length
    match pBytes tagLen (b.drop headerLen) with
    | .error e => .error e
    | .ok (tg, rest) => .ok (⟨k, t, id, wv, q, v, b.take headerLen, tg⟩, rest)

def SecretView.toIn (v : SecretView) : SecretIn :=
  { kind := v.kind, credId := v.credId, wireVersion := v.wireVersion, queueId := v.queueId,
    value := v.value, authTag := v.authTag }

/-- `secret_control::Packet::decode`: dispatch on `tag & !HAS_QUEUE_ID` -/
def decodeSecretControl (b : List Nat) : Except DErr (SecretView × List Nat) :=
  match b with
  | [] => .error .eof
  | t :: _ =>
    let base := t &&& (255 - SecretTag.hasQueueId)
    if base = SecretTag.unknownPathSecret then decodeSecret .unknownPathSecret b
    else if base = SecretTag.staleKey then decodeSecret .staleKey b
    else if base = SecretTag.replayDetected then decodeSecret .replayDetected b
    else .error .invariant

/-! ### the tag dispatcher (`packet::Tag::decode`, `packet::Packet::decode_parameterized_mut`) -/

inductive AnyView where
  | stream (v : StreamView)
  | datagram (v : DatagramView)
  | control (v : ControlView)
  | secret (v : SecretView)
  deriving Repr, DecidableEq

def decodeAny (b : List Nat) : Except DErr (AnyView × List Nat) :=
  match b with
  | [] => .error .eof
  | t :: _ =>
    if StreamTag.min ≤ t ∧ t ≤ StreamTag.max then
      match decodeStream b with | .ok (v, r) => .ok (.stream v, r) | .error e => .error e
    else if DatagramTag.min ≤ t ∧ t ≤ DatagramTag.max then
      match decodeDatagram b with | .ok (v, r) => .ok (.datagram v, r) | .error e => .error e
    else if ControlTag.min ≤ t ∧ t ≤ ControlTag.max then
      match decodeControl b with | .ok (v, r) => .ok (.control v, r) | .error e => .error e
    else if t = SecretTag.staleKey ∨ t = (SecretTag.staleKey ||| SecretTag.hasQueueId) then
      match decodeSecret .staleKey b with | .ok (v, r) => .ok (.secret v, r) | .error e => .error e
    else if t = SecretTag.replayDetected ∨ t = (SecretTag.replayDetected ||| SecretTag.hasQueueId) then
      match decodeSecret .replayDetected b with | .ok (v, r) => .ok (.secret v, r) | .error e => .error e
    else if t = SecretTag.unknownPathSecret ∨ t = (SecretTag.unknownPathSecret ||| SecretTag.hasQueueId) then
      match decodeSecret .unknownPathSecret b with | .ok (v, r) => .ok (.secret v, r) | .error e => .error e
    else .error .invariant

/-! ### which bytes reach which primitive (crypto.rs / awslc.rs call structure) -/

/-- `crypto::open::Error` kinds reachable from the receivers modelled here -/
inductive OpenErr where
  | invalidTag | rotationNotSupported | macOnly
  deriving Repr, DecidableEq

inductive Prim where
  | aead            -- application key: AES-GCM open/seal, nonce = packet number
  | streamMac       -- stream control key: HMAC truncated to 16 bytes
  | secretMac       -- secret control key: HMAC truncated to 16 bytes
  | resetToken      -- constant-time compare with the entry's stateless reset token
  deriving Repr, DecidableEq

/-- one call into a primitive. `mask` = the `(original, retransmission)` packet-number pair whose HMAC
    is XORed into the tag (`retransmission_tag`): applied by the retransmitting sender, removed by the
    receiver before the call. Two calls agree iff all components agree. -/
structure CryptoCall where
  prim : Prim
  nonce : Nat
  aad : List Nat
  body : List Nat
  tag : List Nat
  mask : Option (Nat × Nat)
  deriving Repr, DecidableEq

/-- `remove_retransmit`: for a retransmission the recovery bit of header[0] is cleared and the
    4-byte offset field is zeroed before the header is used as associated data -/
def normalizeRetransmit (header : List Nat) (rpnOffset : Nat) : List Nat :=
  match header with
  | [] => []
  | t :: rest =>
    let h := (t &&& (255 - StreamTag.isRecovery)) :: rest
    h.take rpnOffset ++ List.replicate (min 4 (h.length - rpnOffset)) 0 ++ h.drop (rpnOffset + 4)

/-- `stream::decoder::Packet::decrypt`/`decrypt_in_place` with awslc keys -/
def streamOpenCall (v : StreamView) : Except OpenErr CryptoCall :=
  let retx := v.origPn != v.pn
  let header := if retx then normalizeRetransmit v.header v.rpnOffset else v.header
  let mask := if retx then some (v.origPn, v.pn) else none
  let recovery := if retx then false else hasBit v.tag StreamTag.isRecovery
  if recovery then
    if v.payload.isEmpty then .ok ⟨.streamMac, 0, header, [], v.authTag, mask⟩ else .error .macOnly
  else if hasBit v.tag StreamTag.keyPhase then .error .rotationNotSupported
  else .ok ⟨.aead, v.origPn, header, v.payload, v.authTag, mask⟩

/-- `datagram::tunneled::recv::Receiver::recv_into` -/
def datagramOpenCall (v : DatagramView) : Except OpenErr CryptoCall :=
  if hasBit v.tag DatagramTag.keyPhase then .error .rotationNotSupported
  else .ok ⟨.aead, v.pn, v.header, v.payload, v.authTag, none⟩

/-- `control_key.verify(packet.header(), packet.auth_tag())` -/
def controlOpenCall (v : ControlView) : CryptoCall := ⟨.streamMac, 0, v.header, [], v.authTag, none⟩

/-- `Packet::authenticate`: HMAC over the header for StaleKey/ReplayDetected; for UnknownPathSecret
    only the token is compared — the token is a function of the credential id alone, so the id is
    the only header field the comparison binds -/
def secretOpenCall (v : SecretView) : CryptoCall :=
  match v.kind with
  | .unknownPathSecret => ⟨.resetToken, 0, v.credId, [], v.authTag, none⟩
  | _ => ⟨.secretMac, 0, v.header, [], v.authTag, none⟩

/-- what the sealing side computed for a packet it produced -/
def streamSealCall (i : StreamIn) (mask : Option (Nat × Nat)) : CryptoCall :=
  -- `encode` seals with recovery = false / relOffset = 0; `probe` signs the header as is;
  -- `retransmit` only touches the recovery bit, the offset field and XORs the mask into the tag
  let sealed : StreamIn := if mask.isSome then { i with recovery := false, relOffset := 0 } else i
  if sealed.recovery then ⟨.streamMac, 0, encStreamHeader sealed, [], i.authTag, mask⟩
  else ⟨.aead, i.pn, encStreamHeader sealed, i.payload, i.authTag, mask⟩

def datagramSealCall (i : DatagramIn) : CryptoCall :=
  ⟨.aead, i.pn.getD 0, encDatagramHeader i, i.payload, i.authTag, none⟩

def controlSealCall (i : ControlIn) : CryptoCall := ⟨.streamMac, 0, encControlHeader i, [], i.authTag, none⟩

def secretSealCall (i : SecretIn) : CryptoCall :=
  match i.kind with
  | .unknownPathSecret => ⟨.resetToken, 0, i.credId, [], i.authTag, none⟩
  | _ => ⟨.secretMac, 0, encSecretHeader i, [], i.authTag, none⟩

def AnyView.openCall : AnyView → Except OpenErr CryptoCall
  | .stream v => streamOpenCall v
  | .datagram v => datagramOpenCall v
  | .control v => .ok (controlOpenCall v)
  | .secret v => .ok (secretOpenCall v)

/-- IDEAL-PRIMITIVE ASSUMPTION as an executable function: a receiver call succeeds iff the very
    same call is among those the sealing side made (`sealed`). -/
def idealOpen (sealed : List CryptoCall) (c : Except OpenErr CryptoCall) : Except OpenErr Unit :=
  match c with
  | .error e => .error e
  | .ok c => if sealed.contains c then .ok () else .error .invalidTag

/-! ### byte mutations -/

/-- `x` = xor with a non-zero mask, `s` = set to a value (or to its complement when the byte already
    has that value, so that every mutation changes the byte) -/
inductive Mutation where
  | xor (idx mask : Nat)
  | set (idx val : Nat)
  deriving Repr, DecidableEq

def Mutation.idx : Mutation → Nat
  | .xor i _ => i
  | .set i _ => i

def Mutation.apply (m : Mutation) (old : Nat) : Nat :=
  match m with
  | .xor _ mask => old ^^^ mask
  | .set _ v => if old = v then v ^^^ 255 else v

def mutate (w : List Nat) (m : Mutation) : List Nat :=
  let i := m.idx % w.length
  match w[i]? with
  | some old => w.set i (m.apply old)
  | none => w

end Quic.Dc.Packets

/-
  Independent description of the layouts: a declarative field table per packet kind, written from
  the Wireshark dissector (dc/wireshark/src/dissect.rs: `stream`, `datagram`, `control`,
  `secret_control`; bit masks from field.rs `masks`) — not from the encoders. `emit` serialises a
  field environment by walking the table. Theorems `encode_eq_spec_*` relate it to `Packets.encode*`.
-/
namespace Quic.Dc.Spec
open Quic.Codec

inductive FieldType where
  | u8 | u16 | u32 | varint
  | bytes          -- raw bytes, length fixed by another field or by the table (id, auth tag)
  deriving Repr, DecidableEq

/-- a field value: a number or a byte string; `none` = absent (its presence bit is clear) -/
inductive Value where
  | num (n : Nat)
  | bytes (b : List Nat)
  | absent
  deriving Repr, DecidableEq

structure Field where
  name : String
  ty : FieldType
  deriving Repr, DecidableEq

def emitField (f : Field) (v : Value) : List Nat :=
  match v, f.ty with
  | .absent, _ => []
  | .num n, .u8 => [n]
  | .num n, .u16 => beBytes 2 n
  | .num n, .u32 => beBytes 4 n
  | .num n, .varint => VarInt.encode n
  | .bytes b, .bytes => b
  | _, _ => []

def emit : List (Field × Value) → List Nat
  | [] => []
  | (f, v) :: rest => emitField f v ++ emit rest

def bit (b : Bool) (mask : Nat) : Nat := if b then mask else 0
def optNum : Option Nat → Value
  | some n => .num n
  | none => .absent
def cond (c : Bool) (v : Value) : Value := if c then v else .absent
def optStreamId : Option Packets.StreamId → Value
  | some s => .num (s.queueId * 4 + bit s.reliable 2 + bit s.bidi 1)
  | none => .absent

/-- dissect.rs `stream`: tag bits 0x20 source queue id, 0x10 recovery, 0x08 control data, 0x04 final
    offset, 0x02 application header, 0x01 key phase; relative packet number iff the stream id is reliable -/
def stream (i : Packets.StreamIn) : List (Field × Value) :=
  [ (⟨"tag", .u8⟩, .num (bit i.sourceQueueId.isSome 0x20 + bit i.recovery 0x10 + bit (i.controlData.length > 0) 0x08
        + bit i.finalOffset.isSome 0x04 + bit (i.appHeader.length > 0) 0x02 + bit i.keyPhase 0x01)),
    (⟨"path_secret_id", .bytes⟩, .bytes i.creds.id),
    (⟨"key_id", .varint⟩, .num i.creds.keyId),
    (⟨"wire_version", .u8⟩, .num 0),
    (⟨"source_control_port(unused)", .u16⟩, .num 0),
    (⟨"stream_id", .varint⟩, .num (i.streamId.queueId * 4 + bit i.streamId.reliable 2 + bit i.streamId.bidi 1)),
    (⟨"source_queue_id", .varint⟩, optNum i.sourceQueueId),
    (⟨"packet_number", .varint⟩, .num i.pn),
    (⟨"relative_packet_number", .u32⟩, cond i.streamId.reliable (.num i.relOffset)),
    (⟨"next_expected_control_packet", .varint⟩, .num i.nect),
    (⟨"stream_offset", .varint⟩, .num i.offset),
    (⟨"final_offset", .varint⟩, optNum i.finalOffset),
    (⟨"control_data_len", .varint⟩, cond (i.controlData.length > 0) (.num i.controlData.length)),
    (⟨"payload_len", .varint⟩, .num i.payload.length),
    (⟨"application_header_len", .varint⟩, cond (i.appHeader.length > 0) (.num i.appHeader.length)),
    (⟨"application_header", .bytes⟩, .bytes i.appHeader),
    (⟨"control_data", .bytes⟩, .bytes i.controlData),
    (⟨"payload", .bytes⟩, .bytes i.payload),
    (⟨"auth_tag", .bytes⟩, .bytes i.authTag) ]

/-- dissect.rs `datagram`: tag 0x40 | 0x08 ack eliciting | 0x04 connected | 0x02 application header |
    0x01 key phase; packet number iff connected or ack eliciting -/
def datagram (i : Packets.DatagramIn) : List (Field × Value) :=
  [ (⟨"tag", .u8⟩, .num (0x40 + bit i.nect.isSome 0x08 + bit i.pn.isSome 0x04 + bit (i.appHeader.length > 0) 0x02
        + bit i.keyPhase 0x01)),
    (⟨"path_secret_id", .bytes⟩, .bytes i.creds.id),
    (⟨"key_id", .varint⟩, .num i.creds.keyId),
    (⟨"wire_version", .u8⟩, .num 0),
    (⟨"source_control_port", .u16⟩, .num i.sourceControlPort),
    (⟨"packet_number", .varint⟩, cond (i.pn.isSome || i.nect.isSome) (.num (i.pn.getD 0))),
    (⟨"payload_len", .varint⟩, .num i.payload.length),
    (⟨"next_expected_control_packet", .varint⟩, optNum i.nect),
    (⟨"control_data_len", .varint⟩, cond i.nect.isSome (.num i.controlData.length)),
    (⟨"application_header_len", .varint⟩, cond (i.appHeader.length > 0) (.num i.appHeader.length)),
    (⟨"application_header", .bytes⟩, .bytes i.appHeader),
    (⟨"control_data", .bytes⟩, cond i.nect.isSome (.bytes i.controlData)),
    (⟨"payload", .bytes⟩, .bytes i.payload),
    (⟨"auth_tag", .bytes⟩, .bytes i.authTag) ]

/-- dissect.rs `control`: tag 0x50 | 0x08 source queue id | 0x04 is stream | 0x02 application header -/
def control (i : Packets.ControlIn) : List (Field × Value) :=
  [ (⟨"tag", .u8⟩, .num (0x50 + bit i.sourceQueueId.isSome 0x08 + bit i.streamId.isSome 0x04
        + bit (i.appHeader.length > 0) 0x02)),
    (⟨"path_secret_id", .bytes⟩, .bytes i.creds.id),
    (⟨"key_id", .varint⟩, .num i.creds.keyId),
    (⟨"wire_version", .u8⟩, .num 0),
    (⟨"stream_id", .varint⟩, optStreamId i.streamId),
    (⟨"source_queue_id", .varint⟩, optNum i.sourceQueueId),
    (⟨"packet_number", .varint⟩, .num i.pn),
    (⟨"control_data_len", .varint⟩, .num i.controlData.length),
    (⟨"application_header_len", .varint⟩, cond (i.appHeader.length > 0) (.num i.appHeader.length)),
    (⟨"application_header", .bytes⟩, .bytes i.appHeader),
    (⟨"control_data", .bytes⟩, .bytes i.controlData),
    (⟨"auth_tag", .bytes⟩, .bytes i.authTag) ]

/-- dissect.rs `secret_control`: tags 0x60 UnknownPathSecret, 0x61 StaleKey, 0x62 ReplayDetected,
    | 0x04 when a queue id follows the wire version -/
def secret (i : Packets.SecretIn) : List (Field × Value) :=
  [ (⟨"tag", .u8⟩, .num ((match i.kind with
        | .unknownPathSecret => 0x60 | .staleKey => 0x61 | .replayDetected => 0x62) + bit i.queueId.isSome 0x04)),
    (⟨"path_secret_id", .bytes⟩, .bytes i.credId),
    (⟨"wire_version", .u8⟩, .num i.wireVersion),
    (⟨"queue_id", .varint⟩, optNum i.queueId),
    (⟨"min_key_id/rejected_key_id", .varint⟩, match i.kind with
        | .unknownPathSecret => .absent | _ => .num i.value),
    (⟨"auth_tag", .bytes⟩, .bytes i.authTag) ]

end Quic.Dc.Spec
