import QuicModel.Prelude
/-
  dc stream SEND QUEUE — the application-side queue of sealed packets waiting for the socket
  (dc/s2n-quic-dc/src/stream/send/queue.rs) and the iovec batch builder it hands to the socket
  (dc/s2n-quic-dc/src/msg/segment.rs `Batch::new`).

  What is transcribed (function by function):

    queue.rs  `Segment { ecn, buffer, offset: u16 }`, `as_slice() = &buffer[offset..]`
              `Message::push`            one sealed packet becomes one segment with `offset = 0`, pushed at the back
              `Queue::push_buffer`       run the caller's closure (which pushes segments); ONLY IF it returned Ok:
                                         `accepted_len += buf.consumed_len()`
              `Queue::poll_flush`        `ready!(poll_flush_segments)?` then `accepted = limit.min(accepted_len);
                                         accepted_len -= accepted; Ready(Ok(accepted))`
              `poll_flush_segments`      empty queue => Ready(Ok(())); stream socket => `_stream`, else `_datagram`
              `poll_flush_segments_stream`   loop while non-empty: build ONE batch from the WHOLE queue, ONE `poll_send`:
                                           Ready(Ok(n)) => `consume_segments(n)`, loop again
                                           Ready(Err)   => `segments.clear(); accepted_len = 0`, return the error
                                           Pending      => return Pending, nothing changed
              `consume_segments`         `ensure!(consumed > 0)`; pop segments whose remaining slice fits (`checked_sub`),
                                         stop as soon as nothing remains; a segment that does not fit gets
                                         `offset += remaining` and goes back to the FRONT
              `poll_flush_segments_datagram` loop while non-empty: batch from the first `gso.max_segments()` segments, ONE
                                         `poll_send`, then the batch's segments are DRAINED WHATEVER THE RESULT (a datagram the
                                         socket did not take is lost; the recovery layer repairs that), EIO turns GSO off,
                                         `ready!(result)?`
    segment.rs `Batch::new`              GSO rules applied to every socket kind: later segments may not be longer than the
                                         first, a shorter one ends the batch, the ECN marking may not change inside a batch,
                                         at most `MAX_COUNT` iovecs; the total-length limit `MAX_TOTAL` only for datagram sockets

  What is NOT modelled: the buffer allocator (`segment_alloc.free` only recycles memory), the events published to the
  subscriber (`provided_len` counts one segment more than the batch holds when the batch was cut short — an event field
  only), wakers (`Pending` is a value here), the `batch` of transmissions handed to the worker for recovery (UDP only).

  The socket is an arbitrary environment: each `poll_send` is answered by the next element of a script
  (`accept n` — the socket took `min n offered` bytes, `pending`, `error`); an exhausted script answers `pending`.
-/
namespace Quic.Dc.SendQueue

/-- `msg::segment::MAX_TOTAL` on Linux: `u16::MAX - IPV6_HEADER_LEN(40) - UDP_HEADER_LEN(8)` -/
def maxTotal : Nat := 65487
/-- `msg::segment::MAX_COUNT` with GSO support: `MAX_TOTAL / (1500 - 20 - 8)` -/
def maxCount : Nat := 44
/-- `features::gso::MaxSegments::DEFAULT` = `recovery::MAX_BURST_PACKETS` -/
def gsoDefaultSegments : Nat := 10
/-- `Segment.offset` and `Info.packet_len` are `u16` -/
def u16Max : Nat := 65535

structure Segment where
  ecn : Nat
  buffer : List Nat
  offset : Nat
deriving Repr, DecidableEq

/-- `Segment::as_slice` -/
def Segment.asSlice (s : Segment) : List Nat := s.buffer.drop s.offset

structure Queue where
  segments : List Segment := []
  acceptedLen : Nat := 0
deriving Repr, DecidableEq

def Queue.isEmpty (q : Queue) : Bool := q.segments.isEmpty

/-- every byte still waiting for the socket, in order -/
def pendingOf (segs : List Segment) : List Nat := (segs.map Segment.asSlice).flatten
def Queue.pending (q : Queue) : List Nat := pendingOf q.segments

/-! ### filling -/

/-- `Message::push` for each sealed packet `(ecn, bytes)` of one `push_buffer` call -/
def mkSegments (segs : List (Nat × List Nat)) : List Segment :=
  segs.map (fun p => { ecn := p.1, buffer := p.2, offset := 0 })

/-- `Queue::push_buffer`: the closure pushed `segs`; `ok = false` is a closure that failed after pushing them
    (`push(...)?` returns before the credit is recorded) -/
def pushBuffer (q : Queue) (segs : List (Nat × List Nat)) (consumed : Nat) (ok : Bool) : Queue :=
  { segments := q.segments ++ mkSegments segs,
    acceptedLen := if ok then q.acceptedLen + consumed else q.acceptedLen }

/-! ### `msg::segment::Batch::new` -/

/-- the `for segment in queue` loop; `first` = length of the first iovec once there is one, `ecn` its marking,
    `total` = `total_len`, `count` = iovecs pushed so far -/
def batchGo (stream : Bool) (cap : Nat) (first : Option Nat) (ecn total count : Nat) : List Segment → List (List Nat)
  | [] => []
  | seg :: rest =>
    let sl := seg.asSlice
    let plen := sl.length
    let newTotal := total + plen
    if !stream && !(decide (newTotal < maxTotal)) then [] else
    match first with
    | some f =>
      if f < plen then [] else
      if ecn ≠ seg.ecn then [] else
      if plen < f then [sl] else                -- undersized: last one
      if cap ≤ count + 1 then [sl] else         -- `segments.is_full()`
      sl :: batchGo stream cap first ecn newTotal (count + 1) rest
    | none =>
      if cap ≤ count + 1 then [sl] else
      sl :: batchGo stream cap (some plen) seg.ecn newTotal (count + 1) rest

def buildBatch (stream : Bool) (cap : Nat) (segs : List Segment) : List (List Nat) :=
  batchGo stream cap none 2 0 0 segs

def offeredLen (batch : List (List Nat)) : Nat := batch.flatten.length

/-- `Batch::ecn()`: the first pushed segment's marking; `Ect0` (= 2) for an empty batch -/
def batchEcn (batch : List (List Nat)) (segs : List Segment) : Nat :=
  match batch, segs with
  | _ :: _, s :: _ => s.ecn
  | _, _ => 2

/-! ### `consume_segments` -/

/-- `remaining.checked_sub(segment.as_slice().len())` is `Some`: the segment's remaining slice fits -/
@[inline] def popFits (len remaining : Nat) : Bool := decide (len ≤ remaining)

/-- `segment.offset += core::mem::take(&mut remaining) as u16` -/
@[inline] def advanceOffset (offset remaining : Nat) : Nat := offset + remaining

/-- the `while let Some(segment) = pop_front()` loop; returns the queue and what is left of `remaining`
    (the final `debug_assert_eq!(remaining, 0)`) -/
def consumeLoop : Nat → List Segment → List Segment × Nat
  | remaining, [] => ([], remaining)
  | remaining, seg :: rest =>
    let len := seg.asSlice.length
    if popFits len remaining then
      let r := remaining - len
      if 0 < r then consumeLoop r rest else (rest, 0)     -- `ensure!(remaining > 0, break)`
    else
      ({ seg with offset := advanceOffset seg.offset remaining } :: rest, 0)

def consumeSegments (segs : List Segment) (consumed : Nat) : List Segment :=
  if consumed = 0 then segs else (consumeLoop consumed segs).1

/-! ### the socket and the flush loops -/

inductive Answer where
  | accept (n : Nat)        -- Ready(Ok(min n offered))
  | pending
  | error (eio : Bool)      -- Ready(Err(..)); `eio`: raw_os_error == EIO
deriving Repr, DecidableEq

inductive Outcome where
  | ready | pending | err
deriving Repr, DecidableEq

/-- one `poll_send`: what was offered, how the socket answered, how many bytes it took -/
structure Call where
  ecn : Nat
  offered : List (List Nat)
  answer : Answer
  written : Nat
deriving Repr, DecidableEq

/-- the bytes the socket accepted in this call -/
def Call.sent (c : Call) : List Nat := c.offered.flatten.take c.written

def sentOf (cs : List Call) : List Nat := (cs.map Call.sent).flatten

/-- `poll_flush_segments_stream`; recursion on the script: every loop iteration makes one `poll_send` -/
def flushStream (cap : Nat) (q : Queue) : List Answer → Queue × Outcome × List Call
  | [] =>
    if q.segments.isEmpty then (q, .ready, []) else
    (q, .pending, [{ ecn := batchEcn (buildBatch true cap q.segments) q.segments, offered := buildBatch true cap q.segments, answer := .pending, written := 0 }])
  | a :: script =>
    if q.segments.isEmpty then (q, .ready, []) else
    let batch := buildBatch true cap q.segments
    match a with
    | .pending => (q, .pending, [{ ecn := batchEcn batch q.segments, offered := batch, answer := .pending, written := 0 }])
    | .error e => ({ segments := [], acceptedLen := 0 }, .err, [{ ecn := batchEcn batch q.segments, offered := batch, answer := .error e, written := 0 }])
    | .accept n =>
      let w := min n (offeredLen batch)
      let r := flushStream cap { q with segments := consumeSegments q.segments w } script
      (r.1, r.2.1, { ecn := batchEcn batch q.segments, offered := batch, answer := .accept n, written := w } :: r.2.2)

/-- `poll_flush_segments_datagram`; `maxSeg` = the local `max_segments`; the third component is the shared
    `Gso` value afterwards (`handle_socket_error` stores 1 on EIO) -/
def flushDgram (cap : Nat) (q : Queue) (maxSeg gso : Nat) : List Answer → Queue × Outcome × Nat × List Call
  | [] =>
    if q.segments.isEmpty then (q, .ready, gso, []) else
    let batch := buildBatch false cap (q.segments.take maxSeg)
    ({ q with segments := q.segments.drop batch.length }, .pending, gso,
      [{ ecn := batchEcn batch q.segments, offered := batch, answer := .pending, written := 0 }])
  | a :: script =>
    if q.segments.isEmpty then (q, .ready, gso, []) else
    let batch := buildBatch false cap (q.segments.take maxSeg)
    let q' : Queue := { q with segments := q.segments.drop batch.length }
    match a with
    | .pending => (q', .pending, gso, [{ ecn := batchEcn batch q.segments, offered := batch, answer := .pending, written := 0 }])
    | .error e => (q', .err, if e then 1 else gso, [{ ecn := batchEcn batch q.segments, offered := batch, answer := .error e, written := 0 }])
    | .accept n =>
      let r := flushDgram cap q' maxSeg gso script
      (r.1, r.2.1, r.2.2.1, { ecn := batchEcn batch q.segments, offered := batch, answer := .accept n, written := offeredLen batch } :: r.2.2.2)

inductive Result where
  | ready (accepted : Nat) | pending | err
deriving Repr, DecidableEq

/-- the `Consume accepted credits` tail of `poll_flush` -/
def finish (q : Queue) (limit : Nat) : Outcome → Queue × Result
  | .ready => ({ q with acceptedLen := q.acceptedLen - min limit q.acceptedLen }, .ready (min limit q.acceptedLen))
  | .pending => (q, .pending)
  | .err => (q, .err)

/-- `Queue::poll_flush` on a stream socket -/
def pollFlushStream (cap : Nat) (q : Queue) (limit : Nat) (script : List Answer) : Queue × Result × List Call :=
  let r := flushStream cap q script
  let f := finish r.1 limit r.2.1
  (f.1, f.2, r.2.2)

/-- `Queue::poll_flush` on a datagram socket (`gso` = the shared `Gso` value before the call) -/
def pollFlushDgram (cap : Nat) (q : Queue) (gso limit : Nat) (script : List Answer) : Queue × Result × Nat × List Call :=
  let r := flushDgram cap q gso gso script
  let f := finish r.1 limit r.2.1
  (f.1, f.2, r.2.2.1, r.2.2.2)

/-! ### histories: any interleaving of pushes and flushes, with a ghost record of what was pushed and what the socket took -/

inductive Op where
  | push (segs : List (Nat × List Nat)) (consumed : Nat) (ok : Bool)
  | flush (limit : Nat) (script : List Answer)
deriving Repr

structure Trace where
  q : Queue := {}
  /-- concatenation of every segment ever pushed -/
  pushed : List Nat := []
  /-- concatenation of everything the socket ever accepted -/
  sent : List Nat := []
  creditIn : Nat := 0
  creditOut : Nat := 0
  /-- results of the flushes, oldest first -/
  results : List Result := []
deriving Repr

/-- total credit reported so far, after a flush with result `r` -/
def creditAfter (out : Nat) : Result → Nat
  | .ready k => out + k
  | _ => out

def step (cap : Nat) (t : Trace) : Op → Trace
  | .push segs consumed ok =>
    { t with q := pushBuffer t.q segs consumed ok,
             pushed := t.pushed ++ (segs.map (·.2)).flatten,
             creditIn := if ok then t.creditIn + consumed else t.creditIn }
  | .flush limit script =>
    let r := pollFlushStream cap t.q limit script
    { t with q := r.1, sent := t.sent ++ sentOf r.2.2,
             creditOut := creditAfter t.creditOut r.2.1,
             results := t.results ++ [r.2.1] }

def run (cap : Nat) (t : Trace) (ops : List Op) : Trace := ops.foldl (step cap) t

def Answer.isError : Answer → Bool
  | .error _ => true
  | _ => false

/-- a history in which the socket never reports an error -/
def Op.errorFree : Op → Bool
  | .push _ _ _ => true
  | .flush _ script => script.all (fun a => !a.isError)

/-! ### the seeded variant: `segment.offset = n` instead of `segment.offset += n` -/
namespace Seeded

def consumeLoop : Nat → List Segment → List Segment × Nat
  | remaining, [] => ([], remaining)
  | remaining, seg :: rest =>
    let len := seg.asSlice.length
    if popFits len remaining then
      let r := remaining - len
      if 0 < r then consumeLoop r rest else (rest, 0)
    else
      ({ seg with offset := remaining } :: rest, 0)

def consumeSegments (segs : List Segment) (consumed : Nat) : List Segment :=
  if consumed = 0 then segs else (consumeLoop consumed segs).1

def flushStream (cap : Nat) (q : Queue) : List Answer → Queue × Outcome × List Call
  | [] =>
    if q.segments.isEmpty then (q, .ready, []) else
    (q, .pending, [{ ecn := batchEcn (buildBatch true cap q.segments) q.segments, offered := buildBatch true cap q.segments, answer := .pending, written := 0 }])
  | a :: script =>
    if q.segments.isEmpty then (q, .ready, []) else
    let batch := buildBatch true cap q.segments
    match a with
    | .pending => (q, .pending, [{ ecn := batchEcn batch q.segments, offered := batch, answer := .pending, written := 0 }])
    | .error e => ({ segments := [], acceptedLen := 0 }, .err, [{ ecn := batchEcn batch q.segments, offered := batch, answer := .error e, written := 0 }])
    | .accept n =>
      let w := min n (offeredLen batch)
      let r := flushStream cap { q with segments := consumeSegments q.segments w } script
      (r.1, r.2.1, { ecn := batchEcn batch q.segments, offered := batch, answer := .accept n, written := w } :: r.2.2)

def pollFlushStream (cap : Nat) (q : Queue) (limit : Nat) (script : List Answer) : Queue × Result × List Call :=
  let r := flushStream cap q script
  let f := finish r.1 limit r.2.1
  (f.1, f.2, r.2.2)

end Seeded

end Quic.Dc.SendQueue
