import QuicModel.Prelude
/-
  RFC 9000 §5.1.1 / §5.1.2 / §19.15 / §19.16 — the connection IDs an endpoint E has issued, as its PEER
  is entitled to see them. Written from the RFC text only (independent of the s2n-quic registries):

  * §5.1.1  "The sequence number of the initial connection ID is 0."  "The sequence number on each
            newly issued connection ID MUST increase by 1."
  * §5.1    "the same connection ID MUST NOT be issued more than once on the same connection"
  * §10.3   a stateless reset token is tied to one connection ID (reuse lets an observer link / reset)
  * §19.15  "The value in the Retire Prior To field MUST be less than or equal to the value in the
            Sequence Number field."   Retransmitting the same frame is allowed.
  * §5.1.1  "An endpoint MUST NOT provide more connection IDs than the peer's limit. An endpoint MAY
            send connection IDs that temporarily exceed a peer's limit if the NEW_CONNECTION_ID frame
            also requires the retirement of any excess, by including a sufficiently large value in
            the Retire Prior To field."
  * §19.16  RETIRE_CONNECTION_ID names a sequence number the peer issued; "The sequence number
            specified in a RETIRE_CONNECTION_ID frame MUST NOT refer to the Destination Connection ID
            field of the packet in which the frame is contained."

  The view is driven by wire-level events of ONE endpoint E, in the order E performs them:
    `tp`        the active_connection_id_limit E's peer declared,
    `hs`        a handshake connection ID of E (sequence number 0; 1 for a preferred address),
    `txNcid`    E emits a NEW_CONNECTION_ID frame,
    `rxRetire`  E has processed a RETIRE_CONNECTION_ID frame of the peer,
    `hsPeer`/`rxNcid`  connection IDs the peer issued to E (handshake / NEW_CONNECTION_ID processed by E),
    `txRetire`  E emits RETIRE_CONNECTION_ID (optionally with the destination CID of the carrying packet).
  An ID counts as retired once E has processed the peer's RETIRE_CONNECTION_ID for it; IDs below the
  largest Retire Prior To E has announced are counted as retired first (§5.1.1).
-/
namespace Quic.Rfc.PeerView

/-- a NEW_CONNECTION_ID frame (§19.15); connection IDs and tokens are byte strings -/
structure Frame where
  seq : Nat
  rpt : Nat
  cid : List Nat
  token : List Nat
deriving DecidableEq, Repr

inductive Ev where
  | tp (limit : Nat)
  | hs (seq : Nat) (cid : List Nat) (token : Option (List Nat))
  | txNcid (f : Frame)
  | rxRetire (seq : Nat)
  | hsPeer (seq : Nat) (cid : List Nat)
  | rxNcid (f : Frame)
  | txRetire (seq : Nat) (dcid : Option (List Nat))
deriving DecidableEq, Repr

inductive Reject where
  | seqGap | dupCid | dupToken | retirePriorTo | limitExceeded | retransmitDiffers
  | retireUnissued | retireInOwnPacket
deriving DecidableEq, Repr

def Reject.name : Reject → String
  | .seqGap => "seq-gap" | .dupCid => "dup-cid" | .dupToken => "dup-token"
  | .retirePriorTo => "retire-prior-to" | .limitExceeded => "limit-exceeded"
  | .retransmitDiffers => "retransmit-differs" | .retireUnissued => "retire-unissued"
  | .retireInOwnPacket => "retire-in-own-packet"

structure View where
  /-- the peer's active_connection_id_limit (§18.2: 2 when absent) -/
  limit : Nat := 2
  /-- E's IDs known to the peer: (sequence number, cid, token) — handshake IDs and distinct frames -/
  issued : List (Nat × List Nat × Option (List Nat)) := []
  /-- next sequence number a NEW_CONNECTION_ID frame of E must carry -/
  nextSeq : Nat := 0
  /-- largest Retire Prior To E has announced -/
  maxRpt : Nat := 0
  /-- sequence numbers for which E processed the peer's RETIRE_CONNECTION_ID -/
  retired : List Nat := []
  /-- the peer's IDs known to E: (sequence number, cid) -/
  peerIssued : List (Nat × List Nat) := []
deriving Repr

def View.seqs (v : View) : List Nat := v.issued.map (·.1)
def View.cids (v : View) : List (List Nat) := v.issued.map (·.2.1)
def View.tokens (v : View) : List (List Nat) := v.issued.filterMap (·.2.2)

/-- §5.1.1 counting: IDs below the largest announced Retire Prior To are retired first; an ID the
    peer retired (and E processed that) no longer counts. -/
def View.active (v : View) : List Nat :=
  v.seqs.filter (fun s => decide (v.maxRpt ≤ s) && !(v.retired.contains s))

def View.find (v : View) (seq : Nat) : Option (Nat × List Nat × Option (List Nat)) :=
  v.issued.find? (fun e => e.1 == seq)

def View.tokenKnown (v : View) : Option (List Nat) → Bool
  | some t => v.tokens.contains t
  | none => false

/-- how an event changes what the peer knows (no checking) -/
def observe (v : View) : Ev → View
  | .tp l => { v with limit := l }
  | .hs seq cid tok =>
    { v with issued := v.issued ++ [(seq, cid, tok)], nextSeq := max v.nextSeq (seq + 1) }
  | .txNcid f =>
    match v.find f.seq with
    | some _ => { v with maxRpt := max v.maxRpt f.rpt }
    | none => { v with issued := v.issued ++ [(f.seq, f.cid, some f.token)], nextSeq := max v.nextSeq (f.seq + 1),
                       maxRpt := max v.maxRpt f.rpt }
  | .rxRetire seq => { v with retired := seq :: v.retired }
  | .hsPeer seq cid => { v with peerIssued := v.peerIssued ++ [(seq, cid)] }
  | .rxNcid f => { v with peerIssued := v.peerIssued ++ [(f.seq, f.cid)] }
  | .txRetire _ _ => v

/-- the RFC rule an event of E violates in view `v`, if any -/
def check (v : View) : Ev → Option Reject
  | .hs seq cid tok =>
    -- handshake ids: sequence number 0 (1 for the preferred address), distinct from each other
    if seq ≠ v.nextSeq then some .seqGap
    else if v.cids.contains cid then some .dupCid
    else if v.tokenKnown tok then some .dupToken
    else none
  | .txNcid f =>
    if f.seq < f.rpt then some .retirePriorTo else
    match v.find f.seq with
    | some (_, cid, tok) =>
      -- the same sequence number again: must be the same connection ID and token (retransmission)
      if cid ≠ f.cid ∨ tok ≠ some f.token then some .retransmitDiffers
      else if (observe v (.txNcid f)).active.length ≤ v.limit then none else some .limitExceeded
    | none =>
      if f.seq ≠ v.nextSeq then some .seqGap
      else if v.cids.contains f.cid then some .dupCid
      else if v.tokens.contains f.token then some .dupToken
      else if (observe v (.txNcid f)).active.length ≤ v.limit then none else some .limitExceeded
  | .txRetire seq dcid =>
    match v.peerIssued.find? (fun e => e.1 == seq) with
    | none => some .retireUnissued
    | some (_, cid) => if dcid = some cid then some .retireInOwnPacket else none
  | _ => none

/-- one wire event of E; `Except.error` = E violated the RFC rule named -/
def step (v : View) (e : Ev) : Except Reject View :=
  match check v e with
  | some r => .error r
  | none => .ok (observe v e)

/-- run a whole trace; the first rule violated, if any -/
def run (v : View) : List Ev → Except Reject View
  | [] => .ok v
  | e :: es =>
    match step v e with
    | .ok v' => run v' es
    | .error r => .error r

def accepts (es : List Ev) : Bool :=
  match run {} es with
  | .ok _ => true
  | .error _ => false

end Quic.Rfc.PeerView
