import QuicModel.Prelude
import QuicModel.Codec.VarInt
/-
  RFC 9000 §7.4 / §18 / §18.2 transport parameters — the INDEPENDENT reference.

  Written from the RFC text only (offline copy: /repo/specs/www.rfc-editor.org/rfc/rfc9000/
  {7.3,7.4,7.4.2,18.2,4.6,7.2}.toml and RFC 9221 §3).  Nothing here looks at the Rust code, with
  one documented exception: the rows for the two private s2n-quic extension parameters
  (`s2nExtensions`), for which no specification other than the code's doc comments exists.

  Shape: a declarative table (id, value kind with its valid range, default, server-only) and
  `accepts role block`:  the block is a sequence of (id, length, value) triples (§18, Figures 20/21),
  every parameter defined in the table has a valid value and is permitted for the sender's role,
  no defined parameter occurs twice (§7.4), and parameters that are not in the table are ignored
  (§7.4.2).

  Readings that are not literal quotes (each is discussed in props/parts/C14_transport_params.py):
  * max_udp_payload_size: "The default … is the maximum permitted UDP payload of 65527. Values below
    1200 are invalid."  We read "maximum permitted" as an upper bound, i.e. valid = [1200, 65527].
  * original_destination_connection_id: §7.2 requires the client's first Destination Connection ID
    to be at least 8 bytes, so a shorter value can never match (§7.3): valid length = [8, 20].
  * initial_source_connection_id / retry_source_connection_id: any connection ID, 0..20 bytes
    (§7.3: "If a zero-length connection ID is selected, the corresponding transport parameter is
    included with a zero-length value").
  * preferred_address: Figure 22 layout; Connection ID "identical in syntax and semantics to …
    NEW_CONNECTION_ID" (1..20 bytes) and "a server MUST NOT include a zero-length connection ID in
    this transport parameter. A client MUST treat a violation … as TRANSPORT_PARAMETER_ERROR".
    A preferred address whose IPv4 AND IPv6 parts are both all-zero is not addressed by the RFC;
    this table rejects it (`paBothZeroRejected`), the python oracle treats it as unspecified.
  * duplicates: §7.4 "An endpoint MUST NOT send a parameter more than once"; a receiver that must
    *ignore* unsupported parameters cannot be required to track them, so only parameters defined in
    the table count.
  * integers use the variable-length encoding of §16 in ANY of its lengths ("Values do not need to
    be encoded on the minimum number of bytes necessary"), and the value must fill the declared
    length exactly.
-/
namespace Quic.Rfc.TransportParams

/-- who SENT the transport-parameter block -/
inductive Role where
  | client
  | server
  deriving DecidableEq, Repr

def maxInt : Nat := 4611686018427387903    -- 2^62 - 1, the largest variable-length integer

inductive Kind where
  /-- an integer (§16 varint, any length) with `lo ≤ v ≤ hi` -/
  | integer (lo hi : Nat)
  /-- "This parameter is a zero-length value." -/
  | zeroLength
  /-- "a sequence of n bytes" -/
  | bytes (n : Nat)
  /-- a connection ID of `lo..hi` bytes -/
  | connectionId (lo hi : Nat)
  /-- Figure 22 -/
  | preferredAddress
  /-- s2n-quic private: a list of varints (dc versions), see `s2nExtensions` -/
  | s2nDcVersions
  deriving DecidableEq, Repr

structure Row where
  name : String
  id : Nat
  kind : Kind
  /-- default when absent, for integer parameters ("default value of 0 … unless otherwise stated") -/
  default : Option Nat
  serverOnly : Bool
  deriving DecidableEq, Repr

/-- RFC 9000 §18.2, in the order of the text. -/
def rfc9000 : List Row := [
  ⟨"original_destination_connection_id", 0x00, .connectionId 8 20, none, true⟩,
  ⟨"max_idle_timeout", 0x01, .integer 0 maxInt, some 0, false⟩,
  ⟨"stateless_reset_token", 0x02, .bytes 16, none, true⟩,
  ⟨"max_udp_payload_size", 0x03, .integer 1200 65527, some 65527, false⟩,
  ⟨"initial_max_data", 0x04, .integer 0 maxInt, some 0, false⟩,
  ⟨"initial_max_stream_data_bidi_local", 0x05, .integer 0 maxInt, some 0, false⟩,
  ⟨"initial_max_stream_data_bidi_remote", 0x06, .integer 0 maxInt, some 0, false⟩,
  ⟨"initial_max_stream_data_uni", 0x07, .integer 0 maxInt, some 0, false⟩,
  -- §4.6: "a max_streams transport parameter … with a value greater than 2^60 … TRANSPORT_PARAMETER_ERROR"
  ⟨"initial_max_streams_bidi", 0x08, .integer 0 1152921504606846976, some 0, false⟩,
  ⟨"initial_max_streams_uni", 0x09, .integer 0 1152921504606846976, some 0, false⟩,
  -- "Values above 20 are invalid."
  ⟨"ack_delay_exponent", 0x0a, .integer 0 20, some 3, false⟩,
  -- "Values of 2^14 or greater are invalid."
  ⟨"max_ack_delay", 0x0b, .integer 0 16383, some 25, false⟩,
  ⟨"disable_active_migration", 0x0c, .zeroLength, none, false⟩,
  ⟨"preferred_address", 0x0d, .preferredAddress, none, true⟩,
  -- "MUST be at least 2"
  ⟨"active_connection_id_limit", 0x0e, .integer 2 maxInt, some 2, false⟩,
  ⟨"initial_source_connection_id", 0x0f, .connectionId 0 20, none, false⟩,
  ⟨"retry_source_connection_id", 0x10, .connectionId 0 20, none, true⟩ ]

/-- RFC 9221 §3: max_datagram_frame_size (0x20), integer, default 0. -/
def rfc9221 : List Row := [
  ⟨"max_datagram_frame_size", 0x20, .integer 0 maxInt, some 0, false⟩ ]

/-- The endpoint under test additionally *supports* two private parameters. §7.4.2 ("MUST ignore
    transport parameters that it does not support") therefore does not apply to them; their value
    format is whatever their owner defines.  Transcribed from the doc comments in
    transport/parameters/mod.rs: `dc_supported_versions` = a list of varint-encoded u32 versions of
    which at most four are read and the rest ignored; `mtu_probing_complete_support` = a flag. -/
def s2nExtensions : List Row := [
  ⟨"dc_supported_versions", 0xdc0000, .s2nDcVersions, none, false⟩,
  ⟨"mtu_probing_complete_support", 0xdc0002, .zeroLength, none, false⟩ ]

def table : List Row := rfc9000 ++ rfc9221 ++ s2nExtensions

def lookupIn (t : List Row) (id : Nat) : Option Row := t.find? (fun r => r.id == id)
def lookup (id : Nat) : Option Row := lookupIn table id

/-- §18 Figure 20/21: `Transport Parameter { ID (i), Length (i), Value (..) } ...` -/
def parseItems : Nat → List Nat → Option (List (Nat × List Nat))
  | _, [] => some []
  | 0, _ :: _ => none
  | fuel + 1, b :: bs =>
    match Quic.Rfc.VarInt.parse (b :: bs) with
    | none => none
    | some (id, r1) =>
      match Quic.Rfc.VarInt.parse r1 with
      | none => none
      | some (len, r2) =>
        if r2.length < len then none
        else
          match parseItems fuel (r2.drop len) with
          | none => none
          | some items => some ((id, r2.take len) :: items)

def allZero (b : List Nat) : Bool := b.all (fun x => x == 0)

/-- at most `n` leading varints are looked at, each must be a u32; everything after them is ignored -/
def dcVersionsOk : Nat → List Nat → Bool
  | _, [] => true
  | 0, _ :: _ => true
  | n + 1, b :: bs =>
    match Quic.Rfc.VarInt.parse (b :: bs) with
    | none => false
    | some (v, r) => decide (v ≤ 4294967295) && dcVersionsOk n r

/-- is `val` (exactly the bytes of the Value field) a valid value of this kind -/
def valueOk : Kind → List Nat → Bool
  | .integer lo hi, val =>
    match Quic.Rfc.VarInt.parse val with
    | some (v, []) => decide (lo ≤ v) && decide (v ≤ hi)
    | _ => false
  | .zeroLength, val => val.isEmpty
  | .bytes n, val => val.length == n
  | .connectionId lo hi, val => decide (lo ≤ val.length) && decide (val.length ≤ hi)
  | .preferredAddress, val =>
    -- IPv4 Address (32), IPv4 Port (16), IPv6 Address (128), IPv6 Port (16),
    -- Connection ID Length (8), Connection ID (..), Stateless Reset Token (128)
    match val.drop 24 with
    | [] => false
    | n :: rest =>
      decide (1 ≤ n) && decide (n ≤ 20) && (rest.length == n + 16)
        && !(allZero (val.take 6) && allZero ((val.drop 6).take 18))
  | .s2nDcVersions, val => dcVersionsOk 4 val

def itemOk (t : List Row) (role : Role) (item : Nat × List Nat) : Bool :=
  match lookupIn t item.1 with
  | none => true                                   -- §7.4.2: ignored
  | some row => (!row.serverOnly || role == .server) && valueOk row.kind item.2

def nodupB : List Nat → Bool
  | [] => true
  | x :: xs => !xs.contains x && nodupB xs

/-- §7.4: no parameter defined in the table is sent more than once -/
def noRepeat (t : List Row) (items : List (Nat × List Nat)) : Bool :=
  nodupB ((items.map (fun it => it.1)).filter (fun id => (lookupIn t id).isSome))

def acceptsWith (t : List Row) (role : Role) (blk : List Nat) : Bool :=
  match parseItems blk.length blk with
  | none => false
  | some items => items.all (itemOk t role) && noRepeat t items

/-- RFC 9000 §7.4 + §18.2: is this block, sent by `role`, acceptable -/
def accepts (role : Role) (blk : List Nat) : Bool := acceptsWith table role blk

/-- the value an absent integer parameter takes -/
def defaultOf (id : Nat) : Option Nat := (lookup id).bind (fun r => r.default)

end Quic.Rfc.TransportParams
