import QuicModel.Codec.VarInt
import QuicModel.Codec.Frame
/-
  RFC 9000 §12.4 / §19 (and RFC 9221 §4 DATAGRAM) written from the RFC text only:

    * `layout`    Table 3 + the "… Frame { … }" figures: frame type value -> list of fields
    * `parseField(s)`  the notation of §1.3: `(i)` variable-length integer, `(8)`/`(64)`/`(128)`
                  fixed width, `(..)` byte strings delimited by a Length field or by the end of the
                  packet, the ACK Range list of §19.3.1
    * `interp`    the meaning of the fields (field descriptions of each subsection) together with
                  the "MUST be treated as a connection error of type FRAME_ENCODING_ERROR" rules
    * `parseFrame`  Type (i) in its shortest encoding (§12.4), then the fields
    * `parseFrames` a packet payload is a sequence of frames (§12.4)

  Nothing above the last section of this file refers to `Quic.Codec.Frame`; the last section
  defines the abstraction `Codec.Frame.toRfc` used to state the agreement theorem.

  Constraints the RFC places on *other layers* are not parse errors and are not part of this
  parser: STREAM/CRYPTO `offset + length ≤ 2^62-1` ("FRAME_ENCODING_ERROR or FLOW_CONTROL_ERROR" /
  "CRYPTO_BUFFER_EXCEEDED"), which frames are allowed in which packet type (Table 3 "Pkts"), stream
  state rules.  §12.4 lets an endpoint reject ("MAY treat … as PROTOCOL_VIOLATION") a frame type
  in a longer-than-necessary encoding; this parser does.
-/
namespace Quic.Rfc.Frame
open Quic

/-- the semantic content of a frame (field descriptions of §19.x) -/
inductive Frame where
  | padding
  | ping
  /-- `ranges`: every acknowledged range as (smallest, largest), in the order of the frame -/
  | ack (largest delay : Nat) (ranges : List (Nat × Nat)) (ecn : Option (Nat × Nat × Nat))
  | resetStream (streamId errorCode finalSize : Nat)
  | stopSending (streamId errorCode : Nat)
  | crypto (offset : Nat) (data : List Nat)
  | newToken (token : List Nat)
  | stream (streamId offset : Nat) (fin : Bool) (data : List Nat)
  | maxData (max : Nat)
  | maxStreamData (streamId max : Nat)
  | maxStreams (bidi : Bool) (max : Nat)
  | dataBlocked (limit : Nat)
  | streamDataBlocked (streamId limit : Nat)
  | streamsBlocked (bidi : Bool) (limit : Nat)
  | newConnectionId (seq retirePriorTo : Nat) (cid token : List Nat)
  | retireConnectionId (seq : Nat)
  | pathChallenge (data : List Nat)
  | pathResponse (data : List Nat)
  | connectionClose (errorCode : Nat) (frameType : Option Nat) (reason : List Nat)
  | handshakeDone
  | datagram (data : List Nat)
  deriving Repr, DecidableEq

inductive Field where
  | int                    -- `X (i)`
  | len8Bytes              -- `Length (8), Connection ID (8..160)`
  | fixedBytes (n : Nat)   -- `Data (64)`, `Stateless Reset Token (128)`
  | lenBytes               -- `Length (i), X (..)`
  | restBytes              -- `X (..)` extending to the end of the packet
  | ackRanges              -- `ACK Range Count (i), First ACK Range (i), ACK Range (..) ...`
  deriving Repr, DecidableEq

inductive Val where
  | int (n : Nat)
  | bytes (b : List Nat)
  /-- First ACK Range, then (Gap, ACK Range Length) pairs -/
  | ranges (first : Nat) (rest : List (Nat × Nat))
  deriving Repr, DecidableEq

/-- Table 3 (type values) and Figures 23-43 of RFC 9000, Figure 1 of RFC 9221 -/
def layout (ty : Nat) : Option (List Field) :=
  if ty = 0x00 then some []                                              -- PADDING
  else if ty = 0x01 then some []                                         -- PING
  else if ty = 0x02 then some [.int, .int, .ackRanges]                   -- ACK
  else if ty = 0x03 then some [.int, .int, .ackRanges, .int, .int, .int] -- ACK + ECN Counts
  else if ty = 0x04 then some [.int, .int, .int]                         -- RESET_STREAM
  else if ty = 0x05 then some [.int, .int]                               -- STOP_SENDING
  else if ty = 0x06 then some [.int, .lenBytes]                          -- CRYPTO
  else if ty = 0x07 then some [.lenBytes]                                -- NEW_TOKEN
  else if 0x08 ≤ ty ∧ ty ≤ 0x0f then                                     -- STREAM 0b00001XXX
    some ([.int] ++ (if ty / 4 % 2 = 1 then [.int] else [])              --   OFF bit 0x04
                 ++ [if ty / 2 % 2 = 1 then .lenBytes else .restBytes])  --   LEN bit 0x02
  else if ty = 0x10 then some [.int]                                     -- MAX_DATA
  else if ty = 0x11 then some [.int, .int]                               -- MAX_STREAM_DATA
  else if ty = 0x12 ∨ ty = 0x13 then some [.int]                         -- MAX_STREAMS
  else if ty = 0x14 then some [.int]                                     -- DATA_BLOCKED
  else if ty = 0x15 then some [.int, .int]                               -- STREAM_DATA_BLOCKED
  else if ty = 0x16 ∨ ty = 0x17 then some [.int]                         -- STREAMS_BLOCKED
  else if ty = 0x18 then some [.int, .int, .len8Bytes, .fixedBytes 16]   -- NEW_CONNECTION_ID
  else if ty = 0x19 then some [.int]                                     -- RETIRE_CONNECTION_ID
  else if ty = 0x1a then some [.fixedBytes 8]                            -- PATH_CHALLENGE
  else if ty = 0x1b then some [.fixedBytes 8]                            -- PATH_RESPONSE
  else if ty = 0x1c then some [.int, .int, .lenBytes]                    -- CONNECTION_CLOSE (transport)
  else if ty = 0x1d then some [.int, .lenBytes]                          -- CONNECTION_CLOSE (application)
  else if ty = 0x1e then some []                                         -- HANDSHAKE_DONE
  else if ty = 0x30 then some [.restBytes]                               -- DATAGRAM
  else if ty = 0x31 then some [.lenBytes]                                -- DATAGRAM with Length
  else none

/-! The field parsers take the variable-length-integer parser as a parameter `pv`; the RFC parser
    proper instantiates it with `Rfc.VarInt.parse` (§16). (The agreement proof re-instantiates it.) -/

/-- `count` (Gap, ACK Range Length) pairs -/
def parsePairsWith (pv : List Nat → Option (Nat × List Nat)) : Nat → List Nat → Option (List (Nat × Nat) × List Nat)
  | 0, b => some ([], b)
  | n + 1, b =>
    match pv b with
    | none => none
    | some (gap, r) =>
      match pv r with
      | none => none
      | some (len, r) =>
        match parsePairsWith pv n r with
        | none => none
        | some (ps, r) => some ((gap, len) :: ps, r)

def parseFieldWith (pv : List Nat → Option (Nat × List Nat)) (f : Field) (b : List Nat) : Option (Val × List Nat) :=
  match f with
  | .int =>
    match pv b with
    | some (v, r) => some (.int v, r)
    | none => none
  | .len8Bytes =>
    match b with
    | [] => none
    | n :: r => if r.length < n then none else some (.bytes (r.take n), r.drop n)
  | .fixedBytes n => if b.length < n then none else some (.bytes (b.take n), b.drop n)
  | .lenBytes =>
    match pv b with
    | none => none
    | some (n, r) => if r.length < n then none else some (.bytes (r.take n), r.drop n)
  | .restBytes => some (.bytes b, [])
  | .ackRanges =>
    match pv b with
    | none => none
    | some (count, r) =>
      match pv r with
      | none => none
      | some (first, r) =>
        match parsePairsWith pv count r with
        | none => none
        | some (ps, r) => some (.ranges first ps, r)

def parseFieldsWith (pv : List Nat → Option (Nat × List Nat)) : List Field → List Nat → Option (List Val × List Nat)
  | [], b => some ([], b)
  | f :: fs, b =>
    match parseFieldWith pv f b with
    | none => none
    | some (v, r) =>
      match parseFieldsWith pv fs r with
      | none => none
      | some (vs, r) => some (v :: vs, r)

/-- §19.3.1: `largest = previous_smallest - gap - 2`, `smallest = largest - ack_range`;
    "If any computed packet number is negative, an endpoint MUST generate a connection error of
    type FRAME_ENCODING_ERROR." -/
def rangesSem : Nat → List (Nat × Nat) → Option (List (Nat × Nat))
  | _, [] => some []
  | prevSmallest, (gap, len) :: ps =>
    if prevSmallest < gap + 2 then none
    else if prevSmallest - gap - 2 < len then none
    else
      match rangesSem (prevSmallest - gap - 2 - len) ps with
      | none => none
      | some l => some ((prevSmallest - gap - 2 - len, prevSmallest - gap - 2) :: l)

def ackSem (largest delay first : Nat) (ps : List (Nat × Nat)) (ecn : Option (Nat × Nat × Nat)) :
    Option Frame :=
  if largest < first then none
  else
    match rangesSem (largest - first) ps with
    | none => none
    | some l => some (.ack largest delay ((largest - first, largest) :: l) ecn)

def streamLimitBound : Nat := 2 ^ 60

/-- field values -> frame, with the frame-level MUST rules -/
def interp (ty : Nat) (vs : List Val) : Option Frame :=
  if ty = 0x00 then (match vs with | [] => some .padding | _ => none)
  else if ty = 0x01 then (match vs with | [] => some .ping | _ => none)
  else if ty = 0x02 then
    (match vs with
     | [.int largest, .int delay, .ranges first ps] => ackSem largest delay first ps none
     | _ => none)
  else if ty = 0x03 then
    (match vs with
     | [.int largest, .int delay, .ranges first ps, .int e0, .int e1, .int ce] =>
       ackSem largest delay first ps (some (e0, e1, ce))
     | _ => none)
  else if ty = 0x04 then
    (match vs with | [.int s, .int c, .int f] => some (.resetStream s c f) | _ => none)
  else if ty = 0x05 then (match vs with | [.int s, .int c] => some (.stopSending s c) | _ => none)
  else if ty = 0x06 then (match vs with | [.int o, .bytes d] => some (.crypto o d) | _ => none)
  else if ty = 0x07 then
    -- §19.7: an empty Token field is a FRAME_ENCODING_ERROR
    (match vs with | [.bytes t] => if t = [] then none else some (.newToken t) | _ => none)
  else if 0x08 ≤ ty ∧ ty ≤ 0x0f then
    -- §19.8: FIN bit 0x01; "When the OFF bit is set to 0 … the offset is 0"
    (match vs with
     | [.int s, .int o, .bytes d] => some (.stream s o (decide (ty % 2 = 1)) d)
     | [.int s, .bytes d] => some (.stream s 0 (decide (ty % 2 = 1)) d)
     | _ => none)
  else if ty = 0x10 then (match vs with | [.int v] => some (.maxData v) | _ => none)
  else if ty = 0x11 then (match vs with | [.int s, .int v] => some (.maxStreamData s v) | _ => none)
  else if ty = 0x12 ∨ ty = 0x13 then
    -- §19.11: "This value cannot exceed 2^60 … MUST be treated as … FRAME_ENCODING_ERROR"
    (match vs with
     | [.int v] => if v ≤ streamLimitBound then some (.maxStreams (decide (ty = 0x12)) v) else none
     | _ => none)
  else if ty = 0x14 then (match vs with | [.int v] => some (.dataBlocked v) | _ => none)
  else if ty = 0x15 then (match vs with | [.int s, .int v] => some (.streamDataBlocked s v) | _ => none)
  else if ty = 0x16 ∨ ty = 0x17 then
    -- §19.14: "This value cannot exceed 2^60"
    (match vs with
     | [.int v] => if v ≤ streamLimitBound then some (.streamsBlocked (decide (ty = 0x16)) v) else none
     | _ => none)
  else if ty = 0x18 then
    -- §19.15: Retire Prior To ≤ Sequence Number; Length < 1 or > 20 invalid
    (match vs with
     | [.int seq, .int rpt, .bytes cid, .bytes tok] =>
       if rpt ≤ seq ∧ 1 ≤ cid.length ∧ cid.length ≤ 20 then some (.newConnectionId seq rpt cid tok) else none
     | _ => none)
  else if ty = 0x19 then (match vs with | [.int s] => some (.retireConnectionId s) | _ => none)
  else if ty = 0x1a then (match vs with | [.bytes d] => some (.pathChallenge d) | _ => none)
  else if ty = 0x1b then (match vs with | [.bytes d] => some (.pathResponse d) | _ => none)
  else if ty = 0x1c then
    (match vs with | [.int c, .int ft, .bytes r] => some (.connectionClose c (some ft) r) | _ => none)
  else if ty = 0x1d then
    (match vs with | [.int c, .bytes r] => some (.connectionClose c none r) | _ => none)
  else if ty = 0x1e then (match vs with | [] => some .handshakeDone | _ => none)
  else if ty = 0x30 ∨ ty = 0x31 then (match vs with | [.bytes d] => some (.datagram d) | _ => none)
  else none

def parseFrameWith (pv : List Nat → Option (Nat × List Nat)) (b : List Nat) : Option (Frame × List Nat) :=
  match pv b with
  | none => none
  | some (ty, r) =>
    -- §12.4: "a frame type MUST use the shortest possible encoding"
    if b.length - r.length ≠ VarInt.minimalLen ty then none
    else
      match layout ty with
      | none => none          -- §12.4: unknown frame type -> FRAME_ENCODING_ERROR
      | some fields =>
        match parseFieldsWith pv fields r with
        | none => none
        | some (vs, rest) =>
          match interp ty vs with
          | none => none
          | some f => some (f, rest)

/-- the RFC frame parser -/
def parseFrame (b : List Nat) : Option (Frame × List Nat) := parseFrameWith VarInt.parse b

/-- §12.4: the payload of a packet is a sequence of complete frames (fuel = payload length;
    an out-of-fuel run cannot happen, every frame has a type byte) -/
def parseFramesFuel : Nat → List Nat → Option (List Frame)
  | _, [] => some []
  | 0, _ :: _ => none
  | fuel + 1, b@(_ :: _) =>
    match parseFrame b with
    | none => none
    | some (f, r) =>
      match parseFramesFuel fuel r with
      | none => none
      | some fs => some (f :: fs)

def parseFrames (b : List Nat) : Option (List Frame) := parseFramesFuel b.length b

def rangesStr (rs : List (Nat × Nat)) : String :=
  if rs.isEmpty then "-" else ",".intercalate (rs.map (fun p => s!"{p.1}-{p.2}"))

def render : Frame → String
  | .padding => "PADDING"
  | .ping => "PING"
  | .ack largest delay rs ecn =>
    let e := match ecn with
      | some (a, b, c) => s!"{a},{b},{c}"
      | none => "-"
    s!"ACK largest={largest} delay={delay} ranges={rangesStr rs} ecn={e}"
  | .resetStream sid code fin => s!"RESET_STREAM sid={sid} code={code} final={fin}"
  | .stopSending sid code => s!"STOP_SENDING sid={sid} code={code}"
  | .crypto off d => s!"CRYPTO off={off} data={toHex d}"
  | .newToken t => s!"NEW_TOKEN token={toHex t}"
  | .stream sid off f d => s!"STREAM sid={sid} off={off} fin={boolStr f} data={toHex d}"
  | .maxData v => s!"MAX_DATA max={v}"
  | .maxStreamData sid v => s!"MAX_STREAM_DATA sid={sid} max={v}"
  | .maxStreams b v => s!"MAX_STREAMS bidi={boolStr b} max={v}"
  | .dataBlocked v => s!"DATA_BLOCKED limit={v}"
  | .streamDataBlocked sid v => s!"STREAM_DATA_BLOCKED sid={sid} limit={v}"
  | .streamsBlocked b v => s!"STREAMS_BLOCKED bidi={boolStr b} limit={v}"
  | .newConnectionId seq rpt cid tok => s!"NEW_CONNECTION_ID seq={seq} rpt={rpt} cid={toHex cid} token={toHex tok}"
  | .retireConnectionId seq => s!"RETIRE_CONNECTION_ID seq={seq}"
  | .pathChallenge d => s!"PATH_CHALLENGE data={toHex d}"
  | .pathResponse d => s!"PATH_RESPONSE data={toHex d}"
  | .connectionClose code ft reason =>
    let f := match ft with
      | some t => toString t
      | none => "-"
    s!"CONNECTION_CLOSE code={code} ftype={f} reason={toHex reason}"
  | .handshakeDone => "HANDSHAKE_DONE"
  | .datagram d => s!"DATAGRAM data={toHex d}"

end Quic.Rfc.Frame

/-! ### abstraction from the implementation's frame values to the RFC's -/
namespace Quic.Codec.Frame

/-- What a decoded implementation value means in RFC terms. `isLast` (absence of a Length field)
    is not semantic; a missing reason phrase is the empty phrase; a run of `n` PADDING bytes is `n`
    PADDING frames (see `toRfcList`); the s2n extension frames have no RFC counterpart. -/
def toRfc : Frame → Option Rfc.Frame.Frame
  | .padding _ => some .padding
  | .ping => some .ping
  | .ack delay ranges ecn =>
    some (.ack (match ranges with | (_, e) :: _ => e | [] => 0) delay ranges ecn)
  | .resetStream s c f => some (.resetStream s c f)
  | .stopSending s c => some (.stopSending s c)
  | .crypto o d => some (.crypto o d)
  | .newToken t => some (.newToken t)
  | .stream s o _ f d => some (.stream s o f d)
  | .maxData v => some (.maxData v)
  | .maxStreamData s v => some (.maxStreamData s v)
  | .maxStreams b v => some (.maxStreams b v)
  | .dataBlocked v => some (.dataBlocked v)
  | .streamDataBlocked s v => some (.streamDataBlocked s v)
  | .streamsBlocked b v => some (.streamsBlocked b v)
  | .newConnectionId s r c t => some (.newConnectionId s r c t)
  | .retireConnectionId s => some (.retireConnectionId s)
  | .pathChallenge d => some (.pathChallenge d)
  | .pathResponse d => some (.pathResponse d)
  | .connectionClose c ft r => some (.connectionClose c ft (match r with | some x => x | none => []))
  | .handshakeDone => some .handshakeDone
  | .datagram _ d => some (.datagram d)
  | .dcStatelessResetTokens _ => none
  | .mtuProbingComplete _ => none

/-- `padding n` stands for `n` RFC PADDING frames -/
def toRfcList : Frame → Option (List Rfc.Frame.Frame)
  | .padding n => some (List.replicate n .padding)
  | f => match toRfc f with
    | some x => some [x]
    | none => none

end Quic.Codec.Frame
