import QuicModel.Prelude
import QuicModel.Codec.VarInt
/-
  RFC 9000 §17.2 (Long Header Packets: Figure 13, Table 5, Figures 14–18), §17.3.1 (Figure 19) and
  the version-independent properties of RFC 8999 §5.1 / §6, written from the RFC text only
  (/repo/specs/www.rfc-editor.org/rfc/rfc9000.txt; RFC 8999 is not available offline, its §5.1
  long-header invariant and §6 Version Negotiation rules are restated in RFC 9000 §17.2 / §17.2.1).

  This is the REFERENCE the code's decoder is compared with; it does not look at how the code is
  organised.  It parses what a receiver can read before header protection is removed:

    * Header Form (0x80) selects long / short header.
    * Long header, RFC 8999 §5.1: Version (32), DCID Length (8), DCID (0..2040), SCID Length (8),
      SCID (0..2040) are version independent; everything else depends on the version.
    * Version 0 is a Version Negotiation packet (Figure 14): Unused (7), the two connection IDs
      (0..2040 bits each — NOT limited to 160), then `Supported Version (32) ...`: the remainder of
      the datagram is a list of 32-bit versions.  RFC 8999 §6: a packet with no Supported Version
      field or with a truncated one MUST be ignored.  It consumes the entire datagram.
    * Version 1: Fixed Bit (0x40) must be 1 ("packets containing a zero value for this bit are not
      valid packets in this version and MUST be discarded"); a DCID or SCID length above 20 "MUST
      drop the packet"; Long Packet Type (0x30) per Table 5.  Initial = Token Length (i), Token,
      Length (i); 0-RTT and Handshake = Length (i); Length counts the Packet Number and Payload
      bytes, which must be present; the next coalesced packet starts right after them (§12.2).
      Retry (Figure 18) = Retry Token (..) then a 128-bit Retry Integrity Tag, the rest of the
      datagram; a zero-length Retry Token MUST be discarded (§17.2.5.2).
    * Any other version: only the RFC 8999 fields are known; the packet's own length is not, so it
      stands for the rest of the datagram (`unsupportedVersion`).  Whether a server answers it with a
      Version Negotiation packet must not depend on version-1 connection-ID rules (§17.2.1).
    * Short header (Figure 19): Fixed Bit must be 1; the DCID has the length the receiving endpoint
      chose for its own connection IDs (`localCidLen`, 0..160 bits); Packet Number and Payload are
      the rest of the datagram.

  The lower bounds of Figures 15–17/19 on the protected fields (Packet Number (8..32), Packet
  Payload (8..)) cannot be checked before the packet-number length bits are unprotected; they are
  part of header-protection removal (RFC 9001 §5.4.2, C06), not of this header parse: the protected
  region is reported as (offset of the Packet Number field, number of bytes).
-/
namespace Quic.Rfc.PacketHeader
open Quic

inductive Packet where
  /-- Figure 14; `supported` is the list of 32-bit Supported Version values -/
  | versionNegotiation (unused : Nat) (dcid scid : List Nat) (supported : List Nat)
  /-- Figure 15; `pnOffset` = offset of the Packet Number field, `length` = value of the Length field -/
  | initial (version : Nat) (dcid scid token : List Nat) (pnOffset length : Nat)
  /-- Figure 16 -/
  | zeroRtt (version : Nat) (dcid scid : List Nat) (pnOffset length : Nat)
  /-- Figure 17 -/
  | handshake (version : Nat) (dcid scid : List Nat) (pnOffset length : Nat)
  /-- Figure 18; `unused` = the low four bits of byte 0 -/
  | retry (unused version : Nat) (dcid scid token integrityTag : List Nat)
  /-- Figure 19; `length` = bytes of Packet Number + Packet Payload -/
  | oneRtt (spin : Nat) (dcid : List Nat) (pnOffset length : Nat)
  /-- RFC 8999 §5.1 only -/
  | unsupportedVersion (version : Nat) (dcid scid : List Nat)
  deriving Repr, DecidableEq

/-- a field of `n` bytes -/
def take? (n : Nat) (b : List Nat) : Option (List Nat × List Nat) :=
  if n ≤ b.length then some (b.take n, b.drop n) else none

/-- an 8-bit field -/
def u8? : List Nat → Option (Nat × List Nat)
  | [] => none
  | x :: r => some (x, r)

/-- a 32-bit field in network byte order -/
def u32? : List Nat → Option (Nat × List Nat)
  | a :: b :: c :: d :: r => some (((a * 256 + b) * 256 + c) * 256 + d, r)
  | _ => none

/-- `Connection ID Length (8), Connection ID (0..2040)` -/
def cid? (b : List Nat) : Option (List Nat × List Nat) :=
  match u8? b with
  | none => none
  | some (len, r) => take? len r

/-- RFC 8999 §5.1: (byte 0, Version, DCID, SCID, version-specific rest) of a long header packet -/
def invariants (b : List Nat) : Option (Nat × Nat × List Nat × List Nat × List Nat) :=
  match b with
  | [] => none
  | first :: r0 =>
    if first / 128 % 2 = 1 then
      match u32? r0 with
      | none => none
      | some (version, r1) =>
        match cid? r1 with
        | none => none
        | some (dcid, r2) =>
          match cid? r2 with
          | none => none
          | some (scid, r3) => some (first, version, dcid, scid, r3)
    else none

/-- `Supported Version (32) ...`; `none` if the last value is truncated -/
def versions? : List Nat → Option (List Nat)
  | [] => some []
  | a :: b :: c :: d :: r =>
    match versions? r with
    | some vs => some ((((a * 256 + b) * 256 + c) * 256 + d) :: vs)
    | none => none
  | _ => none

/-- the maximum connection-ID length of QUIC version 1 (§17.2: 0..160 bits) -/
def v1MaxCid : Nat := 20
/-- Retry Integrity Tag (128) -/
def retryIntegrityTagBytes : Nat := 16

/-- `Length (i), Packet Number, Packet Payload`: the Length field and the protected bytes it covers;
    `total` is the length of the whole input, so `total - afterLength.length` is the Packet Number offset -/
def lengthAndProtected (total : Nat) (b : List Nat) : Option ((Nat × Nat) × List Nat) :=
  match Rfc.VarInt.parse b with
  | none => none
  | some (length, afterLength) =>
    match take? length afterLength with
    | none => none
    | some (_, next) => some ((total - afterLength.length, length), next)

/-- §17.2 for version 1, after the RFC 8999 fields (`body` = the type-specific payload) -/
def parseV1 (total first : Nat) (dcid scid body : List Nat) : Option (Packet × List Nat) :=
  if first / 64 % 2 = 1 then
    if dcid.length ≤ v1MaxCid ∧ scid.length ≤ v1MaxCid then
      match first / 16 % 4 with
      | 0 =>
        match Rfc.VarInt.parse body with
        | none => none
        | some (tokenLength, r) =>
          match take? tokenLength r with
          | none => none
          | some (token, r) =>
            match lengthAndProtected total r with
            | none => none
            | some ((off, len), next) => some (.initial 1 dcid scid token off len, next)
      | 1 =>
        match lengthAndProtected total body with
        | none => none
        | some ((off, len), next) => some (.zeroRtt 1 dcid scid off len, next)
      | 2 =>
        match lengthAndProtected total body with
        | none => none
        | some ((off, len), next) => some (.handshake 1 dcid scid off len, next)
      | _ =>
        -- Retry Token (..), Retry Integrity Tag (128): the token is what precedes the last 16 bytes
        if body.length > retryIntegrityTagBytes then
          some (.retry (first % 16) 1 dcid scid (body.take (body.length - retryIntegrityTagBytes))
                  (body.drop (body.length - retryIntegrityTagBytes)), [])
        else none
    else none
  else none

/-- Figure 14 / RFC 8999 §6 -/
def parseVn (first : Nat) (dcid scid body : List Nat) : Option (Packet × List Nat) :=
  match versions? body with
  | none => none
  | some [] => none
  | some vs => some (.versionNegotiation (first % 128) dcid scid vs, [])

/-- the reference parser: one packet from the front of a datagram, and the bytes after it -/
def parsePacket (localCidLen : Nat) (b : List Nat) : Option (Packet × List Nat) :=
  match b with
  | [] => none
  | first :: afterFirst =>
    if first / 128 % 2 = 0 then
      if first / 64 % 2 = 1 then
        if localCidLen ≤ v1MaxCid then
          match take? localCidLen afterFirst with
          | none => none
          | some (dcid, protectedBytes) =>
            some (.oneRtt (first / 32 % 2) dcid (1 + localCidLen) protectedBytes.length, [])
        else none
      else none
    else
      match invariants b with
      | none => none
      | some (_, version, dcid, scid, body) =>
        if version = 0 then parseVn first dcid scid body
        else if version = 1 then parseV1 b.length first dcid scid body
        else some (.unsupportedVersion version dcid scid, [])

/-- all packets of a datagram (§12.2), with fuel = number of bytes (every packet has ≥ 1 byte) -/
def parseAllFuel (localCidLen : Nat) : Nat → List Nat → List Packet
  | 0, _ => []
  | fuel + 1, b =>
    match parsePacket localCidLen b with
    | none => []
    | some (p, next) => if next.isEmpty then [p] else p :: parseAllFuel localCidLen fuel next

def parseAll (localCidLen : Nat) (b : List Nat) : List Packet := parseAllFuel localCidLen b.length b

end Quic.Rfc.PacketHeader
