import QuicModel.Stream.RecvFlow
/-
  Independent reference for property C04: WHEN does a received frame break the transport rules (RFC 9000
  §4.1, §4.5, §4.6, §12.4, §19.x)?  `commits s sp f v` says: in connection state `s`, frame `f` arriving in a
  packet of space `sp` commits violation `v`.  It is written from the RFC sentences (quoted), in terms of
  what the endpoint has ADVERTISED (`latest` of the controllers, the configured initial windows and stream
  limits) and RECEIVED so far — not in terms of what `onFrame` does.
-/
namespace Quic.Rfc
open Quic.Stream.RecvFlow
open Quic.Conn (Space)

def packetTypeOf : Space → PacketType
  | .initial => .initial
  | .handshake => .handshake
  | .application => .oneRtt

/-- the stream a frame is about -/
def frameStream : Frame → Option Nat
  | .stream sid .. => some sid
  | .resetStream sid _ => some sid
  | .stopSending sid => some sid
  | .maxStreamData sid _ => some sid
  | .streamDataBlocked sid _ => some sid
  | _ => none

/-- stream the receiving endpoint `s` would have to initiate -/
def localInitiated (s : State) (sid : Nat) : Bool := sidServer sid = s.isServer

/-- the cumulative stream limit the endpoint advertised for the type of `sid` -/
def advertisedStreams (s : State) (sid : Nat) : Nat :=
  if sidUni sid then s.remoteUni.latest else s.remoteBidi.latest

/-- the receive half the frame will meet: the existing stream, or the one created on first reference (§3.2:
    "Before a stream is created, all streams of the same type with lower-numbered stream IDs MUST be
    created") with the initial limits of the transport parameters -/
def view (s : State) (sid : Nat) : Option Stream :=
  match s.openIfNecessary sid with
  | .ok s' => s'.lookup sid
  | .error _ => none

/-- `commits s sp f v`: frame `f` in a packet of space `sp` commits violation `v` against state `s` -/
def commits (s : State) (sp : Space) (f : Frame) : Violation → Prop
  -- §12.4 "An endpoint MUST treat receipt of a frame in a packet type that is not permitted as a connection
  --        error of type PROTOCOL_VIOLATION."
  | .frameNotPermittedInPacket => ∃ t, f.type = some t ∧ permitted (packetTypeOf sp) t = false
  -- §12.4 "An endpoint MUST treat the receipt of a frame of unknown type as a connection error ..."
  | .unknownFrameType => ∃ tag, f = .unknown tag
  -- §19.11 "This value cannot exceed 2^60 ..."
  | .maxStreamsTooLarge => ∃ b v, f = .maxStreams b v ∧ v > 2 ^ 60
  -- §19.14
  | .streamsBlockedTooLarge => ∃ b v, f = .streamsBlocked b v ∧ v > 2 ^ 60
  -- §19.15 "Values less than 1 and greater than 20 are invalid"
  | .newConnectionIdLength => ∃ seq rpt len, f = .newConnectionId seq rpt len ∧ (len < 1 ∨ len > 20)
  -- §19.15 "Receiving a value in the Retire Prior To field that is greater than that in the Sequence Number"
  | .newConnectionIdRetirePriorTo => ∃ seq rpt len, f = .newConnectionId seq rpt len ∧ rpt > seq
  -- §19.20 / §19.7: a server receives HANDSHAKE_DONE / NEW_TOKEN
  | .serverOnlyFrameFromClient => sp = .application ∧ s.isServer = true ∧ (f = .handshakeDone ∨ f = .newToken)
  -- §19.16 "a sequence number greater than any previously sent to the peer"
  | .retireUnissuedConnectionId => sp = .application ∧ ∃ seq d, f = .retireConnectionId seq d ∧ seq ≥ s.nextCidSeq
  -- §19.16 "MUST NOT refer to the Destination Connection ID field of the packet in which the frame is contained"
  | .retireCurrentConnectionId => sp = .application ∧ ∃ seq, f = .retireConnectionId seq seq
  -- §4.6 "An endpoint that receives a frame with a stream ID exceeding the limit it has sent MUST treat
  --       this as a connection error of type STREAM_LIMIT_ERROR"
  | .streamLimit => sp = .application ∧ ∃ sid, frameStream f = some sid ∧ localInitiated s sid = false
      ∧ sidIndex sid ≥ advertisedStreams s sid
  -- §19.8/§19.10/§19.5 "... for a locally initiated stream that has not yet been created"
  | .localStreamNotCreated => sp = .application ∧ ∃ sid, frameStream f = some sid ∧ localInitiated s sid = true
      ∧ sidIndex sid ≥ s.next (sidServer sid) (sidUni sid)
  -- §19.8 "... or for a send-only stream", §19.4, §19.13
  | .frameForSendOnlyStream => sp = .application ∧ ∃ sid, frameStream f = some sid ∧ localInitiated s sid = true
      ∧ sidUni sid = true ∧ ((∃ o d fin, f = .stream sid o d fin) ∨ (∃ fs, f = .resetStream sid fs) ∨ (∃ v, f = .streamDataBlocked sid v))
  -- §19.10 "... a MAX_STREAM_DATA frame for a receive-only stream", §19.5 STOP_SENDING
  | .frameForReceiveOnlyStream => sp = .application ∧ ∃ sid, frameStream f = some sid ∧ localInitiated s sid = false
      ∧ sidUni sid = true ∧ ((∃ v, f = .maxStreamData sid v) ∨ f = .stopSending sid)
  -- §19.8 "The largest offset delivered on a stream -- the sum of the offset and data length -- cannot
  --        exceed 2^62-1"
  | .streamOffsetOverflow => sp = .application ∧ ∃ sid o d fin, f = .stream sid o d fin ∧ o + d.length > 2 ^ 62 - 1
  -- §4.1 / §19.10: more stream data (or a final size, §4.5) than the largest MAX_STREAM_DATA advertised
  | .streamDataLimit => sp = .application ∧ ∃ sid st, view s sid = some st ∧
      ((∃ o d fin, f = .stream sid o d fin ∧ o + d.length > st.recv.fc.latest)
       ∨ (∃ fs, f = .resetStream sid fs ∧ fs > st.recv.fc.latest))
  -- §4.1 / §19.9: the new high-water mark of the stream needs more connection credit than is left
  | .connDataLimit => sp = .application ∧ ∃ sid st, view s sid = some st ∧
      ((∃ o d fin, f = .stream sid o d fin ∧ (o + d.length) - st.recv.fc.acquired > s.conn.latest - s.conn.acquired)
       ∨ (∃ fs, f = .resetStream sid fs ∧ fs - st.recv.fc.acquired > s.conn.latest - s.conn.acquired))
  -- §4.5 "Once a final size for a stream is known, it cannot change."
  | .finalSizeChanged => sp = .application ∧ ∃ sid st known, view s sid = some st ∧ st.recv.buf.final = some known ∧
      ((∃ o d, f = .stream sid o d true ∧ o + d.length ≠ known) ∨ (∃ fs, f = .resetStream sid fs ∧ fs ≠ known))
  -- §4.5 "data at or beyond the final size"
  | .dataBeyondFinalSize => sp = .application ∧ ∃ sid st known, view s sid = some st ∧ st.recv.buf.final = some known ∧
      (∃ o d fin, f = .stream sid o d fin ∧ o + d.length > known)
  -- §20.1 FINAL_SIZE_ERROR: "a final size that was lower than the size of stream data that was already received"
  | .finalSizeBelowReceived => sp = .application ∧ ∃ sid st, view s sid = some st ∧ st.recv.buf.final = none ∧
      ((∃ o d, f = .stream sid o d true ∧ o + d.length < st.recv.buf.maxRecv)
       ∨ (∃ fs, f = .resetStream sid fs ∧ fs < st.recv.buf.maxRecv))
  -- §5.1.1 is about the set of active connection ids, which this model does not carry
  | .connectionIdLimit => False

end Quic.Rfc
