/-
  Independent reference for C09, transcribed from the RFC 9002 text (not from the code):
  §5 (RTT estimation), §6.1 (ack-based loss detection), §6.2 (probe timeout) and the pseudo-code
  of Appendix A (/repo/specs/www.rfc-editor.org/rfc/rfc9002.txt).  Times are `Nat` nanoseconds.
  The RFC computes with real numbers; fractions are kept exact here by scaling (`…8` = value × 8).
-/
namespace Quic.Rfc.Recovery

/-- A.2 / §6.1.1: "kPacketThreshold … The value recommended in Section 6.1.1 is 3." -/
def kPacketThreshold : Nat := 3
/-- A.2 / §6.1.2: "kTimeThreshold … Specified as an RTT multiplier. The value recommended … is 9/8." -/
def kTimeThresholdNum : Nat := 9
def kTimeThresholdDen : Nat := 8
/-- A.2 / §6.1.2: "kGranularity: Timer granularity … recommends a value of 1 ms." -/
def kGranularity : Nat := 1000000
/-- A.2 / §6.2.2: "kInitialRtt … The value recommended in Section 6.2.2 is 333 ms." -/
def kInitialRtt : Nat := 333000000
/-- §7.6.1: kPersistentCongestionThreshold = 3 -/
def kPersistentCongestionThreshold : Nat := 3

/-- A.10: `loss_delay = kTimeThreshold * max(latest_rtt, smoothed_rtt)`,
    `loss_delay = max(loss_delay, kGranularity)` — scaled by `kTimeThresholdDen` (= 8). -/
def lossDelay8 (latestRtt smoothedRtt : Nat) : Nat :=
  max (kTimeThresholdNum * max latestRtt smoothedRtt) (kTimeThresholdDen * kGranularity)

/-- A.10, for one unacked packet (all times in ns, `lossDelay` in ns):
    skipped when `unacked.packet_number > largest_acked_packet`; lost when
    `unacked.time_sent <= now() - loss_delay || largest_acked_packet >= unacked.packet_number + kPacketThreshold`. -/
def lostCond (lossDelay timeSent packetNumber largestAcked now : Nat) : Bool :=
  decide (packetNumber ≤ largestAcked) &&
    (decide (timeSent + lossDelay ≤ now) || decide (largestAcked ≥ packetNumber + kPacketThreshold))

/-- §6.1: "The packet is unacknowledged, in flight, and was sent prior to an acknowledged packet." -/
def sentPriorToAcked (packetNumber largestAcked : Nat) : Bool := decide (packetNumber < largestAcked)

/-- A.10: the time at which a not-yet-lost packet will be lost: `unacked.time_sent + loss_delay` -/
def lossTime (lossDelay timeSent : Nat) : Nat := timeSent + lossDelay

structure Unacked where
  packetNumber : Nat
  timeSent : Nat
deriving Repr, DecidableEq

/-- A.10 `DetectAndRemoveLostPackets` over the whole `sent_packets` map: (lost, remaining, loss_time) -/
def detectAndRemoveLostPackets (lossDelay largestAcked now : Nat) :
    List Unacked → List Unacked × List Unacked × Option Nat
  | [] => ([], [], none)
  | u :: rest =>
    let (lost, keep, lt) := detectAndRemoveLostPackets lossDelay largestAcked now rest
    if u.packetNumber > largestAcked then (lost, u :: keep, lt)
    else if lostCond lossDelay u.timeSent u.packetNumber largestAcked now then (u :: lost, keep, lt)
    else
      let t := lossTime lossDelay u.timeSent
      (lost, u :: keep, some (match lt with | none => t | some x => min x t))

/-- A.7: adjusted_rtt for a non-first sample -/
def adjustedRtt (minRtt latestRtt ackDelay maxAckDelay : Nat) (handshakeConfirmed : Bool) : Nat :=
  let ackDelay := if handshakeConfirmed then min ackDelay maxAckDelay else ackDelay
  if latestRtt ≥ minRtt + ackDelay then latestRtt - ackDelay else latestRtt

/-- A.7: `smoothed_rtt = 7/8 * smoothed_rtt + 1/8 * adjusted_rtt`, × 8 -/
def smoothedNext8 (smoothedRtt adjusted : Nat) : Nat := 7 * smoothedRtt + adjusted
/-- A.7: `rttvar = 3/4 * rttvar + 1/4 * abs(smoothed_rtt - adjusted_rtt)`, × 4 -/
def rttvarNext4 (rttvar smoothedRtt adjusted : Nat) : Nat :=
  3 * rttvar + (if smoothedRtt ≤ adjusted then adjusted - smoothedRtt else smoothedRtt - adjusted)

/-- §6.2.1: `PTO = smoothed_rtt + max(4*rttvar, kGranularity) + max_ack_delay`, times `2^pto_count`;
    max_ack_delay is 0 for Initial/Handshake -/
def pto (smoothedRtt rttvar maxAckDelay : Nat) (applicationSpace : Bool) (ptoCount : Nat) : Nat :=
  (smoothedRtt + max (4 * rttvar) kGranularity + (if applicationSpace then maxAckDelay else 0)) * 2 ^ ptoCount

/-- §7.6.1: `(smoothed_rtt + max(4*rttvar, kGranularity) + max_ack_delay) * kPersistentCongestionThreshold` -/
def persistentCongestionDuration (smoothedRtt rttvar maxAckDelay : Nat) : Nat :=
  (smoothedRtt + max (4 * rttvar) kGranularity + maxAckDelay) * kPersistentCongestionThreshold

end Quic.Rfc.Recovery
