/-
  RFC 9002 §2 (terms), written from the RFC text only:
    "Ack-eliciting frames: All frames other than ACK, PADDING, and CONNECTION_CLOSE are considered
     ack-eliciting."
    "In-flight packets: Packets are considered in flight when they are ack-eliciting or contain a
     PADDING frame ..."
  s2n-quic documents one deliberate exception for the second clause (congestion_controlled.rs,
  github.com/aws/s2n-quic/pull/1514): PADDING does not make a packet count as in flight.
  Frame type names are those of `s2n_quic_core::frame` (the two s2n extension frames included:
  they are ordinary ack-eliciting frames).
-/
namespace Quic.Rfc.FrameClasses

def allFrames : List String :=
  ["Ack", "ConnectionClose", "Crypto", "DataBlocked", "Datagram", "DcStatelessResetTokens", "HandshakeDone",
   "MaxData", "MaxStreamData", "MaxStreams", "MtuProbingComplete", "NewConnectionId", "NewToken", "Padding",
   "PathChallenge", "PathResponse", "Ping", "ResetStream", "RetireConnectionId", "StopSending", "Stream",
   "StreamDataBlocked", "StreamsBlocked"]

def nonEliciting : List String := ["Ack", "Padding", "ConnectionClose"]

def ackEliciting (f : String) : Bool := !nonEliciting.contains f

/-- a packet is ack-eliciting iff it carries at least one ack-eliciting frame -/
def packetAckEliciting (frames : List String) : Bool := frames.any ackEliciting

/-- frames that do not by themselves make a packet count towards bytes in flight in s2n-quic:
    ACK (RFC) and PADDING (documented exception) -/
def notCongestionControlled : List String := ["Ack", "Padding"]

def congestionControlled (f : String) : Bool := !notCongestionControlled.contains f

end Quic.Rfc.FrameClasses
