/-
  RFC 9000 §3.1 figure 2 (sending part of a stream) and §3.2 figure 3 (receiving part), written down by hand from the RFC text,
  independently of s2n-quic's `Sender` / `Receiver` (no import of the generated machines).
-/
namespace Quic.Rfc.StreamStates

inductive SendState where
  | Ready | Send | DataSent | DataRecvd | ResetSent | ResetRecvd
  deriving DecidableEq, Repr

/-- the edge labels of figure 2 -/
inductive SendLabel where
  | sendStream      -- Send STREAM / STREAM_DATA_BLOCKED
  | sendFin         -- Send STREAM + FIN
  | recvAllAcks     -- Recv All ACKs
  | sendReset       -- Send RESET_STREAM
  | recvResetAck    -- Recv ACK (of the RESET_STREAM)
  deriving DecidableEq, Repr

def sendFig : SendState → SendLabel → Option SendState
  | .Ready, .sendStream => some .Send
  | .Send, .sendFin => some .DataSent
  | .DataSent, .recvAllAcks => some .DataRecvd
  | .Ready, .sendReset => some .ResetSent
  | .Send, .sendReset => some .ResetSent
  | .DataSent, .sendReset => some .ResetSent
  | .ResetSent, .recvResetAck => some .ResetRecvd
  | _, _ => none

def SendState.terminal : SendState → Bool
  | .DataRecvd | .ResetRecvd => true
  | _ => false

inductive RecvState where
  | Recv | SizeKnown | DataRecvd | DataRead | ResetRecvd | ResetRead
  deriving DecidableEq, Repr

inductive RecvLabel where
  | recvFin         -- Recv STREAM + FIN
  | recvAllData     -- Recv All Data
  | appReadAllData  -- App Read All Data
  | recvReset       -- Recv RESET_STREAM
  | appReadReset    -- App Read Reset
  deriving DecidableEq, Repr

/-- the mandatory arrows of figure 3 -/
def recvFig : RecvState → RecvLabel → Option RecvState
  | .Recv, .recvFin => some .SizeKnown
  | .SizeKnown, .recvAllData => some .DataRecvd
  | .DataRecvd, .appReadAllData => some .DataRead
  | .Recv, .recvReset => some .ResetRecvd
  | .SizeKnown, .recvReset => some .ResetRecvd
  | .ResetRecvd, .appReadReset => some .ResetRead
  | _, _ => none

/-- the two arrows figure 3 marks "(optional)" -/
def recvOptional : RecvState → RecvLabel → Option RecvState
  | .DataRecvd, .recvReset => some .ResetRecvd
  | .ResetRecvd, .recvAllData => some .DataRecvd
  | _, _ => none

def RecvState.terminal : RecvState → Bool
  | .DataRead | .ResetRead => true
  | _ => false

end Quic.Rfc.StreamStates
