/-
  RFC 9000 transport error codes (§20.1) and the error an endpoint has to raise for each way a peer can
  break the transport rules on the receive side (§4.1, §4.5, §4.6, §11, §12.4, §19.x).

  Written from the RFC text (the sentences are quoted next to each row; they are the ones under
  /repo/specs/www.rfc-editor.org/rfc/rfc9000/), NOT from the Rust code.  The model of the code
  (`Quic.Stream.RecvFlow`) only shares the enumeration `ErrorCode` with this file.
-/
namespace Quic.Rfc

/-- RFC 9000 §20.1 (CRYPTO_ERROR 0x0100-0x01ff is one constructor carrying the TLS alert). -/
inductive ErrorCode
  | noError | internalError | connectionRefused | flowControlError | streamLimitError
  | streamStateError | finalSizeError | frameEncodingError | transportParameterError
  | connectionIdLimitError | protocolViolation | invalidToken | applicationError
  | cryptoBufferExceeded | keyUpdateError | aeadLimitReached | noViablePath
  | cryptoError (alert : Nat)
  deriving DecidableEq, Repr

/-- §20.1 Table 7 -/
def ErrorCode.toNat : ErrorCode → Nat
  | .noError => 0x00 | .internalError => 0x01 | .connectionRefused => 0x02
  | .flowControlError => 0x03 | .streamLimitError => 0x04 | .streamStateError => 0x05
  | .finalSizeError => 0x06 | .frameEncodingError => 0x07 | .transportParameterError => 0x08
  | .connectionIdLimitError => 0x09 | .protocolViolation => 0x0a | .invalidToken => 0x0b
  | .applicationError => 0x0c | .cryptoBufferExceeded => 0x0d | .keyUpdateError => 0x0e
  | .aeadLimitReached => 0x0f | .noViablePath => 0x10
  | .cryptoError a => 0x0100 + a % 256

/-- The ways a peer can break the receive-side transport rules that property C04 speaks about. -/
inductive Violation
  /-- more stream data than the largest MAX_STREAM_DATA / initial limit advertised for that stream -/
  | streamDataLimit
  /-- more data over all streams than the largest MAX_DATA / initial_max_data advertised -/
  | connDataLimit
  /-- a stream id above the cumulative stream limit advertised for that stream type -/
  | streamLimit
  /-- a STREAM/RESET_STREAM frame establishing a final size different from the one already known -/
  | finalSizeChanged
  /-- STREAM data at or beyond the known final size -/
  | dataBeyondFinalSize
  /-- a final size (FIN or RESET_STREAM) below the amount of stream data already received -/
  | finalSizeBelowReceived
  /-- STREAM / MAX_STREAM_DATA / STOP_SENDING / RESET_STREAM / STREAM_DATA_BLOCKED naming a stream the
      receiver would have to initiate but has not created yet -/
  | localStreamNotCreated
  /-- STREAM, RESET_STREAM or STREAM_DATA_BLOCKED for a stream that is send-only for the receiver -/
  | frameForSendOnlyStream
  /-- MAX_STREAM_DATA or STOP_SENDING for a stream that is receive-only for the receiver -/
  | frameForReceiveOnlyStream
  /-- a frame type that Table 3 does not permit in the packet type that carried it -/
  | frameNotPermittedInPacket
  /-- HANDSHAKE_DONE or NEW_TOKEN received by a server -/
  | serverOnlyFrameFromClient
  /-- a frame type that is not defined -/
  | unknownFrameType
  /-- MAX_STREAMS above 2^60 -/
  | maxStreamsTooLarge
  /-- STREAMS_BLOCKED above 2^60 -/
  | streamsBlockedTooLarge
  /-- NEW_CONNECTION_ID with a connection id length of 0 or above 20 -/
  | newConnectionIdLength
  /-- NEW_CONNECTION_ID with Retire Prior To > Sequence Number -/
  | newConnectionIdRetirePriorTo
  /-- RETIRE_CONNECTION_ID with a sequence number greater than any sent -/
  | retireUnissuedConnectionId
  /-- RETIRE_CONNECTION_ID naming the Destination Connection ID of the packet carrying it (MAY) -/
  | retireCurrentConnectionId
  /-- stream offset + length above 2^62-1 -/
  | streamOffsetOverflow
  /-- more active connection ids than active_connection_id_limit -/
  | connectionIdLimit
  deriving DecidableEq, Repr

/-- §11: "a generic error code (such as PROTOCOL_VIOLATION or INTERNAL_ERROR) can always be used in place
    of specific error codes". -/
def generic : List ErrorCode := [.protocolViolation, .internalError]

/-- The specific code(s) the RFC prescribes for the violation. -/
def specificFor : Violation → List ErrorCode
  -- §4.1 "A receiver MUST close the connection with an error of type FLOW_CONTROL_ERROR if the sender
  --       violates the advertised connection or stream data limits"; §19.10; §19.9
  | .streamDataLimit => [.flowControlError]
  | .connDataLimit => [.flowControlError]
  -- §4.6 "An endpoint that receives a frame with a stream ID exceeding the limit it has sent MUST treat
  --       this as a connection error of type STREAM_LIMIT_ERROR"; §19.11
  | .streamLimit => [.streamLimitError]
  -- §4.5 "If a RESET_STREAM or STREAM frame is received indicating a change in the final size for the
  --       stream, an endpoint SHOULD respond with an error of type FINAL_SIZE_ERROR"
  | .finalSizeChanged => [.finalSizeError]
  -- §4.5 "A receiver SHOULD treat receipt of data at or beyond the final size as an error of type
  --       FINAL_SIZE_ERROR, even after a stream is closed."
  | .dataBeyondFinalSize => [.finalSizeError]
  -- §20.1 FINAL_SIZE_ERROR (2): "a final size that was lower than the size of stream data that was
  --       already received"
  | .finalSizeBelowReceived => [.finalSizeError]
  -- §19.8 "An endpoint MUST terminate the connection with error STREAM_STATE_ERROR if it receives a STREAM
  --       frame for a locally initiated stream that has not yet been created, or for a send-only stream.";
  -- §19.10, §19.5 (same for MAX_STREAM_DATA / STOP_SENDING)
  | .localStreamNotCreated => [.streamStateError]
  -- §19.8, §19.4 "An endpoint that receives a RESET_STREAM frame for a send-only stream MUST terminate the
  --       connection with error STREAM_STATE_ERROR.", §19.13 (STREAM_DATA_BLOCKED)
  | .frameForSendOnlyStream => [.streamStateError]
  -- §19.10 "An endpoint that receives a MAX_STREAM_DATA frame for a receive-only stream MUST terminate
  --       the connection with error STREAM_STATE_ERROR.", §19.5 (STOP_SENDING)
  | .frameForReceiveOnlyStream => [.streamStateError]
  -- §12.4 "An endpoint MUST treat receipt of a frame in a packet type that is not permitted as a
  --       connection error of type PROTOCOL_VIOLATION."
  | .frameNotPermittedInPacket => [.protocolViolation]
  -- §19.20 "A server MUST treat receipt of a HANDSHAKE_DONE frame as a connection error of type
  --       PROTOCOL_VIOLATION."; §19.7 (NEW_TOKEN)
  | .serverOnlyFrameFromClient => [.protocolViolation]
  -- §12.4 "An endpoint MUST treat the receipt of a frame of unknown type as a connection error of type
  --       FRAME_ENCODING_ERROR."
  | .unknownFrameType => [.frameEncodingError]
  -- §4.6 / §19.11 "Receipt of a frame that permits opening of a stream larger than this limit MUST be
  --       treated as a connection error of type FRAME_ENCODING_ERROR."
  | .maxStreamsTooLarge => [.frameEncodingError]
  -- §19.14 "... MUST be treated as a connection error of type STREAM_LIMIT_ERROR or FRAME_ENCODING_ERROR."
  | .streamsBlockedTooLarge => [.streamLimitError, .frameEncodingError]
  -- §19.15 "Values less than 1 and greater than 20 are invalid and MUST be treated as a connection error
  --       of type FRAME_ENCODING_ERROR."
  | .newConnectionIdLength => [.frameEncodingError]
  -- §19.15 "Receiving a value in the Retire Prior To field that is greater than that in the Sequence
  --       Number field MUST be treated as a connection error of type FRAME_ENCODING_ERROR."
  | .newConnectionIdRetirePriorTo => [.frameEncodingError]
  -- §19.16 "Receipt of a RETIRE_CONNECTION_ID frame containing a sequence number greater than any
  --       previously sent to the peer MUST be treated as a connection error of type PROTOCOL_VIOLATION."
  | .retireUnissuedConnectionId => [.protocolViolation]
  -- §19.16 "The peer MAY treat this as a connection error of type PROTOCOL_VIOLATION."
  | .retireCurrentConnectionId => [.protocolViolation]
  -- §19.8 "Receipt of a frame that exceeds this limit MUST be treated as a connection error of type
  --       FRAME_ENCODING_ERROR or FLOW_CONTROL_ERROR."
  | .streamOffsetOverflow => [.frameEncodingError, .flowControlError]
  -- §5.1.1 "... an endpoint MUST close the connection with an error of type CONNECTION_ID_LIMIT_ERROR."
  | .connectionIdLimit => [.connectionIdLimitError]

/-- Codes an endpoint may close with when it detects the violation: the prescribed one(s) or a generic
    one (§11). -/
def errorFor (v : Violation) : List ErrorCode := specificFor v ++ generic

/-- Violations the RFC lets an endpoint tolerate (MAY / no MUST-close): only the code is constrained. -/
def mayIgnore : Violation → Bool
  | .retireCurrentConnectionId => true
  | _ => false

/-! ### RFC 9000 §12.4 Table 3: which frame types may appear in which packet types -/

inductive FrameType
  | padding | ping | ack | resetStream | stopSending | crypto | newToken | stream | maxData
  | maxStreamData | maxStreams | dataBlocked | streamDataBlocked | streamsBlocked | newConnectionId
  | retireConnectionId | pathChallenge | pathResponse | connectionCloseTransport
  | connectionCloseApplication | handshakeDone
  deriving DecidableEq, Repr

def FrameType.all : List FrameType :=
  [.padding, .ping, .ack, .resetStream, .stopSending, .crypto, .newToken, .stream, .maxData,
   .maxStreamData, .maxStreams, .dataBlocked, .streamDataBlocked, .streamsBlocked, .newConnectionId,
   .retireConnectionId, .pathChallenge, .pathResponse, .connectionCloseTransport,
   .connectionCloseApplication, .handshakeDone]

/-- packet types of Table 3: I(nitial), H(andshake), 0(-RTT), 1(-RTT) -/
inductive PacketType | initial | handshake | zeroRtt | oneRtt
  deriving DecidableEq, Repr

/-- Table 3, column "Pkts", as (I, H, 0, 1) -/
def pkts : FrameType → Bool × Bool × Bool × Bool
  | .padding => (true, true, true, true)                     -- 0x00  IH01
  | .ping => (true, true, true, true)                        -- 0x01  IH01
  | .ack => (true, true, false, true)                        -- 0x02-0x03  IH_1
  | .resetStream => (false, false, true, true)               -- 0x04  __01
  | .stopSending => (false, false, true, true)               -- 0x05  __01
  | .crypto => (true, true, false, true)                     -- 0x06  IH_1
  | .newToken => (false, false, false, true)                 -- 0x07  ___1
  | .stream => (false, false, true, true)                    -- 0x08-0x0f  __01
  | .maxData => (false, false, true, true)                   -- 0x10  __01
  | .maxStreamData => (false, false, true, true)             -- 0x11  __01
  | .maxStreams => (false, false, true, true)                -- 0x12-0x13  __01
  | .dataBlocked => (false, false, true, true)               -- 0x14  __01
  | .streamDataBlocked => (false, false, true, true)         -- 0x15  __01
  | .streamsBlocked => (false, false, true, true)            -- 0x16-0x17  __01
  | .newConnectionId => (false, false, true, true)           -- 0x18  __01
  | .retireConnectionId => (false, false, true, true)        -- 0x19  __01
  | .pathChallenge => (false, false, true, true)             -- 0x1a  __01
  | .pathResponse => (false, false, false, true)             -- 0x1b  ___1
  | .connectionCloseTransport => (true, true, true, true)    -- 0x1c  ih01
  | .connectionCloseApplication => (false, false, true, true) -- 0x1d  __01
  | .handshakeDone => (false, false, false, true)            -- 0x1e  ___1

def permitted (p : PacketType) (t : FrameType) : Bool :=
  match p with
  | .initial => (pkts t).1
  | .handshake => (pkts t).2.1
  | .zeroRtt => (pkts t).2.2.1
  | .oneRtt => (pkts t).2.2.2

end Quic.Rfc
