import QuicModel.Prelude
/-
  Line-protocol driver plumbing. A component is an initial state and a step function from
  one tokenised input line to one output line. `config …` lines are ordinary ops for the
  component. Unknown ops must answer `bad-op` (never default).
-/
namespace Quic

structure Component where
  name : String
  σ : Type
  init : σ
  step : σ → List String → σ × String

def Component.stateless (name : String) (f : List String → String) : Component :=
  { name := name, σ := Unit, init := (), step := fun _ t => ((), f t) }

partial def runLoop (c : Component) (h : IO.FS.Stream) (out : IO.FS.Stream) (s : c.σ) : IO Unit := do
  let line ← h.getLine
  if line.isEmpty then return ()
  let toks := tokens line
  if toks.isEmpty then
    out.putStrLn "bad-op"
    runLoop c h out s
  else if toks == ["reset"] then
    out.putStrLn "ok reset"
    runLoop c h out c.init
  else
    let (s', o) := c.step s toks
    out.putStrLn o
    runLoop c h out s'

def nat? (s : String) : Option Nat := s.toNat?

end Quic
