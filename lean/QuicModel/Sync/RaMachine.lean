/-
  An OPERATIONAL release/acquire memory semantics ("view machine"), defined here — it is the
  memory model the C17 theorems are about. It is NOT the full C11/Rust model:

  * every atomic location has a HISTORY of messages `(val, ts, view)`; timestamps are the position in
    the modification order (`ts = number of earlier messages`); the history is kept newest-first;
  * every thread has a VIEW: per atomic location the timestamp of the newest message it is aware
    of (`atm`), per non-atomic cell the stamp of the last access it is aware of (`na`);
  * a LOAD may read ANY message whose timestamp is not older than the reader's view of that
    location (this is where stale reads come from); the reader's view of the location advances to
    that timestamp; an Acquire load additionally joins the message's view; a Relaxed load does not;
  * a STORE appends a message; a Release store attaches the writer's view to it, a Relaxed store
    attaches the empty view (no release sequences through plain stores — C++20 rule);
  * an RMW reads the NEWEST message and appends directly after it; it continues the release sequence
    of the message it read (the new message's view includes the old message's view);
  * `SeqCst` is treated as `AcqRel` (no SC fences, no total order on SC accesses) — sound for the
    code modelled here because its only SeqCst operation is an RMW (`open.swap`);
  * no consume, no out-of-thin-air, no mixed-size accesses;
  * NON-ATOMIC cells carry a stamp that every access (read or write) increments; an access by a
    thread whose view of the cell is not the current stamp is a DATA RACE (`none`): the accessor
    has not synchronised with the previous access.

  `Msg.tag` is an auxiliary (ghost) annotation: no program may branch on it; it lets the proofs
  name the unwrapped logical index a wrapped ring index stands for.
-/
namespace Quic.Sync.Ra

inductive Ord where
  | relaxed | acquire | release | acqRel | seqCst
  deriving DecidableEq, Repr, Inhabited

def Ord.isAcq : Ord → Bool
  | .acquire | .acqRel | .seqCst => true
  | _ => false

def Ord.isRel : Ord → Bool
  | .release | .acqRel | .seqCst => true
  | _ => false

def Ord.ofString? : String → Option Ord
  | "Relaxed" => some .relaxed
  | "Acquire" => some .acquire
  | "Release" => some .release
  | "AcqRel" => some .acqRel
  | "SeqCst" => some .seqCst
  | _ => none

def Ord.toString : Ord → String
  | .relaxed => "Relaxed" | .acquire => "Acquire" | .release => "Release"
  | .acqRel => "AcqRel" | .seqCst => "SeqCst"

structure View where
  atm : Nat → Nat
  na : Nat → Nat

def View.bot : View := ⟨fun _ => 0, fun _ => 0⟩

def View.join (a b : View) : View :=
  ⟨fun l => max (a.atm l) (b.atm l), fun c => max (a.na c) (b.na c)⟩

def View.setAtm (v : View) (l t : Nat) : View :=
  ⟨fun x => if x = l then t else v.atm x, v.na⟩

def View.setNa (v : View) (c t : Nat) : View :=
  ⟨v.atm, fun x => if x = c then t else v.na x⟩

structure Msg where
  val : Nat
  tag : Nat
  ts : Nat
  view : View

structure Mem where
  /-- per atomic location: messages, newest first -/
  hist : Nat → List Msg
  /-- non-atomic cells: `none` = uninitialised / moved out -/
  cell : Nat → Option Nat
  stamp : Nat → Nat
  /-- the shared allocation has been deallocated -/
  freed : Bool

/-- the message with timestamp `ts` of location `l`, if the reader (view `V`) may still read it -/
def readable (m : Mem) (V : View) (l ts : Nat) : Option Msg :=
  (m.hist l).find? (fun x => x.ts == ts && decide (V.atm l ≤ ts))

/-- the reader's view after reading message `x` of location `l` with ordering `o` -/
def afterLoad (V : View) (o : Ord) (l : Nat) (x : Msg) : View :=
  if o.isAcq then (V.setAtm l x.ts).join x.view else V.setAtm l x.ts

def pushMsg (m : Mem) (l : Nat) (x : Msg) : Mem :=
  { m with hist := fun y => if y = l then x :: m.hist y else m.hist y }

/-- store `val` to `l` -/
def store (m : Mem) (V : View) (o : Ord) (l val tag : Nat) : Mem × View :=
  let t := (m.hist l).length
  let V1 := V.setAtm l t
  (pushMsg m l ⟨val, tag, t, if o.isRel then V1 else View.bot⟩, V1)

/-- read-modify-write: returns the message read (always the newest one) -/
def rmw (m : Mem) (V : View) (o : Ord) (l : Nat) (f : Nat → Nat) (tag : Nat) : Option (Msg × Mem × View) :=
  match m.hist l with
  | [] => none
  | last :: _ =>
    let t := (m.hist l).length
    let V1 := (if o.isAcq then V.join last.view else V).setAtm l t
    some (last, pushMsg m l ⟨f last.val, tag, t, (if o.isRel then V1 else View.bot).join last.view⟩, V1)

/-- non-atomic access to cell `c`, leaving `newContent` there. `none` = DATA RACE. Returns the old content. -/
def naAccess (m : Mem) (V : View) (c : Nat) (newContent : Option Nat) : Option (Option Nat × Mem × View) :=
  if V.na c = m.stamp c then
    let t := m.stamp c + 1
    some (m.cell c,
          { m with cell := fun x => if x = c then newContent else m.cell x,
                   stamp := fun x => if x = c then t else m.stamp x },
          V.setNa c t)
  else none

/-- initial memory: every location in `locs` holds one initial message -/
def Mem.init (initVal : Nat → Nat) : Mem :=
  { hist := fun l => [⟨initVal l, 0, 0, View.bot⟩], cell := fun _ => none, stamp := fun _ => 0, freed := false }

end Quic.Sync.Ra
