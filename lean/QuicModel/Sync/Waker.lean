import QuicModel.Sync.RaMachine
/-
  The wake-up handshake that every waiting primitive of `s2n-quic-core/src/sync` uses, over the
  release/acquire machine of `RaMachine.lean`:

      waiter   (poll_slice / poll_acquire / poll_close):   check ; register ; check ; → Pending (parked)
      notifier (persist_head/persist_tail/submit/Drop):    set   ; wake
               (State::close):                             wake ; set (open.swap) ; wake

  `check` is a load of the condition location (tail / head / open / remaining / senders / is_open —
  abstracted to one location holding 0 = "nothing to do", ≠ 0 = "ready"); `set` stores a non-zero
  value. ASSUMPTION (trusted, not verified): `AtomicWaker` (the `atomic-waker` crate, loom's
  `AtomicWaker` under `--cfg loom`) is a LINEARIZABLE register whose `register` and `wake` are
  single read-modify-write operations with AcqRel ordering on one location; `wake` takes the
  registered waker (if any) and wakes it. `socket/ring.rs` (`Consumer/Producer::poll_acquire` over
  `atomic_waker::Handle`) and `wakeup_queue.rs` are covered only as instances of this handshake.

  The programs are DATA (`List WAct`, `List NAct`) so that the call order read from the source by
  `tools/extractors/sync_orderings.py` can be executed by the search (`waker-search`).
-/
namespace Quic.Sync.Waker
open Quic.Sync.Ra

@[reducible] def COND : Nat := 0
@[reducible] def WAKER : Nat := 1

inductive WAct where
  | check | register
  deriving DecidableEq, Repr

inductive NAct where
  | set | wake
  deriving DecidableEq, Repr

inductive WStat where
  | running | ready | parked
  deriving DecidableEq, Repr

structure Sys where
  mem : Mem
  wv : View
  nv : View
  wprog : List WAct
  wstat : WStat
  nprog : List NAct
  /-- the registered waker has been woken -/
  woken : Bool
  /-- ghost: `register` has been executed -/
  reg : Bool
  /-- ghost: `set` has been executed -/
  isSet : Bool
  /-- ghost: a `wake` has been executed after a `set` -/
  wakeAfterSet : Bool

def init (wprog : List WAct) (nprog : List NAct) : Sys :=
  { mem := Mem.init (fun _ => 0), wv := View.bot, nv := View.bot, wprog := wprog,
    wstat := if wprog.isEmpty then .parked else .running, nprog := nprog,
    woken := false, reg := false, isSet := false, wakeAfterSet := false }

inductive Act where
  /-- waiter step; for a `check` the timestamp of the message to read -/
  | w (ts : Nat)
  | n
  deriving DecidableEq, Repr

/-- `oS`: ordering of the condition store, `oL`: ordering of the condition load -/
def step (oS oL : Ord) (s : Sys) : Act → Option Sys
  | .w ts =>
    match s.wstat, s.wprog with
    | .running, .check :: rest =>
      match readable s.mem s.wv COND ts with
      | none => none
      | some m =>
        let wv := afterLoad s.wv oL COND m
        if m.val ≠ 0 then some { s with wv := wv, wstat := .ready, wprog := [] }
        else some { s with wv := wv, wprog := rest, wstat := if rest.isEmpty then .parked else .running }
    | .running, .register :: rest =>
      match rmw s.mem s.wv .acqRel WAKER (fun _ => 1) 0 with
      | none => none
      | some (_, mem, wv) =>
        some { s with mem := mem, wv := wv, wprog := rest, reg := true,
                      wstat := if rest.isEmpty then .parked else .running }
    | _, _ => none
  | .n =>
    match s.nprog with
    | [] => none
    | .set :: rest =>
      let (mem, nv) := store s.mem s.nv oS COND 1 0
      some { s with mem := mem, nv := nv, nprog := rest, isSet := true }
    | .wake :: rest =>
      match rmw s.mem s.nv .acqRel WAKER (fun _ => 0) 0 with
      | none => none
      | some (last, mem, nv) =>
        some { s with mem := mem, nv := nv, nprog := rest, woken := s.woken || last.val == 1,
                      wakeAfterSet := s.wakeAfterSet || s.isSet }

def run (oS oL : Ord) : Sys → List Act → Option Sys
  | s, [] => some s
  | s, a :: as =>
    match step oS oL s a with
    | none => none
    | some s' => run oS oL s' as

/-- the remaining notifier program will still execute a `wake` after a `set` -/
def pend : Bool → List NAct → Bool
  | _, [] => false
  | true, .wake :: _ => true
  | false, .wake :: r => pend false r
  | _, .set :: r => pend true r

/-- the waiter program of `poll_slice` / `poll_acquire` / `poll_close` -/
def waiterPinned : List WAct := [.check, .register, .check]
/-- `persist_head`, `persist_tail`, `worker::Sender::submit`/`drop`, `atomic_waker::Handle::drop` -/
def notifyPinned : List NAct := [.set, .wake]
/-- `State::close` -/
def closePinned : List NAct := [.wake, .set, .wake]

/-- the lost wake-up: the waiter is parked, the notifier is finished, nobody was woken -/
def lost (s : Sys) : Bool := s.wstat == .parked && s.nprog.isEmpty && !s.woken

end Quic.Sync.Waker
