import QuicModel.Sync.Spsc
import QuicModel.Sync.Waker
/-
  From the tables that `tools/extractors/sync_orderings.py` reads off the Rust source to the parameters
  of the models: `Spsc.Orderings` (one field per atomic operation of sync/spsc/state.rs) and the
  waiter / notifier programs of the wake-up handshake. Used by the bridge lemmas
  (`QuicProofs/Bridge/SyncOrderings.lean`) and by the search components of the driver.
-/
namespace Quic.Sync.Tables
open Quic.Sync.Ra

abbrev Row := String × String × String × String × String

/-- the `n`-th (0-based) row of `state.rs` for (function, field, operation) -/
def findOrd (t : List Row) (fn field op : String) (n : Nat) : Option Ord :=
  match (t.filter (fun r => r.1 == "sync/spsc/state.rs" && r.2.1 == fn && r.2.2.1 == field && r.2.2.2.1 == op))[n]? with
  | some r => Ord.ofString? r.2.2.2.2
  | none => none

def ofTable (t : List Row) : Option Spsc.Orderings :=
  match findOrd t "acquire_capacity" "open" "load" 0, findOrd t "acquire_capacity" "head" "load" 0,
        findOrd t "acquire_filled" "tail" "load" 0, findOrd t "acquire_filled" "open" "load" 0,
        findOrd t "acquire_filled" "tail" "load" 1, findOrd t "persist_head" "head" "store" 0,
        findOrd t "persist_tail" "tail" "store" 0, findOrd t "close" "open" "swap" 0,
        findOrd t "drop_contents" "head" "load" 0, findOrd t "drop_contents" "tail" "load" 0 with
  | some a, some b, some c, some d, some e, some f, some g, some h, some i, some j =>
    some ⟨a, b, c, d, e, f, g, h, i, j⟩
  | _, _, _, _, _, _, _, _, _, _ => none

abbrev Calls := List (String × String × List String)

def callsOf (c : Calls) (file fn : String) : List String :=
  match c.find? (fun r => r.1 == file && r.2.1 == fn) with
  | some r => r.2.2
  | none => []

/-- a waiting function's call sequence as a waiter program: every re-check of the condition is a `check` -/
def waiterOf (l : List String) : List Waker.WAct :=
  l.map (fun t => if t == "register" then Waker.WAct.register else Waker.WAct.check)

/-- a notifying function's call sequence as a notifier program: the atomic write is the `set`;
    `drop_contents` / `dealloc` are not part of the handshake -/
def notifierOf (l : List String) : List Waker.NAct :=
  (l.filter (fun t => t != "drop_contents" && t != "dealloc")).map
    (fun t => if t == "wake" then Waker.NAct.wake else Waker.NAct.set)

def waiterFns : List (String × String) :=
  [("sync/spsc/send.rs", "poll_slice"), ("sync/spsc/recv.rs", "poll_slice"),
   ("sync/atomic_waker.rs", "poll_close"),
   ("socket/ring.rs", "Consumer::poll_acquire"), ("socket/ring.rs", "Producer::poll_acquire")]

def notifierFns : List (String × String) :=
  [("sync/spsc/state.rs", "persist_head"), ("sync/spsc/state.rs", "persist_tail"),
   ("sync/spsc/state.rs", "close"), ("sync/worker.rs", "submit"), ("sync/worker.rs", "drop"),
   ("sync/atomic_waker.rs", "drop")]

/-- `worker::Receiver::poll_acquire` re-checks more often: check; register; check; check(senders); check -/
def workerWaiter (c : Calls) : List Waker.WAct := waiterOf (callsOf c "sync/worker.rs" "poll_acquire")

end Quic.Sync.Tables
