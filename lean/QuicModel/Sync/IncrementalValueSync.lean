/-
  Model of `IncrementalValueSync<T, S>` (`quic/s2n-quic-transport/src/sync/incremental_value_sync.rs`)
  and of the `DeliveryState<T>` it uses (`sync/mod.rs`).  It carries MAX_DATA, MAX_STREAM_DATA and
  MAX_STREAMS: a monotonically growing value that is re-sent until a packet carrying it is
  acknowledged.  `T` = `Nat` (VarInt), packet numbers = `Nat`, an `ack::Set` = `List Nat`.

  Transcribed quirks:
    * the frame written by `on_transmit` always carries `self.latest_value` ("latest value wins"),
      not the value stored inside `Requested(_)` / `Lost(_)`;
    * an update while a frame is in flight re-requests delivery only when the value grew by at least
      `threshold` over the IN-FLIGHT value; the in-flight record is then dropped (a later ACK of that
      packet is ignored);
    * `on_packet_ack` sets `NotRequested` and does NOT re-evaluate `should_send_update`;
    * `on_packet_loss` sets `Lost(self.latest_value)`.
-/
namespace Quic.Sync.IncrementalValueSync

/-- `DeliveryState<T>` (`InFlight` keeps the value and the packet number; the timestamp is unused here) -/
inductive Delivery where
  | notRequested
  | requested (v : Nat)
  | lost (v : Nat)
  | inFlight (v pn : Nat)
  | delivered (v : Nat)
  | cancelled (v : Option Nat)
deriving Repr, DecidableEq

/-- `transmission::Constraint` -/
inductive Constraint where
  | none
  | amplificationLimited
  | congestionLimited
  | retransmissionOnly
deriving Repr, DecidableEq

/-- `Constraint::can_transmit` -/
def Constraint.canTransmit : Constraint → Bool
  | .none => true
  | _ => false

/-- `Constraint::can_retransmit` -/
def Constraint.canRetransmit : Constraint → Bool
  | .none => true
  | .retransmissionOnly => true
  | _ => false

/-- `DeliveryState::cancel` -/
def Delivery.cancel : Delivery → Delivery
  | .notRequested => .cancelled none
  | .requested v => .cancelled (some v)
  | .lost v => .cancelled (some v)
  | .delivered v => .cancelled (some v)
  | .inFlight v _ => .cancelled (some v)
  | .cancelled o => .cancelled o

def Delivery.isCancelled : Delivery → Bool
  | .cancelled _ => true
  | _ => false

/-- `DeliveryState::try_transmit(constraint).is_some()` -/
def Delivery.tryTransmit (d : Delivery) (c : Constraint) : Bool :=
  match d with
  | .requested _ => c.canTransmit
  | .lost _ => c.canRetransmit
  | _ => false

/-- `transmission_interest`: `Requested` ⇒ new data, `Lost` ⇒ lost data -/
def Delivery.hasInterest : Delivery → Bool
  | .requested _ => true
  | .lost _ => true
  | _ => false

structure State where
  latest : Nat
  ackdUpTo : Nat
  threshold : Nat
  delivery : Delivery := .notRequested
deriving Repr, DecidableEq

/-- `should_send_update` -/
def shouldSendUpdate (s : State) : Bool :=
  if s.delivery.isCancelled then false else
  if s.latest != s.ackdUpTo then
    match s.delivery with
    | .inFlight v _ => decide (s.latest - v ≥ s.threshold)
    | _ => decide (s.latest - s.ackdUpTo ≥ s.threshold)
  else false

/-- `request_delivery_if_necessary` -/
def requestDeliveryIfNecessary (s : State) : State :=
  if shouldSendUpdate s then { s with delivery := .requested s.latest } else s

/-- `IncrementalValueSync::new(latest_value, value_ackd_up_to, threshold)`
    (`debug_assert!(latest_value >= value_ackd_up_to)`: the drivers answer `bad-op`) -/
def new (latest ackdUpTo threshold : Nat) : State :=
  requestDeliveryIfNecessary { latest := latest, ackdUpTo := ackdUpTo, threshold := threshold }

/-- `update_latest_value(value)`; `none` = `debug_assert!(value >= self.latest_value)` fires -/
def update (s : State) (v : Nat) : Option State :=
  if v < s.latest then none else
  some (requestDeliveryIfNecessary { s with latest := v })

/-- `stop_sync` -/
def stopSync (s : State) : State := { s with delivery := s.delivery.cancel }

/-- `on_packet_ack(ack_set)` -/
def onPacketAck (s : State) (set : List Nat) : State :=
  match s.delivery with
  | .inFlight v pn => if set.contains pn then { s with ackdUpTo := v, delivery := .notRequested } else s
  | _ => s

/-- `on_packet_loss(ack_set)` -/
def onPacketLoss (s : State) (set : List Nat) : State :=
  match s.delivery with
  | .inFlight _ pn => if set.contains pn then { s with delivery := .lost s.latest } else s
  | _ => s

/-- `on_transmit(stream_id, context)`: `constraint` = `context.transmission_constraint()`,
    `write` = result of `write_value_as_frame` (`some pn` = the frame fitted into packet `pn`).
    Returns the new state and the value carried by the frame that was written (if any). -/
def onTransmit (s : State) (c : Constraint) (write : Option Nat) : State × Option Nat :=
  if s.delivery.tryTransmit c then
    let value := s.latest
    match write with
    | some pn => ({ s with delivery := .inFlight value pn }, some value)
    | none => (s, none)            -- `Err(OnTransmitError::CouldNotWriteFrame)`
  else (s, none)

inductive Op where
  | update (v : Nat)
  | transmit (c : Constraint) (write : Option Nat)
  | ack (set : List Nat)
  | loss (set : List Nat)
  | stop
deriving Repr, DecidableEq

/-- what an operation did that the outside can see -/
inductive Event where
  /-- a frame carrying `value` was written into packet `pn` -/
  | sent (value pn : Nat)
  /-- an ACK covering these packet numbers was processed -/
  | acked (set : List Nat)
deriving Repr, DecidableEq

/-- one operation (an `update` below the latest value is outside the domain: state unchanged) -/
def step (s : State) (op : Op) : State × List Event :=
  match op with
  | .update v => ((update s v).getD s, [])
  | .transmit c w =>
    let r := onTransmit s c w
    (r.1, match r.2, w with
          | some v, some pn => [Event.sent v pn]
          | _, _ => [])
  | .ack set => (onPacketAck s set, [Event.acked set])
  | .loss set => (onPacketLoss s set, [])
  | .stop => (stopSync s, [])

/-- run a history, collecting the events in order -/
def run (s : State) : List Op → State × List Event
  | [] => (s, [])
  | op :: ops =>
    let r1 := step s op
    let r2 := run r1.1 ops
    (r2.1, r1.2 ++ r2.2)

end Quic.Sync.IncrementalValueSync
