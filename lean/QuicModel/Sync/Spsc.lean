import QuicModel.Sync.RaMachine
/-
  The single-producer/single-consumer ring of `s2n-quic-core/src/sync/spsc/{state,send,recv,slice}.rs`
  as two step programs over the release/acquire machine of `RaMachine.lean`.

  Transcribed (by hand — validated by D `spsc-seq` for the index arithmetic and by the crate's loom
  scenarios for the concurrency; see props/parts/C17_sync.py):

  * `State::acquire_capacity`  : `open.load(o)`; closed → `Err`; `cursor.head = head.load(o)`; `!is_full`
  * `State::acquire_filled`    : `cursor.tail = tail.load(o)`; non-empty → `Ok(true)`; `open.load(o)`;
                                 open → `Ok(false)`; else one more `tail.load(o)`; empty → `Err`
  * `SendSlice::push`          : (full → `acquire_capacity` first — modelled as the client calling `sync`
                                 and pushing again) non-atomic WRITE of slot `cursor.tail`; `increment_tail(1)`
  * `RecvSlice::pop`           : (empty → `acquire_filled` first, same remark) non-atomic TAKE of slot
                                 `cursor.head`; `increment_head(1)`.  `clear`/`release(n)` are runs of takes,
                                 `extend` is a run of writes, `peek`/`sync` are `acquire_*` inside a slice.
  * `Drop for SendSlice/RecvSlice` = `persist_tail/persist_head`: unchanged → nothing; `store(idx, o)`
  * `State::close`             : `open.swap(false, o)`; the wake AFTER the swap touches the shared header;
                                 `!was_open` → `drop_contents`: `head.load(o)`, `tail.load(o)`, take every
                                 filled slot, deallocate.
  * `Cursor` arithmetic        : `count(h,t,size) = t.wrapping_sub(h) & (size-1)`, `wrap_add = (i+n) & (size-1)`
                                 with `size` a power of two (`State::new`), written here with `% size`
                                 (`Quic.Proofs.C17.mask_eq_mod` is the bridge), `is_full ⇔ count(tail,head)=1`.

  The memory ORDERING of every atomic operation is a field of `Orderings`; `pinned` mirrors the code
  and is tied to the source text by `Generated.SyncOrderings.table` / `Bridge.SyncOrderings`.

  Waker registration/wake-up is NOT in these programs (see `Waker.lean`); `poll_slice` is
  `acquire; register; acquire`, i.e. for the data path two `acquire` calls.

  Ghost state (never read by a guard): `Msg.tag` (logical, unwrapped index / writer of an `open`
  message), `Local.gPeer`, `Local.gPrev`, and the history variables `pushed`, `popped`, `dropped`.
-/
namespace Quic.Sync.Spsc
open Quic.Sync.Ra

@[reducible] def HEAD : Nat := 0
@[reducible] def TAIL : Nat := 1
@[reducible] def OPEN : Nat := 2

structure Orderings where
  /-- `acquire_capacity`: `open.load` -/
  capOpen : Ord
  /-- `acquire_capacity`: `head.load` -/
  capHead : Ord
  /-- `acquire_filled`: first `tail.load` -/
  fillTail : Ord
  /-- `acquire_filled`: `open.load` -/
  fillOpen : Ord
  /-- `acquire_filled`: second `tail.load` -/
  fillTail2 : Ord
  /-- `persist_head`: `head.store` -/
  persistHead : Ord
  /-- `persist_tail`: `tail.store` -/
  persistTail : Ord
  /-- `close`: `open.swap` -/
  closeSwap : Ord
  /-- `drop_contents`: `head.load` -/
  dropHead : Ord
  /-- `drop_contents`: `tail.load` -/
  dropTail : Ord
  deriving DecidableEq, Repr

/-- the orderings of the code at the pinned commit (state.rs) -/
def pinned : Orderings :=
  { capOpen := .acquire, capHead := .acquire, fillTail := .acquire, fillOpen := .acquire,
    fillTail2 := .acquire, persistHead := .release, persistTail := .release, closeSwap := .seqCst,
    dropHead := .acquire, dropTail := .acquire }

/-! ### cursor arithmetic (state.rs `Cursor`, `count`, `wrap_index`) -/

/-- `count(head, tail, size) = tail.wrapping_sub(head) & (size - 1)` for `head, tail < size` -/
def count (head tail size : Nat) : Nat := (tail + size - head) % size
def isEmpty (head tail : Nat) : Bool := tail == head
/-- `Cursor::is_full`: `count(self.tail, self.head, cap) == 1` -/
def isFull (head tail size : Nat) : Bool := count tail head size == 1
/-- `Cursor::wrap_add` -/
def wrapAdd (idx n size : Nat) : Nat := (idx + n) % size

/-- `State::new`: slots allocated for a requested capacity: `max(capacity + 1, 2).next_power_of_two()` -/
def nextPow2Fuel : Nat → Nat → Nat → Nat
  | 0, p, _ => p
  | f + 1, p, n => if n ≤ p then p else nextPow2Fuel f (2 * p) n
def nextPow2 (n : Nat) : Nat := nextPow2Fuel 64 1 n
def slotsFor (capacity : Nat) : Nat := nextPow2 (max (capacity + 1) 2)

inductive Fail where
  /-- unsynchronised non-atomic slot access -/
  | race
  /-- a slot was taken that holds no value (never written, or already moved out) -/
  | unwritten
  /-- a slot was written that still holds an undelivered value -/
  | overwrite
  /-- the shared allocation was used after `drop_contents` deallocated it -/
  | useAfterFree
  deriving DecidableEq, Repr

inductive Pc where
  | idle
  | slice
  /-- sender: `acquire_capacity` after the `open` load, about to load `head`;
      receiver: `acquire_filled` found the queue empty, about to load `open` -/
  | acq1 (inSlice : Bool)
  /-- receiver only: `open` was false, about to load `tail` once more -/
  | acq2 (inSlice : Bool)
  /-- `close`: after the swap, about to wake the peer (touches the header) -/
  | closed1 (wasOpen : Bool)
  | dcHead | dcTail | dcTake
  | done
  deriving DecidableEq, Repr

structure Local where
  pc : Pc
  /-- `cursor.head` -/
  head : Nat
  /-- `cursor.tail` -/
  tail : Nat
  /-- own index when the current slice was created (`SendSlice.1.tail` / `RecvSlice.1.head`) -/
  prev : Nat
  /-- the last `acquire_*` returned `Err(ClosedError)` -/
  sawClosed : Bool
  /-- ghost: logical value of the cached PEER index -/
  gPeer : Nat
  /-- ghost: logical value of the own index as last published -/
  gPrev : Nat

inductive Side where
  | sender | receiver
  deriving DecidableEq, Repr

structure Sys where
  cap : Nat
  mem : Mem
  pv : View
  cv : View
  p : Local
  c : Local
  /-- history variables -/
  pushed : List Nat
  popped : List Nat
  dropped : List Nat
  fail : Option Fail

def Local.init : Local := ⟨.idle, 0, 0, 0, false, 0, 0⟩

def init (cap : Nat) : Sys :=
  { cap := cap, mem := Mem.init (fun l => if l = OPEN then 1 else 0), pv := View.bot, cv := View.bot,
    p := Local.init, c := Local.init, pushed := [], popped := [], dropped := [], fail := none }

inductive Act where
  /-- sender `acquire_capacity`, part 1: `open.load`, reading the message with timestamp `ts` -/
  | pLoadOpen (ts : Nat)
  | pLoadHead (ts : Nat)
  | pPush (v : Nat)
  /-- drop of the `SendSlice` -/
  | pRelease
  | cLoadTail (ts : Nat)
  | cLoadOpen (ts : Nat)
  | cLoadTail2 (ts : Nat)
  | cPop
  | cRelease
  /-- `close`: the swap -/
  | swap (side : Side)
  /-- `close`: the wake after the swap -/
  | wake2 (side : Side)
  | dLoadHead (side : Side) (ts : Nat)
  | dLoadTail (side : Side) (ts : Nat)
  | dTake (side : Side)
  deriving DecidableEq, Repr

def Sys.loc (s : Sys) : Side → Local
  | .sender => s.p
  | .receiver => s.c
def Sys.view (s : Sys) : Side → View
  | .sender => s.pv
  | .receiver => s.cv
def Sys.setLoc (s : Sys) (sd : Side) (l : Local) : Sys :=
  match sd with
  | .sender => { s with p := l }
  | .receiver => { s with c := l }
def Sys.setView (s : Sys) (sd : Side) (v : View) : Sys :=
  match sd with
  | .sender => { s with pv := v }
  | .receiver => { s with cv := v }

def failWith (s : Sys) (f : Fail) : Option Sys := some { s with fail := some f }

/-- continuation of `try_slice`/`sync` on the sender once `head` has been read -/
def pAfterHead (s : Sys) (b : Bool) (pv : View) (m : Msg) : Sys :=
  let full := isFull m.val s.p.tail s.cap
  { s with pv := pv,
           p := { s.p with head := m.val, gPeer := m.tag,
                           pc := if b then .slice else if full then .idle else .slice,
                           prev := if b then s.p.prev else s.p.tail } }

/-- continuation on the receiver once `tail` has been read and the queue is non-empty -/
def cGotItems (s : Sys) (b : Bool) (cv : View) (m : Msg) : Sys :=
  { s with cv := cv,
           c := { s.c with tail := m.val, gPeer := m.tag, pc := .slice,
                           prev := if b then s.c.prev else s.c.head } }

def closeTag : Side → Nat
  | .sender => 1
  | .receiver => 2

/-- one atomic step of the system. `none`: the action is not enabled (or the run already failed). -/
def step (o : Orderings) (s : Sys) (a : Act) : Option Sys :=
  if s.fail.isSome then none else
  match a with
  | .pLoadOpen ts =>
    match s.p.pc with
    | .idle | .slice =>
      if s.mem.freed then failWith s .useAfterFree else
      match readable s.mem s.pv OPEN ts with
      | none => none
      | some m =>
        let pv := afterLoad s.pv o.capOpen OPEN m
        if m.val = 0 then some { s with pv := pv, p := { s.p with sawClosed := true } }
        else some { s with pv := pv, p := { s.p with pc := .acq1 (s.p.pc == .slice) } }
    | _ => none
  | .pLoadHead ts =>
    match s.p.pc with
    | .acq1 b =>
      if s.mem.freed then failWith s .useAfterFree else
      match readable s.mem s.pv HEAD ts with
      | none => none
      | some m => some (pAfterHead s b (afterLoad s.pv o.capHead HEAD m) m)
    | _ => none
  | .pPush v =>
    match s.p.pc with
    | .slice =>
      if isFull s.p.head s.p.tail s.cap then none else
      if s.mem.freed then failWith s .useAfterFree else
      match naAccess s.mem s.pv s.p.tail (some v) with
      | none => failWith s .race
      | some (old, mem, pv) =>
        if old.isSome then failWith s .overwrite else
        some { s with mem := mem, pv := pv, pushed := s.pushed ++ [v],
                      p := { s.p with tail := wrapAdd s.p.tail 1 s.cap } }
    | _ => none
  | .pRelease =>
    match s.p.pc with
    | .slice =>
      if s.p.prev = s.p.tail then some { s with p := { s.p with pc := .idle } } else
      if s.mem.freed then failWith s .useAfterFree else
      let (mem, pv) := store s.mem s.pv o.persistTail TAIL s.p.tail s.pushed.length
      some { s with mem := mem, pv := pv, p := { s.p with pc := .idle, gPrev := s.pushed.length } }
    | _ => none
  | .cLoadTail ts =>
    match s.c.pc with
    | .idle | .slice =>
      if s.mem.freed then failWith s .useAfterFree else
      match readable s.mem s.cv TAIL ts with
      | none => none
      | some m =>
        let cv := afterLoad s.cv o.fillTail TAIL m
        let b := s.c.pc == .slice
        if isEmpty s.c.head m.val then
          some { s with cv := cv, c := { s.c with tail := m.val, gPeer := m.tag, pc := .acq1 b } }
        else some (cGotItems s b cv m)
    | _ => none
  | .cLoadOpen ts =>
    match s.c.pc with
    | .acq1 b =>
      if s.mem.freed then failWith s .useAfterFree else
      match readable s.mem s.cv OPEN ts with
      | none => none
      | some m =>
        let cv := afterLoad s.cv o.fillOpen OPEN m
        if m.val = 0 then some { s with cv := cv, c := { s.c with pc := .acq2 b } }
        else some { s with cv := cv, c := { s.c with pc := if b then .slice else .idle } }
    | _ => none
  | .cLoadTail2 ts =>
    match s.c.pc with
    | .acq2 b =>
      if s.mem.freed then failWith s .useAfterFree else
      match readable s.mem s.cv TAIL ts with
      | none => none
      | some m =>
        let cv := afterLoad s.cv o.fillTail2 TAIL m
        if isEmpty s.c.head m.val then
          some { s with cv := cv, c := { s.c with tail := m.val, gPeer := m.tag, sawClosed := true,
                                                  pc := if b then .slice else .idle } }
        else some (cGotItems s b cv m)
    | _ => none
  | .cPop =>
    match s.c.pc with
    | .slice =>
      if isEmpty s.c.head s.c.tail then none else
      if s.mem.freed then failWith s .useAfterFree else
      match naAccess s.mem s.cv s.c.head none with
      | none => failWith s .race
      | some (none, _, _) => failWith s .unwritten
      | some (some v, mem, cv) =>
        some { s with mem := mem, cv := cv, popped := s.popped ++ [v],
                      c := { s.c with head := wrapAdd s.c.head 1 s.cap } }
    | _ => none
  | .cRelease =>
    match s.c.pc with
    | .slice =>
      if s.c.prev = s.c.head then some { s with c := { s.c with pc := .idle } } else
      if s.mem.freed then failWith s .useAfterFree else
      let (mem, cv) := store s.mem s.cv o.persistHead HEAD s.c.head s.popped.length
      some { s with mem := mem, cv := cv, c := { s.c with pc := .idle, gPrev := s.popped.length } }
    | _ => none
  | .swap sd =>
    match (s.loc sd).pc with
    | .idle =>
      if s.mem.freed then failWith s .useAfterFree else
      match rmw s.mem (s.view sd) o.closeSwap OPEN (fun _ => 0) (closeTag sd) with
      | none => none
      | some (last, mem, v) =>
        some (({ s with mem := mem }.setView sd v).setLoc sd { s.loc sd with pc := .closed1 (last.val != 0) })
    | _ => none
  | .wake2 sd =>
    match (s.loc sd).pc with
    | .closed1 w =>
      if s.mem.freed then failWith s .useAfterFree else
      some (s.setLoc sd { s.loc sd with pc := if w then .done else .dcHead })
    | _ => none
  | .dLoadHead sd ts =>
    match (s.loc sd).pc with
    | .dcHead =>
      if s.mem.freed then failWith s .useAfterFree else
      match readable s.mem (s.view sd) HEAD ts with
      | none => none
      | some m =>
        let l := s.loc sd
        some ((s.setView sd (afterLoad (s.view sd) o.dropHead HEAD m)).setLoc sd
          { l with head := m.val, pc := .dcTail, gPeer := if sd = .sender then m.tag else l.gPeer })
    | _ => none
  | .dLoadTail sd ts =>
    match (s.loc sd).pc with
    | .dcTail =>
      if s.mem.freed then failWith s .useAfterFree else
      match readable s.mem (s.view sd) TAIL ts with
      | none => none
      | some m =>
        let l := s.loc sd
        some ((s.setView sd (afterLoad (s.view sd) o.dropTail TAIL m)).setLoc sd
          { l with tail := m.val, pc := .dcTake, gPeer := if sd = .receiver then m.tag else l.gPeer })
    | _ => none
  | .dTake sd =>
    match (s.loc sd).pc with
    | .dcTake =>
      if s.mem.freed then failWith s .useAfterFree else
      let l := s.loc sd
      if l.head = l.tail then
        some ({ s with mem := { s.mem with freed := true } }.setLoc sd { l with pc := .done })
      else
        match naAccess s.mem (s.view sd) l.head none with
        | none => failWith s .race
        | some (none, _, _) => failWith s .unwritten
        | some (some v, mem, vw) =>
          some (({ s with mem := mem, dropped := s.dropped ++ [v] }.setView sd vw).setLoc sd
            { l with head := wrapAdd l.head 1 s.cap })
    | _ => none

/-- run a schedule -/
def run (o : Orderings) : Sys → List Act → Option Sys
  | s, [] => some s
  | s, a :: as =>
    match step o s a with
    | none => none
    | some s' => run o s' as

end Quic.Sync.Spsc
