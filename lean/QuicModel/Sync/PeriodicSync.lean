import QuicModel.Sync.IncrementalValueSync
/-
  Model of `PeriodicSync<T, S>` (`quic/s2n-quic-transport/src/sync/periodic_sync.rs`): carries
  DATA_BLOCKED / STREAM_DATA_BLOCKED / STREAMS_BLOCKED.  The value is transmitted, re-transmitted
  when lost, and — once acknowledged — transmitted AGAIN every `sync_period × transmission_backoff`
  (the back-off doubles with every transmission / skipped transmission, saturating `u16`) until
  `stop_sync`.

  Timestamps and periods in µs.  `Timer::poll_expiration(now)`: expired ⇔ `deadline < now + 1 ms`,
  an expired timer is cancelled.  Ghost field `active`: delivery has been requested since the last
  `stop_sync` (not in the code).
-/
namespace Quic.Sync.PeriodicSync
open Quic.Sync.IncrementalValueSync (Delivery Constraint)

/-- `DEFAULT_SYNC_PERIOD` = 999 ms -/
def DEFAULT_SYNC_PERIOD_US : Nat := 999000
/-- `INITIAL_BACKOFF` -/
def INITIAL_BACKOFF : Nat := 1
def U16_MAX : Nat := 65535
def K_GRANULARITY_US : Nat := 1000

structure State where
  latest : Nat := 0
  syncPeriodUs : Nat := DEFAULT_SYNC_PERIOD_US
  /-- `delivery_timer` -/
  timer : Option Nat := none
  /-- `InFlight` additionally keeps the transmission timestamp -/
  delivery : Delivery := .notRequested
  inFlightTime : Nat := 0
  delivered : Bool := false
  /-- `Counter<u16, Saturating>` -/
  backoff : Nat := INITIAL_BACKOFF
  /-- ghost -/
  active : Bool := false
deriving Repr, DecidableEq

/-- `PeriodicSync::new()` -/
def new : State := {}

/-- `transmission_backoff *= 2u16` (saturating) -/
def doubleBackoff (s : State) : State := { s with backoff := min (s.backoff * 2) U16_MAX }

/-- `sync_period()` = `self.sync_period * transmission_backoff` -/
def period (s : State) : Nat := s.syncPeriodUs * s.backoff

/-- `update_timer(now)` -/
def updateTimer (s : State) (now : Nat) : State := { s with timer := some (now + period s) }

/-- `request_delivery(value)` (`debug_assert!(value >= self.latest_value)`; the step function treats
    a smaller value as outside the domain) -/
def requestDelivery (s : State) (v : Nat) : State :=
  let s := { s with latest := v, active := true }
  match s.delivery with
  | .notRequested => { s with delivery := .requested v }
  | .cancelled _ => { s with delivery := .requested v }
  | _ => s

/-- `skip_delivery(now)` -/
def skipDelivery (s : State) (now : Nat) : State :=
  match s.delivery with
  | .requested _ => updateTimer (doubleBackoff { s with delivery := .notRequested }) now
  | .lost _ => updateTimer (doubleBackoff { s with delivery := .notRequested }) now
  | .delivered _ => updateTimer (doubleBackoff s) now
  | _ => s

def timerExpired (s : State) (now : Nat) : Bool :=
  match s.timer with
  | some d => decide (d < now + K_GRANULARITY_US)
  | none => false

/-- `on_timeout(now)` -/
def onTimeout (s : State) (now : Nat) : State :=
  if timerExpired s now then { s with timer := none, delivery := .requested s.latest } else s

/-- `stop_sync` -/
def stopSync (s : State) : State :=
  { s with timer := none, delivery := s.delivery.cancel, delivered := false, backoff := INITIAL_BACKOFF, active := false }

/-- `on_packet_ack(ack_set)` -/
def onPacketAck (s : State) (set : List Nat) : State :=
  match s.delivery with
  | .inFlight v pn =>
    if set.contains pn then
      let s := { s with delivered := true }
      let s := updateTimer s s.inFlightTime
      { s with delivery := .delivered v }
    else s
  | _ => s

/-- `on_packet_loss(ack_set)` -/
def onPacketLoss (s : State) (set : List Nat) : State :=
  match s.delivery with
  | .inFlight v pn => if set.contains pn then { s with delivery := .lost v } else s
  | _ => s

/-- `on_transmit`: returns the value written (if any) -/
def onTransmit (s : State) (c : Constraint) (write : Option Nat) (now : Nat) : State × Option Nat :=
  if s.delivery.tryTransmit c then
    let value := s.latest
    match write with
    | some pn => (doubleBackoff { s with delivery := .inFlight value pn, inFlightTime := now }, some value)
    | none => (s, none)
  else (s, none)

/-- `update_sync_period` -/
def updateSyncPeriod (s : State) (p : Nat) : State := { s with syncPeriodUs := p }

inductive Op where
  | request (v : Nat)
  | skip (now : Nat)
  | timeout (now : Nat)
  | stop
  | ack (set : List Nat)
  | loss (set : List Nat)
  | transmit (c : Constraint) (write : Option Nat) (now : Nat)
  | setPeriod (p : Nat)
deriving Repr, DecidableEq

/-- one operation; returns the value of the BLOCKED frame written by a `transmit` (if any) -/
def step (s : State) (op : Op) : State × Option Nat :=
  match op with
  | .request v => if v < s.latest then (s, none) else (requestDelivery s v, none)
  | .skip now => (skipDelivery s now, none)
  | .timeout now => (onTimeout s now, none)
  | .stop => (stopSync s, none)
  | .ack set => (onPacketAck s set, none)
  | .loss set => (onPacketLoss s set, none)
  | .transmit c w now => onTransmit s c w now
  | .setPeriod p => (updateSyncPeriod s p, none)

def run (s : State) : List Op → State
  | [] => s
  | op :: ops => run (step s op).1 ops

end Quic.Sync.PeriodicSync
