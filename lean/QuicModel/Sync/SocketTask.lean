/-
  The socket tasks that connect the OS socket to the endpoint's ring (property C17, "never lose a wake-up"):
    quic/s2n-quic-platform/src/socket/task/tx.rs  `impl Future for Sender  :: poll`
    quic/s2n-quic-platform/src/socket/task/rx.rs  `impl Future for Receiver :: poll`
  One call of `poll` is a loop: wait for ring entries (`poll_ring`), hand them to the socket, release the entries
  that were sent / filled with `release_no_wake(count)` (the wake-up of the endpoint is DEFERRED: `pending_wake =
  true`), until the socket blocks. The call returns from two places: the `Poll::Pending` arm of `poll_ring` (ring
  empty) and the end of the loop (socket blocked). Both must deliver the deferred wake-up, otherwise the endpoint
  that waits for released entries sleeps forever although entries were released.

  The two Booleans say whether the respective exit performs `if pending_wake { ring.wake() }`; they are read from
  the source by tools/extractors/socket_task.py (tie G) and pinned by QuicProofs/Bridge/SocketTask.lean.
  (An `Err` return ends the task: the ring is closed and dropped, which wakes the peer through the drop waker; not
  modelled here.)
-/
namespace Quic.Sync.SocketTask

/-- what happens inside one `poll` call, in order -/
inductive Ev
  /-- `poll_ring` returned `Ready(Ok)`: there are entries to work on -/
  | ringReady
  /-- the socket call returned `Ok` and `count` entries were consumed (`release_no_wake(count)` iff `count > 0`) -/
  | io (count : Nat)
  /-- `poll_ring` returned `Pending`: return from the `Poll::Pending` arm -/
  | ringPending
  /-- `events.take_blocked()`: the loop ends, return after the loop -/
  | socketBlocked
  deriving Repr, DecidableEq

/-- what the endpoint side of the ring can observe -/
inductive Out
  | release (count : Nat)
  | wake
  | ret
  deriving Repr, DecidableEq

structure Shape where
  wakeInPendingArm : Bool
  wakeAfterLoop : Bool
  deriving Repr, DecidableEq

/-- one `poll` call on the given event sequence; `pending` is the local `pending_wake`. Events after the call
    returned are ignored (the next call starts with `pending_wake = false`). -/
def poll (sh : Shape) : Bool → List Ev → List Out
  | _, [] => []
  | pending, .ringReady :: rest => poll sh pending rest
  | pending, .io count :: rest =>
    if count > 0 then .release count :: poll sh true rest else poll sh pending rest
  | pending, .ringPending :: _ => (if pending && sh.wakeInPendingArm then [.wake] else []) ++ [.ret]
  | pending, .socketBlocked :: _ => (if pending && sh.wakeAfterLoop then [.wake] else []) ++ [.ret]

/-- the observable requirement: when a call returns, every release of this call has been followed by a wake -/
def noLostWake : Bool → List Out → Bool
  | _, [] => true
  | _, .release _ :: rest => noLostWake true rest
  | _, .wake :: rest => noLostWake false rest
  | unwoken, .ret :: rest => !unwoken && noLostWake unwoken rest

/-- the shape of the current source -/
def pinned : Shape := ⟨true, true⟩

end Quic.Sync.SocketTask
