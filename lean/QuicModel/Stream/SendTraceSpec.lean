import QuicModel.Stream.SendTrace
/-
  The properties C03 and C12 stated over the RAW op list of one endpoint's wire-level history,
  independently of the acceptor's ghost state: every quantity is a plain fold over the ops
  that happened strictly before the position in question (`pre`).
-/
namespace Quic.Stream.SendTrace.Spec
open Quic.Stream.SendTrace

/-- the largest connection-wide limit received: `initial_max_data` and every MAX_DATA in `pre` -/
def limMaxData (pre : List Op) : Nat :=
  pre.foldl (fun m op => match op with
    | .tp t => max m t.maxData
    | .rxMaxData v => max m v
    | _ => m) 0

/-- the largest limit received for stream `sid`: the applicable `initial_max_stream_data_*` and
    every MAX_STREAM_DATA for `sid` in `pre` -/
def limStream (pre : List Op) (sid : Nat) : Nat :=
  pre.foldl (fun m op => match op with
    | .tp t => max m (t.initialLimit sid)
    | .rxMaxStreamData s v => if s = sid then max m v else m
    | _ => m) 0

/-- the largest cumulative stream-count limit received for the stream type -/
def limStreams (pre : List Op) (bidi : Bool) : Nat :=
  pre.foldl (fun m op => match op with
    | .tp t => max m (t.maxStreams bidi)
    | .rxMaxStreams b v => if b = bidi then max m v else m
    | _ => m) 0

/-- role of the traced endpoint (`some true` = server), from the first `tp` op -/
def role (pre : List Op) : Option Bool :=
  pre.foldl (fun r op => match r, op with
    | none, .tp t => some t.server
    | r, _ => r) none

/-- highest end offset the endpoint put on the wire for `sid` (a RESET_STREAM counts with its final size) -/
def sentEnd (pre : List Op) (sid : Nat) : Nat :=
  pre.foldl (fun m op => match op with
    | .txStream _ s off len _ _ => if s = sid then max m (off + len) else m
    | .txReset _ s f => if s = sid then max m f else m
    | _ => m) 0

/-- the stream ids the endpoint sent STREAM / RESET_STREAM frames for, in order of first use -/
def txSids (pre : List Op) : List Nat :=
  pre.foldl (fun l op => match op with
    | .txStream _ s _ _ _ _ => if s ∈ l then l else l ++ [s]
    | .txReset _ s _ => if s ∈ l then l else l ++ [s]
    | _ => l) []

/-- connection-wide sum of stream lengths sent -/
def connSum (pre : List Op) : Nat := ((txSids pre).map (sentEnd pre)).sum

/-- number of bytes the application wrote on `sid` -/
def writtenLen (pre : List Op) (sid : Nat) : Nat :=
  pre.foldl (fun m op => match op with
    | .appWrite s len _ => if s = sid then m + len else m
    | _ => m) 0

/-- payload key of the stream = key of the first write -/
def keyOf (pre : List Op) (sid : Nat) : Option Nat :=
  pre.foldl (fun k op => match k, op with
    | none, .appWrite s _ key => if s = sid then some key else none
    | k, _ => k) none

/-- the final size announced first (by a FIN or a RESET_STREAM) -/
def finalOf (pre : List Op) (sid : Nat) : Option Nat :=
  pre.foldl (fun f op => match f, op with
    | none, .txStream _ s off len true _ => if s = sid then some (off + len) else none
    | none, .txReset _ s fs => if s = sid then some fs else none
    | f, _ => f) none

def resetSent (pre : List Op) (sid : Nat) : Bool :=
  pre.foldl (fun b op => match op with
    | .txReset _ s _ => b || decide (s = sid)
    | _ => b) false

/-- packet number of the first CONNECTION_CLOSE packet -/
def closePn (pre : List Op) : Option Nat :=
  pre.foldl (fun c op => match c, op with
    | none, .txClose pn => some pn
    | c, _ => c) none

def nClose (pre : List Op) : Nat :=
  pre.foldl (fun n op => match op with
    | .txClose _ => n + 1
    | _ => n) 0

/-- incoming packets seen after the first CONNECTION_CLOSE was sent: (closed?, count) -/
def rxAfterClose (pre : List Op) : Bool × Nat :=
  pre.foldl (fun c op => match op with
    | .txClose _ => (true, c.2)
    | .rxPkt => if c.1 then (true, c.2 + 1) else c
    | _ => c) (false, 0)

/-- number of locally initiated streams of the type opened by the application -/
def nOpened (pre : List Op) (bidi : Bool) : Nat :=
  pre.foldl (fun n op => match op with
    | .appOpen sid => if isBidi sid = bidi then n + 1 else n
    | _ => n) 0

/-- C03 at one position: `op` happened after exactly the ops `pre` -/
def C03At (pre : List Op) (op : Op) : Prop :=
  match op with
  | .txStream _ sid off len _ _ =>
    off + len ≤ limStream pre sid ∧ connSum (pre ++ [op]) ≤ limMaxData pre ∧
    (∀ srv, role pre = some srv → isLocal srv sid = true → sid / 4 + 1 ≤ limStreams pre (isBidi sid))
  | .txReset _ sid final =>
    final ≤ limStream pre sid ∧ connSum (pre ++ [op]) ≤ limMaxData pre ∧
    (∀ srv, role pre = some srv → isLocal srv sid = true → sid / 4 + 1 ≤ limStreams pre (isBidi sid))
  | .appOpen sid => sid / 4 + 1 ≤ limStreams pre (isBidi sid)
  | _ => True

/-- the endpoint never exceeds the largest limits it has received: at every position -/
def C03Holds (ops : List Op) : Prop :=
  ∀ pre op post, ops = pre ++ op :: post → C03At pre op

/-- C12 at one position -/
def C12At (pre : List Op) (op : Op) : Prop :=
  match op with
  | .txStream _ sid off len fin dg =>
    closePn pre = none ∧ resetSent pre sid = false ∧
    -- bytes (re)transmitted for an offset are the bytes the application wrote there
    off + len ≤ writtenLen pre sid ∧ (0 < len → ∃ k, keyOf pre sid = some k ∧ dg = digest k off len) ∧
    -- nothing beyond an announced final size, the final size never changes
    (∀ f, finalOf pre sid = some f → off + len ≤ f ∧ (fin = true → off + len = f)) ∧
    -- and is never smaller than data already sent
    (fin = true → sentEnd pre sid ≤ off + len)
  | .txReset _ sid final =>
    closePn pre = none ∧ (∀ f, finalOf pre sid = some f → final = f) ∧ sentEnd pre sid ≤ final
  | .txBlocked _ sid _ => closePn pre = none ∧ resetSent pre sid = false
  | .txOther _ => closePn pre = none
  | .txClose pn =>
    -- after the first close: only copies of that packet, each answered to an incoming packet
    ∀ p, closePn pre = some p → pn = p ∧ nClose pre ≤ (rxAfterClose pre).2
  | .appOpen sid =>
    -- stream ids of each type are opened in increasing order, none reused
    ∀ srv, role pre = some srv → isLocal srv sid = true ∧ sid / 4 = nOpened pre (isBidi sid)
  | _ => True

def C12Holds (ops : List Op) : Prop :=
  ∀ pre op post, ops = pre ++ op :: post → C12At pre op

end Quic.Stream.SendTrace.Spec
