/-
  Send-side flow control (property C03): transcription of
    quic/s2n-quic-transport/src/stream/send_stream.rs   `StreamFlowController`
      (`acquire_flow_control_window`, `try_acquire_connection_window`, `set_max_stream_data`,
       `available_window`, `finish`), `SendStream::init_reset` (final size of RESET_STREAM),
    quic/s2n-quic-transport/src/stream/outgoing_connection_flow_controller.rs
      (`acquire_window`, `on_max_data`)
  as ONE shared connection controller over a finite map of streams. State fields are named
  after the Rust fields. `VarInt` is `Nat` (values stay below 2^62 because every quantity is
  bounded by a limit received in a varint; `-=`/`+=` are the checked VarInt operators and are
  only applied where the code has established the bound).

  `clampRequest` selects the CURRENT code (`true`: the connection window requested for a stream
  is clamped to `max_stream_data`, the `fix:` in /repo) or the behaviour before the fix
  (`false`: `end_offset` itself is requested, so the acquired window — announced as final size
  of a RESET_STREAM — can exceed the stream limit; finding F3).
-/
namespace Quic.Stream.SendFlow

/-- `StreamFlowControllerState` -/
inductive FcState
  | ready
  | blockedOnStreamWindow
  | blockedOnConnectionWindow
  | finished
  deriving Repr, DecidableEq

/-- `OutgoingConnectionFlowControllerImpl` (`data_blocked_sync` reduced to the requested value) -/
structure ConnFc where
  totalAvailableWindow : Nat
  availableWindow : Nat
  dataBlocked : Option Nat := none
  deriving Repr, DecidableEq

/-- `acquire_window(desired)` -/
def ConnFc.acquireWindow (c : ConnFc) (desired : Nat) : ConnFc × Nat :=
  let result := min c.availableWindow desired
  ({ c with availableWindow := c.availableWindow - result,
            dataBlocked := if result < desired then some c.totalAvailableWindow else c.dataBlocked }, result)

/-- `on_max_data(frame)`: frames that do not increase the limit are ignored -/
def ConnFc.onMaxData (c : ConnFc) (maximumData : Nat) : ConnFc :=
  if c.totalAvailableWindow ≥ maximumData then c
  else { totalAvailableWindow := maximumData,
         availableWindow := c.availableWindow + (maximumData - c.totalAvailableWindow),
         dataBlocked := none }

/-- `StreamFlowController` (the `Rc` to the connection controller is passed explicitly;
    `stream_data_blocked_sync` reduced to the requested value) -/
structure StreamFc where
  acquiredConnectionFlowControllerWindow : Nat := 0
  highestRequestedConnectionFlowControlWindow : Nat := 0
  maxStreamData : Nat
  state : FcState := .ready
  streamDataBlocked : Option Nat := none
  deriving Repr, DecidableEq

/-- `set_max_stream_data` -/
def StreamFc.setMaxStreamData (f : StreamFc) (v : Nat) : StreamFc :=
  if v ≤ f.maxStreamData then f
  else if f.state = .blockedOnStreamWindow then
    { f with maxStreamData := v, state := .ready, streamDataBlocked := none }
  else { f with maxStreamData := v }

/-- `try_acquire_connection_window` -/
def tryAcquireConnectionWindow (f : StreamFc) (c : ConnFc) : StreamFc × ConnFc :=
  if f.state = .finished then (f, c)
  else
    let missing := f.highestRequestedConnectionFlowControlWindow - f.acquiredConnectionFlowControllerWindow
    if missing > 0 then
      let r := c.acquireWindow missing
      ({ f with acquiredConnectionFlowControllerWindow := f.acquiredConnectionFlowControllerWindow + r.2,
                state := if r.2 > 0 ∧ f.state = .blockedOnConnectionWindow then .ready else f.state }, r.1)
    else (f, c)

/-- `available_window` -/
def StreamFc.availableWindow (f : StreamFc) : Nat :=
  min f.maxStreamData f.acquiredConnectionFlowControllerWindow

/-- the offset for which connection credit is requested:
    current code `end_offset.min(self.max_stream_data)`, before the fix `end_offset` -/
def requestedOffset (clampRequest : Bool) (endOffset maxStreamData : Nat) : Nat :=
  if clampRequest then min endOffset maxStreamData else endOffset

/-- `acquire_flow_control_window(end_offset)`: returns the offset up to which data may be sent -/
def acquireFlowControlWindow (clampRequest : Bool) (f : StreamFc) (c : ConnFc) (endOffset : Nat) :
    StreamFc × ConnFc × Nat :=
  if f.state = .finished then (f, c, f.availableWindow)
  else
    let f1 : StreamFc :=
      if endOffset > f.maxStreamData then
        { f with state := .blockedOnStreamWindow, streamDataBlocked := some f.maxStreamData }
      else { f with state := .ready }
    let requested := requestedOffset clampRequest endOffset f.maxStreamData
    let hr := max requested f1.highestRequestedConnectionFlowControlWindow
    let f2 := { f1 with highestRequestedConnectionFlowControlWindow := hr }
    let r := tryAcquireConnectionWindow f2 c
    let f3 : StreamFc :=
      if requested > r.1.acquiredConnectionFlowControllerWindow then
        { (r.1) with state := .blockedOnConnectionWindow }
      else r.1
    (f3, r.2, f3.availableWindow)

/-- `OutgoingDataFlowController::finish` -/
def StreamFc.finish (f : StreamFc) : StreamFc := { f with state := .finished, streamDataBlocked := none }

/-! ## the system: one connection controller, a finite map of send streams -/

/-- one send stream: its flow controller plus ghost bookkeeping of what it put on the wire -/
structure Stream where
  fc : StreamFc
  /-- highest end offset of a STREAM frame emitted (ghost) -/
  highestSent : Nat := 0
  /-- final size announced by RESET_STREAM (`SendStreamState::ResetSent`) -/
  resetFinal : Option Nat := none
  deriving Repr, DecidableEq

abbrev Streams := List (Nat × Stream)

def find? (m : Streams) (k : Nat) : Option Stream :=
  match m with
  | [] => none
  | (k', v) :: t => if k' = k then some v else find? t k

def put (m : Streams) (k : Nat) (v : Stream) : Streams :=
  match m with
  | [] => [(k, v)]
  | (k', v') :: t => if k' = k then (k, v) :: t else (k', v') :: put t k v

structure Sys where
  conn : ConnFc
  streams : Streams := []
  deriving Repr, DecidableEq

inductive Op
  /-- the stream is created with the peer's `initial_max_stream_data_*` as `initial_window` -/
  | openStream (sid initialWindow : Nat)
  /-- MAX_DATA received -/
  | maxData (v : Nat)
  /-- MAX_STREAM_DATA received (`on_max_stream_data`: only in state `Sending`) -/
  | maxStreamData (sid v : Nat)
  /-- `on_connection_window_available` (only in state `Sending`) -/
  | connWindowAvailable (sid : Nat)
  /-- `Transmissions::transmit_interval` for the interval `[start, stop)`: acquires the window for
      `stop`, sends `[start, min stop window)` when the window reaches beyond `start` -/
  | transmit (sid start stop : Nat)
  /-- `init_reset` (application reset or STOP_SENDING): RESET_STREAM with final size = acquired window -/
  | reset (sid : Nat)
  /-- all data and the FIN acknowledged: `flow_controller.finish()` -/
  | finish (sid : Nat)
  deriving Repr, DecidableEq

/-- what the step puts on the wire -/
inductive Out
  | none
  /-- STREAM frame `[start, stop)`; the limits in force when it was written -/
  | frame (sid start stop maxStreamData acquired : Nat)
  /-- RESET_STREAM with its final size; the stream limit in force -/
  | resetFrame (sid finalSize maxStreamData : Nat)
  deriving Repr, DecidableEq

def step (clampRequest : Bool) (s : Sys) (op : Op) : Sys × Out :=
  match op with
  | .openStream sid w =>
    match find? s.streams sid with
    | some _ => (s, .none)
    | none => ({ s with streams := put s.streams sid { fc := { maxStreamData := w } } }, .none)
  | .maxData v => ({ s with conn := s.conn.onMaxData v }, .none)
  | .maxStreamData sid v =>
    match find? s.streams sid with
    | none => (s, .none)
    | some st =>
      if st.resetFinal.isSome then (s, .none)
      else ({ s with streams := put s.streams sid { st with fc := st.fc.setMaxStreamData v } }, .none)
  | .connWindowAvailable sid =>
    match find? s.streams sid with
    | none => (s, .none)
    | some st =>
      if st.resetFinal.isSome then (s, .none)
      else
        let r := tryAcquireConnectionWindow st.fc s.conn
        ({ conn := r.2, streams := put s.streams sid { st with fc := r.1 } }, .none)
  | .transmit sid start stop =>
    match find? s.streams sid with
    | none => (s, .none)
    | some st =>
      -- after a reset (`DataSender::stop_sending`) or `finish` nothing is transmitted any more
      if st.resetFinal.isSome ∨ st.fc.state = .finished ∨ stop ≤ start then (s, .none)
      else
        let r := acquireFlowControlWindow clampRequest st.fc s.conn stop
        let window := r.2.2
        if window ≤ start then
          ({ conn := r.2.1, streams := put s.streams sid { st with fc := r.1 } }, .none)
        else
          let e := min stop window
          ({ conn := r.2.1, streams := put s.streams sid { st with fc := r.1, highestSent := max st.highestSent e } },
           .frame sid start e r.1.maxStreamData r.1.acquiredConnectionFlowControllerWindow)
  | .reset sid =>
    match find? s.streams sid with
    | none => (s, .none)
    | some st =>
      if st.resetFinal.isSome ∨ st.fc.state = .finished then (s, .none)
      else
        let fin := st.fc.acquiredConnectionFlowControllerWindow
        ({ s with streams := put s.streams sid { st with fc := st.fc.finish, resetFinal := some fin } },
         .resetFrame sid fin st.fc.maxStreamData)
  | .finish sid =>
    match find? s.streams sid with
    | none => (s, .none)
    | some st =>
      if st.resetFinal.isSome then (s, .none)
      else ({ s with streams := put s.streams sid { st with fc := st.fc.finish } }, .none)

def init (initialMaxData : Nat) : Sys :=
  { conn := { totalAvailableWindow := initialMaxData, availableWindow := initialMaxData } }

/-- run a history, collecting everything put on the wire -/
def run (clampRequest : Bool) (s : Sys) : List Op → Sys × List Out
  | [] => (s, [])
  | op :: rest =>
    let r := step clampRequest s op
    let r' := run clampRequest r.1 rest
    (r'.1, r.2 :: r'.2)

/-- Σ over streams of the connection window they hold -/
def sumAcquired (m : Streams) : Nat :=
  (m.map (fun p => p.2.fc.acquiredConnectionFlowControllerWindow)).sum

/-- Σ over streams of their length on the wire (data sent, or the final size once reset) -/
def sumSent (m : Streams) : Nat :=
  (m.map (fun p => match p.2.resetFinal with | some f => f | none => p.2.highestSent)).sum

/-! ## the limits RECEIVED, as plain folds over the history (independent reference) -/

/-- the largest connection limit received: `initial_max_data` and every MAX_DATA -/
def grantedData (initialMaxData : Nat) (pre : List Op) : Nat :=
  pre.foldl (fun m op => match op with
    | .maxData v => max m v
    | _ => m) initialMaxData

/-- the largest limit received for stream `sid`: its initial window and every MAX_STREAM_DATA -/
def grantedStream (pre : List Op) (sid : Nat) : Nat :=
  pre.foldl (fun m op => match op with
    | .openStream k w => if k = sid then max m w else m
    | .maxStreamData k v => if k = sid then max m v else m
    | _ => m) 0

/-- the state reached after a history -/
def stateAfter (clampRequest : Bool) (initialMaxData : Nat) (pre : List Op) : Sys :=
  (run clampRequest (init initialMaxData) pre).1

end Quic.Stream.SendFlow
