/-
  The stream data sender (property C12): transcription of
    quic/s2n-quic-transport/src/sync/data_sender.rs            `DataSender` (`push`, `finish`,
      `on_transmit_impl`: lost first, then new data, then the FIN; `on_packet_ack`,
      `on_packet_loss`, `stop_sending`)
    quic/s2n-quic-transport/src/sync/data_sender/buffer.rs      `Buffer` (`push`, `release`,
      `release_all`, `clear`, the `View` of a range)
    quic/s2n-quic-transport/src/sync/data_sender/transmissions.rs `transmit_set`,
      `transmit_interval`, `transmit_fin`, `on_ack_signal`
    quic/s2n-quic-transport/src/sync/data_sender/writer.rs       `writer::Stream`
      (`WRITES_FIN = true`, `RETRANSMIT_IN_PROBE = false`, `MIN_WRITE_SIZE = 32`)
  plus the reset handling of `SendStream` (`init_reset` → `stop_sending`).

  Abstractions: packet capacity counts PAYLOAD bytes (frame headers are free, an empty FIN frame
  needs one unit); the `in_flight` slab never runs out of capacity; chunk boundaries of the
  buffer are not modelled (the buffer is the list of bytes it currently holds, starting at stream
  offset `head`). `written` is a GHOST field: every byte the application ever pushed; the code has
  no such field — the theorems show that what is put on the wire is always a slice of it.
  A `View` outside the buffered range is a (debug) panic in the code: `viewPanic` records it and
  is proved to stay `false`.
-/
namespace Quic.Stream.DataSender

/-! ## minimal interval-set helper (`IntervalSet<VarInt>`): lists of half-open intervals `[a, b)` -/

abbrev IvList := List (Nat × Nat)

namespace Iv

/-- `x` is a member of the set -/
def mem (x : Nat) : IvList → Prop
  | [] => False
  | (a, b) :: t => (a ≤ x ∧ x < b) ∨ mem x t

/-- every interval is non-empty -/
def wf : IvList → Prop
  | [] => True
  | (a, b) :: t => a < b ∧ wf t

/-- `insert`: keeps the list sorted, merges overlapping and adjacent intervals -/
def insert : IvList → Nat → Nat → IvList
  | [], a, b => [(a, b)]
  | (c, d) :: t, a, b =>
    if b < c then (a, b) :: (c, d) :: t
    else if d < a then (c, d) :: insert t a b
    else insert t (min a c) (max b d)

/-- `remove` the interval `[a, b)` -/
def remove : IvList → Nat → Nat → IvList
  | [], _, _ => []
  | (c, d) :: t, a, b =>
    (if c < min d a then [(c, min d a)] else []) ++ ((if max c b < d then [(max c b, d)] else []) ++ remove t a b)

/-- `[a, b) ∩ m` -/
def interOne (a b : Nat) : IvList → IvList
  | [] => []
  | (c, d) :: t => (if max a c < min b d then [(max a c, min b d)] else []) ++ interOne a b t

/-- `intersection` -/
def inter : IvList → IvList → IvList
  | [], _ => []
  | (a, b) :: t, m => interOne a b m ++ inter t m

/-- `min_value` -/
def minValue : IvList → Option Nat
  | [] => none
  | (a, _) :: t =>
    match minValue t with
    | none => some a
    | some m => some (min a m)

end Iv

/-! ## the sender -/

/-- `FinState` -/
inductive FinState
  | pending
  | inFlight (pn : Nat)
  | lost
  | acknowledged
  deriving Repr, DecidableEq

/-- `State` -/
inductive State
  | sending
  | finishing (f : FinState)
  | finished
  | cancelled
  deriving Repr, DecidableEq

/-- `OutgoingDataFlowController` as a record of functions over the controller state `F` -/
structure FlowOps (F : Type) where
  /-- `acquire_flow_control_window(end_offset)`: the maximum offset that may be sent -/
  acquire : F → Nat → F × Nat
  isBlocked : F → Bool
  clearBlocked : F → F
  finish : F → F

/-- a STREAM frame put on the wire -/
structure Frame where
  off : Nat
  data : List Nat
  fin : Bool
  deriving Repr, DecidableEq

def Frame.stop (f : Frame) : Nat := f.off + f.data.length

structure Sender (F : Type) where
  /-- `buffer.head`: stream offset of the first byte still buffered -/
  head : Nat := 0
  /-- the bytes currently buffered (`buffer.chunks`), stream offsets `[head, head + bytes.length)` -/
  bytes : List Nat := []
  /-- GHOST: every byte ever pushed -/
  written : List Nat := []
  /-- `transmissions.in_flight`: (packet number, start, stop) -/
  transmissions : List (Nat × Nat × Nat) := []
  transmissionOffset : Nat := 0
  pending : IvList := []
  lost : IvList := []
  state : State := .sending
  /-- `transmissions.flow_controller` -/
  fc : F
  /-- GHOST: a `View` was requested outside the buffered range (debug panic in the code) -/
  viewPanic : Bool := false

variable {F : Type}

/-- `buffer.total_len()` -/
def Sender.totalLen (s : Sender F) : Nat := s.head + s.bytes.length

/-- `buffer.release(up_to)` -/
def Sender.release (s : Sender F) (upTo : Nat) : Sender F :=
  if upTo ≤ s.head then s
  else { s with bytes := s.bytes.drop (upTo - s.head), head := upTo }

/-- `buffer.release_all()` -/
def Sender.releaseAll (s : Sender F) : Sender F :=
  { s with head := s.totalLen, bytes := [] }

/-- `push(data)` (only accepted in state `Sending`: `SendStream::validate_push`) -/
def push (s : Sender F) (data : List Nat) : Sender F :=
  if s.state ≠ .sending ∨ data = [] then s
  else { s with pending := Iv.insert s.pending s.totalLen (s.totalLen + data.length),
                bytes := s.bytes ++ data, written := s.written ++ data }

/-- `finish()` -/
def finish (s : Sender F) : Sender F :=
  if s.state = .sending then { s with state := .finishing .pending } else s

/-- `stop_sending(error)` (called by `SendStream::init_reset`) -/
def stopSending (ops : FlowOps F) (s : Sender F) : Sender F :=
  if s.state = .finished then s
  else { s with state := .cancelled, head := 0, bytes := [], pending := [], lost := [],
                transmissions := [], fc := ops.finish s.fc, transmissionOffset := 0 }

/-- `FinState::on_transmit` -/
def FinState.onTransmit (f : FinState) (pn : Nat) : FinState :=
  match f with
  | .pending => .inFlight pn
  | .lost => .inFlight pn
  | f => f

def State.finOnTransmit (st : State) (pn : Nat) : State :=
  match st with
  | .finishing f => .finishing (f.onTransmit pn)
  | st => st

def State.isFinishing (st : State) : Bool :=
  match st with
  | .finishing _ => true
  | _ => false

/-- `transmit_interval`: the interval `[a, b)` trimmed to the packet capacity (at most `u16::MAX`) -/
def intervalEnd (cap a b : Nat) : Nat := if min cap 65535 < b - a then a + min cap 65535 else b

/-- `transmit_interval`: … and to the flow-control window -/
def windowEnd (window a b1 : Nat) : Nat := if window - a < b1 - a then window else b1

/-- `viewer.next_view(interval, has_fin)` + `writer.write_chunk` + `in_flight.insert` + the FIN piggyback
    for the range `[a, b2)` in packet `pn` -/
def writeChunk (s : Sender F) (a b2 pn : Nat) : Sender F × Frame :=
  let isFin := s.state.isFinishing && decide (b2 = s.totalLen)
  ({ s with transmissions := s.transmissions ++ [(pn, a, b2)],
            state := if isFin then s.state.finOnTransmit pn else s.state,
            viewPanic := s.viewPanic || !decide (s.head ≤ a ∧ b2 ≤ s.totalLen ∧ a < b2) },
   { off := a, data := (s.bytes.drop (a - s.head)).take (b2 - a), fin := isFin })

/-- `Transmissions::transmit_interval` for `[a, b)` with `cap` payload bytes left in packet `pn`.
    Returns the sender (the flow controller is consulted even when nothing is written) and, when
    a frame was written, the frame. `none` = `Err(CouldNotAcquireEnoughSpace)`. -/
def transmitInterval (ops : FlowOps F) (s : Sender F) (a b pn cap : Nat) : Sender F × Option Frame :=
  if min cap 65535 = 0 ∨ (b - a ≥ 32 ∧ min cap 65535 < 32) then (s, none)
  else if (ops.acquire s.fc (intervalEnd cap a b)).2 ≤ a then
    ({ s with fc := (ops.acquire s.fc (intervalEnd cap a b)).1 }, none)
  else
    ((writeChunk { s with fc := (ops.acquire s.fc (intervalEnd cap a b)).1 } a
        (windowEnd (ops.acquire s.fc (intervalEnd cap a b)).2 a (intervalEnd cap a b)) pn).1,
     some (writeChunk { s with fc := (ops.acquire s.fc (intervalEnd cap a b)).1 } a
        (windowEnd (ops.acquire s.fc (intervalEnd cap a b)).2 a (intervalEnd cap a b)) pn).2)

/-- `Transmissions::transmit_set` over the lost intervals `l` (popped from the front); returns
    the sender, the lost intervals that remain, the frames, the capacity left and whether the
    loop ended with an error -/
def transmitLost (ops : FlowOps F) (pn : Nat) : IvList → Sender F → Nat → Sender F × IvList × List Frame × Nat × Bool
  | [], s, cap => (s, [], [], cap, false)
  | (a, b) :: rest, s, cap =>
    match transmitInterval ops s a b pn cap with
    | (s1, none) => (s1, (a, b) :: rest, [], cap, true)
    | (s1, some fr) =>
      if fr.stop < b then (s1, (fr.stop, b) :: rest, [fr], cap - fr.data.length, false)
      else
        let r := transmitLost ops pn rest s1 (cap - fr.data.length)
        (r.1, r.2.1, fr :: r.2.2.1, r.2.2.2.1, r.2.2.2.2)

/-- `State::can_transmit_fin(constraint, is_blocked)` -/
def State.canTransmitFin (st : State) (canRetransmit canTransmit isBlocked : Bool) : Bool :=
  match st with
  | .finishing .lost => canRetransmit
  | .finishing .pending => !isBlocked && canTransmit
  | _ => false

/-- `on_transmit_impl`, step 1: `transmit_set(lost)` when the constraint allows retransmissions.
    Returns the sender, the frames, the capacity left, and whether the step ended with an error. -/
def phaseLost (ops : FlowOps F) (s : Sender F) (pn cap : Nat) (canRetransmit : Bool) :
    Sender F × List Frame × Nat × Bool :=
  if canRetransmit then
    ({ (transmitLost ops pn s.lost s cap).1 with lost := (transmitLost ops pn s.lost s cap).2.1 },
     (transmitLost ops pn s.lost s cap).2.2.1, (transmitLost ops pn s.lost s cap).2.2.2.1,
     (transmitLost ops pn s.lost s cap).2.2.2.2)
  else (s, [], cap, false)

/-- step 2: new data `[transmission_offset, total_len)` unless blocked -/
def phaseNew (ops : FlowOps F) (s : Sender F) (pn cap : Nat) (isBlocked canTransmit : Bool) :
    Sender F × List Frame × Nat × Bool :=
  if !isBlocked ∧ canTransmit ∧ s.transmissionOffset < s.totalLen then
    match transmitInterval ops s s.transmissionOffset s.totalLen pn cap with
    | (s2, none) => (s2, [], cap, true)
    | (s2, some fr) => ({ s2 with transmissionOffset := fr.stop }, [fr], cap - fr.data.length, false)
  else (s, [], cap, false)

/-- step 3: `transmit_fin` (an empty STREAM frame with the FIN bit at `total_len`) -/
def phaseFin (ops : FlowOps F) (s : Sender F) (pn cap : Nat) (canRetransmit canTransmit isBlocked : Bool) :
    Sender F × List Frame :=
  if s.state.canTransmitFin canRetransmit canTransmit isBlocked ∧ !ops.isBlocked s.fc ∧ cap > 0 then
    ({ s with state := s.state.finOnTransmit pn }, [{ off := s.totalLen, data := [], fin := true }])
  else (s, [])

/-- `on_transmit_impl` for packet `pn` with `cap` payload bytes and the transmission constraint
    (`can_retransmit`, `can_transmit`): lost data first, then new data, then the FIN; an error of
    a step (`?`) ends the call. `is_blocked` is sampled once, after the lost data. -/
def onTransmit (ops : FlowOps F) (s : Sender F) (pn cap : Nat) (canRetransmit canTransmit : Bool) :
    Sender F × List Frame :=
  if s.state = .cancelled ∨ s.state = .finished then (s, [])
  else
    let r1 := phaseLost ops s pn cap canRetransmit
    if r1.2.2.2 then (r1.1, r1.2.1)
    else
      let isBlocked := ops.isBlocked r1.1.fc
      let r2 := phaseNew ops r1.1 pn r1.2.2.1 isBlocked canTransmit
      if r2.2.2.2 then (r2.1, r1.2.1 ++ r2.2.1)
      else
        let r3 := phaseFin ops r2.1 pn r2.2.2.1 canRetransmit canTransmit isBlocked
        (r3.1, r1.2.1 ++ r2.2.1 ++ r3.2)

/-- ranges of the transmissions of packets `lo..=hi`, and the transmissions that remain -/
def takeRange (lo hi : Nat) (ts : List (Nat × Nat × Nat)) : List (Nat × Nat) × List (Nat × Nat × Nat) :=
  ((ts.filter (fun t => lo ≤ t.1 && t.1 ≤ hi)).map (fun t => t.2),
   ts.filter (fun t => !(lo ≤ t.1 && t.1 ≤ hi)))

def FinState.onAck (f : FinState) (lo hi : Nat) : FinState :=
  match f with
  | .inFlight pn => if lo ≤ pn ∧ pn ≤ hi then .acknowledged else f
  | f => f

def FinState.onLoss (f : FinState) (lo hi : Nat) : FinState × Bool :=
  match f with
  | .inFlight pn => if lo ≤ pn ∧ pn ≤ hi then (.lost, true) else (f, false)
  | f => (f, false)

def State.onAck (st : State) (lo hi : Nat) : State :=
  match st with
  | .finishing f => .finishing (f.onAck lo hi)
  | st => st

/-- `on_packet_ack`, part 1: the ranges of the acknowledged packets leave `pending` (and `lost`,
    via `lost.intersection(pending)`), the FIN state is updated; returns `any_acked` -/
def ackRemove (s : Sender F) (lo hi : Nat) : Sender F × Bool :=
  if (takeRange lo hi s.transmissions).1 = [] then
    ({ s with transmissions := (takeRange lo hi s.transmissions).2, state := s.state.onAck lo hi }, false)
  else
    ({ s with transmissions := (takeRange lo hi s.transmissions).2,
              pending := (takeRange lo hi s.transmissions).1.foldl (fun p iv => Iv.remove p iv.1 iv.2) s.pending,
              lost := Iv.inter s.lost
                ((takeRange lo hi s.transmissions).1.foldl (fun p iv => Iv.remove p iv.1 iv.2) s.pending),
              state := s.state.onAck lo hi }, true)

/-- part 2 (only `if any_acked`): release the buffer up to the first pending byte -/
def ackRelease (s : Sender F) : Sender F :=
  match Iv.minValue s.pending with
  | some first => s.release first
  | none => { s.releaseAll with transmissions := [] }

/-- part 3: FIN acknowledged and nothing outstanding ⇒ `Finished` -/
def ackFinish (ops : FlowOps F) (s : Sender F) : Sender F :=
  if s.state = .finishing .acknowledged ∧ s.transmissions = [] ∧ s.pending = [] ∧ s.lost = [] then
    { s.releaseAll with state := .finished, fc := ops.finish s.fc }
  else s

/-- `on_packet_ack` for the packet number range `lo..=hi` -/
def onPacketAck (ops : FlowOps F) (s : Sender F) (lo hi : Nat) : Sender F :=
  ackFinish ops (if (ackRemove s lo hi).2 then ackRelease (ackRemove s lo hi).1 else (ackRemove s lo hi).1)

def State.onLoss (st : State) (lo hi : Nat) : State × Bool :=
  match st with
  | .finishing f => (.finishing (f.onLoss lo hi).1, (f.onLoss lo hi).2)
  | st => (st, false)

/-- `on_packet_loss` for the packet number range `lo..=hi` -/
def onPacketLoss (ops : FlowOps F) (s : Sender F) (lo hi : Nat) : Sender F :=
  if (takeRange lo hi s.transmissions).1 = [] then
    if (s.state.onLoss lo hi).2 then
      -- only the FIN was lost: `any_lost`, so `clear_blocked` and `lost ∩= pending`
      { s with transmissions := (takeRange lo hi s.transmissions).2, lost := Iv.inter s.lost s.pending,
               state := (s.state.onLoss lo hi).1, fc := ops.clearBlocked s.fc }
    else { s with transmissions := (takeRange lo hi s.transmissions).2, state := (s.state.onLoss lo hi).1 }
  else
    { s with transmissions := (takeRange lo hi s.transmissions).2,
             lost := Iv.inter ((takeRange lo hi s.transmissions).1.foldl (fun l iv => Iv.insert l iv.1 iv.2) s.lost) s.pending,
             state := (s.state.onLoss lo hi).1, fc := ops.clearBlocked s.fc }

/-! ## the send stream: data sender + reset (`SendStream::init_reset`) -/

inductive Op
  | push (data : List Nat)
  | finish
  /-- a packet `pn` with `cap` payload bytes is being assembled; `allowed` configures the flow
      controller's answer (see `simpleFlow`) -/
  | transmit (pn cap : Nat) (canRetransmit canTransmit : Bool)
  | ack (lo hi : Nat)
  | loss (lo hi : Nat)
  /-- `init_reset` by the application or by STOP_SENDING: RESET_STREAM is requested with the given
      final size (the flow controller's acquired window, see `QuicModel.Stream.SendFlow`) -/
  | reset
  /-- environment: the flow controller changes (credit arrives) -/
  | flow (f : F)

/-- what is put on the wire by a step -/
inductive Out
  | frames (l : List Frame)
  | resetStream
  deriving Repr, DecidableEq

structure SendStream (F : Type) where
  sender : Sender F
  /-- `SendStreamState::ResetSent` / `ResetAcknowledged` -/
  resetSent : Bool := false

def step (ops : FlowOps F) (s : SendStream F) (op : Op (F := F)) : SendStream F × Out :=
  match op with
  | .push d => if s.resetSent then (s, .frames []) else ({ s with sender := push s.sender d }, .frames [])
  | .finish => if s.resetSent then (s, .frames []) else ({ s with sender := finish s.sender }, .frames [])
  | .transmit pn cap cr ct =>
    -- `stream_interests`: in `ResetSent` only the reset is (re)transmitted
    if s.resetSent then (s, .frames [])
    else
      let r := onTransmit ops s.sender pn cap cr ct
      ({ s with sender := r.1 }, .frames r.2)
  | .ack lo hi => ({ s with sender := onPacketAck ops s.sender lo hi }, .frames [])
  | .loss lo hi => ({ s with sender := onPacketLoss ops s.sender lo hi }, .frames [])
  | .reset =>
    -- `init_reset`: not necessary when already reset or when everything was acknowledged
    if s.resetSent ∨ s.sender.state = .finished then (s, .frames [])
    else ({ sender := stopSending ops s.sender, resetSent := true }, .resetStream)
  | .flow f => ({ s with sender := { s.sender with fc := f } }, .frames [])

def run (ops : FlowOps F) (s : SendStream F) : List (Op (F := F)) → SendStream F × List Out
  | [] => (s, [])
  | op :: rest =>
    let r := step ops s op
    let r' := run ops r.1 rest
    (r'.1, r.2 :: r'.2)

def initStream (fc : F) : SendStream F := { sender := { fc := fc } }

/-- the simplest flow controller: its state is the maximum offset allowed (`maxOffsetAllowed`),
    blocked = the last request went beyond it -/
structure SimpleFc where
  allowed : Nat
  blocked : Bool := false
  deriving Repr, DecidableEq

def simpleFlow : FlowOps SimpleFc :=
  { acquire := fun f e => ({ f with blocked := decide (f.allowed < e) }, f.allowed),
    isBlocked := fun f => f.blocked,
    clearBlocked := fun f => { f with blocked := false },
    finish := fun f => f }

/-! ## observers (`transmission::interest::Provider for DataSender`, `is_inflight`, `available_buffer_space`) -/

/-- `transmission_interest`: 2 = LostData, 1 = NewData, 0 = None (the query keeps the maximum) -/
def Sender.interest (ops : FlowOps F) (s : Sender F) : Nat :=
  if s.state = .finishing .lost then 2
  else if s.lost ≠ [] then 2
  else if (s.state = .finishing .pending ∧ !ops.isBlocked s.fc) then 1
  else if (s.transmissionOffset < s.totalLen ∧ !ops.isBlocked s.fc) then 1
  else 0

/-- `is_inflight`: `!transmissions.is_empty() || state.is_inflight()` -/
def Sender.isInflight (s : Sender F) : Bool :=
  !s.transmissions.isEmpty ||
    (match s.state with
     | .finishing (.inFlight _) => true
     | _ => false)

/-- `buffer.enqueued_len()` = `total_len − head` -/
def Sender.enqueuedLen (s : Sender F) : Nat := s.bytes.length

end Quic.Stream.DataSender
