import QuicModel.Prelude
/-
  Relational TRACE ACCEPTOR for the send side of ONE endpoint (properties C03 and C12, tie T).

  The wire-level history of one endpoint is a list of `Op`s in the order they happened: the
  peer's declared transport parameters, limit updates / STOP_SENDING received, application
  calls, and every STREAM / RESET_STREAM / STREAM_DATA_BLOCKED / CONNECTION_CLOSE the endpoint
  put on the wire.  `step` answers `ok` when the op is ADMISSIBLE: something the modelled sender
  (QuicModel.Stream.SendFlow / DataSender / OpenIds, QuicModel.Conn.CloseSender) could do in
  some state consistent with the history:
    * stream data only for bytes the application wrote, with exactly those bytes (keyed payload
      function of harness/vh-e2e/src/cfg.rs, compared through a position-sensitive digest),
    * end offset within the largest stream limit received, connection-wide sum of stream
      lengths within the largest MAX_DATA received, stream ids within MAX_STREAMS,
    * FIN only after the application finished, at the end of what was written; final size
      never changes, nothing at/after it, never below data already sent,
    * RESET_STREAM only after `reset()`/STOP_SENDING, its final size within the same limits,
    * no STREAM / STREAM_DATA_BLOCKED after RESET_STREAM, nothing but copies of the close packet
      after CONNECTION_CLOSE and each copy paid for by an incoming packet,
    * locally initiated stream ids opened in increasing order, each once.
  The ghost state is plain data; the theorems in QuicProofs.Props.C03SendFlow/C12DataSender show
  that every op list accepted throughout satisfies the property predicates stated over the raw
  op list (independently of this state).
-/
namespace Quic.Stream.SendTrace

/-! ## keyed payload (harness/vh-e2e/src/cfg.rs) and digest -/

def M64 : Nat := 2 ^ 64

/-- splitmix64 finaliser, `cfg::mix` -/
def mix (z0 : Nat) : Nat :=
  let z := (z0 + 0x9e3779b97f4a7c15) % M64
  let z := ((z ^^^ (z >>> 30)) * 0xbf58476d1ce4e5b9) % M64
  let z := ((z ^^^ (z >>> 27)) * 0x94d049bb133111eb) % M64
  z ^^^ (z >>> 31)

/-- `cfg::payload_byte`: byte `i` of the stream with key `k` -/
def payloadByte (key i : Nat) : Nat :=
  let w := mix (key ^^^ (((i >>> 3) * 0xd6e8feb86659fd93) % M64))
  (w >>> ((i &&& 7) * 8)) % 256

def P61 : Nat := 2 ^ 61 - 1

/-- position-sensitive checksum of the bytes `[off, off+len)` of the keyed stream:
    Σ (byte+1)·(offset+1) mod 2^61−1 -/
def digestFrom (key : Nat) : Nat → Nat → Nat → Nat
  | _, 0, acc => acc
  | off, n + 1, acc => digestFrom key (off + 1) n ((acc + (payloadByte key off + 1) * (off + 1)) % P61)

def digest (key off len : Nat) : Nat := digestFrom key off len 0

/-! ## ops -/

/-- the PEER's declared transport parameters, plus the role of the traced endpoint -/
structure Tp where
  maxData : Nat
  bidiLocal : Nat
  bidiRemote : Nat
  uni : Nat
  maxStreamsBidi : Nat
  maxStreamsUni : Nat
  server : Bool
  deriving Repr, DecidableEq

def isBidi (sid : Nat) : Bool := sid % 4 < 2

/-- is `sid` initiated by the traced endpoint (`server` = its role) -/
def isLocal (server : Bool) (sid : Nat) : Bool := (sid % 2 == 1) == server

/-- initial send limit of the traced endpoint on stream `sid` from the peer's parameters
    (RFC 9000 §18.2: the peer's `bidi_remote` applies to streams WE initiate, its `bidi_local`
    to streams IT initiated; nothing may be sent on the peer's unidirectional streams) -/
def Tp.initialLimit (t : Tp) (sid : Nat) : Nat :=
  if isBidi sid then (if isLocal t.server sid then t.bidiRemote else t.bidiLocal)
  else (if isLocal t.server sid then t.uni else 0)

def Tp.maxStreams (t : Tp) (bidi : Bool) : Nat := if bidi then t.maxStreamsBidi else t.maxStreamsUni

inductive Op
  | tp (t : Tp)
  | rxMaxData (v : Nat)
  | rxMaxStreamData (sid v : Nat)
  | rxMaxStreams (bidi : Bool) (v : Nat)
  | rxStopSending (sid : Nat)
  | appOpen (sid : Nat)
  | appWrite (sid len key : Nat)
  | appFinish (sid : Nat)
  | appReset (sid : Nat)
  | txStream (pn sid off len : Nat) (fin : Bool) (dg : Nat)
  | txReset (pn sid final : Nat)
  | txBlocked (pn sid limit : Nat)
  | txClose (pn : Nat)
  | txOther (pn : Nat)
  | rxPkt
  deriving Repr, DecidableEq

/-! ## ghost state -/

structure StreamSt where
  /-- largest MAX_STREAM_DATA received for the stream -/
  msd : Nat := 0
  key : Option Nat := none
  /-- bytes the application wrote so far -/
  written : Nat := 0
  finished : Bool := false
  appReset : Bool := false
  stopRx : Bool := false
  opened : Bool := false
  /-- highest end offset put on the wire (a RESET_STREAM counts with its final size) -/
  highest : Nat := 0
  /-- final size announced by a FIN or a RESET_STREAM -/
  final : Option Nat := none
  resetSent : Bool := false
  deriving Repr

/-- finite map as association list -/
def sget (m : List (Nat × StreamSt)) (k : Nat) : StreamSt :=
  match m with
  | [] => {}
  | (k', v) :: t => if k' = k then v else sget t k

def sset (m : List (Nat × StreamSt)) (k : Nat) (v : StreamSt) : List (Nat × StreamSt) :=
  match m with
  | [] => [(k, v)]
  | (k', v') :: t => if k' = k then (k, v) :: t else (k', v') :: sset t k v

structure St where
  tp : Option Tp := none
  maxData : Nat := 0
  maxStreamsBidi : Nat := 0
  maxStreamsUni : Nat := 0
  streams : List (Nat × StreamSt) := []
  /-- Σ over streams of `highest` -/
  sumHighest : Nat := 0
  /-- number of locally initiated streams opened so far, per type -/
  openedBidi : Nat := 0
  openedUni : Nat := 0
  /-- packet number of the CONNECTION_CLOSE packet once sent -/
  closed : Option Nat := none
  /-- incoming packets since the close that have not been answered by a copy yet -/
  credit : Nat := 0
  deriving Repr

def St.maxStreams (s : St) (bidi : Bool) : Nat := if bidi then s.maxStreamsBidi else s.maxStreamsUni
def St.openedCount (s : St) (bidi : Bool) : Nat := if bidi then s.openedBidi else s.openedUni

/-- `o = some f` with `f < x` -/
def optLt (o : Option Nat) (x : Nat) : Bool :=
  match o with
  | some f => decide (f < x)
  | none => false

/-- `o = some f` with `f ≠ x` -/
def optNe (o : Option Nat) (x : Nat) : Bool :=
  match o with
  | some f => decide (f ≠ x)
  | none => false

def streamLimit (t : Tp) (st : StreamSt) (sid : Nat) : Nat := max st.msd (t.initialLimit sid)

/-- may the traced endpoint use stream `sid` at all (id within MAX_STREAMS and opened when it
    is ours; bidirectional when it is the peer's) -/
def streamUsable (s : St) (t : Tp) (st : StreamSt) (sid : Nat) : Except String Unit :=
  if isLocal t.server sid then
    if !st.opened then .error "stream-not-opened"
    else if sid / 4 + 1 ≤ s.maxStreams (isBidi sid) then .ok () else .error "max-streams"
  else if isBidi sid then .ok () else .error "wrong-direction"

/-- the digest on the wire differs from the digest of the bytes the application wrote there
    (no key = the application never wrote on the stream) -/
def digestMismatch (key : Option Nat) (off len dg : Nat) : Bool :=
  match key with
  | some k => decide (dg ≠ digest k off len)
  | none => true

/-- the frame carries exactly bytes the application wrote (`st` = ghost state of stream `sid`) -/
def txStreamData (t : Tp) (st : StreamSt) (sid off len : Nat) (fin : Bool) (dg : Nat) : Except String Unit :=
  -- an empty frame without FIN is only ever sent as the stream-open notification of a locally
  -- initiated bidirectional stream (offset 0); it then passes the same checks as any frame
  if len = 0 ∧ fin = false ∧ ¬ (off = 0 ∧ isLocal t.server sid = true ∧ isBidi sid = true) then .error "empty-frame"
  else if st.written < off + len then .error "beyond-written"
  else if len > 0 ∧ digestMismatch st.key off len dg = true then .error "bytes-differ"
  else .ok ()

/-- end offset `e` on stream `sid` is within the stream and the connection credit received -/
def txLimits (s : St) (t : Tp) (st : StreamSt) (sid e : Nat) : Except String Unit :=
  if streamLimit t st sid < e then .error "stream-limit"
  else if s.maxData < s.sumHighest - st.highest + max st.highest e then .error "conn-limit"
  else .ok ()

/-- final-size rules for a STREAM frame ending at `e` -/
def txStreamFinal (st : StreamSt) (e : Nat) (fin : Bool) : Except String Unit :=
  if optLt st.final e then .error "data-beyond-final"
  else if fin then
    if !st.finished then .error "fin-without-finish"
    else if e ≠ st.written then .error "fin-not-at-end"
    else if optNe st.final e then .error "final-size-changed"
    else if e < st.highest then .error "final-below-sent"
    else .ok ()
  else .ok ()

/-- `st` is the ghost state of stream `sid` (`sget s.streams sid`) -/
def stepTxStream (s : St) (t : Tp) (st : StreamSt) (sid off len : Nat) (fin : Bool) (dg : Nat) : Except String St :=
  if s.closed.isSome then .error "frames-after-close"
  else if st.resetSent then
    (if off = 0 ∧ len = 0 ∧ fin = false then .error "stream-after-reset:empty-open-notify"
     else .error "stream-after-reset")
  else match streamUsable s t st sid with
  | .error e => .error e
  | .ok () =>
  match txStreamData t st sid off len fin dg with
  | .error e => .error e
  | .ok () =>
  match txLimits s t st sid (off + len) with
  | .error e => .error e
  | .ok () =>
  match txStreamFinal st (off + len) fin with
  | .error e => .error e
  | .ok () =>
    .ok { s with streams := sset s.streams sid { st with highest := max st.highest (off + len),
                                                         final := if fin then some (off + len) else st.final },
                 sumHighest := s.sumHighest - st.highest + max st.highest (off + len) }

/-- final-size rules for a RESET_STREAM with final size `final` -/
def txResetFinal (st : StreamSt) (final : Nat) : Except String Unit :=
  if !st.resetSent ∧ !(st.appReset || st.stopRx) then .error "reset-without-cause"
  else if optNe st.final final then .error "final-size-changed"
  else if final < st.highest then .error "final-below-sent"
  else if st.written < final then .error "reset-beyond-written"
  else .ok ()

def stepTxReset (s : St) (t : Tp) (st : StreamSt) (sid final : Nat) : Except String St :=
  if s.closed.isSome then .error "frames-after-close"
  else match streamUsable s t st sid with
  | .error e => .error e
  | .ok () =>
  match txResetFinal st final with
  | .error e => .error e
  | .ok () =>
  match txLimits s t st sid final with
  | .error e => .error e
  | .ok () =>
    .ok { s with streams := sset s.streams sid { st with highest := max st.highest final, final := some final, resetSent := true },
                 sumHighest := s.sumHighest - st.highest + max st.highest final }

def stepTxBlocked (s : St) (t : Tp) (st : StreamSt) (sid limit : Nat) : Except String St :=
  if s.closed.isSome then .error "frames-after-close"
  else if st.resetSent then .error "blocked-after-reset"
  else match streamUsable s t st sid with
  | .error e => .error e
  | .ok () =>
    if streamLimit t st sid < limit then .error "blocked-limit-never-granted"
    else if st.written ≤ limit then .error "blocked-without-data"
    else .ok s

def stepAppOpen (s : St) (t : Tp) (st : StreamSt) (sid : Nat) : Except String St :=
  if !isLocal t.server sid then .error "open-not-local"
  else if sid / 4 ≠ s.openedCount (isBidi sid) then .error "id-not-next"
  else if s.maxStreams (isBidi sid) < sid / 4 + 1 then .error "max-streams"
  else if isBidi sid then
    .ok { s with streams := sset s.streams sid { st with opened := true }, openedBidi := s.openedBidi + 1 }
  else
    .ok { s with streams := sset s.streams sid { st with opened := true }, openedUni := s.openedUni + 1 }

def step (s : St) (op : Op) : Except String St :=
  match op with
  | .tp t =>
    if s.tp.isSome then .error "tp-twice"
    else .ok { s with tp := some t, maxData := max s.maxData t.maxData,
                      maxStreamsBidi := max s.maxStreamsBidi t.maxStreamsBidi,
                      maxStreamsUni := max s.maxStreamsUni t.maxStreamsUni }
  | .rxMaxData v => .ok { s with maxData := max s.maxData v }
  | .rxMaxStreamData sid v =>
    let st := sget s.streams sid
    .ok { s with streams := sset s.streams sid { st with msd := max st.msd v } }
  | .rxMaxStreams bidi v =>
    .ok (if bidi then { s with maxStreamsBidi := max s.maxStreamsBidi v }
         else { s with maxStreamsUni := max s.maxStreamsUni v })
  | .rxStopSending sid =>
    let st := sget s.streams sid
    .ok { s with streams := sset s.streams sid { st with stopRx := true } }
  | .appOpen sid =>
    match s.tp with
    | none => .error "no-tp"
    | some t => stepAppOpen s t (sget s.streams sid) sid
  | .appWrite sid len key =>
    let st := sget s.streams sid
    if st.finished then .error "write-after-finish"
    else if st.appReset then .error "write-after-reset"
    else if optNe st.key key then .error "key-changed"
    else .ok { s with streams := sset s.streams sid { st with key := some key, written := st.written + len } }
  | .appFinish sid =>
    let st := sget s.streams sid
    .ok { s with streams := sset s.streams sid { st with finished := true } }
  | .appReset sid =>
    let st := sget s.streams sid
    .ok { s with streams := sset s.streams sid { st with appReset := true } }
  | .txStream _ sid off len fin dg =>
    match s.tp with
    | none => .error "no-tp"
    | some t => stepTxStream s t (sget s.streams sid) sid off len fin dg
  | .txReset _ sid final =>
    match s.tp with
    | none => .error "no-tp"
    | some t => stepTxReset s t (sget s.streams sid) sid final
  | .txBlocked _ sid limit =>
    match s.tp with
    | none => .error "no-tp"
    | some t => stepTxBlocked s t (sget s.streams sid) sid limit
  | .txClose pn =>
    match s.closed with
    | none => .ok { s with closed := some pn, credit := 0 }
    | some p =>
      if p ≠ pn then .error "close-packet-differs"
      else if s.credit = 0 then .error "unsolicited-close"
      else .ok { s with credit := s.credit - 1 }
  | .txOther _ => if s.closed.isSome then .error "frames-after-close" else .ok s
  | .rxPkt => .ok (if s.closed.isSome then { s with credit := s.credit + 1 } else s)

def init : St := {}

/-- run a whole history; `none` as soon as one op is rejected -/
def run (s : St) : List Op → Option St
  | [] => some s
  | op :: rest =>
    match step s op with
    | .ok s' => run s' rest
    | .error _ => none

def accepts (ops : List Op) : Bool := (run init ops).isSome

end Quic.Stream.SendTrace
