import QuicModel.Rfc.Errors
/-
  Receive-side model of s2n-quic-transport (what the code DOES, transcribed function by function):

    stream/incoming_connection_flow_controller.rs   IncomingConnectionFlowControllerImpl  -> `ConnFc`
    stream/receive_stream.rs  ReceiveStreamFlowController                               -> `StreamFc`
    s2n-quic-core buffer/reassembler.rs  Cursors::handle_reader_fin (+ received bytes)     -> `Buf`
    stream/receive_stream.rs  ReceiveStream::{on_data, on_reset/init_reset, poll_request}  -> `Recv`
    stream/controller/remote_initiated.rs  on_remote_open_stream                          -> `openRemote`
    stream/manager.rs  open_stream_if_necessary / handle_stream_frame                      -> `openIfNecessary`
    stream/stream_impl.rs  on_max_stream_data (has_send check)
    space/mod.rs  default_frame_handler! + space/{initial,handshake,application}.rs          -> `Conn.FrameTable`
    frame decoders max_streams.rs / streams_blocked.rs / new_connection_id.rs                -> `decodeCheck`
    connection/local_id_registry.rs  on_retire_connection_id                                -> `retireCheck`

  Machine integers are `Nat`; VarInt saturation is explicit (`satAdd`).  The independent reference (which
  error the RFC wants) lives in `Quic.Rfc`; this file only uses its `ErrorCode` enumeration.
  Not modelled: the send half of a stream (only `hasSend`), wakers, MissingData bookkeeping of the
  `Stopping` state (it never raises an error and never touches credit), ACK/loss driven retransmission of
  MAX_* frames (the advertised value is `latest`, whatever frame carries it).
-/
namespace Quic.Stream.RecvFlow
open Quic.Rfc (ErrorCode)

/-- VarInt::MAX = 2^62 - 1 -/
def maxVarInt : Nat := 4611686018427387903
/-- MAX_STREAMS_MAX_VALUE = 2^60 -/
def maxStreamsMax : Nat := 1152921504606846976

/-- `VarInt::saturating_add` -/
def satAdd (a b : Nat) : Nat := min (a + b) maxVarInt

/-! ## connection-level controller (IncomingConnectionFlowControllerImpl) -/

structure ConnFc where
  /-- read_window_sync.latest_value(): the MAX_DATA value the endpoint wants the peer to have -/
  latest : Nat
  desired : Nat
  acquired : Nat
  consumed : Nat
  deriving Repr, DecidableEq

namespace ConnFc
/-- `new(initial_window_size, desired)`; the manager passes the same value for both -/
def init (w : Nat) : ConnFc := ⟨w, w, 0, 0⟩
def remaining (c : ConnFc) : Nat := c.latest - c.acquired
/-- `acquire_window`: `if self.remaining_window() < desired { FLOW_CONTROL_ERROR }` -/
def acquire (c : ConnFc) (n : Nat) : Except ErrorCode ConnFc :=
  if c.remaining < n then .error .flowControlError else .ok { c with acquired := c.acquired + n }
/-- `release_window`: `consumed += amount; latest = consumed.saturating_add(desired)` -/
def release (c : ConnFc) (n : Nat) : ConnFc :=
  { c with consumed := c.consumed + n, latest := satAdd (c.consumed + n) c.desired }
end ConnFc

/-! ## per-stream controller (ReceiveStreamFlowController) -/

structure StreamFc where
  /-- read_window_sync.latest_value(): largest MAX_STREAM_DATA the endpoint wants to advertise -/
  latest : Nat
  desired : Nat
  acquired : Nat
  released : Nat
  /-- read_window_sync cancelled (`stop_sync`): no further MAX_STREAM_DATA is sent -/
  stopped : Bool
  deriving Repr, DecidableEq

namespace StreamFc
def init (w : Nat) : StreamFc := ⟨w, w, 0, 0, false⟩

/-- `acquire_window_up_to(offset)` -/
def acquireUpTo (f : StreamFc) (c : ConnFc) (offset : Nat) : Except ErrorCode (StreamFc × ConnFc) :=
  if offset > f.latest then .error .flowControlError
  else
    let add := offset - f.acquired          -- saturating_sub
    if add > 0 then
      match c.acquire add with
      | .error e => .error e
      | .ok c' => .ok ({ f with acquired := f.acquired + add }, c')
    else .ok (f, c)

/-- `release_window(amount)` -/
def release (f : StreamFc) (c : ConnFc) (n : Nat) : StreamFc × ConnFc :=
  ({ f with released := f.released + n, latest := satAdd (f.released + n) f.desired }, c.release n)

/-- `release_outstanding_window` -/
def releaseOutstanding (f : StreamFc) (c : ConnFc) : StreamFc × ConnFc :=
  f.release c (f.acquired - f.released)
end StreamFc

/-! ## receive buffer: Reassembler cursors + the bytes it holds (first write wins) -/

structure Buf where
  /-- consumed_len -/
  start : Nat
  maxRecv : Nat
  final : Option Nat
  /-- accepted writes (offset, data), oldest first -/
  chunks : List (Nat × List Nat)
  deriving Repr, DecidableEq

inductive BufError | outOfRange | invalidFin
  deriving Repr, DecidableEq

namespace Buf
def empty : Buf := ⟨0, 0, none, []⟩

/-- one pass: extend the contiguous prefix by every chunk that covers its end -/
def advance (cur : Nat) (chunks : List (Nat × List Nat)) : Nat :=
  chunks.foldl (fun cur c => if c.1 ≤ cur ∧ cur < c.1 + c.2.length then c.1 + c.2.length else cur) cur

def iter : Nat → Nat → List (Nat × List Nat) → Nat
  | 0, cur, _ => cur
  | n + 1, cur, ch => iter n (advance cur ch) ch

/-- total_received_len: end of the contiguous prefix of received data -/
def totalReceived (b : Buf) : Nat := iter b.chunks.length b.start b.chunks

/-- the byte stored for absolute offset `i` (first write wins) -/
def byteAt : List (Nat × List Nat) → Nat → Option Nat
  | [], _ => none
  | (o, d) :: rest, i => if o ≤ i ∧ i < o + d.length then d[i - o]? else byteAt rest i

/-- `write_at` / `write_at_fin` (Request::new + Cursors::handle_reader_fin + storing the bytes) -/
def write (b : Buf) (off : Nat) (data : List Nat) (fin : Bool) : Except BufError Buf :=
  let e := off + data.length
  if e > maxVarInt then .error .outOfRange
  else
    match fin, b.final with
    | true, some f =>
      if e = f then .ok { b with maxRecv := max b.maxRecv e, chunks := b.chunks ++ [(off, data)] }
      else .error .invalidFin
    | true, none =>
      if b.maxRecv ≤ e then .ok { b with final := some e, maxRecv := max b.maxRecv e, chunks := b.chunks ++ [(off, data)] }
      else .error .invalidFin
    | false, some f =>
      if f ≥ e then .ok { b with maxRecv := max b.maxRecv e, chunks := b.chunks ++ [(off, data)] }
      else .error .invalidFin
    | false, none => .ok { b with maxRecv := max b.maxRecv e, chunks := b.chunks ++ [(off, data)] }

/-- bytes the application can read right now -/
def readable (b : Buf) : Nat := b.totalReceived - b.start
end Buf

/-! ## ReceiveStream -/

inductive RState | receiving | dataRead | stopping | reset
  deriving Repr, DecidableEq

structure Recv where
  state : RState
  buf : Buf
  fc : StreamFc
  /-- ghost: number of bytes handed to the application so far (what a trace shows as `read`) -/
  appRead : Nat := 0
  deriving Repr, DecidableEq

namespace Recv
/-- `ReceiveStream::new(is_closed, .., initial_window, desired)` -/
def init (isClosed : Bool) (w : Nat) : Recv :=
  if isClosed then ⟨.dataRead, Buf.empty, { StreamFc.init w with stopped := true }, 0⟩
  else ⟨.receiving, Buf.empty, StreamFc.init w, 0⟩

/-- `on_data`, step 1: "If we don't know the final size then try acquiring flow control" -/
def onDataAcquire (r : Recv) (c : ConnFc) (dataEnd : Nat) : Except ErrorCode (StreamFc × ConnFc) :=
  if r.buf.final.isNone then r.fc.acquireUpTo c dataEnd else .ok (r.fc, c)

/-- `on_data`, step 3: after the buffer accepted the write -/
def onDataFinish (r : Recv) (fc : StreamFc) (buf : Buf) (fin : Bool) : Recv :=
  let fc := if fin then { fc with stopped := true } else fc
  match buf.final with
  | some total =>
    if fin ∧ buf.start = total then ⟨.dataRead, Buf.empty, fc, r.appRead⟩ else ⟨.receiving, buf, fc, r.appRead⟩
  | none => ⟨.receiving, buf, fc, r.appRead⟩

/-- `on_data` -/
def onData (r : Recv) (c : ConnFc) (off : Nat) (data : List Nat) (fin : Bool) : Except ErrorCode (Recv × ConnFc) :=
  match r.state with
  | .receiving =>
    if off + data.length > maxVarInt then .error .flowControlError      -- "data size overflow"
    else
      match r.onDataAcquire c (off + data.length) with
      | .error e => .error e
      | .ok p =>
        match r.buf.write off data fin with
        | .error .outOfRange => .error .flowControlError
        | .error .invalidFin => .error .finalSizeError
        | .ok buf => .ok (r.onDataFinish p.1 buf fin, p.2)
  -- Reset: "Since the stream already had been reset we ignore the data"; Stopping; DataRead: ignored
  | _ => .ok (r, c)

/-- the common tail of `init_reset` -/
def doReset (r : Recv) (fc : StreamFc) (c : ConnFc) : Recv × ConnFc :=
  let fc := { fc with stopped := true }
  let p := fc.releaseOutstanding c
  (⟨.reset, Buf.empty, p.1, r.appRead⟩, p.2)

/-- `on_reset` = `init_reset(error, Some(final_size), ..)` -/
def onReset (r : Recv) (c : ConnFc) (finalSize : Nat) : Except ErrorCode (Recv × ConnFc) :=
  match r.state with
  | .reset => .ok (r, c)
  | .dataRead => .ok (r, c)
  | .receiving =>
    match r.buf.final with
    | some total =>
      if finalSize ≠ total then .error .finalSizeError
      else if r.buf.totalReceived = total then .ok (r, c)
      else .ok (r.doReset r.fc c)
    | none =>
      match r.fc.acquireUpTo c finalSize with
      | .error e => .error e
      | .ok (fc, c') => .ok (r.doReset fc c')
  | .stopping =>
    match r.fc.acquireUpTo c finalSize with
    | .error e => .error e
    | .ok (fc, c') => .ok (r.doReset fc c')

/-- the application consumes `n ≤ readable` bytes (`poll_request` popping chunks): credit is released -/
def read (r : Recv) (c : ConnFc) (n : Nat) : Recv × ConnFc :=
  match r.state with
  | .receiving =>
    let k := min n r.buf.readable
    let p := r.fc.release c k
    let buf := { r.buf with start := r.buf.start + k }
    match buf.final with
    | some total =>
      if total = buf.start then (⟨.dataRead, Buf.empty, p.1, r.appRead + k⟩, p.2)
      else (⟨.receiving, buf, p.1, r.appRead + k⟩, p.2)
    | none => (⟨.receiving, buf, p.1, r.appRead + k⟩, p.2)
  | _ => (r, c)

/-- the application asks for STOP_SENDING (`poll_request` with `stop_sending`) -/
def stop (r : Recv) : Recv :=
  match r.state with
  | .receiving =>
    if r.buf.final = some r.buf.totalReceived then { r with state := .dataRead }
    else ⟨.stopping, Buf.empty, r.fc, r.appRead⟩
  | _ => r

/-- upper bound of the bytes the receive buffer can hold: from the read cursor to the highest offset seen -/
def buffered (r : Recv) : Nat := r.buf.maxRecv - r.buf.start

/-- the MAX_STREAM_DATA value the stream would put into a frame now (`None` once the sync is cancelled) -/
def advertised (r : Recv) : Option Nat := if r.fc.stopped then none else some r.fc.latest
end Recv

/-! ## a connection's receive side as a transition system: all streams share one `ConnFc` -/

inductive Op
  /-- a new stream with initial (= desired) window `w` -/
  | openStream (w : Nat)
  | data (i off : Nat) (data : List Nat) (fin : Bool)
  | resetStream (i finalSize : Nat)
  /-- the application reads up to `n` bytes from stream `i` -/
  | read (i n : Nat)
  /-- the application requests STOP_SENDING on stream `i` -/
  | stop (i : Nat)
  deriving Repr, DecidableEq

structure Sys where
  conn : ConnFc
  streams : List Recv
  /-- a transport error closed the connection: nothing is advertised any more -/
  closed : Option ErrorCode := none
  deriving Repr, DecidableEq

namespace Sys
def init (w : Nat) : Sys := { conn := ConnFc.init w, streams := [] }

def step (s : Sys) (op : Op) : Sys :=
  if s.closed.isSome then s else
  match op with
  | .openStream w =>       -- windows are VarInts
    if w ≤ maxVarInt then { s with streams := s.streams ++ [Recv.init false w] } else s
  | .data i off d fin =>
    match s.streams[i]? with
    | none => s
    | some r =>
      match r.onData s.conn off d fin with
      | .error e => { s with closed := some e }
      | .ok (r', c') => { s with conn := c', streams := s.streams.set i r' }
  | .resetStream i fs =>
    match s.streams[i]? with
    | none => s
    | some r =>
      match r.onReset s.conn fs with
      | .error e => { s with closed := some e }
      | .ok (r', c') => { s with conn := c', streams := s.streams.set i r' }
  | .read i n =>
    match s.streams[i]? with
    | none => s
    | some r => { s with conn := (r.read s.conn n).2, streams := s.streams.set i (r.read s.conn n).1 }
  | .stop i =>
    match s.streams[i]? with
    | none => s
    | some r => { s with streams := s.streams.set i r.stop }

def run (s : Sys) (ops : List Op) : Sys := ops.foldl step s

/-- MAX_STREAM_DATA the endpoint would send for stream `i` -/
def maxStreamData (s : Sys) (i : Nat) : Option Nat :=
  if s.closed.isSome then none else (s.streams[i]?).bind Recv.advertised
/-- MAX_DATA the endpoint would send -/
def maxData (s : Sys) : Option Nat := if s.closed.isSome then none else some s.conn.latest
end Sys

/-! ## RemoteInitiated stream-count controller (only what the receive-side check needs) -/

structure RemoteInitiated where
  /-- max_streams_sync.latest_value() -/
  latest : Nat
  maxLocalLimit : Nat
  opened : Nat
  closed : Nat
  deriving Repr, DecidableEq

namespace RemoteInitiated
def init (limit : Nat) : RemoteInitiated := ⟨limit, limit, 0, 0⟩
/-- `on_remote_open_stream`: `stream_id >= nth(.., latest)` on stream *indices* -/
def onRemoteOpen (r : RemoteInitiated) (idx : Nat) : Except ErrorCode Unit :=
  if idx ≥ r.latest then .error .streamLimitError else .ok ()
def onClose (r : RemoteInitiated) : RemoteInitiated := { r with closed := r.closed + 1 }
/-- `on_timeout` with a refill of `k ≤ closed - synced` tokens:
    `latest = (synced + max_local_limit + refill).min(2^60)` where `synced = latest - max_local_limit` -/
def refill (r : RemoteInitiated) (k : Nat) : RemoteInitiated :=
  let synced := r.latest - r.maxLocalLimit
  let k := min k (r.closed - synced)
  if k = 0 then r else { r with latest := min (satAdd (satAdd synced r.maxLocalLimit) k) maxStreamsMax }
end RemoteInitiated

end Quic.Stream.RecvFlow

/-! ## which frames a packet-number space accepts (space/mod.rs + space/{initial,handshake,application}.rs) -/
namespace Quic.Conn
open Quic.Rfc (FrameType)

inductive Space | initial | handshake | application
  deriving DecidableEq, Repr

/-- the `handle_*_frame` method a frame type is dispatched to in `handle_cleartext_payload`
    (`none`: PADDING and PING are consumed inline without a handler) -/
def handlerOf : FrameType → Option String
  | .padding => none
  | .ping => none
  | .ack => some "ack"
  | .resetStream => some "reset_stream"
  | .stopSending => some "stop_sending"
  | .crypto => some "crypto"
  | .newToken => some "new_token"
  | .stream => some "stream"
  | .maxData => some "max_data"
  | .maxStreamData => some "max_stream_data"
  | .maxStreams => some "max_streams"
  | .dataBlocked => some "data_blocked"
  | .streamDataBlocked => some "stream_data_blocked"
  | .streamsBlocked => some "streams_blocked"
  | .newConnectionId => some "new_connection_id"
  | .retireConnectionId => some "retire_connection_id"
  | .pathChallenge => some "path_challenge"
  | .pathResponse => some "path_response"
  | .connectionCloseTransport => some "connection_close"
  | .connectionCloseApplication => some "connection_close"
  | .handshakeDone => some "handshake_done"

/-- pinned copy of what tie G extracts: the `handle_*_frame` methods each space implements itself
    (everything else falls into the trait's rejecting default, `default_frame_handler!`) -/
def pinnedOverrides : Space → List String
  | .initial => ["ack", "connection_close", "crypto"]
  | .handshake => ["ack", "connection_close", "crypto"]
  | .application => ["ack", "connection_close", "crypto", "data_blocked", "datagram", "dc_stateless_reset_tokens",
      "handshake_done", "max_data", "max_stream_data", "max_streams", "new_connection_id", "new_token",
      "path_challenge", "path_response", "reset_stream", "retire_connection_id", "stop_sending", "stream",
      "stream_data_blocked", "streams_blocked"]

/-- pinned: spaces whose `handle_connection_close_frame` rejects every tag but this one -/
def pinnedCloseTagOnly : Space → Option Nat
  | .initial => some 0x1c
  | .handshake => some 0x1c
  | .application => none

/-- frames allowed per space, as a function of the extracted facts -/
def frameTableOf (overrides : Space → List String) (closeTagOnly : Space → Option Nat) (sp : Space) (t : FrameType) : Bool :=
  match handlerOf t with
  | none => true
  | some h =>
    overrides sp |>.contains h
    && (match t, closeTagOnly sp with
        | .connectionCloseApplication, some tag => tag == 0x1d
        | .connectionCloseTransport, some tag => tag == 0x1c
        | _, _ => true)

/-- `Conn.FrameTable`: frames the space processes; all others are answered with PROTOCOL_VIOLATION -/
def FrameTable : Space → FrameType → Bool := frameTableOf pinnedOverrides pinnedCloseTagOnly

end Quic.Conn

/-! ## the stream manager and the per-frame decision function -/
namespace Quic.Stream.RecvFlow
open Quic.Rfc (ErrorCode FrameType)
open Quic.Conn (Space FrameTable)

structure Stream where
  recv : Recv
  hasSend : Bool
  deriving Repr, DecidableEq

/-- what the peer can put on the wire (fields the receive-side checks look at) -/
inductive Frame
  | padding | ping | ack | crypto | newToken | handshakeDone | pathChallenge | pathResponse
  | closeTransport | closeApplication
  | stream (sid off : Nat) (data : List Nat) (fin : Bool)
  | resetStream (sid finalSize : Nat)
  | stopSending (sid : Nat)
  | maxData (v : Nat)
  | maxStreamData (sid v : Nat)
  | maxStreams (bidi : Bool) (v : Nat)
  | dataBlocked (v : Nat)
  | streamDataBlocked (sid v : Nat)
  | streamsBlocked (bidi : Bool) (v : Nat)
  | newConnectionId (seq retirePriorTo cidLen : Nat)
  /-- `dcidSeq`: sequence number of the connection id the carrying packet was addressed to -/
  | retireConnectionId (seq dcidSeq : Nat)
  /-- a type byte that is no RFC 9000 frame (and no s2n extension frame) -/
  | unknown (tag : Nat)
  deriving Repr, DecidableEq

def Frame.type : Frame → Option FrameType
  | .padding => some .padding | .ping => some .ping | .ack => some .ack | .crypto => some .crypto
  | .newToken => some .newToken | .handshakeDone => some .handshakeDone
  | .pathChallenge => some .pathChallenge | .pathResponse => some .pathResponse
  | .closeTransport => some .connectionCloseTransport | .closeApplication => some .connectionCloseApplication
  | .stream .. => some .stream | .resetStream .. => some .resetStream | .stopSending .. => some .stopSending
  | .maxData .. => some .maxData | .maxStreamData .. => some .maxStreamData | .maxStreams .. => some .maxStreams
  | .dataBlocked .. => some .dataBlocked | .streamDataBlocked .. => some .streamDataBlocked
  | .streamsBlocked .. => some .streamsBlocked | .newConnectionId .. => some .newConnectionId
  | .retireConnectionId .. => some .retireConnectionId | .unknown .. => none

/-- stream id arithmetic (s2n-quic-core stream/id.rs): bit 0 initiator (1 = server), bit 1 unidirectional -/
def sidServer (sid : Nat) : Bool := sid % 2 = 1
def sidUni (sid : Nat) : Bool := (sid / 2) % 2 = 1
def sidIndex (sid : Nat) : Nat := sid / 4
def mkSid (server uni : Bool) (idx : Nat) : Nat := 4 * idx + (if uni then 2 else 0) + (if server then 1 else 0)

structure State where
  isServer : Bool
  conn : ConnFc
  streams : List (Nat × Stream)
  /-- next_stream_ids as indices: first unopened stream of (initiator server?, uni?) -/
  next : Bool → Bool → Nat
  remoteBidi : RemoteInitiated
  remoteUni : RemoteInitiated
  /-- initial_local_limits.stream_limits: bidi local / bidi remote / uni -/
  wBidiLocal : Nat
  wBidiRemote : Nat
  wUni : Nat
  /-- local_id_registry.next_sequence_number -/
  nextCidSeq : Nat
  /-- close_reason of the stream manager -/
  closed : Bool

namespace State

def init (isServer : Bool) (data wBL wBR wU nBidi nUni : Nat) : State :=
  { isServer, conn := ConnFc.init data, streams := [], next := fun _ _ => 0,
    remoteBidi := RemoteInitiated.init nBidi, remoteUni := RemoteInitiated.init nUni,
    wBidiLocal := wBL, wBidiRemote := wBR, wUni := wU, nextCidSeq := 1, closed := false }

/-- `initial_local_limits.stream_limits.max_data(local_endpoint_type, stream_id)` -/
def window (s : State) (sid : Nat) : Nat :=
  if sidUni sid then s.wUni else if sidServer sid = s.isServer then s.wBidiLocal else s.wBidiRemote

/-- `StreamImpl::new` -/
def newStream (s : State) (sid : Nat) : Stream :=
  let isLocal : Bool := sidServer sid = s.isServer
  { recv := Recv.init (sidUni sid && isLocal) (s.window sid), hasSend := !(sidUni sid && !isLocal) }

def lookup (s : State) (sid : Nat) : Option Stream := (s.streams.find? (·.1 = sid)).map (·.2)

def setStream (s : State) (sid : Nat) (st : Stream) : State :=
  { s with streams := (sid, st) :: s.streams.filter (·.1 ≠ sid) }

def setNext (s : State) (server uni : Bool) (v : Nat) : State :=
  { s with next := fun a b => if a = server ∧ b = uni then v else s.next a b }

/-- insert the streams with indices `from .. from+n-1` of one type -/
def insertRange (s : State) (server uni : Bool) : Nat → Nat → State
  | _, 0 => s
  | start, n + 1 =>
    let sid := mkSid server uni start
    insertRange (s.setStream sid (s.newStream sid)) server uni (start + 1) n

/-- `open_stream_if_necessary` -/
def openIfNecessary (s : State) (sid : Nat) : Except ErrorCode State :=
  let server := sidServer sid
  let uni := sidUni sid
  let idx := sidIndex sid
  let first := s.next server uni
  if server ≠ s.isServer then
    if idx ≥ first then
      if s.closed then .error .noError
      else
        let ctl := if uni then s.remoteUni else s.remoteBidi
        match ctl.onRemoteOpen idx with
        | .error e => .error e
        | .ok () =>
          let s := s.insertRange server uni first (idx + 1 - first)
          let n := idx + 1 - first
          let s := if uni then { s with remoteUni := { s.remoteUni with opened := s.remoteUni.opened + n } }
                   else { s with remoteBidi := { s.remoteBidi with opened := s.remoteBidi.opened + n } }
          .ok (s.setNext server uni (idx + 1))
    else .ok s
  else
    if idx ≥ first then .error .streamStateError      -- "Stream was not yet opened"
    else .ok s

/-- `handle_stream_frame`: open if necessary, then run `f` on the stream if it (still) exists -/
def withStream (s : State) (sid : Nat) (f : State → Stream → Except ErrorCode State) : Except ErrorCode State :=
  match s.openIfNecessary sid with
  | .error e => .error e
  | .ok s =>
    match s.lookup sid with
    | none => .ok s
    | some st => f s st

/-- frame decoder invariants (`decoder_invariant!`); every DecoderError becomes PROTOCOL_VIOLATION
    (`impl From<DecoderError> for transport::Error`) -/
def decodeCheck : Frame → Except ErrorCode Unit
  | .maxStreams _ v => if v ≤ maxStreamsMax then .ok () else .error .protocolViolation
  | .streamsBlocked _ v => if v ≤ maxStreamsMax then .ok () else .error .protocolViolation
  | .newConnectionId seq rpt len =>
    if ¬ rpt ≤ seq then .error .protocolViolation
    else if ¬ (1 ≤ len ∧ len ≤ 20) then .error .protocolViolation
    else .ok ()
  | .unknown _ => .error .protocolViolation          -- "invalid frame"
  | _ => .ok ()

/-- what the application space does with a frame the table lets through -/
def appFrame (s : State) : Frame → Except ErrorCode State
  | .stream sid off data fin =>
    s.withStream sid fun s st =>
      match st.recv.onData s.conn off data fin with
      | .error e => .error e
      | .ok (r, c) => .ok ({ s with conn := c }.setStream sid { st with recv := r })
  | .resetStream sid fs =>
    s.withStream sid fun s st =>
      match st.recv.onReset s.conn fs with
      | .error e => .error e
      | .ok (r, c) => .ok ({ s with conn := c }.setStream sid { st with recv := r })
  | .streamDataBlocked sid _ => s.withStream sid fun s _ => .ok s
  | .maxStreamData sid _ =>
    s.withStream sid fun s st => if !st.hasSend then .error .streamStateError else .ok s
  | .stopSending sid => s.withStream sid fun s _ => .ok s
  | .handshakeDone => if s.isServer then .error .protocolViolation else .ok s
  | .newToken => if s.isServer then .error .protocolViolation else .ok s
  | .retireConnectionId seq dcidSeq =>
    if seq ≥ 4294967296 then .error .protocolViolation       -- does not fit the registry's u32
    else if seq ≥ s.nextCidSeq then .error .protocolViolation
    else if seq = dcidSeq then .error .protocolViolation
    else .ok s
  | _ => .ok s

/-- the decision the endpoint takes for one frame of a packet of space `sp` -/
def onFrame (s : State) (sp : Space) (f : Frame) : Except ErrorCode State :=
  match decodeCheck f with
  | .error e => .error e
  | .ok () =>
    match f.type with
    | none => .error .protocolViolation
    | some t =>
      if !FrameTable sp t then .error .protocolViolation      -- default_frame_handler!
      else
        match sp with
        | .application => s.appFrame f
        | _ => .ok s

/-- a packet: frames are processed in order, the first error closes the connection -/
def onPacket (s : State) (sp : Space) : List Frame → Except ErrorCode State
  | [] => .ok s
  | f :: fs =>
    match s.onFrame sp f with
    | .error e => .error e
    | .ok s' => onPacket s' sp fs

/-- the local application opens stream `sid` (`poll_open_local_stream`) -/
def localOpen (s : State) (sid : Nat) : State :=
  (s.setStream sid (s.newStream sid)).setNext (sidServer sid) (sidUni sid) (max (s.next (sidServer sid) (sidUni sid)) (sidIndex sid + 1))

/-- the local application reads `n` bytes from stream `sid` -/
def appRead (s : State) (sid n : Nat) : State :=
  match s.lookup sid with
  | none => s
  | some st =>
    let p := st.recv.read s.conn n
    { s with conn := p.2 }.setStream sid { st with recv := p.1 }

/-- the local application asks for STOP_SENDING on stream `sid` -/
def appStop (s : State) (sid : Nat) : State :=
  match s.lookup sid with
  | none => s
  | some st => s.setStream sid { st with recv := st.recv.stop }

/-- a MAX_STREAMS frame with value `v` was sent for the given type: the advertised limit is at least `v` -/
def advertiseStreams (s : State) (uni : Bool) (v : Nat) : State :=
  if uni then { s with remoteUni := { s.remoteUni with latest := max s.remoteUni.latest v } }
  else { s with remoteBidi := { s.remoteBidi with latest := max s.remoteBidi.latest v } }

end State
end Quic.Stream.RecvFlow

/-! ## pinned source facts (tie G): what `tools/extractors/frame_table.py` must find in /repo for the model above
    to be a transcription of the code. `QuicProofs/Bridge/FrameTable.lean` proves `Generated.x = Pinned.x`. -/
namespace Quic.Stream.RecvFlow.Pinned
open Quic.Rfc (ErrorCode)

/-- the `transport::Error` constants the receive side uses, by name -/
def codeOfName : String → Option ErrorCode
  | "NO_ERROR" => some .noError | "INTERNAL_ERROR" => some .internalError
  | "CONNECTION_REFUSED" => some .connectionRefused | "FLOW_CONTROL_ERROR" => some .flowControlError
  | "STREAM_LIMIT_ERROR" => some .streamLimitError | "STREAM_STATE_ERROR" => some .streamStateError
  | "FINAL_SIZE_ERROR" => some .finalSizeError | "FRAME_ENCODING_ERROR" => some .frameEncodingError
  | "TRANSPORT_PARAMETER_ERROR" => some .transportParameterError
  | "CONNECTION_ID_LIMIT_ERROR" => some .connectionIdLimitError | "PROTOCOL_VIOLATION" => some .protocolViolation
  | "INVALID_TOKEN" => some .invalidToken | "APPLICATION_ERROR" => some .applicationError
  | "CRYPTO_BUFFER_EXCEEDED" => some .cryptoBufferExceeded | "KEY_UPDATE_ERROR" => some .keyUpdateError
  | "AEAD_LIMIT_REACHED" => some .aeadLimitReached
  | _ => none

/-- `StreamFc.acquireUpTo`: `if offset > latest { FLOW_CONTROL_ERROR }` -/
def checkStreamWindow : String × String := (">", "FLOW_CONTROL_ERROR")
/-- `ConnFc.acquire`: `if remaining < desired { FLOW_CONTROL_ERROR }` -/
def checkConnWindow : String × String := ("<", "FLOW_CONTROL_ERROR")
/-- `Recv.onData`: offset + len overflow -/
def checkDataOverflow : String × String := ("checked_add_usize", "FLOW_CONTROL_ERROR")
def checkOutOfRange : String × String := ("OutOfRange", "FLOW_CONTROL_ERROR")
def checkInvalidFin : String × String := ("InvalidFin", "FINAL_SIZE_ERROR")
/-- `Recv.onReset`: `if final_size != total { FINAL_SIZE_ERROR }` -/
def checkResetFinalSize : String × String := ("!=", "FINAL_SIZE_ERROR")
/-- `RemoteInitiated.onRemoteOpen`: `if stream_id >= not_allowed { STREAM_LIMIT_ERROR }` -/
def checkStreamLimit : String × String := (">=", "STREAM_LIMIT_ERROR")
/-- `State.openIfNecessary`, local id: `if stream_id >= first_unopened { STREAM_STATE_ERROR }` -/
def checkLocalUnopened : String × String := (">=", "STREAM_STATE_ERROR")
def checkMaxStreamDataRecvOnly : String × String := ("!self.has_send", "STREAM_STATE_ERROR")
def checkRetireSeq : String × String := (">=", "InvalidSequenceNumber")
def checkRetireDcid : String × String := ("==", "InvalidSequenceNumber")
def retireErrorCode : String := "PROTOCOL_VIOLATION"
def decoderErrorCode : String := "PROTOCOL_VIOLATION"
def ncidRetireInvariant : String := "retire_prior_to <= sequence_number"
def ncidLenRange : Nat × Nat := (1, 20)

def dispatch : List (String × String) :=
  [("Ack", "ack"), ("ConnectionClose", "connection_close"), ("Crypto", "crypto"), ("DataBlocked", "data_blocked"),
   ("Datagram", "datagram"), ("DcStatelessResetTokens", "dc_stateless_reset_tokens"), ("HandshakeDone", "handshake_done"),
   ("MaxData", "max_data"), ("MaxStreamData", "max_stream_data"), ("MaxStreams", "max_streams"),
   ("MtuProbingComplete", "mtu_probing_complete"), ("NewConnectionId", "new_connection_id"), ("NewToken", "new_token"),
   ("PathChallenge", "path_challenge"), ("PathResponse", "path_response"), ("ResetStream", "reset_stream"),
   ("RetireConnectionId", "retire_connection_id"), ("StopSending", "stop_sending"), ("Stream", "stream"),
   ("StreamDataBlocked", "stream_data_blocked"), ("StreamsBlocked", "streams_blocked")]

/-- handlers whose trait default rejects (so a space that does not override them refuses the frame) -/
def defaultRejecting : List String :=
  ["data_blocked", "datagram", "dc_stateless_reset_tokens", "handshake_done", "max_data", "max_stream_data", "max_streams",
   "new_connection_id", "new_token", "path_challenge", "path_response", "reset_stream", "retire_connection_id",
   "stop_sending", "stream", "stream_data_blocked", "streams_blocked"]

end Quic.Stream.RecvFlow.Pinned
