/-
  Opening locally initiated streams (properties C03 and C12): transcription of
    quic/s2n-quic-transport/src/stream/controller/local_initiated.rs `LocalInitiated`
      (`poll_open_stream`, `on_open_stream`, `on_close_stream`, `available_stream_capacity`,
       `peer_capacity`, `on_max_streams`)
    quic/s2n-quic-transport/src/stream/manager.rs `poll_open_local_stream` / `next_stream_ids`
    quic/s2n-quic-core/src/stream/id.rs `StreamId::initial`, `next_of_type`
  for ONE stream type (bidirectional or unidirectional) of one endpoint.
-/
namespace Quic.Stream.OpenIds

/-- `VarInt::MAX` -/
def maxVarInt : Nat := 2 ^ 62 - 1

/-- `StreamId::initial(initiator, stream_type)` -/
def initialId (server : Bool) (bidi : Bool) : Nat :=
  match bidi, server with
  | true, false => 0
  | true, true => 1
  | false, false => 2
  | false, true => 3

/-- `StreamId::next_of_type`: `checked_add(4)` on a VarInt -/
def nextOfType (id : Nat) : Option Nat := if id + 4 ≤ maxVarInt then some (id + 4) else none

/-- `LocalInitiated` (+ the manager's `next_stream_ids` entry for this type) -/
structure Ctl where
  /-- `max_local_limit`: concurrent streams the local endpoint allows itself -/
  maxLocalLimit : Nat
  /-- `peer_cumulative_stream_limit`: largest MAX_STREAMS received -/
  peerCumulativeStreamLimit : Nat
  openedStreams : Nat := 0
  closedStreams : Nat := 0
  /-- `next_stream_ids.get(local, type)`: `None` once the id space is exhausted -/
  nextStreamId : Option Nat
  /-- value of the pending STREAMS_BLOCKED (`streams_blocked_sync.request_delivery`) -/
  streamsBlocked : Option Nat := none
  deriving Repr, DecidableEq

def init (server bidi : Bool) (maxLocalLimit initialPeerMaximumStreams : Nat) : Ctl :=
  { maxLocalLimit := maxLocalLimit, peerCumulativeStreamLimit := initialPeerMaximumStreams,
    nextStreamId := some (initialId server bidi) }

/-- `peer_capacity` (`saturating_sub`) -/
def Ctl.peerCapacity (c : Ctl) : Nat := c.peerCumulativeStreamLimit - c.openedStreams

/-- `open_stream_count` -/
def Ctl.openStreamCount (c : Ctl) : Nat := c.openedStreams - c.closedStreams

/-- `available_stream_capacity` -/
def Ctl.availableStreamCapacity (c : Ctl) : Nat :=
  min (c.maxLocalLimit - c.openStreamCount) c.peerCapacity

/-- `on_max_streams`: frames that do not increase the limit are ignored -/
def Ctl.onMaxStreams (c : Ctl) (maximumStreams : Nat) : Ctl :=
  if c.peerCumulativeStreamLimit ≥ maximumStreams then c
  else { c with peerCumulativeStreamLimit := maximumStreams, streamsBlocked := none }

/-- `StreamManager::poll_open_local_stream` → `Controller::poll_open_local_stream` →
    `LocalInitiated::poll_open_stream` + `on_open_stream`; returns the id of the opened stream -/
def Ctl.pollOpen (c : Ctl) : Ctl × Option Nat :=
  match c.nextStreamId with
  | none => (c, none)                                   -- `stream_id_exhausted`
  | some firstUnopenedId =>
    if c.availableStreamCapacity < 1 then
      -- `Poll::Pending`; STREAMS_BLOCKED is requested when the PEER's limit is the reason
      ({ c with streamsBlocked := if c.peerCapacity < 1 then some c.peerCumulativeStreamLimit else c.streamsBlocked }, none)
    else
      ({ c with openedStreams := c.openedStreams + 1, nextStreamId := nextOfType firstUnopenedId },
       some firstUnopenedId)

/-- `on_close_stream` (the integrity check `closed_streams <= opened_streams` as a guard) -/
def Ctl.onCloseStream (c : Ctl) : Ctl :=
  if c.closedStreams < c.openedStreams then { c with closedStreams := c.closedStreams + 1 } else c

inductive Op
  | maxStreams (v : Nat)
  | openStream
  | closeStream
  deriving Repr, DecidableEq

/-- one step; the output is the id of the stream opened by this step, if any -/
def step (c : Ctl) (op : Op) : Ctl × Option Nat :=
  match op with
  | .maxStreams v => (c.onMaxStreams v, none)
  | .openStream => c.pollOpen
  | .closeStream => (c.onCloseStream, none)

def run (c : Ctl) : List Op → Ctl × List (Option Nat)
  | [] => (c, [])
  | op :: rest =>
    let r := step c op
    let r' := run r.1 rest
    (r'.1, r.2 :: r'.2)

/-- ids opened by a history, in order -/
def openedIds (c : Ctl) (ops : List Op) : List Nat := (run c ops).2.filterMap id

/-- the largest cumulative stream limit received: the initial one and every MAX_STREAMS -/
def grantedStreams (initialPeerMaximumStreams : Nat) (pre : List Op) : Nat :=
  pre.foldl (fun m op => match op with
    | .maxStreams v => max m v
    | _ => m) initialPeerMaximumStreams

end Quic.Stream.OpenIds
