/-
  Semantics of the `event!` macro of quic/s2n-quic-core/src/state.rs (`__state_transition__ @build`), transcribed:

    for each arm `[valid-pattern => target]` in source order:
        if matches!(state, valid) { *state = target; return Ok(()) }
    // no arm matched:
    if targets.len() == 1 && targets[0].eq(state) { Err(NoOp { current }) }
    else                                         { Err(InvalidTransition { current: state, event }) }

  The state is only written in the `Ok` case.  A state that is both in the valid set and equal to the target (e.g.
  `on_application_progress(PeekPacket | EpochTimeout | Cooldown => Cooldown)` in `Cooldown`) is a VALID transition (Ok) that
  leaves the state unchanged — it is not a NoOp.  The arm tables themselves are GENERATED (QuicModel.Generated.States).
-/
namespace Quic.State

inductive Err where
  | noOp
  | invalid
  deriving DecidableEq, Repr

/-- first arm whose valid set contains the state (`if matches!($state, $valid) .. else <next arm>`) -/
def firstMatch {σ : Type} [DecidableEq σ] : List (List σ × σ) → σ → Option σ
  | [], _ => none
  | (valid, target) :: rest, s => if valid.contains s then some target else firstMatch rest s

/-- one `event!` function. `noOpArms` is the literal of `targets.len() == 1` (generated). -/
def step {σ : Type} [DecidableEq σ] (noOpArms : Nat) (arms : List (List σ × σ)) (s : σ) : Except Err σ :=
  match firstMatch arms s with
  | some t => .ok t
  | none =>
    match arms with
    | (_, t) :: _ => if arms.length = noOpArms ∧ t = s then .error .noOp else .error .invalid
    | [] => .error .invalid

/-- the state after calling the event function (unchanged on `Err`) -/
def next {σ : Type} (r : Except Err σ) (s : σ) : σ :=
  match r with
  | .ok t => t
  | .error _ => s

def kind {σ : Type} (r : Except Err σ) : String :=
  match r with
  | .ok _ => "moved"
  | .error .noOp => "noop"
  | .error .invalid => "invalid"

/-- run a list of events (callers ignoring the result, `let _ = self.state.on_x()`, included) -/
def run {σ ε : Type} (stp : σ → ε → Except Err σ) : σ → List ε → σ
  | s, [] => s
  | s, e :: es => run stp (next (stp s e) s) es

/-- all states visited by a run, including the first -/
def trace {σ ε : Type} (stp : σ → ε → Except Err σ) : σ → List ε → List σ
  | s, [] => [s]
  | s, e :: es => s :: trace stp (next (stp s e) s) es

end Quic.State
