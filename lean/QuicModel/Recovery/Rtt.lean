/-
  Model of `s2n_quic_core::recovery::RttEstimator`
  (`quic/s2n-quic-core/src/recovery/rtt_estimator.rs`), statement by statement.

  `Duration`s are `Nat` NANOseconds, `Timestamp`s are `Nat` MICROseconds.  The code does most of
  its arithmetic after `as_nanos()/as_micros()/as_millis() as u64` casts; the cast is modelled
  by `u64` (silent truncation mod 2^64), the integer divisions are the code's.
  Documented domain (drivers answer `bad-op` outside): every duration < 2^62 ns, back-off
  ≤ 2^16; inside it no checked `u64`/`Duration` operation of the code overflows (those would
  panic in the debug build the harness uses).
-/
namespace Quic.Recovery.Rtt

/-- `x as u64` for a `u128` value -/
def u64 (x : Nat) : Nat := x % 18446744073709551616

/-- `PacketNumberSpace` -/
inductive Space where
  | initial
  | handshake
  | applicationData
deriving Repr, DecidableEq

def Space.isInitial : Space → Bool
  | .initial => true
  | _ => false

def Space.isApplicationData : Space → Bool
  | .applicationData => true
  | _ => false

/-- `pub const DEFAULT_INITIAL_RTT: Duration = Duration::from_millis(333);` -/
def DEFAULT_INITIAL_RTT : Nat := 333000000
/-- `pub const MIN_RTT: Duration = Duration::from_micros(1);` -/
def MIN_RTT : Nat := 1000
/-- `const ZERO_DURATION: Duration = Duration::from_millis(0);` -/
def ZERO_DURATION : Nat := 0
/-- `pub const K_GRANULARITY: Duration = Duration::from_millis(1);` -/
def K_GRANULARITY : Nat := 1000000
/-- `const K_PERSISTENT_CONGESTION_THRESHOLD: u64 = 3;` -/
def K_PERSISTENT_CONGESTION_THRESHOLD : Nat := 3

structure RttEstimator where
  latestRtt : Nat
  minRtt : Nat
  smoothedRtt : Nat
  rttvar : Nat
  maxAckDelay : Nat
  /-- timestamp (µs) of the first RTT sample -/
  firstRttSample : Option Nat
deriving Repr, DecidableEq

/-- `fn weighted_average(a: Duration, b: Duration, weight: u64) -> Duration`
    ("it's more accurate to multiply first but it risks overflow so we divide first") -/
def weightedAverage (a b weight : Nat) : Nat :=
  let a := u64 a
  let a := a / weight
  let a := a * (weight - 1)
  let b := u64 b
  let b := b / weight
  a + b

/-- `RttEstimator::new_with_max_ack_delay`; `none` = `debug_assert!(initial_rtt >= MIN_RTT)` fires -/
def newWithMaxAckDelay (maxAckDelay initialRtt : Nat) : Option RttEstimator :=
  if !(decide (initialRtt ≥ MIN_RTT)) then none else
  let initialRtt := max initialRtt MIN_RTT
  let smoothedRtt := initialRtt
  let rttvar := initialRtt / 2
  some { latestRtt := initialRtt, minRtt := initialRtt, smoothedRtt := smoothedRtt, rttvar := rttvar,
         maxAckDelay := maxAckDelay, firstRttSample := none }

/-- `RttEstimator::new(initial_rtt)` -/
def new (initialRtt : Nat) : Option RttEstimator := newWithMaxAckDelay 0 initialRtt

/-- `RttEstimator::for_new_path` -/
def forNewPath (r : RttEstimator) (initialRtt : Nat) : Option RttEstimator :=
  newWithMaxAckDelay r.maxAckDelay initialRtt

/-- `on_max_ack_delay` (`MaxAckDelay::as_duration` = `from_millis`) -/
def onMaxAckDelay (r : RttEstimator) (ms : Nat) : RttEstimator :=
  { r with maxAckDelay := ms * 1000000 }

/-- `Duration::abs_diff` -/
def absDiff (a b : Nat) : Nat := if a ≤ b then b - a else a - b

/-- the tail of `update_rtt` after `adjusted_rtt` is known -/
def applyAdjusted (r : RttEstimator) (adjustedRtt : Nat) : RttEstimator :=
  let rttvarSample := absDiff r.smoothedRtt adjustedRtt
  { r with rttvar := weightedAverage r.rttvar rttvarSample 4,
           smoothedRtt := weightedAverage r.smoothedRtt adjustedRtt 8 }

/-- the part of `update_rtt` after `ack_delay` has been clamped (`self.latest_rtt`/`self.min_rtt` already updated) -/
def finishUpdate (r : RttEstimator) (ackDelay : Nat) (isHandshakeConfirmed : Bool) : RttEstimator :=
  if r.minRtt + ackDelay < r.latestRtt then applyAdjusted r (r.latestRtt - ackDelay)
  else if !isHandshakeConfirmed then r
  else applyAdjusted r r.latestRtt

/-- `RttEstimator::update_rtt(ack_delay, rtt_sample, timestamp, is_handshake_confirmed, space)` -/
def updateRtt (r : RttEstimator) (ackDelay rttSample timestamp : Nat) (isHandshakeConfirmed : Bool)
    (space : Space) : RttEstimator :=
  let latest := max rttSample MIN_RTT
  if r.firstRttSample.isNone then
    { r with latestRtt := latest, firstRttSample := some timestamp, minRtt := latest,
             smoothedRtt := latest, rttvar := latest / 2 }
  else
  let minRtt := min r.minRtt latest
  let r := { r with latestRtt := latest, minRtt := minRtt }
  let ackDelay := if space.isInitial then ZERO_DURATION else ackDelay
  let ackDelay := if isHandshakeConfirmed then min ackDelay r.maxAckDelay else ackDelay
  finishUpdate r ackDelay isHandshakeConfirmed

/-- `rttvar_4x`: `Duration::from_micros(4 * self.rttvar.as_micros() as u64)` -/
def rttvar4x (r : RttEstimator) : Nat := 4 * u64 (r.rttvar / 1000) * 1000

/-- `calculate_base_pto_micros(pto_backoff, space)` (µs) -/
def calculateBasePtoMicros (r : RttEstimator) (ptoBackoff : Nat) (space : Space) : Nat :=
  let ptoPeriod := u64 (r.smoothedRtt / 1000)
  let ptoPeriod := ptoPeriod + max (u64 (rttvar4x r / 1000)) (u64 (K_GRANULARITY / 1000))
  let ptoPeriod := if space.isApplicationData then ptoPeriod + u64 (r.maxAckDelay / 1000) else ptoPeriod
  let ptoPeriod := ptoPeriod * ptoBackoff
  ptoPeriod

/-- `pto_period(pto_backoff, space)` (ns); also `pto_period_with_jitter` with jitter 0 -/
def ptoPeriod (r : RttEstimator) (ptoBackoff : Nat) (space : Space) : Nat :=
  let ptoPeriod := calculateBasePtoMicros r ptoBackoff space
  let ptoPeriod := max ptoPeriod (u64 (K_GRANULARITY / 1000))
  ptoPeriod * 1000

/-- `persistent_congestion_threshold()` (ns; computed in whole milliseconds) -/
def persistentCongestionThreshold (r : RttEstimator) : Nat :=
  (u64 (r.smoothedRtt / 1000000)
    + max (u64 (rttvar4x r / 1000000)) (u64 (K_GRANULARITY / 1000000))
    + u64 (r.maxAckDelay / 1000000)) * K_PERSISTENT_CONGESTION_THRESHOLD * 1000000

/-- `loss_time_threshold()` (ns) -/
def lossTimeThreshold (r : RttEstimator) : Nat :=
  let timeThreshold := max (u64 r.smoothedRtt) (u64 r.latestRtt)
  let timeThreshold := timeThreshold + timeThreshold / 8
  let timeThreshold := max timeThreshold (u64 K_GRANULARITY)
  timeThreshold

/-- `on_persistent_congestion()` -/
def onPersistentCongestion (r : RttEstimator) : RttEstimator :=
  { r with firstRttSample := none }

end Quic.Recovery.Rtt
