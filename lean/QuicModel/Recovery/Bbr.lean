/-
  SKELETON of `BbrCongestionController` (quic/s2n-quic-core/src/recovery/bbr.rs, bbr/probe_rtt.rs,
  bbr/recovery.rs): ONLY

    * the four write sites of `cwnd`: `new`, `on_mtu_update`, the clamp at the end of `set_cwnd`,
      `restore_cwnd` (called from `exit_probe_rtt`), plus `save_cwnd` which writes `prior_cwnd`;
    * `minimum_window` / `initial_window` / `bound_cwnd_for_model`'s final `.max(minimum_window)`;
    * the in-flight counter (`Counter<u32>`, debug build: overflow/underflow panics = `none`);
    * `recovery::State` (it is what `requires_fast_retransmission` reads);
    * whether the state machine is in `ProbeRtt` (read by `set_cwnd`, written only by
      `check_probe_rtt` / `exit_probe_rtt`).

  Everything BBR computes from its network model (bandwidth estimator, round counting, full-pipe
  estimator, ProbeBW cycle, ack aggregation, inflight_hi/lo, pacing) is an ORACLE parameter of
  the `ack` step, constrained only by the `min`/`max`/`clamp` the code applies to it. These are
  integer (u32/u64) computations, not floats; the only float is the MTU rescaling.
  The theorems hold for all oracle values.

  `minimum_window(mds) = (MIN_PIPE_CWND_PACKETS * max_datagram_size) as u32` multiplies two `u16`:
  for mds > 16383 the product overflows (debug: panic, release: wraps). `new`/`mtu` with such an
  mds are `none` here.
-/
namespace Quic.Recovery.Bbr

def u32Max : Nat := 4294967295
def u16Max : Nat := 4294967295   -- the product is computed in u32 since fix f3b18df (name kept); before the fix: 65535
def sat32 (x : Nat) : Nat := min x u32Max

/-- `MIN_PIPE_CWND_PACKETS` -/
def minPipeCwndPackets : Nat := 4
def initialWindowPackets : Nat := 10
def initialWindowLimit : Nat := 14720
def initialWindowLimitPackets : Nat := 2

/-- `minimum_window` where the u16 product does not overflow -/
def minimumWindow (mds : Nat) : Nat := minPipeCwndPackets * mds

/-- the u16 multiplication of `minimum_window` overflows -/
def mdsOverflows (mds : Nat) : Bool := decide (minPipeCwndPackets * mds > u16Max)

/-- `initial_window(max_datagram_size, &Default::default())` -/
def initialWindow (mds : Nat) : Nat :=
  max (min (initialWindowPackets * mds) (max initialWindowLimit (initialWindowLimitPackets * mds)))
      (minimumWindow mds)

structure State where
  mds : Nat
  cwnd : Nat
  priorCwnd : Nat
  inflight : Nat
  /-- `recovery::State`: `none` = `Recovered`, `some (t, rt)` = `Recovering(t, rt)` with
      `rt = true` for `FastRetransmission::RequiresTransmission` -/
  recovery : Option (Nat × Bool)
  /-- `self.state.is_probing_rtt()` -/
  probeRtt : Bool
  deriving Repr, DecidableEq

/-- `BbrCongestionController::new(max_datagram_size, Default::default())` -/
def init (mds : Nat) : Option State :=
  if mdsOverflows mds then none
  else some { mds := mds, cwnd := initialWindow mds, priorCwnd := 0, inflight := 0, recovery := none, probeRtt := false }

def isCongestionLimited (s : State) : Bool := decide (s.cwnd - s.inflight < s.mds)

def requiresFastRetransmission (s : State) : Bool :=
  match s.recovery with
  | some (_, true) => true
  | _ => false

/-- `recovery::State::on_packet_sent` / `on_packet_discarded` -/
def clearFastRetransmission : Option (Nat × Bool) → Option (Nat × Bool)
  | some (t, true) => some (t, false)
  | r => r

/-- `recovery::State::on_congestion_event(now)` -/
def recoveryOnCongestionEvent (r : Option (Nat × Bool)) (now : Nat) : Option (Nat × Bool) :=
  match r with
  | none => some (now, true)
  | r => r

/-- `recovery::State::on_ack(time_sent)` -/
def recoveryOnAck (r : Option (Nat × Bool)) (timeSent : Nat) : Option (Nat × Bool) :=
  match r with
  | some (t, rt) => if timeSent > t then none else some (t, rt)
  | none => none

/-- what the BBR model contributes to one `on_ack` / `on_mtu_update` -/
structure Oracle where
  /-- `check_probe_rtt`: `!is_probing_rtt() && probe_rtt_expired() && !idle_restart` (only read outside ProbeRtt) -/
  enterProbeRtt : Bool := false
  /-- `check_probe_rtt`: `probe_rtt_state.is_done(now)` (only read inside ProbeRtt) -/
  exitProbeRtt : Bool := false
  /-- `control_update_required(..)`: `set_cwnd` runs -/
  update : Bool := false
  /-- `full_pipe_estimator.filled_pipe()` -/
  filledPipe : Bool := false
  /-- `self.max_inflight()` (u64, before `.try_into().unwrap_or(u32::MAX)`) -/
  maxInflight : Nat := 0
  /-- `bw_estimator.delivered_bytes() < 2 * initial_cwnd as u64` -/
  smallDelivered : Bool := false
  /-- `probe_rtt_cwnd`: `bdp_multiple(..)` (u64) before `.try_into().unwrap_or(u32::MAX).max(minimum_window)` -/
  probeRttCwndRaw : Nat := 0
  /-- `bound_cwnd_for_model`: `cap.min(inflight_lo)` before `.max(minimum_window)` -/
  capRaw : Nat := 0
  /-- `on_mtu_update`: `((self.cwnd as f32 / old_mds as f32) * new_mds as f32) as u32` -/
  scaled : Nat := 0
  deriving Repr, DecidableEq

/-- `u32::clamp(self, min, max)` (asserts `min <= max`: `none` otherwise) -/
def clamp? (x lo hi : Nat) : Option Nat :=
  if lo > hi then none else some (if x < lo then lo else if x > hi then hi else x)

/-- Which form the growing write in the not-filled-pipe branch of `set_cwnd` has in /repo
    (bridged against the source text: `Bridge.Congestion.bbr_growth_variant_eq`):
      `false`  `cwnd += newly_acked as u32;`                          unchecked u32 addition
      `true`   `cwnd = cwnd.saturating_add(newly_acked as u32);`
    All definitions below take the variant as a parameter; this constant is the one the driver and
    the "code as it is" theorems use. -/
def saturatingGrowth : Bool := true   -- /repo carries the saturating add (fix commit); before the fix: false

/-- `set_cwnd`: the window before the ProbeRTT bound and the final clamp. `newly_acked as u32` truncates;
    the filled-pipe branch uses `saturating_add`; the other growing branch is the write site selected by
    `sat` (unchecked `+=`: `none` when it overflows — a debug build panics, a release build wraps) -/
def grownCwnd (sat : Bool) (s : State) (newlyAcked : Nat) (o : Oracle) : Option Nat :=
  if o.filledPipe then
    some (if sat32 (s.cwnd + newlyAcked % (u32Max + 1)) ≥ sat32 o.maxInflight then sat32 o.maxInflight
          else sat32 (s.cwnd + newlyAcked % (u32Max + 1)))
  else if s.cwnd < sat32 o.maxInflight || o.smallDelivered then
    if sat then some (sat32 (s.cwnd + newlyAcked % (u32Max + 1)))
    else if s.cwnd + newlyAcked % (u32Max + 1) > u32Max then none
    else some (s.cwnd + newlyAcked % (u32Max + 1))
  else some s.cwnd

/-- `if self.state.is_probing_rtt() { cwnd = cwnd.min(self.probe_rtt_cwnd()) }` -/
def boundForProbeRtt (s : State) (c : Nat) (o : Oracle) : Nat :=
  if s.probeRtt then min c (max (sat32 o.probeRttCwndRaw) (minimumWindow s.mds)) else c

/-- `bound_cwnd_for_model()`: `cap.min(inflight_lo).max(minimum_window)` -/
def boundCwndForModel (s : State) (o : Oracle) : Nat := max (sat32 o.capRaw) (minimumWindow s.mds)

/-- `set_cwnd(newly_acked)`: the single write is
    `self.cwnd = cwnd.clamp(minimum_window(mds), self.bound_cwnd_for_model())` -/
def setCwnd (sat : Bool) (s : State) (newlyAcked : Nat) (o : Oracle) : Option State :=
  match grownCwnd sat s newlyAcked o with
  | none => none
  | some c =>
    match clamp? (boundForProbeRtt s c o) (minimumWindow s.mds) (boundCwndForModel s o) with
    | some c => some { s with cwnd := c }
    | none => none

/-- `save_cwnd` -/
def saveCwnd (s : State) : State := { s with priorCwnd := max s.priorCwnd s.cwnd }
/-- `restore_cwnd` -/
def restoreCwnd (s : State) : State := { s with cwnd := max s.cwnd s.priorCwnd }

/-- `check_probe_rtt`, first half: enter ProbeRTT (`save_cwnd`) -/
def enterProbeRtt (s : State) (o : Oracle) : State :=
  if !s.probeRtt && o.enterProbeRtt then saveCwnd { s with probeRtt := true } else s

/-- `check_probe_rtt`, second half: `if probe_rtt_state.is_done(now) { self.exit_probe_rtt(..) }` (`restore_cwnd`) -/
def exitProbeRtt (s : State) (o : Oracle) : State :=
  if s.probeRtt && o.exitProbeRtt then { restoreCwnd s with probeRtt := false } else s

/-- the part of `check_probe_rtt` that touches the modelled fields -/
def checkProbeRtt (s : State) (o : Oracle) : State := exitProbeRtt (enterProbeRtt s o) o

def onPacketSent (s : State) (bytes : Nat) : Option State :=
  if bytes = 0 then some s
  else if bytes > u32Max then none
  else if s.inflight + bytes > u32Max then none
  else some { s with inflight := s.inflight + bytes, recovery := clearFastRetransmission s.recovery }

/-- `on_ack`: `bytes_in_flight.try_sub`, `recovery_state.on_ack` -/
def ackBookkeeping (s : State) (timeSent bytes : Nat) : State :=
  { s with inflight := s.inflight - bytes, recovery := recoveryOnAck s.recovery timeSent }

def onAck (sat : Bool) (s : State) (timeSent bytes : Nat) (o : Oracle) : Option State :=
  if bytes > u32Max then none
  else if s.inflight < bytes then none
  else if o.update then setCwnd sat (checkProbeRtt (ackBookkeeping s timeSent bytes) o) bytes o
  else some (checkProbeRtt (ackBookkeeping s timeSent bytes) o)

def onPacketLost (s : State) (bytes now : Nat) : Option State :=
  if bytes = 0 then none                         -- `debug_assert!(lost_bytes > 0)`
  else if s.inflight < bytes then none
  else some { s with inflight := s.inflight - bytes, recovery := recoveryOnCongestionEvent s.recovery now }

def onExplicitCongestion (s : State) (now : Nat) : Option State :=
  some { s with recovery := recoveryOnCongestionEvent s.recovery now }

def onMtuUpdate (s : State) (mds : Nat) (o : Oracle) : Option State :=
  if mdsOverflows mds then none
  else some { s with mds := mds, cwnd := max (sat32 o.scaled) (initialWindow mds) }

def onPacketDiscarded (s : State) (bytes : Nat) : Option State :=
  if bytes > u32Max then none
  else if s.inflight < bytes then none
  else some { s with inflight := s.inflight - bytes, recovery := clearFastRetransmission s.recovery }

inductive Op
  | sent (bytes now : Nat) (appLimited : Option Bool)
  | rtt (now : Nat)
  | ack (timeSent bytes now : Nat)
  | lost (bytes : Nat) (persistent : Bool) (now : Nat)
  | ecn (now : Nat)
  | mtu (mds : Nat)
  | discard (bytes : Nat)
  deriving Repr, DecidableEq

/-- one trait call for the write-site variant `sat`; `none` = the real (debug-assertions) build panics -/
def step (sat : Bool) (s : State) (op : Op) (o : Oracle) : Option State :=
  match op with
  | .sent b _ _ => onPacketSent s b
  | .rtt _ => some s                              -- `on_rtt_update` only initialises the pacing rate
  | .ack ts b _ => onAck sat s ts b o
  | .lost b _ now => onPacketLost s b now
  | .ecn now => onExplicitCongestion s now
  | .mtu mds => onMtuUpdate s mds o
  | .discard b => onPacketDiscarded s b

def run (sat : Bool) (s : State) : List (Op × Oracle) → Option State
  | [] => some s
  | (op, o) :: rest =>
    match step sat s op o with
    | some s' => run sat s' rest
    | none => none

structure Obs where
  cwnd : Nat
  inflight : Nat
  limited : Bool
  fastRtx : Bool
  probeRtt : Bool
  deriving Repr, DecidableEq

def observe (s : State) : Obs :=
  { cwnd := s.cwnd, inflight := s.inflight, limited := isCongestionLimited s, fastRtx := requiresFastRetransmission s,
    probeRtt := s.probeRtt }

/-- oracle values under which the skeleton could have produced the observation -/
def candidates (_s : State) (op : Op) (obs : Obs) : List Oracle :=
  let W := obs.cwnd
  match op with
  | .mtu _ => [{ scaled := W }]
  | .ack .. =>
    let pr : List (Bool × Bool) := [(false, false), (true, false), (false, true)]
    pr.flatMap fun (en, ex) =>
      [ { enterProbeRtt := en, exitProbeRtt := ex },
        { enterProbeRtt := en, exitProbeRtt := ex, update := true, smallDelivered := true,
          probeRttCwndRaw := u32Max, capRaw := W },
        { enterProbeRtt := en, exitProbeRtt := ex, update := true, filledPipe := true, maxInflight := u32Max,
          probeRttCwndRaw := u32Max, capRaw := W } ]
  | _ => [{}]

def accept (s : State) (op : Op) (obs : Obs) : Option (Oracle × State) :=
  (candidates s op obs).findSome? fun o =>
    match step saturatingGrowth s op o with
    | some s' => if observe s' = obs then some (o, s') else none
    | none => none

/-- the real code panicked: admitted iff some candidate oracle makes the skeleton panic
    (only `set_cwnd`'s unchecked `+=` depends on the oracle) -/
def acceptPanic (s : State) (op : Op) : Bool :=
  (step saturatingGrowth s op {}).isNone ||
  (step saturatingGrowth s op { update := true, smallDelivered := true, probeRttCwndRaw := u32Max, capRaw := u32Max }).isNone

end Quic.Recovery.Bbr
