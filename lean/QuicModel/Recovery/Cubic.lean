/-
  SKELETON of `CubicCongestionController` (quic/s2n-quic-core/src/recovery/cubic.rs, with
  hybrid_slow_start.rs behind it).

  The Rust controller keeps the congestion window as an `f32` and computes it with `powi`, `cbrt`,
  `mul_add`, divisions … . No float arithmetic is modelled here. Instead

    * the state keeps `w : Nat` = what `congestion_window()` returns, i.e. the `f32` window cast
      with `as u32` (truncating, saturating at `u32::MAX`, NaN ↦ 0). That cast is monotone, so it
      commutes with `min`/`max`, and `a ≤ b` between floats gives `≤` between the casts;
    * every float expression of the code is a field of `Oracle` (already cast the same way): the
      step functions below transcribe the *control flow* of the Rust methods around these values —
      the early returns, `.min(max_cwnd)`, `.max(minimum_window())`, the recovery-period check, the
      integer bookkeeping — and nothing else. Float comparisons whose operands are oracle values
      are oracle Booleans. The theorems quantify over ALL oracle values;
    * the only facts about floats that are built in are sign facts that follow from the Rust types:
      `cwnd_increment(bytes) = bytes as f32 / divisor ≥ 0`, `sent_bytes as f32 / 2.0 ≥ 0`, and the
      concave/convex increment `packets_to_bytes((target - cwnd) / cwnd) > 0` behind the guard
      `cwnd >= target → return`; they appear as "`w + inc` with `inc : Nat`".
      `minimum_window() = 2.0 * mds as f32` and `initial_window` are exact integers (mds is a u16).

  Integer state is transcribed exactly: `bytes_in_flight` / `bytes_in_flight_hi` (`Counter<u32>`:
  with debug assertions an overflow/underflow panics, in release it saturates — the model follows
  the debug build, `none` = panic), `under_utilized` (computed from `congestion_window()`, i.e. from
  integers), `max_datagram_size`, `time_of_last_sent_packet`, the `State` enum with the recovery
  start time, the fast-retransmission flag and the congestion-avoidance timing.

  Not modelled: `HybridSlowStart`'s and `Cubic`'s own fields (`threshold`, `w_max`, `k`, …: all
  float; they only feed oracle values), the pacer, the publisher; `debug_assert!`s on timestamp
  monotonicity in `State::on_app_limited`, and the final
  `debug_assert!(self.congestion_window >= self.cubic.minimum_window())` of `on_ack` (a debug build
  would panic where this model — like a release build — continues with a window below the minimum;
  see `C10.cubic_cwnd_ge_min_partial`).
  Timestamps are microseconds as `Nat`.
-/
namespace Quic.Recovery.Cubic

def u32Max : Nat := 4294967295
/-- `max_datagram_size: u16` -/
def u16Max : Nat := 65535

/-- the saturating half of `f as u32` (oracle values are non-negative integers already) -/
def sat32 (x : Nat) : Nat := min x u32Max

/-- `Cubic::minimum_window`: `2.0 * max_datagram_size` -/
def minWindowPackets : Nat := 2
/-- `initial_window`: `min(10 * mds, max(INITIAL_WINDOW_LIMIT, 2 * mds))` -/
def initialWindowPackets : Nat := 10
def initialWindowLimit : Nat := 14720
def initialWindowLimitPackets : Nat := 2
/-- `is_congestion_window_under_utilized`: `MAX_BURST_MULTIPLIER` -/
def maxBurstMultiplier : Nat := 3

def minimumWindow (mds : Nat) : Nat := minWindowPackets * mds

/-- `CubicCongestionController::initial_window` with default `ApplicationSettings` -/
def initialWindow (mds : Nat) : Nat :=
  max (min (initialWindowPackets * mds) (max initialWindowLimit (initialWindowLimitPackets * mds)))
      (minimumWindow mds)

/-- `CongestionAvoidanceTiming` -/
structure Timing where
  startTime : Nat
  windowIncreaseTime : Nat
  appLimitedTime : Option Nat
  deriving Repr, DecidableEq

/-- `CongestionAvoidanceTiming::on_window_increase` (`Timestamp - Timestamp` would panic on a
    negative difference; with a monotone clock `app_limited_time ≥ window_increase_time`) -/
def Timing.onWindowIncrease (t : Timing) (now : Nat) : Timing :=
  match t.appLimitedTime with
  | some alt => { startTime := t.startTime + (alt - t.windowIncreaseTime), windowIncreaseTime := now, appLimitedTime := none }
  | none => { t with windowIncreaseTime := now }

/-- `enum State` of cubic.rs; `requiresTransmission = true` is `FastRetransmission::RequiresTransmission` -/
inductive Phase
  | slowStart
  | recovery (start : Nat) (requiresTransmission : Bool)
  | congAvoid (t : Timing)
  deriving Repr, DecidableEq

/-- `State::congestion_avoidance(start_time)` -/
def Phase.congestionAvoidance (startTime : Nat) : Phase :=
  .congAvoid { startTime := startTime, windowIncreaseTime := startTime, appLimitedTime := none }

def Phase.isSlowStart : Phase → Bool
  | .slowStart => true
  | _ => false

def Phase.isRecovery : Phase → Bool
  | .recovery _ _ => true
  | _ => false

/-- `State::on_app_limited` -/
def Phase.onAppLimited (p : Phase) (now : Nat) : Phase :=
  match p with
  | .congAvoid t => .congAvoid { t with appLimitedTime := some now }
  | p => p

/-- the transition both `on_packet_sent` and `on_packet_discarded` make:
    `Recovery(t, RequiresTransmission) → Recovery(t, Idle)` -/
def Phase.clearFastRetransmission : Phase → Phase
  | .recovery t true => .recovery t false
  | p => p

structure State where
  mds : Nat
  /-- `congestion_window()` -/
  w : Nat
  phase : Phase
  /-- `bytes_in_flight` -/
  inflight : Nat
  /-- `bytes_in_flight_hi` -/
  inflightHi : Nat
  underUtilized : Bool
  /-- `time_of_last_sent_packet` -/
  lastSent : Option Nat
  deriving Repr, DecidableEq

/-- `CubicCongestionController::new(max_datagram_size, Default::default())` -/
def init (mds : Nat) : State :=
  { mds := mds, w := initialWindow mds, phase := .slowStart, inflight := 0, inflightHi := 0,
    underUtilized := true, lastSent := none }

/-- `is_congestion_limited`: `congestion_window().saturating_sub(bytes_in_flight) < max_datagram_size` -/
def isCongestionLimited (s : State) : Bool := decide (s.w - s.inflight < s.mds)

/-- `requires_fast_retransmission` -/
def requiresFastRetransmission (s : State) : Bool :=
  match s.phase with
  | .recovery _ true => true
  | _ => false

/-- `is_congestion_window_under_utilized` (all operands are integers: it reads `congestion_window()`) -/
def isUnderUtilized (s : State) : Bool :=
  if isCongestionLimited s then false
  else if s.phase.isSlowStart && decide (s.inflight ≥ s.w / 2) then false
  else decide (s.w - s.inflight > s.mds * maxBurstMultiplier)

/-- The float expressions of cubic.rs, one field each (cast like `congestion_window()`), and the
    float comparisons between them. Which method reads which field is stated at the field. -/
structure Oracle where
  /-- `on_rtt_update`: `self.congestion_window >= self.slow_start.threshold` (after the hybrid-slow-start update) -/
  rttExit : Bool := false
  /-- `on_ack`: `*bytes_in_flight_hi as f32 * {SLOW_START_,}MAX_CWND_MULTIPLIER` before `.max(minimum_window())` -/
  maxCwndRaw : Nat := 0
  /-- `on_ack`: `self.congestion_window >= max_cwnd` (SlowStart / CongestionAvoidance arms) -/
  atMax : Bool := false
  /-- `on_ack`, SlowStart: `self.slow_start.cwnd_increment(bytes_acknowledged)` (≥ 0) -/
  ssInc : Nat := 0
  /-- `on_ack`, SlowStart: `self.congestion_window >= self.slow_start.threshold` after the increase -/
  ssExit : Bool := false
  /-- `congestion_avoidance`: `sent_bytes as f32 / 2.0` (≥ 0) -/
  halfAcked : Nat := 0
  /-- `congestion_avoidance`: `w_cubic < w_est` -/
  tcpFriendly : Bool := false
  /-- `congestion_avoidance`: `self.packets_to_bytes(w_est)` -/
  wEst : Nat := 0
  /-- `congestion_avoidance`: `self.congestion_window >= target_congestion_window` -/
  targetReached : Bool := false
  /-- `congestion_avoidance`: `window_increment` (> 0 behind the guard above) -/
  caInc : Nat := 0
  /-- `Cubic::multiplicative_decrease`: `cwnd * BETA_CUBIC` before `.max(self.minimum_window())` -/
  decrease : Nat := 0
  /-- `on_mtu_update`: `(self.congestion_window / old_mds as f32) * new_mds as f32` as it comes back
      from the `as u32` … `as f32` round trip -/
  scaled : Nat := 0
  deriving Repr, DecidableEq

/-- `on_packet_sent`: the value assigned to `under_utilized` (evaluated after `bytes_in_flight` was increased) -/
def underUtilizedAfterSend (s : State) (app : Option Bool) : Bool :=
  match app with
  | some a => a && isUnderUtilized s
  | none => isUnderUtilized s

/-- `on_packet_sent(time_sent, bytes_sent, app_limited, ..)` -/
def onPacketSent (s : State) (bytes now : Nat) (app : Option Bool) : Option State :=
  if bytes = 0 then some s                       -- "Packet was not congestion controlled"
  else if bytes > u32Max then none               -- try_add: `u32::try_from(usize)` fails → `.expect` panics
  else if s.inflight + bytes > u32Max then none  -- Counter `+=`: overflow panics (debug) / saturates (release)
  else
    some { s with inflight := s.inflight + bytes,
                  underUtilized := underUtilizedAfterSend { s with inflight := s.inflight + bytes } app,
                  phase := s.phase.clearFastRetransmission, lastSent := some now }

/-- `on_rtt_update(time_sent, now, ..)` -/
def onRttUpdate (s : State) (now : Nat) (o : Oracle) : Option State :=
  match s.lastSent with
  | none => none                                 -- `.expect("At least one packet must be sent to update RTT")`
  | some _ =>
    if s.phase.isSlowStart && o.rttExit then some { s with phase := Phase.congestionAvoidance now }
    else some s

/-- `congestion_avoidance(t, rtt, sent_bytes, max_cwnd)`; the inner
    `max_cwnd = (cwnd + sent_bytes / 2).min(max_cwnd)` is `min (s.w + o.halfAcked) maxCwnd` -/
def congestionAvoidance (s : State) (maxCwnd : Nat) (o : Oracle) : State :=
  if o.tcpFriendly then
    { s with w := sat32 (min o.wEst (min (s.w + o.halfAcked) maxCwnd)) }     -- NO lower clamp here
  else if o.targetReached then s
  else { s with w := sat32 (min (s.w + o.caInc) (min (s.w + o.halfAcked) maxCwnd)) }

/-- `on_ack`: "Check if this ack causes the controller to exit recovery" -/
def exitRecovery (s : State) (timeSent now : Nat) : State :=
  match s.phase with
  | .recovery start _ => if timeSent > start then { s with phase := Phase.congestionAvoidance now } else s
  | _ => s

/-- `on_ack` after the recovery-exit check: `max_cwnd`, the early return, the per-state arms -/
def ackGrow (s : State) (now : Nat) (o : Oracle) : State :=
  match s.phase with
  | .slowStart =>
    if o.atMax then s
    else if o.ssExit then
      { s with w := sat32 (min (s.w + o.ssInc) (max o.maxCwndRaw (minimumWindow s.mds))),
               phase := Phase.congestionAvoidance now }
    else { s with w := sat32 (min (s.w + o.ssInc) (max o.maxCwndRaw (minimumWindow s.mds))) }
  | .recovery _ _ =>
    -- `max_cwnd = self.congestion_window.max(minimum_window)`; neither branch changes anything
    if s.w ≥ max s.w (minimumWindow s.mds) then s else s
  | .congAvoid t =>
    if o.atMax then s
    else congestionAvoidance { s with phase := .congAvoid (t.onWindowIncrease now) } (max o.maxCwndRaw (minimumWindow s.mds)) o

/-- `on_ack(newest_acked_time_sent, bytes_acknowledged, .., ack_receive_time, ..)` -/
def onAck (s : State) (timeSent bytes now : Nat) (o : Oracle) : Option State :=
  if bytes > u32Max then none                    -- try_sub: conversion fails → `.expect` panics
  else if s.inflight < bytes then none           -- Counter `-=`: underflow panics (debug) / saturates (release)
  else if s.underUtilized then
    some { s with inflightHi := max s.inflightHi s.inflight, inflight := s.inflight - bytes,
                  phase := s.phase.onAppLimited now }
  else
    some (ackGrow (exitRecovery { s with inflightHi := max s.inflightHi s.inflight, inflight := s.inflight - bytes } timeSent now) now o)

/-- `on_congestion_event(event_time)`: `bytes_in_flight_hi` is reset first, then
    "No reaction if already in a recovery period." -/
def onCongestionEvent (s : State) (now : Nat) (o : Oracle) : State :=
  match s.phase with
  | .recovery _ _ => { s with inflightHi := 0 }
  | _ => { s with inflightHi := 0, phase := .recovery now true, w := sat32 (max o.decrease (minimumWindow s.mds)) }

/-- `on_packet_lost(lost_bytes: u32, _, persistent_congestion, _, _, timestamp, ..)` -/
def onPacketLost (s : State) (bytes : Nat) (persistent : Bool) (now : Nat) (o : Oracle) : Option State :=
  if bytes = 0 then none                         -- `debug_assert!(lost_bytes > 0)`
  else if s.inflight < bytes then none           -- Counter `-=`
  else if persistent then
    some { onCongestionEvent { s with inflight := s.inflight - bytes } now o with
           w := minimumWindow s.mds, phase := .slowStart }
  else some (onCongestionEvent { s with inflight := s.inflight - bytes } now o)

/-- `on_explicit_congestion(_, event_time, ..)` -/
def onExplicitCongestion (s : State) (now : Nat) (o : Oracle) : Option State :=
  some (onCongestionEvent s now o)

/-- `on_mtu_update(max_datagram_size, ..)`:
    `self.congestion_window = max(congestion_window as u32, initial_window) as f32` -/
def onMtuUpdate (s : State) (mds : Nat) (o : Oracle) : Option State :=
  if mds > u16Max then none                      -- not a `u16`: outside the domain of the trait method
  else some { s with mds := mds, w := sat32 (max (sat32 o.scaled) (initialWindow mds)) }

/-- `on_packet_discarded(bytes_sent, ..)` -/
def onPacketDiscarded (s : State) (bytes : Nat) : Option State :=
  if bytes > u32Max then none
  else if s.inflight < bytes then none
  else some { s with inflight := s.inflight - bytes, phase := s.phase.clearFastRetransmission }

inductive Op
  | sent (bytes now : Nat) (appLimited : Option Bool)
  | rtt (now : Nat)
  | ack (timeSent bytes now : Nat)
  | lost (bytes : Nat) (persistent : Bool) (now : Nat)
  | ecn (now : Nat)
  | mtu (mds : Nat)
  | discard (bytes : Nat)
  deriving Repr, DecidableEq

/-- one trait call; `none` = the real (debug-assertions) build panics -/
def step (s : State) (op : Op) (o : Oracle) : Option State :=
  match op with
  | .sent b now app => onPacketSent s b now app
  | .rtt now => onRttUpdate s now o
  | .ack ts b now => onAck s ts b now o
  | .lost b p now => onPacketLost s b p now o
  | .ecn now => onExplicitCongestion s now o
  | .mtu mds => onMtuUpdate s mds o
  | .discard b => onPacketDiscarded s b

/-- a history: each call with the oracle values it saw -/
def run (s : State) : List (Op × Oracle) → Option State
  | [] => some s
  | (op, o) :: rest =>
    match step s op o with
    | some s' => run s' rest
    | none => none

/-- `P` holds of every (pre-state, call, oracle) along the history -/
def Along (P : State → Op → Oracle → Prop) : State → List (Op × Oracle) → Prop
  | _, [] => True
  | s, (op, o) :: rest =>
    P s op o ∧ (match step s op o with
      | some s' => Along P s' rest
      | none => True)

/-! ### what is observable through the trait (the harness prints exactly this) -/

structure Obs where
  cwnd : Nat
  inflight : Nat
  limited : Bool
  fastRtx : Bool
  /-- 0 slow_start, 1 recovery, 2 congestion_avoidance -/
  phase : Nat
  deriving Repr, DecidableEq

def Phase.tag : Phase → Nat
  | .slowStart => 0
  | .recovery _ _ => 1
  | .congAvoid _ => 2

def observe (s : State) : Obs :=
  { cwnd := s.w, inflight := s.inflight, limited := isCongestionLimited s, fastRtx := requiresFastRetransmission s,
    phase := s.phase.tag }

/-! ### relational check used by the driver
  `candidates s op obs` proposes oracle values under which the skeleton could have produced the
  observed post-state; `accept` runs the real `step` on them. By construction a successful `accept`
  is a step of the skeleton (`accept_sound`). -/

def candidates (s : State) (op : Op) (obs : Obs) : List Oracle :=
  let W := obs.cwnd
  match op with
  | .sent .. => [{}]
  | .discard .. => [{}]
  | .rtt _ => [{}, { rttExit := true }]
  | .lost .. => [{ decrease := W }]
  | .ecn _ => [{ decrease := W }]
  | .mtu _ => [{ scaled := W }]
  | .ack .. =>
    [ { atMax := true },
      { maxCwndRaw := W, ssInc := W - s.w },
      { maxCwndRaw := W, ssInc := W - s.w, ssExit := true },
      { maxCwndRaw := max W s.w, targetReached := true },
      { maxCwndRaw := max W s.w, halfAcked := W - s.w, caInc := W - s.w },
      { maxCwndRaw := max W s.w, halfAcked := W - s.w, tcpFriendly := true, wEst := W } ]

def accept (s : State) (op : Op) (obs : Obs) : Option (Oracle × State) :=
  (candidates s op obs).findSome? fun o =>
    match step s op o with
    | some s' => if observe s' = obs then some (o, s') else none
    | none => none

/-- the real code panicked: admitted iff the skeleton panics too (it never depends on the oracle) -/
def acceptPanic (s : State) (op : Op) : Bool := (step s op {}).isNone

end Quic.Recovery.Cubic
