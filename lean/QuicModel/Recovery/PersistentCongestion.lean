/-
  Model of `s2n_quic_core::recovery::persistent_congestion::Calculator`
  (`quic/s2n-quic-core/src/recovery/persistent_congestion.rs`).  Timestamps µs, durations ns.
-/
namespace Quic.Recovery.PersistentCongestion

/-- `struct Period { start, end, prev_packet }` -/
structure Period where
  start : Nat
  «end» : Nat
  prevPacket : Nat
deriving Repr, DecidableEq

structure Calculator where
  currentPeriod : Option Period
  /-- `max_duration` (ns) -/
  maxDuration : Nat
  firstRttSample : Option Nat
  pathId : Nat
deriving Repr, DecidableEq

/-- `Calculator::new(first_rtt_sample, path_id)` -/
def Calculator.new (firstRttSample : Option Nat) (pathId : Nat) : Calculator :=
  { currentPeriod := none, maxDuration := 0, firstRttSample := firstRttSample, pathId := pathId }

/-- `Period::is_contiguous`: `packet_number.checked_distance(self.prev_packet) == Some(1)` -/
def Period.isContiguous (p : Period) (pn : Nat) : Bool := decide (p.prevPacket ≤ pn ∧ pn - p.prevPacket = 1)

/-- `Period::duration`: `self.end - self.start` (ns) -/
def Period.duration (p : Period) : Nat := (p.«end» - p.start) * 1000

/-- `Calculator::on_lost_packet(packet_number, packet_info)` with the fields of `packet_info` it reads -/
def Calculator.onLostPacket (c : Calculator) (pn timeSent pathId : Nat) (mtuProbing ackEliciting : Bool) :
    Calculator :=
  -- ensure!(self.first_rtt_sample.is_some_and(|ts| packet_info.time_sent >= ts));
  match c.firstRttSample with
  | none => c
  | some ts =>
  if !(decide (timeSent ≥ ts)) then c else
  -- ensure!(packet_info.path_id == self.path_id);
  if !(decide (pathId = c.pathId)) then c else
  -- ensure!(!packet_info.transmission_mode.is_mtu_probing());
  if mtuProbing then c else
  let c :=
    match c.currentPeriod with
    | some p =>
      if p.isContiguous pn then
        let p' : Period := { start := p.start, «end» := if ackEliciting then timeSent else p.«end», prevPacket := pn }
        { c with currentPeriod := some p', maxDuration := max c.maxDuration p'.duration }
      else { c with currentPeriod := none }
    | none => c
  if c.currentPeriod.isNone && ackEliciting then
    { c with currentPeriod := some { start := timeSent, «end» := timeSent, prevPacket := pn } }
  else c

end Quic.Recovery.PersistentCongestion
