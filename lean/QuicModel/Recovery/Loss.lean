/-
  Model of `s2n_quic_core::recovery::loss::detect` and of the two `Timestamp` operations it
  uses (`quic/s2n-quic-core/src/recovery/loss.rs`, `time/timestamp.rs`).

  Units (as in the code): a `Timestamp` is a number of MICROseconds since the clock epoch
  (`NonZeroU64`), a `Duration` is a number of NANOseconds.  Both are `Nat` here.
  Documented domain: timestamps < 2^62 µs, durations < 2^62 ns (beyond that the Rust code
  panics on `u64`/`Duration` overflow in debug builds; the drivers answer `bad-op`).
-/
namespace Quic.Recovery.Time

/-- `K_GRANULARITY` (1 ms) in nanoseconds -/
def K_GRANULARITY_NS : Nat := 1000000
/-- `K_GRANULARITY.as_micros() as u64` -/
def K_GRANULARITY_US : Nat := 1000

/-- `Timestamp::has_elapsed(self, now)`:
    `let mut now = now.0.get(); now += K_GRANULARITY.as_micros() as u64; self.0.get() < now` -/
def hasElapsed (self now : Nat) : Bool :=
  let now := now
  let now := now + K_GRANULARITY_US
  decide (self < now)

/-- `Timestamp + Duration` = `from_duration_impl(as_duration_impl(self) + rhs)`: the sum is taken
    in nanoseconds and truncated to whole microseconds (`duration.as_micros() as u64`).
    (`(ts*1000 + d) / 1000 = ts + d/1000`; the "round 0 up to 1 µs" branch is unreachable since
    timestamps are non-zero.) -/
def tsAdd (ts : Nat) (durNs : Nat) : Nat := ts + durNs / 1000

/-- `Timestamp - Timestamp` as a `Duration` in ns (`None` = the `Duration` subtraction panics) -/
def tsSub? (a b : Nat) : Option Nat := if b ≤ a then some ((a - b) * 1000) else none

/-- `Timer::is_expired` for `expiration: Option<Timestamp>` -/
def timerExpired (expiration : Option Nat) (now : Nat) : Bool :=
  match expiration with
  | some t => hasElapsed t now
  | none => false

end Quic.Recovery.Time

namespace Quic.Recovery.Loss
open Quic.Recovery.Time

/-- `pub const K_PACKET_THRESHOLD: u64 = 3;` -/
def K_PACKET_THRESHOLD : Nat := 3

/-- `loss::Outcome` -/
inductive Outcome where
  | notLostYet (lostTime : Nat)
  | lost
deriving Repr, DecidableEq

/-- `loss::detect`.  `none` = the `debug_assert!(largest_acked_packet_number > packet_number)`
    fires (debug builds; the harness is a debug build).  Argument order as in the Rust function:
    `time_threshold` (ns), `time_sent` (µs), `packet_number_threshold`, `packet_number`,
    `largest_acked_packet_number`, `now` (µs). -/
def detect (timeThreshold timeSent packetNumberThreshold packetNumber largestAcked now : Nat) :
    Option Outcome :=
  if !(decide (largestAcked > packetNumber)) then none else
  let packetLostTime := tsAdd timeSent timeThreshold
  let timeThresholdExceeded := hasElapsed packetLostTime now
  let packetNumberThresholdExceeded := decide (largestAcked - packetNumber ≥ packetNumberThreshold)
  if timeThresholdExceeded || packetNumberThresholdExceeded then some Outcome.lost else
  some (Outcome.notLostYet packetLostTime)

end Quic.Recovery.Loss
