/-
  Transcription of quic/s2n-quic-core/src/recovery/pacing.rs (`Pacer`) with the pieces of
  recovery/bandwidth/estimator.rs (`Bandwidth::new`, `Mul<Ratio<u64>>`, `u64 / Bandwidth`) and of
  num-rational 0.4 (`Ratio<T> * T`) that `Pacer::interval` goes through.
  Timestamps in µs, durations in ns, machine integers as `Nat` with explicit wrap / saturation;
  arithmetic panics of a debug build (`debug_assert_ne!(congestion_window, 0)`, `u64` multiply
  overflow inside `Ratio * u64`) are `none`.
-/
namespace Quic.Recovery.Pacer

def u64Max : Nat := 2 ^ 64 - 1
/-- `MAX_BURST_PACKETS` (recovery/mod.rs) -/
def maxBurstPackets : Nat := 10
/-- `N` = 5/4 and `SLOW_START_N` = 2/1 as (numer, denom) -/
def nRatio : Nat × Nat := (5, 4)
def slowStartN : Nat × Nat := (2, 1)
/-- `INITIAL_INTERVAL` in ns (0 ms) -/
def initialIntervalNs : Nat := 0
/-- `MINIMUM_PACING_RTT` in ns (2 ms) -/
def minimumPacingRttNs : Nat := 2000000
/-- `KIBIBYTE_SHIFT` -/
def kibibyteShift : Nat := 10

/-- `Bandwidth::new(bytes, interval)`: `nanos_per_kibibyte` (`Bandwidth::ZERO` = `u64::MAX`);
    the `u64 <<` drops the bits shifted out -/
def bandwidthNew (bytes intervalNs : Nat) : Nat :=
  let interval := (intervalNs % 2 ^ 64) * 2 ^ kibibyteShift % 2 ^ 64
  if interval = 0 ∨ bytes = 0 then u64Max else interval / bytes

/-- `Bandwidth * Ratio<u64>`: `(rhs.inv() * npk).to_integer()` with num-rational's
    `Ratio<T> * T = Ratio::new(numer * (rhs / gcd), denom / gcd)`, `gcd = gcd(denom, rhs)`;
    `none` = the `u64` multiplication overflows (panic with overflow checks, wrap without) -/
def bandwidthMulRatio (npk : Nat) (n : Nat × Nat) : Option Nat :=
  if npk = u64Max then some u64Max
  else
    -- rhs.inv() = denom/numer
    let numer := n.2
    let denom := n.1
    let g := Nat.gcd denom npk
    let p := numer * (npk / g)
    if p > u64Max then none else some (p / (denom / g))

/-- `u64 / Bandwidth`: `Duration::from_nanos(npk.saturating_mul(bytes) >> KIBIBYTE_SHIFT)` -/
def bytesDivBandwidth (bytes npk : Nat) : Nat :=
  (Nat.min (npk * bytes) u64Max) / 2 ^ kibibyteShift

/-- `Pacer::interval` in ns; `none` = panic (debug assertion / overflow check) -/
def interval (rttNs cwnd mds : Nat) (slowStart : Bool) : Option Nat :=
  if cwnd = 0 then none
  else
    let n := if slowStart then slowStartN else nRatio
    match bandwidthMulRatio (bandwidthNew cwnd rttNs) n with
    | none => none
    | some rate => some (bytesDivBandwidth (maxBurstPackets * mds) rate)

structure State where
  capacity : Nat := 0
  next : Option Nat := none
  deriving Repr, DecidableEq

def init : State := {}

/-- `Timestamp + Duration` for a whole-µs timestamp: sub-µs nanoseconds are truncated by
    `from_duration_impl` (`as_micros() as u64`) -/
def tsAdd (tUs dNs : Nat) : Nat := tUs + dNs / 1000

/-- `Pacer::on_packet_sent`; `none` = panic -/
def onPacketSent (s : State) (now bytesSent srttNs cwnd mds : Nat) (slowStart : Bool) : Option State :=
  if srttNs < minimumPacingRttNs then some s
  else if s.capacity = 0 then
    match s.next with
    | some nx =>
      match interval srttNs cwnd mds slowStart with
      | none => none
      | some iv =>
        some { capacity := maxBurstPackets * mds - bytesSent, next := some (Nat.max (tsAdd nx iv) now) }
    | none =>
      some { capacity := maxBurstPackets * mds - bytesSent, next := some (tsAdd now initialIntervalNs) }
  else some { s with capacity := s.capacity - bytesSent }

def earliestDepartureTime (s : State) : Option Nat := s.next

end Quic.Recovery.Pacer
