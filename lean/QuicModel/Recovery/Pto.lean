import QuicModel.Recovery.Loss
/-
  Model of `s2n_quic_core::recovery::Pto` (`quic/s2n-quic-core/src/recovery/pto.rs`):
  a `Timer` (`Option<Timestamp>`, µs) and the probe state machine.
-/
namespace Quic.Recovery.Pto
open Quic.Recovery.Time

/-- `enum State { Idle, RequiresTransmission(u8) }` -/
inductive State where
  | idle
  | requiresTransmission (count : Nat)
deriving Repr, DecidableEq

structure Pto where
  timer : Option Nat := none
  state : State := State.idle
deriving Repr, DecidableEq

/-- `Pto::default()` -/
def init : Pto := {}

/-- `State::transmissions` -/
def State.transmissions : State → Nat
  | .idle => 0
  | .requiresTransmission c => c

/-- `State::on_transmit`; `none` = `debug_assert!(false, "transmitted pto in idle state")` -/
def State.onTransmit : State → Option State
  | .idle => none
  | .requiresTransmission 0 => none
  | .requiresTransmission 1 => some .idle
  | .requiresTransmission (n + 2) => some (.requiresTransmission (n + 1))

/-- `Pto::on_timeout(packets_in_flight, timestamp)`; the Bool is `Poll::Ready` -/
def onTimeout (p : Pto) (packetsInFlight : Bool) (timestamp : Nat) : Pto × Bool :=
  -- `ensure!(self.timer.poll_expiration(timestamp).is_ready(), Poll::Pending)`
  if !(timerExpired p.timer timestamp) then (p, false) else
  let transmissionCount := if packetsInFlight then 2 else 1
  ({ timer := none, state := State.requiresTransmission transmissionCount }, true)

/-- `Pto::update(base_timestamp, pto_period)` : `self.timer.set(base_timestamp + pto_period)` -/
def update (p : Pto) (baseTimestamp ptoPeriodNs : Nat) : Pto :=
  { p with timer := some (tsAdd baseTimestamp ptoPeriodNs) }

/-- `Pto::cancel` -/
def cancel (p : Pto) : Pto := { p with timer := none }

/-- `Pto::transmissions` -/
def transmissions (p : Pto) : Nat := p.state.transmissions

/-- `Pto::on_transmit_once` -/
def onTransmitOnce (p : Pto) : Option Pto :=
  match p.state.onTransmit with
  | some s => some { p with state := s }
  | none => none

/-- `Pto::force_transmit` -/
def forceTransmit (p : Pto) : Pto :=
  match p.state with
  | .idle => { p with state := .requiresTransmission 1 }
  | _ => p

/-- `<Pto as transmission::Provider>::on_transmit(context)`.
    `probing` = `context.transmission_mode().is_loss_recovery_probing()`,
    `ackEliciting` = `context.ack_elicitation().is_ack_eliciting()`,
    `writeOk` = whether `write_frame_forced(&Ping)` succeeds.
    Result: new state and whether a PING was written. -/
def onTransmit (p : Pto) (probing ackEliciting writeOk : Bool) : Option (Pto × Bool) :=
  if !probing then some (p, false) else
  if !(decide (transmissions p > 0)) then some (p, false) else
  if !ackEliciting then
    if !writeOk then some (p, false) else
    match onTransmitOnce p with
    | some p' => some (p', true)
    | none => none
  else
    match onTransmitOnce p with
    | some p' => some (p', false)
    | none => none

end Quic.Recovery.Pto
