/-
  `Path::transmission_constraint` (quic/s2n-quic-transport/src/path/mod.rs) and the
  `transmission::Constraint` enum (quic/s2n-quic-core/src/transmission/constraint.rs) as a
  decision table. The crate is private: this is model + tie G only (tools/extractors/congestion.py
  reads the branch order and the `can_transmit`/`can_retransmit` definitions).
-/
namespace Quic.Recovery.SendGate

/-- `transmission::Constraint`, in the declaration (= `Ord`) order of the enum -/
inductive Constraint
  | none
  | retransmissionOnly
  | congestionLimited
  | amplificationLimited
  deriving Repr, DecidableEq

def Constraint.rank : Constraint → Nat
  | .none => 0
  | .retransmissionOnly => 1
  | .congestionLimited => 2
  | .amplificationLimited => 3

/-- `Path::transmission_constraint`:
    `if at_amplification_limit() { AmplificationLimited }
     else if cc.is_congestion_limited() { if cc.requires_fast_retransmission() { RetransmissionOnly } else { CongestionLimited } }
     else { None }` -/
def transmissionConstraint (atAmplificationLimit congestionLimited requiresFastRetransmission : Bool) : Constraint :=
  if atAmplificationLimit then .amplificationLimited
  else if congestionLimited then
    if requiresFastRetransmission then .retransmissionOnly else .congestionLimited
  else .none

/-- `Constraint::can_transmit` -/
def Constraint.canTransmit : Constraint → Bool
  | .none => true
  | _ => false

/-- `Constraint::can_retransmit` -/
def Constraint.canRetransmit (c : Constraint) : Bool :=
  c.canTransmit || (match c with | .retransmissionOnly => true | _ => false)

/-- `is_congestion_limited` of both controllers:
    `congestion_window().saturating_sub(bytes_in_flight) < max_datagram_size` -/
def isCongestionLimited (cwnd inflight mds : Nat) : Bool := decide (cwnd - inflight < mds)

end Quic.Recovery.SendGate
