import QuicModel.Recovery.Loss
import QuicModel.Recovery.Rtt
import QuicModel.Recovery.Pto
import QuicModel.Recovery.PersistentCongestion
/-
  Model of the stateful `recovery::Manager` of s2n-quic-transport
  (`quic/s2n-quic-transport/src/recovery/manager.rs`, private to that crate) together with the
  part of its `Context`/`Path` it reads and writes:

    * `sent_packets` as a list ordered by packet number, `largest_acked_packet`, `loss_timer`,
      `pto`, `time_of_last_ack_eliciting_packet`, `pto_update_pending`;
    * per path: the `RttEstimator`, `pto_backoff`, `is_peer_validated`, `at_amplification_limit`
      and the congestion controller's `bytes_in_flight` counter, abstracted to its four update
      sites `on_packet_sent` (+), `on_ack` (−), `on_packet_lost` (−), `on_packet_discarded` (−).
      The counter is a checked `Counter<u32>`: an underflow would panic; the model records it in
      the sticky flag `underflow` (so "never negative" is a theorem, not an assumption).

  It calls the public pieces modelled (and tied to /repo by G and D) elsewhere: `Loss.detect`,
  `Rtt.lossTimeThreshold/updateRtt/ptoPeriod`, `Pto`, `PersistentCongestion.Calculator`.
  Not modelled: ECN validation, MTU controller reactions, pacing, events, PTO jitter (0).

  Ghost fields (not in the code): `nextPn` (= `TxPacketNumbers.next`, what
  `validate_packet_ack` compares against), `clock` (ops carry non-decreasing timestamps),
  `underflow`, `panicked` (a `debug_assert!`/`expect` of the code would fire), `closed`.
-/
namespace Quic.Recovery.Manager
open Quic.Recovery Quic.Recovery.Rtt Quic.Recovery.Time

/-- `SentPacketInfo` (the fields the manager reads) + its packet number -/
structure SentInfo where
  pn : Nat
  congestionControlled : Bool
  /-- `sent_bytes`: 0 unless congestion controlled -/
  sentBytes : Nat
  timeSent : Nat
  ackEliciting : Bool
  pathId : Nat
  /-- `transmission_mode.is_mtu_probing()` -/
  mtuProbe : Bool
deriving Repr, DecidableEq

structure PathState where
  rtt : RttEstimator
  bytesInFlight : Nat := 0
  ptoBackoff : Nat := 1
  peerValidated : Bool := true
  atAmplificationLimit : Bool := false
deriving Repr, DecidableEq

structure Manager where
  space : Space
  largestAcked : Option Nat := none
  sent : List SentInfo := []
  lossTimer : Option Nat := none
  pto : Pto.Pto := {}
  timeOfLastAckEliciting : Option Nat := none
  ptoUpdatePending : Bool := false
  -- context
  paths : Nat → PathState
  activePath : Nat := 0
  handshakeConfirmed : Bool := false
  maxPtoBackoff : Nat := 4294967295
  -- ghost
  /-- `TxPacketNumbers.next`: the next packet number to be handed out -/
  nextPn : Nat := 0
  clock : Nat := 1
  underflow : Bool := false
  panicked : Bool := false
  closed : Bool := false

/-- what one operation reports (packet numbers) -/
structure Out where
  sent : List Nat := []
  acked : List Nat := []
  lost : List Nat := []
  discarded : List Nat := []
deriving Repr, DecidableEq

def defaultRtt : RttEstimator :=
  { latestRtt := DEFAULT_INITIAL_RTT, minRtt := DEFAULT_INITIAL_RTT, smoothedRtt := DEFAULT_INITIAL_RTT, rttvar := DEFAULT_INITIAL_RTT / 2, maxAckDelay := 0, firstRttSample := none }

def defaultPath : PathState := { rtt := defaultRtt }

/-- `Manager::new(space)` with default paths -/
def init (space : Space) : Manager := { space := space, paths := fun _ => defaultPath }

def setPath (ps : Nat → PathState) (i : Nat) (p : PathState) : Nat → PathState :=
  fun j => if j = i then p else ps j

/-- congestion controller `on_packet_sent(bytes)` -/
def addBif (m : Manager) (path n : Nat) : Manager :=
  let p := m.paths path
  { m with paths := setPath m.paths path { p with bytesInFlight := p.bytesInFlight + n } }

/-- congestion controller `on_ack` / `on_packet_lost` / `on_packet_discarded`: checked subtraction -/
def subBif (m : Manager) (path n : Nat) : Manager :=
  let p := m.paths path
  if n ≤ p.bytesInFlight then
    { m with paths := setPath m.paths path { p with bytesInFlight := p.bytesInFlight - n } }
  else
    { m with paths := setPath m.paths path { p with bytesInFlight := 0 }, underflow := true }

def ackElicitingInFlight (m : Manager) : Bool := m.sent.any (fun p => p.ackEliciting)

/-- `Manager::update_pto_timer(active_path, now, is_handshake_confirmed, rng)` -/
def updatePtoTimer (m : Manager) (now : Nat) : Manager :=
  let m := { m with ptoUpdatePending := false }
  let active := m.paths m.activePath
  if m.lossTimer.isSome then { m with pto := Pto.cancel m.pto }
  else if active.atAmplificationLimit then { m with pto := Pto.cancel m.pto }
  else if m.space.isApplicationData && !m.handshakeConfirmed then { m with pto := Pto.cancel m.pto }
  else
    let ae := ackElicitingInFlight m
    if !ae && active.peerValidated then { m with pto := Pto.cancel m.pto }
    else
      -- `.expect("there is at least one ack eliciting packet in flight")`
      let base := if ae then m.timeOfLastAckEliciting.getD now else now
      { m with pto := Pto.update m.pto base (ptoPeriod active.rtt active.ptoBackoff m.space),
               panicked := m.panicked || (ae && m.timeOfLastAckEliciting.isNone) }

/-- `Manager::on_packet_sent` -/
def onPacketSent (m : Manager) (pn bytes : Nat) (cc ackEliciting : Bool) (now pathId : Nat) (mtuProbe : Bool) :
    Manager :=
  let ccBytes := if cc then bytes else 0
  let m := addBif m pathId ccBytes
  let info : SentInfo := { pn := pn, congestionControlled := cc, sentBytes := ccBytes, timeSent := now,
                           ackEliciting := ackEliciting, pathId := pathId, mtuProbe := mtuProbe }
  let m := { m with sent := m.sent ++ [info], nextPn := pn + 1 }
  if ackEliciting then { m with timeOfLastAckEliciting := some now, ptoUpdatePending := true } else m

/-- `Manager::on_transmit_burst_complete` -/
def onTransmitBurstComplete (m : Manager) (now : Nat) : Manager :=
  if m.ptoUpdatePending then updatePtoTimer m now else m

/-- is this unacknowledged packet declared lost at `now`? (`loss::detect` with the packet's path's
    `loss_time_threshold()` and `K_PACKET_THRESHOLD`) -/
def isLost (m : Manager) (la now : Nat) (p : SentInfo) : Bool :=
  Loss.detect (lossTimeThreshold (m.paths p.pathId).rtt) p.timeSent Loss.K_PACKET_THRESHOLD p.pn la now
    == some Loss.Outcome.lost

/-- per lost packet in `remove_lost_packets` -/
def lostOne (pcDuration curPath : Nat) (m : Manager) (p : SentInfo) : Manager :=
  let path := m.paths p.pathId
  let persistent := decide (pcDuration > persistentCongestionThreshold path.rtt) && decide (p.pathId = curPath)
  -- mtu probe: `on_packet_discarded(sent_bytes)`; otherwise `on_packet_lost(sent_bytes)` when > 0
  let m := if p.mtuProbe then subBif m p.pathId p.sentBytes
           else if p.sentBytes > 0 then subBif m p.pathId p.sentBytes else m
  if persistent then
    let path := m.paths p.pathId
    { m with paths := setPath m.paths p.pathId { path with rtt := onPersistentCongestion path.rtt } }
  else m

/-- the `NotLostYet` arm of `detect_lost_packets`: the walk stopped at `rest.head?`; if that packet
    was sent before the largest acknowledged one, arm the loss timer for it and cancel the PTO -/
def armLossTimer (m : Manager) (la now : Nat) (rest : List SentInfo) : Manager :=
  match rest.head? with
  | none => m
  | some p =>
    if p.pn > la then m else
    match Loss.detect (lossTimeThreshold (m.paths p.pathId).rtt) p.timeSent Loss.K_PACKET_THRESHOLD p.pn la now with
    | some (Loss.Outcome.notLostYet t) => { m with lossTimer := some t, pto := Pto.cancel m.pto }
    | some Loss.Outcome.lost => m
    | none => { m with panicked := true }       -- `detect`'s debug assertion (pn = largest acked)

/-- `detect_lost_packets` + `remove_lost_packets` for a known largest acknowledged packet `la`;
    `curPath` = `context.path_id()`.  The code walks `sent_packets` in ascending order and stops at
    the first packet that is not lost (or beyond `la`); the lost prefix is then removed. -/
def detectWith (m : Manager) (la now curPath : Nat) : Manager × List SentInfo :=
  let lost := m.sent.takeWhile (isLost m la now)
  let rest := m.sent.dropWhile (isLost m la now)
  let m := armLossTimer m la now rest
  let pc := lost.foldl (fun c p => c.onLostPacket p.pn p.timeSent p.pathId p.mtuProbe p.ackEliciting)
    (PersistentCongestion.Calculator.new (m.paths curPath).rtt.firstRttSample curPath)
  let m := { m with sent := rest }
  (lost.foldl (lostOne pc.maxDuration curPath) m, lost)

/-- `detect_and_remove_lost_packets(now, …)`: cancel the loss timer, then detect and remove -/
def detectAndRemoveLost (m : Manager) (now curPath : Nat) : Manager × List SentInfo :=
  match m.largestAcked with
  -- `.expect("This function is only called after an ack has been received")`
  | none => ({ m with lossTimer := none, panicked := true }, [])
  | some la => detectWith { m with lossTimer := none } la now curPath

/-- `on_timeout`, loss-timer branch (the armed loss timer has expired) -/
def onLossTimeout (m : Manager) (now : Nat) : Manager × Out :=
  let det := detectAndRemoveLost { m with lossTimer := none } now m.activePath
  (updatePtoTimer det.1 now, { lost := det.2.map (·.pn) })

/-- `on_timeout`, PTO branch (no loss timer armed): "A PTO timer expiration event does not indicate
    packet loss and MUST NOT cause prior unacknowledged packets to be marked as lost"; the back-off is
    doubled (capped by `max_pto_backoff`) and the PTO re-armed -/
def onPtoTimeout (m : Manager) (now : Nat) : Manager × Out :=
  let r := Pto.onTimeout m.pto (!m.sent.isEmpty) now
  let m := { m with pto := r.1 }
  if r.2 then
    let active := m.paths m.activePath
    let active' : PathState := { active with ptoBackoff := min (active.ptoBackoff * 2) m.maxPtoBackoff }
    let m := { m with paths := setPath m.paths m.activePath active' }
    (updatePtoTimer m now, {})
  else (m, {})

/-- `Manager::on_timeout(timestamp, …, max_pto_backoff, context, …)` -/
def onTimeout (m : Manager) (now : Nat) : Manager × Out :=
  let m := if m.ptoUpdatePending then { m with panicked := true } else m   -- debug_assert!(!self.pto_update_pending)
  if m.lossTimer.isSome then
    if timerExpired m.lossTimer now then onLossTimeout m now else (m, {})
  else onPtoTimeout m now

def inRanges (ranges : List (Nat × Nat)) (pn : Nat) : Bool :=
  ranges.any (fun r => decide (r.1 ≤ pn) && decide (pn ≤ r.2))

/-- per newly acked packet in `process_new_acked_packets` -/
def ackOne (rxPath : Nat) (m : Manager) (p : SentInfo) : Manager :=
  let m := if p.pathId = rxPath then m
           else if p.sentBytes > 0 then subBif m p.pathId p.sentBytes else m
  let path := m.paths p.pathId
  if path.peerValidated then { m with paths := setPath m.paths p.pathId { path with ptoBackoff := 1 } } else m

def sumBytes (l : List SentInfo) : Nat := (l.map (·.sentBytes)).sum

/-- "Update the largest acked packet if the largest packet acked in this frame is larger" -/
def updateLargestAcked (m : Manager) (frameLargest : Nat) : Manager :=
  match m.largestAcked with
  | some cur => if cur > frameLargest then m else { m with largestAcked := some frameLargest }
  | none => { m with largestAcked := some frameLargest }

/-- `update_congestion_control`: the RTT sample (only when the ACK was received on the path the
    largest newly acked packet was sent on, that packet is the frame's largest acknowledged, and
    an ack-eliciting packet was newly acknowledged) -/
def rttSample (m : Manager) (lna : SentInfo) (frameLargest ackDelay now rxPath : Nat) (includesAckEliciting : Bool) :
    Manager :=
  if rxPath = lna.pathId ∧ lna.pn = frameLargest ∧ includesAckEliciting = true then
    let latestRtt := (now - lna.timeSent) * 1000
    let path := m.paths lna.pathId
    let path' : PathState := { path with rtt := updateRtt path.rtt ackDelay latestRtt now m.handshakeConfirmed m.space }
    { m with paths := setPath m.paths lna.pathId path' }
  else m

/-- `process_new_acked_packets` for the newly acknowledged packets `newly` (already removed from `sent`) -/
def processNewAcked (m : Manager) (newly : List SentInfo) (now rxPath : Nat) : Manager × Out :=
  let det := detectAndRemoveLost m now rxPath
  let m := newly.foldl (ackOne rxPath) det.1
  let m := updatePtoTimer m now
  let cur := sumBytes (newly.filter (fun p => decide (p.pathId = rxPath)))
  let m := if cur > 0 then subBif m rxPath cur else m
  (m, { acked := newly.map (·.pn), lost := det.2.map (·.pn) })

def frameLargest (ranges : List (Nat × Nat)) : Nat := ranges.foldl (fun a r => max a r.2) 0

/-- `Manager::on_ack_frame` → `process_acks` (after `validate_packet_ack` accepted every range).
    `ranges` are inclusive `(smallest, largest)`; `frameLargest` is `frame.largest_acknowledged()`.
    `process_ack_range` calls `sent_packets.remove_range` for every range: the newly acknowledged
    packets are the tracked ones inside some range. -/
def processAcks (m : Manager) (ranges : List (Nat × Nat)) (ackDelay now rxPath : Nat) : Manager × Out :=
  let newly := m.sent.filter (fun p => inRanges ranges p.pn)
  let m := updateLargestAcked { m with sent := m.sent.filter (fun p => !inRanges ranges p.pn) } (frameLargest ranges)
  match newly.getLast? with
  | none => (m, {})
  | some lna =>
    processNewAcked (rttSample m lna (frameLargest ranges) ackDelay now rxPath (newly.any (fun p => p.ackEliciting)))
      newly now rxPath

/-- `on_packet_number_space_discarded(path, path_id)`; afterwards the space (and this manager) is dropped -/
def onSpaceDiscarded (m : Manager) (pathId : Nat) : Manager × Out :=
  let m := subBif m pathId (sumBytes m.sent)
  ({ m with sent := [], closed := true }, { discarded := m.sent.map (·.pn) })

/-- `on_retry_packet(path, path_id)`: discard everything and start over -/
def onRetry (m : Manager) (pathId : Nat) : Manager × Out :=
  let out : Out := { discarded := m.sent.map (·.pn) }
  let m := subBif m pathId (sumBytes m.sent)
  ({ m with largestAcked := none, sent := [], lossTimer := none, pto := {}, timeOfLastAckEliciting := none,
            ptoUpdatePending := false }, out)

/-! ### operations -/

inductive Op where
  | send (pn bytes : Nat) (cc ackEliciting : Bool) (now pathId : Nat) (mtuProbe : Bool)
  | burstComplete (now : Nat)
  | ackFrame (ranges : List (Nat × Nat)) (ackDelay now rxPath : Nat)
  | timeout (now : Nat)
  | discardSpace (pathId : Nat)
  | retry (pathId : Nat)
  | setConfirmed
  | setPathFlags (pathId : Nat) (peerValidated atAmplificationLimit : Bool)
  | setMaxAckDelay (pathId ms : Nat)
  | setActivePath (pathId : Nat)
deriving Repr

inductive Status where
  | ok
  | badOp
  | protocolViolation
deriving Repr, DecidableEq

def Op.now? : Op → Option Nat
  | .send _ _ _ _ now _ _ => some now
  | .burstComplete now => some now
  | .ackFrame _ _ now _ => some now
  | .timeout now => some now
  | _ => none

/-- the operation-specific part of the model's domain -/
def Op.validCore (m : Manager) (op : Op) : Bool :=
  match op with
  | .send pn bytes cc _ _ _ _ =>
    -- packet numbers are handed out in increasing order; `SentPacketInfo::new` asserts
    -- `sent_bytes > 0 ⇔ congestion_controlled` and `sent_bytes ≤ u16::MAX`
    decide (m.nextPn ≤ pn) && decide (bytes ≤ 65535) && (if cc then decide (bytes > 0) else true)
  | .ackFrame ranges _ _ _ => !ranges.isEmpty && ranges.all (fun r => decide (r.1 ≤ r.2))
  -- `debug_assert_ne!(self.space, ApplicationData)`; "this implementation assumes the connection has a
  -- single path when discarding packets" (`debug_assert_eq!(unacked_sent_info.path_id, path_id)`)
  | .discardSpace pathId => !m.space.isApplicationData && m.sent.all (fun p => decide (p.pathId = pathId))
  -- a Retry is only processed by a client before any migration: single path as well
  | .retry pathId => m.sent.all (fun p => decide (p.pathId = pathId))
  | _ => true

/-- is the operation inside the model's domain in this state?  (`false` ⇒ `bad-op`, state unchanged):
    the manager is still in use, time does not go backwards, and the operation-specific conditions -/
def Op.valid (m : Manager) (op : Op) : Bool :=
  !m.closed && (match op.now? with | some now => decide (m.clock ≤ now) | none => true) && op.validCore m

/-- `TxPacketNumbers::on_packet_ack` (`validate_packet_ack`) accepts every range: nothing beyond the
    highest packet number sent is acknowledged (`largest >= self.next` is a PROTOCOL_VIOLATION) -/
def ackValid (m : Manager) (ranges : List (Nat × Nat)) : Bool :=
  ranges.all (fun r => decide (r.2 < m.nextPn))

/-- advance the ghost clock -/
def tick (m : Manager) (op : Op) : Manager :=
  match op.now? with
  | some now => { m with clock := now }
  | none => m

/-- one (valid) operation; `validate_packet_ack` failing closes the connection (the manager is then
    not used any more; the packets it still tracks stay unresolved) -/
def apply (m : Manager) (op : Op) : Manager × Out × Status :=
  match op with
  | .send pn bytes cc ae now pathId mtu => (onPacketSent m pn bytes cc ae now pathId mtu, { sent := [pn] }, .ok)
  | .burstComplete now => (onTransmitBurstComplete m now, {}, .ok)
  | .ackFrame ranges ackDelay now rxPath =>
    -- `TxPacketNumbers::on_packet_ack`: "received an ACK for a packet that was not sent"
    if ackValid m ranges then
      let r := processAcks m ranges ackDelay now rxPath
      (r.1, r.2, .ok)
    else ({ m with closed := true }, {}, .protocolViolation)
  | .timeout now => let r := onTimeout m now; (r.1, r.2, .ok)
  | .discardSpace pathId => let r := onSpaceDiscarded m pathId; (r.1, r.2, .ok)
  | .retry pathId => let r := onRetry m pathId; (r.1, r.2, .ok)
  | .setConfirmed => ({ m with handshakeConfirmed := true }, {}, .ok)
  | .setPathFlags pathId pv amp =>
    let p := m.paths pathId
    let p' : PathState := { p with peerValidated := pv, atAmplificationLimit := amp }
    ({ m with paths := setPath m.paths pathId p' }, {}, .ok)
  | .setMaxAckDelay pathId ms =>
    let p := m.paths pathId
    let p' : PathState := { p with rtt := onMaxAckDelay p.rtt ms }
    ({ m with paths := setPath m.paths pathId p' }, {}, .ok)
  | .setActivePath pathId => ({ m with activePath := pathId }, {}, .ok)

def step (m : Manager) (op : Op) : Manager × Out × Status :=
  if !op.valid m then (m, {}, .badOp) else apply (tick m op) op

/-- run a history, concatenating what the operations report -/
def run (m : Manager) : List Op → Manager × Out
  | [] => (m, {})
  | op :: ops =>
    let r1 := step m op
    let r2 := run r1.1 ops
    (r2.1, { sent := r1.2.1.sent ++ r2.2.sent, acked := r1.2.1.acked ++ r2.2.acked, lost := r1.2.1.lost ++ r2.2.lost,
             discarded := r1.2.1.discarded ++ r2.2.discarded })

/-- Σ sizes of the unresolved packets sent on `path` (non-congestion-controlled ones have size 0) -/
def unresolvedBytes (path : Nat) : List SentInfo → Nat
  | [] => 0
  | p :: ps => (if p.pathId = path then p.sentBytes else 0) + unresolvedBytes path ps

end Quic.Recovery.Manager
