import QuicModel.Driver
import QuicModel.Conn.TxPn
namespace Quic.Drivers.TxPn
open Quic Quic.Conn.TxPn

/-
  component `txpn` — Lean side only for now: `TxPacketNumbers` is private to s2n-quic-transport,
  the Rust side has to be the in-crate hook (`#[cfg(all(test, aws_s2n_quic_verif))] mod verif`)
  or an e2e trace. Protocol (state starts as `TxPacketNumbers::new(ApplicationData, 0)`):
    transmit <probe 0|1> <skip_counter_is_zero 0|1> <encoded 0|1>
        -> ok sent <pn> <state> | ok notsent <state> | err panic-overflow
    ack <timestamp> <ranges lo-hi,lo-hi,…> <lowest_tracking_pn>
        -> ok acked <state> | err protocol-violation | err panic-overflow
  <state> = next=<n> la=<largest_sent_acked> at=<timestamp> skip=<pn|->
-/

def stateStr (s : State) : String :=
  s!"next={s.next} la={s.largestSentAcked} at={s.ackedAt} skip={match s.skip with | some x => toString x | none => "-"}"

def bool? (s : String) : Option Bool := if s == "1" then some true else if s == "0" then some false else none

def range? (s : String) : Option (Nat × Nat) :=
  match s.splitOn "-" with
  | [a, b] => match a.toNat?, b.toNat? with
    | some x, some y => if x ≤ y then some (x, y) else none
    | _, _ => none
  | [a] => match a.toNat? with
    | some x => some (x, x)
    | none => none
  | _ => none

def ranges? (s : String) : Option AckSet :=
  (s.splitOn ",").foldr (fun t acc => match range? t, acc with
    | some r, some l => some (r :: l)
    | _, _ => none) (some [])

def errStr : Err → String
  | .protocolViolation => "err protocol-violation"
  | .panicOverflow => "err panic-overflow"

def txStep (s : State) (t : List String) : State × String :=
  match t with
  | ["transmit", p, c, e] =>
    match bool? p, bool? c, bool? e with
    | some p, some c, some e =>
      match step s (.transmit p c e) with
      | (s', .sent pn) => (s', s!"ok sent {pn} {stateStr s'}")
      | (s', .notSent) => (s', s!"ok notsent {stateStr s'}")
      | (s', .err er) => (s', errStr er)
      | (s', .acked) => (s', "bad-op")
    | _, _, _ => (s, "bad-op")
  | ["ack", ts, rs, low] =>
    match ts.toNat?, ranges? rs, low.toNat? with
    | some ts, some a, some low =>
      if a.isEmpty then (s, "bad-op") else
      match step s (.ack ts a low) with
      | (s', .acked) => (s', s!"ok acked {stateStr s'}")
      | (s', .err er) => (s', errStr er)
      | (s', _) => (s', "bad-op")
    | _, _, _ => (s, "bad-op")
  | _ => (s, "bad-op")

def txpn : Component := { name := "txpn", σ := State, init := init 0, step := txStep }

def components : List Component := [txpn]

end Quic.Drivers.TxPn
