import QuicModel.Driver
import QuicModel.Recovery.Loss
import QuicModel.Recovery.Rtt
import QuicModel.Recovery.Pto
namespace Quic.Drivers.Recovery
open Quic Quic.Recovery

/-- documented domain bound of the recovery components (timestamps µs, durations ns) -/
def DOM : Nat := 4611686018427387904

def nats? (l : List String) : Option (List Nat) :=
  match l with
  | [] => some []
  | x :: xs =>
    match x.toNat?, nats? xs with
    | some v, some r => some (v :: r)
    | _, _ => none

def bool? (s : String) : Option Bool :=
  if s == "1" then some true else if s == "0" then some false else none

def optNat (o : Option Nat) : String :=
  match o with
  | some v => toString v
  | none => "none"

/-! ### `loss`
  `detect <time_threshold_ns> <time_sent_us> <pn_threshold | K> <pn> <largest_acked> <now_us>`
     -> `ok lost` | `ok notlost <lost_time_us>` | `err debug-assert`
  `elapsed <self_us> <now_us>` -> `ok 0|1`   (`Timestamp::has_elapsed`) -/
def lossStep (t : List String) : String :=
  match t with
  | ["detect", a, b, c, d, e, f] =>
    let c := if c == "K" then toString Loss.K_PACKET_THRESHOLD else c
    match nats? [a, b, c, d, e, f] with
    | some [thr, sent, pthr, pn, la, now] =>
      if thr < DOM ∧ 1 ≤ sent ∧ sent < DOM ∧ pthr < DOM ∧ pn < DOM ∧ la < DOM ∧ 1 ≤ now ∧ now < DOM then
        match Loss.detect thr sent pthr pn la now with
        | some Loss.Outcome.lost => "ok lost"
        | some (Loss.Outcome.notLostYet lt) => s!"ok notlost {lt}"
        | none => "err debug-assert"
      else "bad-op"
    | _ => "bad-op"
  | ["elapsed", a, b] =>
    match nats? [a, b] with
    | some [s, now] =>
      if 1 ≤ s ∧ s < DOM ∧ 1 ≤ now ∧ now < DOM then s!"ok {boolStr (Time.hasElapsed s now)}" else "bad-op"
    | _ => "bad-op"
  | _ => "bad-op"

def loss : Component := Component.stateless "loss" lossStep

/-! ### `rtt`
  all durations in ns, timestamps in µs.
  `new <initial_ns>` | `newpath <initial_ns>` | `mad <ms>` | `pc` | `get`
  `update <ack_delay_ns> <rtt_sample_ns> <now_us> <handshake_confirmed 0|1> <space 0|1|2>`
  -> `ok <latest> <min> <smoothed> <rttvar> <max_ack_delay> <first|none> <loss_time_threshold>
         <persistent_congestion_threshold> <pto(1,hs)> <pto(2,hs)> <pto(4,hs)> <pto(1,app)> <pto(2,app)> <pto(4,app)>` -/
def space? (s : String) : Option Rtt.Space :=
  if s == "0" then some .initial else if s == "1" then some .handshake
  else if s == "2" then some .applicationData else none

def rttShow (r : Rtt.RttEstimator) : String :=
  let p := fun b sp => toString (Rtt.ptoPeriod r b sp)
  s!"ok {r.latestRtt} {r.minRtt} {r.smoothedRtt} {r.rttvar} {r.maxAckDelay} {optNat r.firstRttSample} " ++
  s!"{Rtt.lossTimeThreshold r} {Rtt.persistentCongestionThreshold r} " ++
  s!"{p 1 .handshake} {p 2 .handshake} {p 4 .handshake} {p 1 .applicationData} {p 2 .applicationData} {p 4 .applicationData}"

def rttDefault : Rtt.RttEstimator :=
  { latestRtt := Rtt.DEFAULT_INITIAL_RTT, minRtt := Rtt.DEFAULT_INITIAL_RTT, smoothedRtt := Rtt.DEFAULT_INITIAL_RTT,
    rttvar := Rtt.DEFAULT_INITIAL_RTT / 2, maxAckDelay := 0, firstRttSample := none }

def rttStep (r : Rtt.RttEstimator) (t : List String) : Rtt.RttEstimator × String :=
  match t with
  | ["new", a] =>
    match a.toNat? with
    | some v =>
      if v < DOM then
        match Rtt.new v with
        | some r' => (r', rttShow r')
        | none => (r, "err debug-assert")
      else (r, "bad-op")
    | none => (r, "bad-op")
  | ["newpath", a] =>
    match a.toNat? with
    | some v =>
      if v < DOM then
        match Rtt.forNewPath r v with
        | some r' => (r', rttShow r')
        | none => (r, "err debug-assert")
      else (r, "bad-op")
    | none => (r, "bad-op")
  | ["mad", a] =>
    match a.toNat? with
    | some v => if v < 16384 then let r' := Rtt.onMaxAckDelay r v; (r', rttShow r') else (r, "bad-op")
    | none => (r, "bad-op")
  | ["pc"] => let r' := Rtt.onPersistentCongestion r; (r', rttShow r')
  | ["get"] => (r, rttShow r)
  | ["update", a, b, c, d, e] =>
    match nats? [a, b, c], bool? d, space? e with
    | some [ad, sample, now], some conf, some sp =>
      if ad < DOM ∧ sample < DOM ∧ 1 ≤ now ∧ now < DOM then
        let r' := Rtt.updateRtt r ad sample now conf sp
        (r', rttShow r')
      else (r, "bad-op")
    | _, _, _ => (r, "bad-op")
  | _ => (r, "bad-op")

def rtt : Component := { name := "rtt", σ := Rtt.RttEstimator, init := rttDefault, step := rttStep }

/-! ### `pto`
  `update <base_us> <period_ns>` | `cancel` | `force` -> `ok <timer_us|none> <transmissions>`
  `timeout <packets_in_flight 0|1> <now_us>` -> `ok ready|pending <timer> <transmissions>`
  `once` (`on_transmit_once`) -> `ok <timer> <transmissions>` | `err debug-assert`
  `transmit <probing 0|1> <already_ack_eliciting 0|1> <write_ok 0|1>` -> `ok <timer> <transmissions> <ping_written 0|1>` -/
def ptoShow (p : Pto.Pto) : String := s!"{optNat p.timer} {Pto.transmissions p}"

def ptoStep (p : Pto.Pto) (t : List String) : Pto.Pto × String :=
  match t with
  | ["update", a, b] =>
    match nats? [a, b] with
    | some [base, per] =>
      if 1 ≤ base ∧ base < DOM ∧ per < DOM then
        let p' := Pto.update p base per
        (p', s!"ok {ptoShow p'}")
      else (p, "bad-op")
    | _ => (p, "bad-op")
  | ["cancel"] => let p' := Pto.cancel p; (p', s!"ok {ptoShow p'}")
  | ["force"] => let p' := Pto.forceTransmit p; (p', s!"ok {ptoShow p'}")
  | ["timeout", a, b] =>
    match bool? a, b.toNat? with
    | some infl, some now =>
      if 1 ≤ now ∧ now < DOM then
        let (p', ready) := Pto.onTimeout p infl now
        (p', s!"ok {if ready then "ready" else "pending"} {ptoShow p'}")
      else (p, "bad-op")
    | _, _ => (p, "bad-op")
  | ["once"] =>
    match Pto.onTransmitOnce p with
    | some p' => (p', s!"ok {ptoShow p'}")
    | none => (p, "err debug-assert")
  | ["transmit", a, b, c] =>
    match bool? a, bool? b, bool? c with
    | some probing, some ae, some wok =>
      match Pto.onTransmit p probing ae wok with
      | some (p', ping) => (p', s!"ok {ptoShow p'} {boolStr ping}")
      | none => (p, "err debug-assert")
    | _, _, _ => (p, "bad-op")
  | _ => (p, "bad-op")

def pto : Component := { name := "pto", σ := Pto.Pto, init := Pto.init, step := ptoStep }

def components : List Component := [loss, rtt, pto]

end Quic.Drivers.Recovery
