import QuicModel.Driver
import QuicModel.Recovery.Loss
import QuicModel.Recovery.Rtt
import QuicModel.Recovery.Pto
import QuicModel.Recovery.Manager
namespace Quic.Drivers.Recovery
open Quic Quic.Recovery

/-- documented domain bound of the recovery components (timestamps µs, durations ns) -/
def DOM : Nat := 4611686018427387904

def nats? (l : List String) : Option (List Nat) :=
  match l with
  | [] => some []
  | x :: xs =>
    match x.toNat?, nats? xs with
    | some v, some r => some (v :: r)
    | _, _ => none

def bool? (s : String) : Option Bool :=
  if s == "1" then some true else if s == "0" then some false else none

def optNat (o : Option Nat) : String :=
  match o with
  | some v => toString v
  | none => "none"

/-! ### `loss`
  `detect <time_threshold_ns> <time_sent_us> <pn_threshold | K> <pn> <largest_acked> <now_us>`
     -> `ok lost` | `ok notlost <lost_time_us>` | `err debug-assert`
  `elapsed <self_us> <now_us>` -> `ok 0|1`   (`Timestamp::has_elapsed`) -/
def lossStep (t : List String) : String :=
  match t with
  | ["detect", a, b, c, d, e, f] =>
    let c := if c == "K" then toString Loss.K_PACKET_THRESHOLD else c
    match nats? [a, b, c, d, e, f] with
    | some [thr, sent, pthr, pn, la, now] =>
      if thr < DOM ∧ 1 ≤ sent ∧ sent < DOM ∧ pthr < DOM ∧ pn < DOM ∧ la < DOM ∧ 1 ≤ now ∧ now < DOM then
        match Loss.detect thr sent pthr pn la now with
        | some Loss.Outcome.lost => "ok lost"
        | some (Loss.Outcome.notLostYet lt) => s!"ok notlost {lt}"
        | none => "err debug-assert"
      else "bad-op"
    | _ => "bad-op"
  | ["elapsed", a, b] =>
    match nats? [a, b] with
    | some [s, now] =>
      if 1 ≤ s ∧ s < DOM ∧ 1 ≤ now ∧ now < DOM then s!"ok {boolStr (Time.hasElapsed s now)}" else "bad-op"
    | _ => "bad-op"
  | _ => "bad-op"

def loss : Component := Component.stateless "loss" lossStep

/-! ### `rtt`
  all durations in ns, timestamps in µs.
  `new <initial_ns>` | `newpath <initial_ns>` | `mad <ms>` | `pc` | `get`
  `update <ack_delay_ns> <rtt_sample_ns> <now_us> <handshake_confirmed 0|1> <space 0|1|2>`
  -> `ok <latest> <min> <smoothed> <rttvar> <max_ack_delay> <first|none> <loss_time_threshold>
         <persistent_congestion_threshold> <pto(1,hs)> <pto(2,hs)> <pto(4,hs)> <pto(1,app)> <pto(2,app)> <pto(4,app)>` -/
def space? (s : String) : Option Rtt.Space :=
  if s == "0" then some .initial else if s == "1" then some .handshake
  else if s == "2" then some .applicationData else none

def rttShow (r : Rtt.RttEstimator) : String :=
  let p := fun b sp => toString (Rtt.ptoPeriod r b sp)
  s!"ok {r.latestRtt} {r.minRtt} {r.smoothedRtt} {r.rttvar} {r.maxAckDelay} {optNat r.firstRttSample} " ++
  s!"{Rtt.lossTimeThreshold r} {Rtt.persistentCongestionThreshold r} " ++
  s!"{p 1 .handshake} {p 2 .handshake} {p 4 .handshake} {p 1 .applicationData} {p 2 .applicationData} {p 4 .applicationData}"

def rttDefault : Rtt.RttEstimator :=
  { latestRtt := Rtt.DEFAULT_INITIAL_RTT, minRtt := Rtt.DEFAULT_INITIAL_RTT, smoothedRtt := Rtt.DEFAULT_INITIAL_RTT,
    rttvar := Rtt.DEFAULT_INITIAL_RTT / 2, maxAckDelay := 0, firstRttSample := none }

def rttStep (r : Rtt.RttEstimator) (t : List String) : Rtt.RttEstimator × String :=
  match t with
  | ["new", a] =>
    match a.toNat? with
    | some v =>
      if v < DOM then
        match Rtt.new v with
        | some r' => (r', rttShow r')
        | none => (r, "err debug-assert")
      else (r, "bad-op")
    | none => (r, "bad-op")
  | ["newpath", a] =>
    match a.toNat? with
    | some v =>
      if v < DOM then
        match Rtt.forNewPath r v with
        | some r' => (r', rttShow r')
        | none => (r, "err debug-assert")
      else (r, "bad-op")
    | none => (r, "bad-op")
  | ["mad", a] =>
    match a.toNat? with
    | some v => if v < 16384 then let r' := Rtt.onMaxAckDelay r v; (r', rttShow r') else (r, "bad-op")
    | none => (r, "bad-op")
  | ["pc"] => let r' := Rtt.onPersistentCongestion r; (r', rttShow r')
  | ["get"] => (r, rttShow r)
  | ["update", a, b, c, d, e] =>
    match nats? [a, b, c], bool? d, space? e with
    | some [ad, sample, now], some conf, some sp =>
      if ad < DOM ∧ sample < DOM ∧ 1 ≤ now ∧ now < DOM then
        let r' := Rtt.updateRtt r ad sample now conf sp
        (r', rttShow r')
      else (r, "bad-op")
    | _, _, _ => (r, "bad-op")
  | _ => (r, "bad-op")

def rtt : Component := { name := "rtt", σ := Rtt.RttEstimator, init := rttDefault, step := rttStep }

/-! ### `pto`
  `update <base_us> <period_ns>` | `cancel` | `force` -> `ok <timer_us|none> <transmissions>`
  `timeout <packets_in_flight 0|1> <now_us>` -> `ok ready|pending <timer> <transmissions>`
  `once` (`on_transmit_once`) -> `ok <timer> <transmissions>` | `err debug-assert`
  `transmit <probing 0|1> <already_ack_eliciting 0|1> <write_ok 0|1>` -> `ok <timer> <transmissions> <ping_written 0|1>` -/
def ptoShow (p : Pto.Pto) : String := s!"{optNat p.timer} {Pto.transmissions p}"

def ptoStep (p : Pto.Pto) (t : List String) : Pto.Pto × String :=
  match t with
  | ["update", a, b] =>
    match nats? [a, b] with
    | some [base, per] =>
      if 1 ≤ base ∧ base < DOM ∧ per < DOM then
        let p' := Pto.update p base per
        (p', s!"ok {ptoShow p'}")
      else (p, "bad-op")
    | _ => (p, "bad-op")
  | ["cancel"] => let p' := Pto.cancel p; (p', s!"ok {ptoShow p'}")
  | ["force"] => let p' := Pto.forceTransmit p; (p', s!"ok {ptoShow p'}")
  | ["timeout", a, b] =>
    match bool? a, b.toNat? with
    | some infl, some now =>
      if 1 ≤ now ∧ now < DOM then
        let (p', ready) := Pto.onTimeout p infl now
        (p', s!"ok {if ready then "ready" else "pending"} {ptoShow p'}")
      else (p, "bad-op")
    | _, _ => (p, "bad-op")
  | ["once"] =>
    match Pto.onTransmitOnce p with
    | some p' => (p', s!"ok {ptoShow p'}")
    | none => (p, "err debug-assert")
  | ["transmit", a, b, c] =>
    match bool? a, bool? b, bool? c with
    | some probing, some ae, some wok =>
      match Pto.onTransmit p probing ae wok with
      | some (p', ping) => (p', s!"ok {ptoShow p'} {boolStr ping}")
      | none => (p, "err debug-assert")
    | _, _, _ => (p, "bad-op")
  | _ => (p, "bad-op")

def pto : Component := { name := "pto", σ := Pto.Pto, init := Pto.init, step := ptoStep }

/-! ### `pcong`  (`persistent_congestion::Calculator`)
  `new <first_rtt_sample_us|none> <path_id>` | `lost <pn> <time_sent_us> <path_id> <mtu_probing> <ack_eliciting>`
  -> `ok <persistent_congestion_duration_ns>` -/
def pcongStep (c : PersistentCongestion.Calculator) (t : List String) : PersistentCongestion.Calculator × String :=
  match t with
  | ["new", a, b] =>
    match (if a == "none" then some none else (a.toNat?).map some), b.toNat? with
    | some first, some p =>
      if (match first with | some v => decide (1 ≤ v ∧ v < DOM) | none => true) && decide (p < 256) then
        let c' := PersistentCongestion.Calculator.new first p
        (c', s!"ok {c'.maxDuration}")
      else (c, "bad-op")
    | _, _ => (c, "bad-op")
  | ["lost", a, b, p, d, e] =>
    match nats? [a, b, p], bool? d, bool? e with
    | some [pn, sent, path], some mtu, some ae =>
      if pn < DOM ∧ 1 ≤ sent ∧ sent < DOM ∧ path < 256 then
        let c' := c.onLostPacket pn sent path mtu ae
        (c', s!"ok {c'.maxDuration}")
      else (c, "bad-op")
    | _, _, _ => (c, "bad-op")
  | _ => (c, "bad-op")

def pcong : Component :=
  { name := "pcong", σ := PersistentCongestion.Calculator, init := PersistentCongestion.Calculator.new none 0, step := pcongStep }

/-! ### `recovery-manager`  (the model of `s2n-quic-transport`'s `recovery::Manager`; for the
  in-crate hook / trace ties of the integrator)
  `init <space 0|1|2>` (first op) | `send <pn> <bytes> <cc> <ack_eliciting> <now_us> <path> <mtu_probe>` |
  `burst <now_us>` | `ack <lo-hi,lo-hi,…> <ack_delay_ns> <now_us> <rx_path>` | `timeout <now_us>` |
  `discard <path>` | `retry <path>` | `confirmed` | `pathflags <path> <peer_validated> <at_amplification_limit>` |
  `mad <path> <ms>` | `active <path>`
  -> `ok acked=<pns> lost=<pns> discarded=<pns> bif=<b0>,<b1>,<b2>,<b3> la=<n|none> losstimer=<us|none> pto=<us|none>
         tx=<n> backoff=<active path> srtt=<active path, ns> thr=<loss_time_threshold of paths 0..3, ns> tracked=<n> uf=<0|1> panic=<0|1>`
     | `err protocol-violation` | `bad-op` -/
def range? (s : String) : Option (Nat × Nat) :=
  match s.splitOn "-" with
  | [a, b] => match a.toNat?, b.toNat? with
    | some x, some y => some (x, y)
    | _, _ => none
  | [a] => match a.toNat? with
    | some x => some (x, x)
    | none => none
  | _ => none

def ranges? (s : String) : Option (List (Nat × Nat)) :=
  (s.splitOn ",").foldr (fun x acc => match range? x, acc with | some r, some l => some (r :: l) | _, _ => none) (some [])

def mgrShow (m : Manager.Manager) (o : Manager.Out) : String :=
  let act := m.paths m.activePath
  s!"ok acked={natList o.acked} lost={natList o.lost} discarded={natList o.discarded} " ++
  s!"bif={(m.paths 0).bytesInFlight},{(m.paths 1).bytesInFlight},{(m.paths 2).bytesInFlight},{(m.paths 3).bytesInFlight} " ++
  s!"la={optNat m.largestAcked} losstimer={optNat m.lossTimer} pto={optNat m.pto.timer} tx={Pto.transmissions m.pto} " ++
  s!"backoff={act.ptoBackoff} srtt={act.rtt.smoothedRtt} thr={Rtt.lossTimeThreshold (m.paths 0).rtt},{Rtt.lossTimeThreshold (m.paths 1).rtt},{Rtt.lossTimeThreshold (m.paths 2).rtt},{Rtt.lossTimeThreshold (m.paths 3).rtt} tracked={m.sent.length} uf={boolStr m.underflow} panic={boolStr m.panicked}"

def mgrOp? (t : List String) : Option Manager.Op :=
  match t with
  | ["send", a, b, c, d, e, f, g] =>
    match nats? [a, b, e, f], bool? c, bool? d, bool? g with
    | some [pn, bytes, now, path], some cc, some ae, some mtu =>
      if pn < DOM ∧ now < DOM ∧ 1 ≤ now ∧ path < 4 then some (.send pn bytes cc ae now path mtu) else none
    | _, _, _, _ => none
  | ["burst", a] => match a.toNat? with | some now => if 1 ≤ now ∧ now < DOM then some (.burstComplete now) else none | none => none
  | ["ack", r, a, b, c] =>
    match ranges? r, nats? [a, b, c] with
    | some rs, some [d, now, path] =>
      if d < DOM ∧ 1 ≤ now ∧ now < DOM ∧ path < 4 ∧ rs.all (fun x => decide (x.2 < DOM)) then some (.ackFrame rs d now path) else none
    | _, _ => none
  | ["timeout", a] => match a.toNat? with | some now => if 1 ≤ now ∧ now < DOM then some (.timeout now) else none | none => none
  | ["discard", a] => match a.toNat? with | some p => if p < 4 then some (.discardSpace p) else none | none => none
  | ["retry", a] => match a.toNat? with | some p => if p < 4 then some (.retry p) else none | none => none
  | ["confirmed"] => some .setConfirmed
  | ["pathflags", a, b, c] =>
    match a.toNat?, bool? b, bool? c with
    | some p, some pv, some amp => if p < 4 then some (.setPathFlags p pv amp) else none
    | _, _, _ => none
  | ["mad", a, b] =>
    match nats? [a, b] with
    | some [p, ms] => if p < 4 ∧ ms < 16384 then some (.setMaxAckDelay p ms) else none
    | _ => none
  | ["active", a] => match a.toNat? with | some p => if p < 4 then some (.setActivePath p) else none | none => none
  | _ => none

def mgrStep (m : Manager.Manager) (t : List String) : Manager.Manager × String :=
  match t with
  | ["init", s] =>
    match space? s with
    | some sp => (Manager.init sp, mgrShow (Manager.init sp) {})
    | none => (m, "bad-op")
  | _ =>
    match mgrOp? t with
    | none => (m, "bad-op")
    | some op =>
      match Manager.step m op with
      | (m', o, .ok) => (m', mgrShow m' o)
      | (_, _, .badOp) => (m, "bad-op")
      | (m', _, .protocolViolation) => (m', "err protocol-violation")

def recoveryManager : Component :=
  { name := "recovery-manager", σ := Manager.Manager, init := Manager.init .initial, step := mgrStep }

def components : List Component := [loss, rtt, pto, pcong, recoveryManager]

end Quic.Drivers.Recovery
