import QuicModel.Driver
import QuicModel.Sync.SocketTask
namespace Quic.Drivers.SocketTask
open Quic Quic.Sync.SocketTask

def parseEv (s : String) : Option Ev :=
  if s == "ready" then some .ringReady
  else if s == "pending" then some .ringPending
  else if s == "blocked" then some .socketBlocked
  else if s.startsWith "io" then (s.drop 2).toNat?.map Ev.io
  else none

def parseEvs : List String → Option (List Ev)
  | [] => some []
  | s :: rest => match parseEv s, parseEvs rest with
    | some e, some es => some (e :: es)
    | _, _ => none

def outStr : Out → String
  | .release n => s!"release{n}"
  | .wake => "wake"
  | .ret => "ret"

/-- ops: `poll <wake in Pending arm 0|1> <wake after loop 0|1> <ready|io<n>|pending|blocked> ..`
    -> `ok <held|lost> <observable outputs>`: one `poll` call of a socket task of that shape on that event sequence,
    and whether every release was followed by a wake before the call returned -/
def step (t : List String) : String :=
  match t with
  | "poll" :: a :: b :: evs =>
    if (a == "0" || a == "1") && (b == "0" || b == "1") then
      match parseEvs evs with
      | some es =>
        let outs := poll ⟨a == "1", b == "1"⟩ false es
        let v := if noLostWake false outs then "held" else "lost"
        s!"ok {v} {" ".intercalate (outs.map outStr)}"
      | none => "bad-op"
    else "bad-op"
  | _ => "bad-op"

def socketTask : Component := Component.stateless "socket-task" step

def components : List Component := [socketTask]

end Quic.Drivers.SocketTask
