import QuicModel.Driver
import QuicModel.Stream.DataSender
/-
  Line-protocol driver for the stream data sender model (`Stream.DataSender`), the twin of component
  `data-sender` of the in-crate harness `/verif/hooks/transport_stream.rs`, which drives the REAL
  `DataSender<SimpleFc, PayloadWriter>` (real `Transmissions`, `Buffer`, `Viewer`, interval sets and
  packet-number map; the frame writer counts payload bytes only and the flow controller is the model's
  `simpleFlow`, i.e. exactly the two abstractions the model makes).

  ops: `flow <allowed>` | `push <n>` | `finish` | `transmit <pn> <cap> <n|r|c>` | `ack <lo> <hi>` |
       `loss <lo> <hi>` | `stop`
  answer: `ok <frames|-|reset> st=… total=… enq=… infl=… blocked=… int=…`
          frame = `off:len:fin:sum`, sum = Σ (j+1)·byte mod 1000003
-/
namespace Quic.Drivers.DataSender
open Quic Quic.Stream.DataSender

/-- byte of the workload at stream offset `o` -/
def dsByte (o : Nat) : Nat := (o * 31 + 7) % 251

def dsBytes (off : Nat) : Nat → List Nat
  | 0 => []
  | n + 1 => dsByte off :: dsBytes (off + 1) n

def dsSumFrom : Nat → List Nat → Nat → Nat
  | _, [], acc => acc
  | j, b :: t, acc => dsSumFrom (j + 1) t ((acc + (j + 1) * b) % 1000003)

def dsSum (l : List Nat) : Nat := dsSumFrom 0 l 0

def stateStr (st : State) : String :=
  match st with
  | .sending => "sending"
  | .finishing .pending => "fin-pending"
  | .finishing (.inFlight pn) => s!"fin-inflight:{pn}"
  | .finishing .lost => "fin-lost"
  | .finishing .acknowledged => "fin-acked"
  | .finished => "finished"
  | .cancelled => "cancelled"

def interestStr (n : Nat) : String := if n = 2 then "lost" else if n = 1 then "new" else "none"

def summary (s : SendStream SimpleFc) : String :=
  let d := s.sender
  s!"st={stateStr d.state} total={d.totalLen} enq={d.enqueuedLen} infl={boolStr d.isInflight} blocked={boolStr d.fc.blocked} int={interestStr (d.interest simpleFlow)}"

def frameStr (f : Frame) : String := s!"{f.off}:{f.data.length}:{boolStr f.fin}:{dsSum f.data}"

def framesStr (l : List Frame) : String :=
  if l.isEmpty then "-" else String.intercalate "," (l.map frameStr)

def constraint? (c : String) : Option (Bool × Bool) :=
  if c == "n" then some (true, true) else if c == "r" then some (true, false)
  else if c == "c" then some (false, false) else none

def apply (s : SendStream SimpleFc) (op : Op (F := SimpleFc)) : SendStream SimpleFc × String :=
  let r := Quic.Stream.DataSender.step simpleFlow s op
  match r.2 with
  | .frames l => (r.1, s!"ok {framesStr l} {summary r.1}")
  | .resetStream => (r.1, s!"ok reset {summary r.1}")

def step (s : SendStream SimpleFc) (t : List String) : SendStream SimpleFc × String :=
  match t with
  | ["flow", v] =>
    match v.toNat? with
    | some v =>
      if v ≥ 2 ^ 60 then (s, "bad-op") else
      -- the harness sets `allowed` only (the blocked flag stays)
      apply s (.flow { s.sender.fc with allowed := v })
    | none => (s, "bad-op")
  | ["push", n] =>
    match n.toNat? with
    | some n => if n > 100000 then (s, "bad-op") else apply s (.push (dsBytes s.sender.totalLen n))
    | none => (s, "bad-op")
  | ["finish"] => apply s .finish
  | ["transmit", p, cap, c] =>
    match p.toNat?, cap.toNat?, constraint? c with
    | some p, some cap, some (cr, ct) =>
      if p ≥ 2 ^ 40 || cap > 100000 then (s, "bad-op") else apply s (.transmit p cap cr ct)
    | _, _, _ => (s, "bad-op")
  | ["ack", a, b] =>
    match a.toNat?, b.toNat? with
    | some a, some b => if a > b || b ≥ 2 ^ 40 then (s, "bad-op") else apply s (.ack a b)
    | _, _ => (s, "bad-op")
  | ["loss", a, b] =>
    match a.toNat?, b.toNat? with
    | some a, some b => if a > b || b ≥ 2 ^ 40 then (s, "bad-op") else apply s (.loss a b)
    | _, _ => (s, "bad-op")
  | ["stop"] => apply s .reset
  | _ => (s, "bad-op")

def dataSender : Component :=
  { name := "data-sender", σ := SendStream SimpleFc, init := initStream { allowed := 0 }, step := step }

def components : List Component := [dataSender]

end Quic.Drivers.DataSender
