import QuicModel.Driver
import QuicModel.Codec.TransportParams
import QuicModel.Rfc.TransportParams
namespace Quic.Drivers.TransportParams
open Quic Quic.Codec.TransportParams

/-- ops (role = who SENT the block):
      `dec client|server <hex>`        -> `ok <k=v for all 20 fields, defaults filled in>` | `err <kind>`
      `enc client|server <hex>`        -> decode, re-encode, decode again: `ok <hex> <size> <1|0>` | `err <kind>`
      `limits client|server <hex> <local idle ms>` -> derived limits | `err <kind>`
    component `tp` = the code as pinned (`pinnedFields`);
    component `tp-rfc` = `Rfc.TransportParams.accepts` behind `dec` (answers `ok` / `err rfc`). -/
def role? : String → Option Role
  | "client" => some .client
  | "server" => some .server
  | _ => none

def optHex : Option (List Nat) → String
  | none => "none"
  | some b => toHex b

def showValue (f : Field) (v : Option Value) : String :=
  match f.codec, v with
  | .unit, none => if f.id == 0x0c then "enabled" else "disabled"
  | .unit, some _ => if f.id == 0x0c then "disabled" else "enabled"
  | _, none => "none"
  | _, some (.int n) => toString n
  | _, some .unit => "unit"
  | _, some (.bytes b) => toHex b
  | _, some (.pa v4 v6 cid tok) => s!"{optHex v4}/{optHex v6}/{toHex cid}/{toHex tok}"
  | _, some (.versions l) => natList l

def showParams (fs : List Field) (ps : Params) : String :=
  " ".intercalate (fs.map (fun f => s!"{f.name}={showValue f (get ps f)}"))

def showLimits (l : Limits) : String :=
  let idle := match l.idleMs with
    | none => "none"
    | some n => toString n
  s!"ok max_data={l.maxData} max_streams_bidi={l.maxStreamsBidi} max_streams_uni={l.maxStreamsUni} " ++
  s!"stream_data_bidi_local={l.streamDataBidiLocal} stream_data_bidi_remote={l.streamDataBidiRemote} " ++
  s!"stream_data_uni={l.streamDataUni} max_ack_delay_us={l.maxAckDelayUs} ack_delay_exponent={l.ackDelayExponent} " ++
  s!"max_datagram_payload={l.maxDatagramPayload} active_connection_id_limit={l.activeConnectionIdLimit} " ++
  s!"idle_ms={idle} zero_rtt_consistent=1"

def tpStep (fs : List Field) (t : List String) : String :=
  match t with
  | ["dec", r, h] =>
    match role? r, fromHex? h with
    | some role, some b =>
      match decodeParameters fs role b with
      | .ok ps => "ok " ++ showParams fs ps
      | .error e => "err " ++ e.str
    | _, _ => "bad-op"
  | ["enc", r, h] =>
    match role? r, fromHex? h with
    | some role, some b =>
      match decodeParameters fs role b with
      | .ok ps =>
        let e := encode fs ps
        let again := match decodeParameters fs role e with
          | .ok qs => showParams fs qs == showParams fs ps
          | .error _ => false
        s!"ok {toHex e} {e.length} {boolStr again}"
      | .error e => "err " ++ e.str
    | _, _ => "bad-op"
  | ["limits", r, h, idle] =>
    match role? r, fromHex? h, idle.toNat? with
    | some role, some b, some ms =>
      if ms ≥ 4611686018427387904 then "bad-op"
      else
        match decodeParameters fs role b with
        | .ok ps => showLimits (limitsOf fs ps ms)
        | .error e => "err " ++ e.str
    | _, _, _ => "bad-op"
  | _ => "bad-op"

def tp : Component := Component.stateless "tp" (tpStep pinnedFields)

/-- the same protocol answered by the model with RFC-conformant rows (`rfcKnobs`) -/
def tpConformant : Component := Component.stateless "tp-conformant" (tpStep conformantFields)

/-- the RFC reference behind `dec`: accept / reject only -/
def tpRfcStep (t : List String) : String :=
  match t with
  | ["dec", r, h] =>
    match role? r, fromHex? h with
    | some role, some b => if Rfc.TransportParams.accepts role b then "ok" else "err rfc"
    | _, _ => "bad-op"
  | _ => "bad-op"

def tpRfc : Component := Component.stateless "tp-rfc" tpRfcStep

def components : List Component := [tp, tpConformant, tpRfc]

end Quic.Drivers.TransportParams
