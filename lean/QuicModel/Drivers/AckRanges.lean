import QuicModel.Driver
import QuicModel.Data.AckRanges
import QuicModel.Drivers.IntervalSet
namespace Quic.Drivers.AckRanges
open Quic Quic.Data.IvSet Quic.Data.AckRanges
open Quic.Drivers.IntervalSet (ivStr ivsStr errStr optNat)

def pnMax : Nat := 4611686018427387903

/-- component `ackranges`: one `ack::Ranges` over `PacketNumberSpace::ApplicationData`; starts as
    `Ranges::default()`. Every answer is `ok <result> <intervals ascending>`.
    ops: new <limit> · ins lo hi · insv v · rm lo hi · pop · min · max · spread · len · has v ·
         iter (the `ack_ranges()` order: descending) · clear -/
def pn? (s : String) : Option Nat :=
  match s.toNat? with
  | some v => if v ≤ pnMax then some v else none
  | none => none

def reply (s : IvSet) (res : String) : IvSet × String := (s, s!"ok {res} {ivsStr s.ivs}")

def outcomeStr : Outcome → String
  | .ok => "ok"
  | .lowestRangeDropped a b => s!"dropped:{a}-{b}"
  | .rangeInsertionFailed a b => s!"failed:{a}-{b}"
  | .debugAssert => "debug-assert"

def step (s : IvSet) (t : List String) : IvSet × String :=
  match t with
  | ["new", n] =>
    match n.toNat? with
    | some l => if l = 0 ∨ l > 1000000 then (s, "bad-op") else reply (new l) "-"
    | none => (s, "bad-op")
  | ["ins", x, y] =>
    match pn? x, pn? y with
    | some lo, some hi =>
      if lo ≤ hi then
        match insertRange s lo hi with
        | (s', o) => reply s' (outcomeStr o)
      else (s, "bad-op")
    | _, _ => (s, "bad-op")
  | ["insv", x] =>
    match pn? x with
    | some v => match insertPn s v with | (s', o) => reply s' (outcomeStr o)
    | none => (s, "bad-op")
  | ["rm", x, y] =>
    match pn? x, pn? y with
    | some lo, some hi =>
      match fromInclusive lo hi with
      | .ok i =>
        match s.remove i with
        | (s', .ok _) => reply s' "ok"
        | (s', .error e) => reply s' (errStr e)
      | .error e => reply s (errStr e)
    | _, _ => (s, "bad-op")
  | ["has", x] =>
    match pn? x with
    | some v => reply s (boolStr (s.contains v))
    | none => (s, "bad-op")
  | ["pop"] =>
    match s.popMin with
    | (s', some i) => reply s' (ivStr i)
    | (s', none) => reply s' "none"
  | ["min"] => reply s (optNat s.minValue)
  | ["max"] => reply s (optNat s.maxValue)
  | ["spread"] => reply s (toString (spread s))
  | ["len"] => reply s (toString s.intervalLen)
  | ["iter"] => reply s (ivsStr (ackRanges s))
  | ["clear"] => reply s.clear "-"
  | _ => (s, "bad-op")

def ackranges : Component := { name := "ackranges", σ := IvSet, init := Quic.Data.AckRanges.default, step := step }

def components : List Component := [ackranges]

end Quic.Drivers.AckRanges
