import QuicModel.Driver
import QuicModel.Generated.States
namespace Quic.Drivers.States
open Quic
open Quic.Generated.States

/-- ops (component `stream_state`; one `Sender` and one `Receiver`, both start in their `#[default]` state):
      `snd <event>` / `rcv <event>`            -> `ok <moved|noop|invalid> <state after> <is-bits>`
      `at <machine> <state> <event>`           -> `ok <moved|noop|invalid> <state after>`   (stateless; any generated machine)
    is-bits: the `is!` predicates in the fixed order of `senderIs` / `receiverIs` (`?` = predicate not in the source). -/
def senderIs : List String :=
  ["is_ready", "is_sending", "is_data_sent", "is_data_received", "is_reset_queued", "is_reset_sent", "is_reset_received", "is_terminal"]
def receiverIs : List String :=
  ["is_receiving", "is_size_known", "is_data_received", "is_data_read", "is_reset_received", "is_reset_read", "is_terminal"]

def bits {σ : Type} (is : String → σ → Option Bool) (fns : List String) (s : σ) : String :=
  String.join (fns.map fun f => match is f s with | some true => "1" | some false => "0" | none => "?")

def findByName {α : Type} (all : List α) (name : α → String) (n : String) : Option α :=
  all.find? (fun a => name a == n)

def atStep {σ ε : Type} (states : List σ) (sname : σ → String) (events : List ε) (ename : ε → String)
    (stp : σ → ε → Except State.Err σ) (s e : String) : String :=
  match findByName states sname s, findByName events ename e with
  | some s, some e =>
    let r := stp s e
    s!"ok {State.kind r} {sname (State.next r s)}"
  | _, _ => "bad-op"

structure St where
  snd : Option Sender.State
  rcv : Option Receiver.State

def step (st : St) (t : List String) : St × String :=
  match t with
  | ["snd", e] =>
    match st.snd, findByName Sender.Event.all Sender.Event.name e with
    | some s, some e =>
      let r := Sender.step s e
      let s' := State.next r s
      ({ st with snd := some s' }, s!"ok {State.kind r} {s'.name} {bits Sender.is senderIs s'}")
    | _, _ => (st, "bad-op")
  | ["rcv", e] =>
    match st.rcv, findByName Receiver.Event.all Receiver.Event.name e with
    | some s, some e =>
      let r := Receiver.step s e
      let s' := State.next r s
      ({ st with rcv := some s' }, s!"ok {State.kind r} {s'.name} {bits Receiver.is receiverIs s'}")
    | _, _ => (st, "bad-op")
  | ["at", "sender", s, e] => (st, atStep Sender.State.all Sender.State.name Sender.Event.all Sender.Event.name Sender.step s e)
  | ["at", "receiver", s, e] => (st, atStep Receiver.State.all Receiver.State.name Receiver.Event.all Receiver.Event.name Receiver.step s e)
  | ["at", "dc_send_worker", s, e] => (st, atStep DcSendWorker.State.all DcSendWorker.State.name DcSendWorker.Event.all DcSendWorker.Event.name DcSendWorker.step s e)
  | ["at", "dc_recv_worker", s, e] => (st, atStep DcRecvWorker.State.all DcRecvWorker.State.name DcRecvWorker.Event.all DcRecvWorker.Event.name DcRecvWorker.step s e)
  | ["at", "dc_handshake", s, e] => (st, atStep DcHandshake.State.all DcHandshake.State.name DcHandshake.Event.all DcHandshake.Event.name DcHandshake.step s e)
  | ["at", "dc_manager", s, e] => (st, atStep DcManager.State.all DcManager.State.name DcManager.Event.all DcManager.Event.name DcManager.step s e)
  | _ => (st, "bad-op")

def streamState : Component :=
  { name := "stream_state", σ := St, init := { snd := Sender.init, rcv := Receiver.init }, step := step }

def components : List Component := [streamState]

end Quic.Drivers.States
