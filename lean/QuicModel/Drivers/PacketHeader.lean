import QuicModel.Driver
import QuicModel.Codec.PacketHeader
import QuicModel.Codec.PacketHeaderAbs
import QuicModel.Rfc.PacketHeader
namespace Quic.Drivers.PacketHeader
open Quic Quic.Codec.PacketHeader

/-
  ops (component `packet_header`, mirrored by harness/vh-core/src/comp/packet_header.rs on the real
  `ProtectedPacket::decode(buffer, &connection_info, &dcid_len)`):
    dec <dcid_len> <hex>        one packet from the front of the buffer
    decall <dcid_len> <hex>     the coalesced-packet loop of `handle_remaining_packets`
    enc vn <tag> <dcid> <scid> <supported>                          `VersionNegotiation::encode`
    enc retry <tag> <version> <dcid> <scid> <token> <itag16>        `Retry::encode`
    enc initial <cap> <version> <dcid> <scid> <token> <pn> <la> <payload>      `encode_packet`, testing key
    enc zerortt|handshake <cap> <version> <dcid> <scid> <pn> <la> <payload>
    enc short <cap> <spin> <phase> <dcid> <pn> <la> <payload>
-/

def errStr : Err → String
  | .eof => "eof"
  | .invalidPacket => "invalid-packet"
  | .invalidVn => "invalid-vn"
  | .dcidLen => "dcid-len"
  | .scidLen => "scid-len"
  | .invalidCid => "invalid-cid"
  | .retryTokenEmpty => "retry-token-empty"
  | .vnNoVersion => "vn-no-version"
  | .vnPayloadLen => "vn-len"
  | .panic => "PANIC"

def kindStr : Packet → String
  | .short .. => "short"
  | .versionNegotiation .. => "vn"
  | .initial .. => "initial"
  | .zeroRtt .. => "zerortt"
  | .handshake .. => "handshake"
  | .retry .. => "retry"

def render (p : Packet) (rem : Nat) : String :=
  match p with
  | .short spin d h l => s!"ok short spin={spin} dcid={toHex d} hdr={h} len={l} rem={rem}"
  | .versionNegotiation tag d s sup =>
    s!"ok vn tag={tag} dcid={toHex d} scid={toHex s} versions={natList (vnVersions sup)} rem={rem}"
  | .initial v d s t h l => s!"ok initial v={v} dcid={toHex d} scid={toHex s} token={toHex t} hdr={h} len={l} rem={rem}"
  | .zeroRtt v d s h l => s!"ok zerortt v={v} dcid={toHex d} scid={toHex s} hdr={h} len={l} rem={rem}"
  | .handshake v d s h l => s!"ok handshake v={v} dcid={toHex d} scid={toHex s} hdr={h} len={l} rem={rem}"
  | .retry tag v d s t i =>
    s!"ok retry tag={tag} v={v} dcid={toHex d} scid={toHex s} token={toHex t} itag={toHex i} rem={rem}"

def renderRes (r : Res Packet) : String :=
  match r with
  | .error .panic => "panic model"
  | .error e => s!"err {errStr e}"
  | .ok (p, rest) => render p rest.length

def renderWalk (w : Walk) : String :=
  let ps := w.packets.map (fun (p, n) => s!"{kindStr p}:{n}")
  let stop := match w.stop with
    | none => "done"
    | some e => errStr e
  s!"ok {w.packets.length} {if ps.isEmpty then "-" else ",".intercalate ps} end={stop}"

def bytesOk (b : List Nat) : Bool := b.all (· < 256)

def encRes (r : Except EncErr (List Nat)) : String :=
  match r with
  | .ok b => s!"ok {toHex b}"
  | .error .truncation => "err trunc"
  | .error .space => "err space"
  | .error .empty => "err empty"
  | .error .panic => "panic model"

def maxPn : Nat := 4611686018427387903

/-- the common argument checks of the `enc <packet>` ops (outside: `bad-op`) -/
def encPacket (h : Hdr) (cap pn la : String) (payload : String) : String :=
  match cap.toNat?, pn.toNat?, la.toNat?, fromHex? payload with
  | some cap, some pn, some la, some payload =>
    if cap ≤ 65535 ∧ pn ≤ maxPn ∧ la ≤ maxPn then encRes (encodePacket h cap 0 0 pn la payload) else "bad-op"
  | _, _, _, _ => "bad-op"

def step (t : List String) : String :=
  match t with
  | ["dec", n, h] =>
    match n.toNat?, fromHex? h with
    | some n, some b => if n ≤ 65535 then renderRes (decodePacket n b) else "bad-op"
    | _, _ => "bad-op"
  | ["decall", n, h] =>
    match n.toNat?, fromHex? h with
    | some n, some b =>
      if n ≤ 65535 then
        match decodeAll n b with
        | some w => renderWalk w
        | none => "panic model-fuel"
      else "bad-op"
    | _, _ => "bad-op"
  | ["enc", "vn", tag, d, s, sup] =>
    match tag.toNat?, fromHex? d, fromHex? s, fromHex? sup with
    | some tag, some d, some s, some sup =>
      if tag < 256 then
        match encodeVn tag d s sup with
        | some b => s!"ok {toHex b}"
        | none => "bad-op"
      else "bad-op"
    | _, _, _, _ => "bad-op"
  | ["enc", "retry", tag, v, d, s, tok, itag] =>
    match tag.toNat?, v.toNat?, fromHex? d, fromHex? s, fromHex? tok, fromHex? itag with
    | some tag, some v, some d, some s, some tok, some itag =>
      if tag < 256 ∧ v < 4294967296 ∧ itag.length = 16 then
        match encodeRetry tag v d s tok itag with
        | some b => s!"ok {toHex b}"
        | none => "bad-op"
      else "bad-op"
    | _, _, _, _, _, _ => "bad-op"
  | ["enc", "initial", cap, v, d, s, tok, pn, la, payload] =>
    match v.toNat?, fromHex? d, fromHex? s, fromHex? tok with
    | some v, some d, some s, some tok =>
      if v < 4294967296 ∧ d.length ≤ 255 ∧ s.length ≤ 255 then encPacket (.initial v d s tok) cap pn la payload else "bad-op"
    | _, _, _, _ => "bad-op"
  | ["enc", "short", cap, spin, phase, d, pn, la, payload] =>
    match spin.toNat?, phase.toNat?, fromHex? d with
    | some spin, some phase, some d =>
      if spin ≤ 1 ∧ phase ≤ 1 then encPacket (.short spin phase d) cap pn la payload else "bad-op"
    | _, _, _ => "bad-op"
  | ["enc", kind, cap, v, d, s, pn, la, payload] =>
    match v.toNat?, fromHex? d, fromHex? s with
    | some v, some d, some s =>
      if v < 4294967296 ∧ d.length ≤ 255 ∧ s.length ≤ 255 then
        if kind = "zerortt" then encPacket (.zeroRtt v d s) cap pn la payload
        else if kind = "handshake" then encPacket (.handshake v d s) cap pn la payload
        else "bad-op"
      else "bad-op"
    | _, _, _ => "bad-op"
  | _ => "bad-op"

def packetHeader : Component := Component.stateless "packet_header" step

/-! the RFC view behind the same `dec` / `decall` protocol: `packet_header-abs` renders the code
    model through the abstraction `abs`, `packet_header-rfc` renders the reference parser -/

def rfcRender (p : Rfc.PacketHeader.Packet) (rem : Nat) : String :=
  match p with
  | .versionNegotiation u d s vs => s!"ok vn unused={u} dcid={toHex d} scid={toHex s} versions={natList vs} rem={rem}"
  | .initial v d s t o l => s!"ok initial v={v} dcid={toHex d} scid={toHex s} token={toHex t} off={o} len={l} rem={rem}"
  | .zeroRtt v d s o l => s!"ok zerortt v={v} dcid={toHex d} scid={toHex s} off={o} len={l} rem={rem}"
  | .handshake v d s o l => s!"ok handshake v={v} dcid={toHex d} scid={toHex s} off={o} len={l} rem={rem}"
  | .retry u v d s t i => s!"ok retry unused={u} v={v} dcid={toHex d} scid={toHex s} token={toHex t} itag={toHex i} rem={rem}"
  | .oneRtt spin d o l => s!"ok short spin={spin} dcid={toHex d} off={o} len={l} rem={rem}"
  | .unsupportedVersion v d s => s!"ok unsupported v={v} dcid={toHex d} scid={toHex s} rem={rem}"

def rfcRes (r : Option (Rfc.PacketHeader.Packet × List Nat)) : String :=
  match r with
  | none => "err"
  | some (p, rest) => rfcRender p rest.length

def stepVia (f : Nat → List Nat → Option (Rfc.PacketHeader.Packet × List Nat)) (t : List String) : String :=
  match t with
  | ["dec", n, h] =>
    match n.toNat?, fromHex? h with
    | some n, some b => if n ≤ 65535 then rfcRes (f n b) else "bad-op"
    | _, _ => "bad-op"
  | "decall" :: _ => "skip"
  | "enc" :: _ => "skip"
  | _ => "bad-op"

def packetHeaderAbs : Component :=
  Component.stateless "packet_header-abs" (stepVia fun n b => abs (decodePacket n b))
def packetHeaderRfc : Component :=
  Component.stateless "packet_header-rfc" (stepVia Rfc.PacketHeader.parsePacket)

def components : List Component := [packetHeader, packetHeaderAbs, packetHeaderRfc]

end Quic.Drivers.PacketHeader
