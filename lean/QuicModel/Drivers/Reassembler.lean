import QuicModel.Driver
import QuicModel.Data.RefBuf
import QuicModel.Data.SlotBuf
namespace Quic.Drivers.Reassembler
open Quic Quic.Data.RefBuf

/-!
component `reassembler` (model: `Data.RefBuf`, implementation: `s2n_quic_core::buffer::Reassembler`)

ops
  `w <off> <len> <key> <fin>`   write_at / write_at_fin of the keyed payload (byte at absolute
                                offset `i` is `payloadByte key i`)
  `wx <off> <hex> <fin>`        the same with explicit bytes
  `read <w|inf>`                pop_watermarked (pop for `inf`) repeatedly until `w` bytes were
                                handed out or nothing is readable; chunks concatenated
  `popn <w|inf> <k>`            ONE pop_watermarked(w) call; `k` is the chunk length the
                                implementation was observed to return (the implementation side
                                ignores `k`; the model checks that `k` is a legal chunk length)
  `skip <n>`                    Reassembler::skip
  `clear`                       Reassembler::reset

every answer is `<ok|err KIND> <bytes> <len> <consumed> <total_received> <final|none>
<writing_complete> <reading_complete> <is_empty>`; `<bytes>` is hex when at most 48 bytes,
otherwise `<len>:<first 8 hex>:<last 8 hex>:<fnv1a-64 decimal>`.
-/

/-- byte `i` of the stream written with key `key`: top byte of a 64-bit Weyl sequence
    (position dependent, no small period, different keys give different bytes) -/
def payloadByte (key i : Nat) : Nat :=
  ((UInt64.ofNat i * 0x9E3779B97F4A7C15 + UInt64.ofNat key * 0xD1B54A32D192ED03) >>> 56).toNat

def payload (key off len : Nat) : List Nat :=
  (List.range len).map (fun j => payloadByte key (off + j))

def fnv (b : List Nat) : UInt64 :=
  b.foldl (fun h x => (h ^^^ UInt64.ofNat x) * 0x100000001b3) 0xcbf29ce484222325

def showBytes (b : List Nat) : String :=
  if b.length ≤ 48 then toHex b
  else s!"{b.length}:{toHex (b.take 8)}:{toHex (b.drop (b.length - 8))}:{(fnv b).toNat}"

def showState (s : RefBuf) : String :=
  let fin := match s.finalSize with
    | some f => toString f
    | none => "none"
  s!"{len s} {consumedLen s} {totalReceivedLen s} {fin} {boolStr (isWritingComplete s)} {boolStr (isReadingComplete s)} {boolStr (isEmpty s)}"

def errStr : Err → String
  | .invalidFin => "invalid-fin"
  | .outOfRange => "out-of-range"
  | .readerError => "reader-error"

def answer (s : RefBuf) (status : String) (b : List Nat) : RefBuf × String :=
  (s, s!"{status} {showBytes b} {showState s}")

def bool? (t : String) : Option Bool :=
  if t == "0" then some false else if t == "1" then some true else none

/-- `inf` = usize::MAX -/
def watermark? (t : String) : Option (Option Nat) :=
  if t == "inf" then some none
  else match t.toNat? with
    | some w => if w < 18446744073709551615 then some (some w) else none
    | none => none

def doWrite (s : RefBuf) (off : Nat) (data : List Nat) (fin : Bool) : RefBuf × String :=
  match write s off data fin with
  | .ok s' => answer s' "ok" []
  | .error e => answer s s!"err {errStr e}" []

def stepLine (s : RefBuf) (t : List String) : RefBuf × String :=
  match t with
  | ["w", off, n, key, fin] =>
    match off.toNat?, n.toNat?, key.toNat?, bool? fin with
    | some off, some n, some key, some fin =>
      if off ≤ maxOffset ∧ n ≤ 16777216 ∧ key < 18446744073709551616 then doWrite s off (payload key off n) fin else (s, "bad-op")
    | _, _, _, _ => (s, "bad-op")
  | ["wx", off, h, fin] =>
    match off.toNat?, fromHex? h, bool? fin with
    | some off, some data, some fin =>
      if off ≤ maxOffset then doWrite s off data fin else (s, "bad-op")
    | _, _, _ => (s, "bad-op")
  | ["read", w] =>
    match watermark? w with
    | some w =>
      let (s', b) := pop s w
      answer s' "ok" b
    | none => (s, "bad-op")
  | ["popn", w, k] =>
    match watermark? w, k.toNat? with
    | some w, some k =>
      match popChunk s w k with
      | some (s', b) => answer s' "ok" b
      | none => answer s "err illegal-chunk" []
    | _, _ => (s, "bad-op")
  | ["skip", n] =>
    match n.toNat? with
    | some n =>
      if n ≤ maxOffset then
        match skip s n with
        | .ok s' => answer s' "ok" []
        | .error e => answer s s!"err {errStr e}" []
      else (s, "bad-op")
    | none => (s, "bad-op")
  | ["clear"] => answer (reset s) "ok" []
  | _ => (s, "bad-op")

def reassembler : Component :=
  { name := "reassembler", σ := RefBuf, init := init, step := stepLine }


/-! ### component `reassembler-slots` (model: `Data.SlotBuf`): the same implementation, observed
    including chunk boundaries

ops: `w`, `wx`, `skip`, `clear` as above; `pop <w|inf>` = ONE pop_watermarked call;
`read <w|inf>` = repeated calls as above. Every answer is
`<ok|err KIND> <bytes> <chunk lengths, comma separated> <len> <report().chunks> <consumed>
<total_received> <final|none> <writing_complete> <reading_complete> <is_empty>`. -/

open Quic.Data in
def showSlotState (s : SlotBuf.SlotBuf) : String :=
  let fin := match s.finalOffset with
    | some f => toString f
    | none => "none"
  let r := SlotBuf.report s
  s!"{r.1} {r.2} {s.start} {SlotBuf.totalReceivedLen s} {fin} {boolStr (SlotBuf.isWritingComplete s)} {boolStr (SlotBuf.isReadingComplete s)} {boolStr (SlotBuf.isEmpty s)}"

open Quic.Data in
def slotAnswer (s : SlotBuf.SlotBuf) (status : String) (b : List Nat) (chunks : List Nat) : SlotBuf.SlotBuf × String :=
  (s, s!"{status} {showBytes b} {natList chunks} {showSlotState s}")

open Quic.Data in
def slotWrite (s : SlotBuf.SlotBuf) (off : Nat) (data : List Nat) (fin : Bool) : SlotBuf.SlotBuf × String :=
  match SlotBuf.write s off data fin with
  | some (.ok s') => slotAnswer s' "ok" [] []
  | some (.error e) => slotAnswer s s!"err {errStr e}" [] []
  | none => slotAnswer s "err model-stuck" [] []

open Quic.Data in
/-- repeated `pop_watermarked(w - got)` until `w` bytes were handed out or a call returns nothing -/
def slotRead : Nat → SlotBuf.SlotBuf → Option Nat → List Nat → List Nat → SlotBuf.SlotBuf × List Nat × List Nat
  | 0, s, _, got, cs => (s, got, cs)
  | fuel + 1, s, w, got, cs =>
    let w' := w.map (· - got.length)
    let (s', c) := SlotBuf.readChunk s w'
    if c.isEmpty then (s', got, cs)
    else
      let got := got ++ c
      let cs := cs ++ [c.length]
      match w with
      | some w => if got.length ≥ w then (s', got, cs) else slotRead fuel s' (some w) got cs
      | none => slotRead fuel s' none got cs

open Quic.Data in
def slotStepLine (s : SlotBuf.SlotBuf) (t : List String) : SlotBuf.SlotBuf × String :=
  match t with
  | ["w", off, n, key, fin] =>
    match off.toNat?, n.toNat?, key.toNat?, bool? fin with
    | some off, some n, some key, some fin =>
      if off ≤ maxOffset ∧ n ≤ 16777216 ∧ key < 18446744073709551616 then slotWrite s off (payload key off n) fin else (s, "bad-op")
    | _, _, _, _ => (s, "bad-op")
  | ["wx", off, h, fin] =>
    match off.toNat?, fromHex? h, bool? fin with
    | some off, some data, some fin =>
      if off ≤ maxOffset then slotWrite s off data fin else (s, "bad-op")
    | _, _, _ => (s, "bad-op")
  | ["pop", w] =>
    match watermark? w with
    | some w =>
      let (s', c) := SlotBuf.readChunk s w
      slotAnswer s' "ok" c (if c.isEmpty then [] else [c.length])
    | none => (s, "bad-op")
  | ["read", w] =>
    match watermark? w with
    | some w =>
      let (s', got, cs) := slotRead (s.slots.length + 2) s w [] []
      slotAnswer s' "ok" got cs
    | none => (s, "bad-op")
  | ["skip", n] =>
    match n.toNat? with
    | some n =>
      if n ≤ maxOffset then
        match SlotBuf.skip s n with
        | .ok s' => slotAnswer s' "ok" [] []
        | .error e => slotAnswer s s!"err {errStr e}" [] []
      else (s, "bad-op")
    | none => (s, "bad-op")
  | ["clear"] => slotAnswer SlotBuf.init "ok" [] []
  | _ => (s, "bad-op")

def reassemblerSlots : Component :=
  { name := "reassembler-slots", σ := Quic.Data.SlotBuf.SlotBuf, init := Quic.Data.SlotBuf.init, step := slotStepLine }

def components : List Component := [reassembler, reassemblerSlots]

end Quic.Drivers.Reassembler
