import QuicModel.Driver
import QuicModel.Path.Mtu
namespace Quic.Drivers.Mtu
open Quic Quic.Path.Mtu

def optS (o : Option Nat) : String := match o with | some x => toString x | none => "-"

def stS : St → String
  | .early => "EarlySearchRequested"
  | .disabled => "Disabled"
  | .searchRequested => "SearchRequested"
  | .searching pn t => s!"Searching:{pn}:{t}"
  | .searchComplete => "SearchComplete"

def resS (r : Res) : String :=
  match r.upd with
  | none => s!"nc/{r.cc}"
  | some m => s!"upd:{m}/{r.cc}"

def render (c : Ctl) (res : String) : String :=
  s!"ok {res} {stS c.state} {c.base} {c.plpmtu} {c.probed} {c.maxProbe} {c.maxUdp} {c.probeCount} {c.bh} {optS c.largestAcked} {optS c.timer} {if c.probeNeeded then 1 else 0} {c.plpmtu}"

def optU16? (s : String) : Option (Option Nat) :=
  if s = "-" then some none else
  match s.toNat? with
  | some v => if v < 65536 then some (some v) else none
  | none => none

def bool? (s : String) : Option Bool := if s = "0" then some false else if s = "1" then some true else none
def space? (s : String) : Option Bool :=
  if s = "0" then some false else if s = "1" then some false else if s = "2" then some true else none

def PN_DOM : Nat := 2 ^ 40
def T_DOM : Nat := 2 ^ 50

def mtuStep (s : Option Ctl) (t : List String) : Option Ctl × String :=
  match t with
  | ["new", b, i, m, v6] =>
    match optU16? b, optU16? i, optU16? m, bool? v6 with
    | some b, some i, some m, some v6 =>
      let bld : Builder := {}
      match (match b with | some v => bld.withBase v | none => some bld) with
      | none => (none, "err base")
      | some bld =>
      match (match i with | some v => bld.withInitial v | none => some bld) with
      | none => (none, "err initial")
      | some bld =>
      match (match m with | some v => bld.withMax v | none => some bld) with
      | none => (none, "err max")
      | some bld =>
      match bld.build with
      | none => (none, "err build")
      | some cfg =>
        let c := Ctl.new cfg v6
        (some c, render c "-")
    | _, _, _, _ => (s, "bad-op")
  | ["enable"] =>
    match s with
    | some c => let c := c.enable; (some c, render c "-")
    | none => (s, "bad-op")
  | ["tx", p, now, cap, fail] =>
    match s, p.toNat?, now.toNat?, cap.toNat?, bool? fail with
    | some c, some p, some now, some cap, some fail =>
      if p < PN_DOM ∧ 1 ≤ now ∧ now < T_DOM ∧ cap < 2 ^ 32 then
        let c := c.onTx p now cap fail; (some c, render c "-")
      else (s, "bad-op")
    | _, _, _, _, _ => (s, "bad-op")
  | ["ack", p, bytes, sp] =>
    match s, p.toNat?, bytes.toNat?, space? sp with
    | some c, some p, some bytes, some app =>
      if p < PN_DOM ∧ bytes < 65536 then
        let (c, r) := c.onAck p bytes app; (some c, render c (resS r))
      else (s, "bad-op")
    | _, _, _, _ => (s, "bad-op")
  | ["loss", p, bytes, burst, now, sp] =>
    match s, p.toNat?, bytes.toNat?, bool? burst, now.toNat?, space? sp with
    | some c, some p, some bytes, some burst, some now, some app =>
      if p < PN_DOM ∧ bytes < 65536 ∧ 1 ≤ now ∧ now < T_DOM then
        let (c, r) := c.onLoss p bytes burst now app; (some c, render c (resS r))
      else (s, "bad-op")
    | _, _, _, _, _, _ => (s, "bad-op")
  | ["timeout", now] =>
    match s, now.toNat? with
    | some c, some now =>
      if 1 ≤ now ∧ now < T_DOM then
        let c := c.onTimeout now; (some c, render c "-")
      else (s, "bad-op")
    | _, _ => (s, "bad-op")
  | _ => (s, "bad-op")

def mtu : Component := { name := "mtu", σ := Option Ctl, init := none, step := mtuStep }

def components : List Component := [mtu]

end Quic.Drivers.Mtu
