import QuicModel.Driver
import QuicModel.Codec.VarInt
namespace Quic.Drivers.VarInt
open Quic

/-- ops:  `enc <v>`  -> `ok <hex> <size>`   (v ≤ 2^62-1, else `err range`)
          `dec <hex>` -> `ok <v> <consumed>` | `err eof` -/
def varintStep (t : List String) : String :=
  match t with
  | ["enc", v] =>
    match v.toNat? with
    | some x =>
      if x ≤ Codec.VarInt.maxValue then
        s!"ok {toHex (Codec.VarInt.encode x)} {Codec.VarInt.encodingSize x}"
      else "err range"
    | none => "bad-op"
  | ["dec", h] =>
    match fromHex? h with
    | some b =>
      match Codec.VarInt.decode b with
      | some (v, r) => s!"ok {v} {b.length - r.length}"
      | none => "err eof"
    | none => "bad-op"
  | _ => "bad-op"

def varint : Component := Component.stateless "varint" varintStep

/-- the RFC reference parser behind the same protocol (used to diff Codec vs Rfc on the same inputs) -/
def varintRfcStep (t : List String) : String :=
  match t with
  | ["enc", v] =>
    match v.toNat? with
    | some x =>
      if x ≤ Codec.VarInt.maxValue then
        s!"ok {toHex (Rfc.VarInt.emit x)} {Rfc.VarInt.minimalLen x}"
      else "err range"
    | none => "bad-op"
  | ["dec", h] =>
    match fromHex? h with
    | some b =>
      match Rfc.VarInt.parse b with
      | some (v, r) => s!"ok {v} {b.length - r.length}"
      | none => "err eof"
    | none => "bad-op"
  | _ => "bad-op"

def varintRfc : Component := Component.stateless "varint-rfc" varintRfcStep

def components : List Component := [varint, varintRfc]

end Quic.Drivers.VarInt
