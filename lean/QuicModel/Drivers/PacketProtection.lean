import QuicModel.Driver
import QuicModel.Compose.PacketLayout
/-
  Lean side of the C06 crypto differential (`packet_protection`, harness/vh-core).

  The real side seals genuine packets with the real keys of every cipher suite and opens tampered
  copies with the real `unprotect` + `decrypt`.  The model has no cryptography: it answers from
    * `PacketLayout.sealSizes` / `shortRegions` / `initialRegions` — total length and the region list of
      the genuine packet (compared with what the real encoder/decoder report), and
    * the IDEAL-AEAD assumption — a datagram opens iff it is byte-for-byte a sealed one:
      `open` → `opened`; every `flip` (non-zero mask, index inside the packet), every `trunc`
      (shorter than the packet), every `splice` of two different genuine packets → `rejected`;
      `reopen` with another largest-acknowledged value → `opened` iff the packet number the
      receiver reconstructs (`Codec.PacketNumber.expand`) is the one the nonce was built from;
      `kat` (RFC 9001 Appendix A vectors, sealed by the RFC's author) → `opened`.
-/
namespace Quic.Drivers.PacketProtection
open Quic Quic.Compose.PacketLayout

/-- output buffer the harness hands to the encoder -/
def capacity : Nat := 1500

inductive CaseKind where
  | short (dcidLen : Nat) (spin : Bool)
  | initial (dcid : List Nat) (scid0 : Option Nat)
deriving Repr, DecidableEq

structure Case where
  suite : String
  id : String
  kind : CaseKind
  pn : Nat
  la : Nat
  total : Nat
  regions : List Region
deriving Repr

structure St where
  keyed : List String
  cases : List Case

def St.init : St := { keyed := [], cases := [] }

def St.find (s : St) (suite id : String) : Option Case :=
  s.cases.find? (fun c => c.suite == suite && c.id == id)

def St.put (s : St) (c : Case) : St :=
  { s with cases := c :: s.cases.filter (fun x => !(x.suite == c.suite && x.id == c.id)) }

def suites : List String := ["aes128", "aes256", "chacha20"]

def sealErrStr : SealErr → String
  | .truncation => "err truncation"
  | .emptyPayload => "err empty-payload"
  | .insufficientSpace => "err insufficient-space"

def bit? : String → Option Bool
  | "0" => some false
  | "1" => some true
  | _ => none

def pnOk (v : Nat) : Bool := decide (v ≤ Codec.VarInt.maxValue)

def ppStep (s : St) (t : List String) : St × String :=
  match t with
  | ["key", suite, client, server] =>
    match fromHex? client, fromHex? server with
    | some c, some sv =>
      if suites.contains suite ∧ 16 ≤ c.length ∧ c.length ≤ 64 ∧ 16 ≤ sv.length ∧ sv.length ≤ 64 then
        ({ s with keyed := suite :: s.keyed.filter (· != suite),
                  cases := s.cases.filter (·.suite != suite) }, "ok")
      else (s, "bad-op")
    | _, _ => (s, "bad-op")
  | ["case", suite, id, "short", dcid, pn, la, spin, phase, payload] =>
    match fromHex? dcid, pn.toNat?, la.toNat?, bit? spin, bit? phase, fromHex? payload with
    | some dcid, some pn, some la, some spin, some _, some payload =>
      if dcid.length ≤ 20 ∧ s.keyed.contains suite ∧ pnOk pn ∧ pnOk la then
        match sealSizes (1 + dcid.length) false pn la payload.length capacity with
        | .error e => (s, sealErrStr e)
        | .ok r =>
          let regions := shortRegions dcid.length r.pnLen payload.length
          (s.put ⟨suite, id, .short dcid.length spin, pn, la, r.total, regions⟩, s!"ok {r.total} {render regions}")
      else (s, "bad-op")
    | _, _, _, _, _, _ => (s, "bad-op")
  | ["case", "initial", id, "initial", dcid, scid, token, pn, la, payload] =>
    match fromHex? dcid, fromHex? scid, fromHex? token, pn.toNat?, la.toNat?, fromHex? payload with
    | some dcid, some scid, some token, some pn, some la, some payload =>
      if dcid.length ≤ 20 ∧ scid.length ≤ 20 ∧ token.length ≤ 300 ∧ pnOk pn ∧ pnOk la then
        let tokLenLen := Codec.VarInt.encodingSize token.length
        let prefixLen := 1 + 4 + 1 + dcid.length + 1 + scid.length + tokLenLen + token.length
        match sealSizes prefixLen true pn la payload.length capacity with
        | .error e => (s, sealErrStr e)
        | .ok r =>
          let regions := initialRegions dcid.length scid.length tokLenLen token.length r.lengthLen r.pnLen payload.length
          (s.put ⟨"initial", id, .initial dcid scid.head?, pn, la, r.total, regions⟩, s!"ok {r.total} {render regions}")
      else (s, "bad-op")
    | _, _, _, _, _, _ => (s, "bad-op")
  | ["open", suite, id] =>
    match s.find suite id with
    | some _ => (s, "ok opened")
    | none => (s, "bad-op")
  | ["reopen", suite, id, la] =>
    match s.find suite id, la.toNat? with
    | some c, some la' =>
      if pnOk la' then
        match Codec.PacketNumber.truncate c.pn c.la with
        | some tr =>
          -- the nonce is built from the packet number the receiver reconstructs
          if Codec.PacketNumber.expand la' tr = some c.pn then (s, "ok opened") else (s, "ok rejected")
        | none => (s, "bad-op")
      else (s, "bad-op")
    | _, _ => (s, "bad-op")
  | ["flip", suite, id, idx, mask] =>
    match s.find suite id, idx.toNat?, mask.toNat? with
    | some c, some i, some m =>
      if i < c.total ∧ 0 < m ∧ m ≤ 255 then
        -- every byte lies in a region that is AAD, header-protected, ciphertext or tag
        match regionAt c.regions i with
        | some _ => (s, "ok rejected")
        | none => (s, "err uncovered-byte")
      else (s, "bad-op")
    | _, _, _ => (s, "bad-op")
  | ["trunc", suite, id, n] =>
    match s.find suite id, n.toNat? with
    | some c, some n => if n < c.total then (s, "ok rejected") else (s, "bad-op")
    | _, _ => (s, "bad-op")
  | ["splice", suite, a, b, cut] =>
    match s.find suite a, s.find suite b, cut.toNat? with
    | some ca, some cb, some cut =>
      if cut = 0 ∨ cut ≥ ca.total ∨ cut ≥ cb.total then (s, "bad-op")
      else
        let distinct : Bool :=
          match ca.kind, cb.kind with
          | .short la sa, .short lb sb => la == lb && sa != sb
          | .initial da (some x), .initial db (some y) => da == db && x != y && decide (cut ≥ 8 + da.length)
          | _, _ => false
        if distinct then (s, "ok rejected") else (s, "bad-op")
    | _, _, _ => (s, "bad-op")
  | ["kat", "initial", side, dcid, la, packet, payload] =>
    match fromHex? dcid, la.toNat?, fromHex? packet, fromHex? payload with
    | some _, some la, some _, some _ =>
      if (side == "client" || side == "server") ∧ pnOk la then (s, "ok opened") else (s, "bad-op")
    | _, _, _, _ => (s, "bad-op")
  | ["kat", suite, secret, dcidLen, la, packet, payload] =>
    match fromHex? secret, dcidLen.toNat?, la.toNat?, fromHex? packet, fromHex? payload with
    | some sec, some dl, some la, some _, some _ =>
      if suites.contains suite ∧ dl ≤ 20 ∧ pnOk la ∧ 16 ≤ sec.length ∧ sec.length ≤ 64 then (s, "ok opened") else (s, "bad-op")
    | _, _, _, _, _ => (s, "bad-op")
  | _ => (s, "bad-op")

def packetProtection : Component :=
  { name := "packet_protection", σ := St, init := St.init, step := ppStep }

def components : List Component := [packetProtection]

end Quic.Drivers.PacketProtection
