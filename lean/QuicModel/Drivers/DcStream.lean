import QuicModel.Driver
import QuicModel.Dc.StreamRecv
import QuicModel.Dc.StreamSend
/-
  Line-protocol driver `dc_stream_sim`: the MODEL's side of a harness/vh-dc `dc_stream_sim` scenario
  line — what the C20 theorems demand of that scenario, as one line:

    ok expect=<exact|prefix> c2s=<bytes> s2c=<bytes> fail_by_ms=<n|->

  `exact`  both applications behave (client normal/shutdown_early/concurrent, server normal/write_first)
           and the network is clean after the fault prefix: by `dc_end_to_end` + completeness each side
           reads exactly what the other wrote (`c2s`/`s2c` bytes), ends in a clean EOF and sees no error;
  `prefix` a side drops early or the peer is faulty: only the prefix property is demanded (what is read
           is a prefix of what was written; a clean EOF only after everything that was written);
  `fail_by_ms` (vanished peer / forgotten path secret): by `dc_idle_fails` the stream must have failed
           by (vanish time) + idle timeout + 2500 ms scheduling slack.
  The same domain as the Rust side; anything else is `bad-op`.
-/
namespace Quic.Drivers.DcStream
open Quic

def lookup (kv : List (String × String)) (k : String) : Option String := (kv.find? (·.1 == k)).map (·.2)

def splitKv (t : String) : Option (String × String) :=
  match t.splitOn "=" with
  | [k, v] => some (k, v)
  | _ => none

def parseAll : List String → Option (List (String × String))
  | [] => some []
  | t :: ts =>
    match splitKv t, parseAll ts with
    | some kv, some rest => some (kv :: rest)
    | _, _ => none

def natOf (kv : List (String × String)) (k : String) : Option Nat := (lookup kv k).bind String.toNat?

def slackMs : Nat := 2500

def simStep (toks : List String) : String :=
  match toks with
  | "run" :: rest =>
    match parseAll rest with
    | none => "bad-op"
    | some kv =>
      match natOf kv "seed", lookup kv "proto", natOf kv "req", natOf kv "resp", natOf kv "wchunk", natOf kv "rchunk",
            natOf kv "mtu", natOf kv "drop_pm", natOf kv "dup_pm", natOf kv "reorder_pm", natOf kv "faults_until_ms",
            lookup kv "client_op", lookup kv "server_op", natOf kv "idle_ms", natOf kv "deadline_ms" with
      | some _, some proto, some req, some resp, some wchunk, some rchunk, some mtu, some dr, some du, some re, some _,
        some cop, some sop, some idle, some deadline =>
        let vanish := (natOf kv "vanish_us").getD 0
        let smtu := (natOf kv "smtu").getD mtu
        let okProto := proto == "udp" || proto == "tcp"
        let okC := ["normal", "shutdown_early", "drop_early", "concurrent"].contains cop
        let okS := ["normal", "write_first", "drop_early", "stall", "vanish", "forget_secret"].contains sop
        let max := 16 * 1048576
        let okDom := req ≤ max && resp ≤ max && 0 < wchunk && wchunk ≤ max && 0 < rchunk && rchunk ≤ max &&
          1250 ≤ mtu && mtu ≤ 32768 && 1250 ≤ smtu && smtu ≤ 32768 && dr ≤ 1000 && du ≤ 1000 && re ≤ 1000 &&
          0 < deadline && deadline ≤ 3600000 && idle == 30000 &&
          (proto != "tcp" || (dr + du + re + vanish == 0)) &&
          (proto == "tcp" || !((sop == "vanish" && vanish == 0) || (vanish != 0 && !(sop == "vanish" || sop == "stall"))))
        if !(okProto && okC && okS && okDom) then "bad-op"
        else
          let planned := if cop == "shutdown_early" || cop == "drop_early" then req / 2 else req
          let exact := (cop == "normal" || cop == "shutdown_early" || cop == "concurrent") &&
            (sop == "normal" || sop == "write_first")
          let failBy :=
            if sop == "vanish" || sop == "forget_secret" || sop == "stall" then
              toString ((vanish + 999) / 1000 + (if sop == "stall" then 1000 else 0) + idle + slackMs)
            else "-"
          s!"ok expect={if exact then "exact" else "prefix"} c2s={planned} s2c={resp} fail_by_ms={failBy}"
      | _, _, _, _, _, _, _, _, _, _, _, _, _, _, _ => "bad-op"
  | _ => "bad-op"

def components : List Component := [Component.stateless "dc_stream_sim" simStep]

end Quic.Drivers.DcStream
