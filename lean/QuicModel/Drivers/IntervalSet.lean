import QuicModel.Driver
import QuicModel.Data.IntervalSet
namespace Quic.Drivers.IntervalSet
open Quic Quic.Data.IvSet

/-- component `ivset`: two `IntervalSet<u64>` (A = current, B = operand of the binary operations).
    Every answer is `ok <result> <intervals of A>`; intervals are `lo-hi` joined by `,` (`-` = empty).
    ops:  new none|<n> · limit <n> · nolimit · ins lo hi · insr lo hiEx · insv v · insf lo hi ·
          rm lo hi · rmr lo hiEx · rmv v · pop · min · max · count · len · empty · has v · clear ·
          iter · riter · swap · union · diff · inter · interiter -/
structure St where
  a : IvSet
  b : IvSet

def u64Max : Nat := 18446744073709551615

def ivStr (i : Interval) : String := s!"{i.lo}-{i.hi}"

def ivsStr (l : List Interval) : String :=
  if l.isEmpty then "-" else ",".intercalate (l.map ivStr)

def errStr : Error → String
  | .limitExceeded => "limit"
  | .invalidInterval => "invalid"
  | .indexPanic => "index-panic"

/-- first `n` values ascending without materialising big intervals -/
def takeValues : Nat → List Interval → List Nat
  | 0, _ => []
  | _, [] => []
  | n + 1, i :: rest =>
    let k := min (n + 1) (i.hi + 1 - i.lo)
    (List.range k).map (· + i.lo) ++ takeValues (n + 1 - k) rest

/-- first `n` values descending; `l` is the interval list reversed -/
def takeValuesRev : Nat → List Interval → List Nat
  | 0, _ => []
  | _, [] => []
  | n + 1, i :: rest =>
    let k := min (n + 1) (i.hi + 1 - i.lo)
    (List.range k).map (i.hi - ·) ++ takeValuesRev (n + 1 - k) rest

def u64? (s : String) : Option Nat :=
  match s.toNat? with
  | some v => if v ≤ u64Max then some v else none
  | none => none

def reply (st : St) (res : String) : St × String := (st, s!"ok {res} {ivsStr st.a.ivs}")

def withIv (st : St) (iv : Except Error Interval) (f : Interval → St × String) : St × String :=
  match iv with
  | .ok i => f i
  | .error e => reply st (errStr e)

def doInsert (st : St) (front : Bool) (i : Interval) : St × String :=
  match (if front then st.a.insertFront i else st.a.insert i) with
  | .ok a' => reply { st with a := a' } "ok"
  | .error e => reply st (errStr e)

def doRemove (st : St) (i : Interval) : St × String :=
  match st.a.remove i with
  | (a', .ok _) => reply { st with a := a' } "ok"
  | (a', .error e) => reply { st with a := a' } (errStr e)

def optNat : Option Nat → String
  | some v => toString v
  | none => "none"

def step (st : St) (t : List String) : St × String :=
  match t with
  | ["new", "none"] => reply { st with a := IvSet.empty } "-"
  | ["new", n] =>
    match n.toNat? with
    | some l => if l = 0 ∨ l > u64Max then (st, "bad-op") else reply { st with a := IvSet.withLimit l } "-"
    | none => (st, "bad-op")
  | ["limit", n] =>
    match n.toNat? with
    | some l => if l = 0 ∨ l > u64Max then (st, "bad-op") else reply { st with a := st.a.setLimit l } "-"
    | none => (st, "bad-op")
  | ["nolimit"] => reply { st with a := st.a.removeLimit } "-"
  | [op, x, y] =>
    match u64? x, u64? y with
    | some lo, some hi =>
      match op with
      | "ins" => withIv st (fromInclusive lo hi) (doInsert st false)
      | "insr" => withIv st (fromRange lo hi) (doInsert st false)
      | "insf" => withIv st (fromInclusive lo hi) (doInsert st true)
      | "rm" => withIv st (fromInclusive lo hi) (doRemove st)
      | "rmr" => withIv st (fromRange lo hi) (doRemove st)
      | _ => (st, "bad-op")
    | _, _ => (st, "bad-op")
  | [op, x] =>
    match u64? x with
    | some v =>
      match op with
      | "insv" => withIv st (fromInclusive v v) (doInsert st false)
      | "rmv" => withIv st (fromInclusive v v) (doRemove st)
      | "has" => reply st (boolStr (st.a.contains v))
      | _ => (st, "bad-op")
    | none => (st, "bad-op")
  | ["pop"] =>
    match st.a.popMin with
    | (a', some i) => reply { st with a := a' } (ivStr i)
    | (a', none) => reply { st with a := a' } "none"
  | ["min"] => reply st (optNat st.a.minValue)
  | ["max"] => reply st (optNat st.a.maxValue)
  | ["count"] => reply st (toString st.a.count)
  | ["len"] => reply st (toString st.a.intervalLen)
  | ["empty"] => reply st (boolStr st.a.isEmpty)
  | ["clear"] => reply { st with a := st.a.clear } "-"
  | ["iter"] => reply st (natList (takeValues 64 st.a.ivs))
  | ["riter"] => reply st (natList (takeValuesRev 64 st.a.ivs.reverse))
  | ["swap"] => reply { a := st.b, b := st.a } "-"
  | ["union"] =>
    match st.a.union st.b with
    | (a', .ok _) => reply { st with a := a' } "ok"
    | (a', .error e) => reply { st with a := a' } (errStr e)
  | ["diff"] =>
    match st.a.difference st.b with
    | (a', .ok _) => reply { st with a := a' } "ok"
    | (a', .error e) => reply { st with a := a' } (errStr e)
  | ["inter"] => reply { st with a := st.a.intersection u64Max st.b } "ok"
  | ["interiter"] => reply st (ivsStr (st.a.intersectionIter st.b))
  | _ => (st, "bad-op")

def ivset : Component := { name := "ivset", σ := St, init := ⟨IvSet.empty, IvSet.empty⟩, step := step }

def components : List Component := [ivset]

end Quic.Drivers.IntervalSet
