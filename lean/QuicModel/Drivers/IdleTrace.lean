import QuicModel.Driver
import QuicModel.Conn.IdleTimer
/-
  Tie T for the idle timer: trace acceptor for ONE endpoint of a real end-to-end run
  (component `idle-trace`; the ops are produced from a vh-e2e trace by `tools/e2e_ops_idle.py`).

  ops, in trace order:
    `cfg <idle_us>`                                   effective max_idle_timeout (0 = disabled)
    `rx <t>`                                          a packet was processed (`rxp` record)
    `tx <t> <ack_eliciting 0|1>`                      a packet was sent (`txp` record)
    `metrics <t> <srtt_us> <rttvar_us> <max_ack_delay_us> <pto_count>`   `recovery:metrics_updated`
    `closed <t> <idle|other>`                         `connectivity:connection_closed`
  answers: `ok <deadline|none>` for rx/tx/metrics/cfg, and for `closed … idle`
    `ok` | `err early` | `err late` | `err unarmed`.

  The model keeps the idle deadline with `Conn.IdleTimer`'s rules; the PTO at a restart instant is
  computed from the latest `metrics` op (PTO = (srtt + max(4·rttvar, 1 ms) + max_ack_delay)·2^pto_count,
  at least 1 ms — `RttEstimator::pto_period`, ApplicationData space).  Because the event that
  carries the RTT/back-off values of a restart instant may be published just before or just after
  the `rxp`/`txp` record of the same timestamp, a second candidate deadline is computed from the
  first `metrics` op that follows the restart at the same timestamp; an idle close at `t` is accepted
  when it is not early for the smaller candidate (`deadline < t + 1 ms`, the code's
  `Timestamp::has_elapsed`) and not late for the larger one (`t ≤ deadline + 1 ms + 60 ms`).
-/
namespace Quic.Drivers.IdleTrace
open Quic Quic.Conn

/-- slack granted to the executor before an expired timer is noticed (µs) -/
def LATE_SLACK_US : Nat := 60000

structure TS where
  timer : IdleTimer.State := {}
  /-- candidate deadline from the first metrics at the restart timestamp -/
  alt : Option Nat := none
  /-- timestamp of the last restart while no later `metrics` op has been seen -/
  pendingAt : Option Nat := none
  /-- `current_pto()` (µs) from the latest metrics (before any: the default initial RTT 333 ms) -/
  ptoUs : Nat := 999000
  configured : Bool := false
deriving Repr

/-- `pto_period(pto_backoff = 2^count, ApplicationData)` in µs -/
def ptoOf (srtt rttvar mad count : Nat) : Nat :=
  max ((srtt + max (4 * rttvar) 1000 + mad) * 2 ^ count) 1000

def showDeadline (o : Option Nat) : String :=
  match o with
  | some d => s!"ok {d}"
  | none => "ok none"

def restart (s : TS) (t : Nat) (timer : IdleTimer.State) : TS × String :=
  ({ s with timer := timer, alt := none, pendingAt := some t }, showDeadline timer.deadline)

/-- verdict for an idle close at `t` given the candidate deadlines -/
def verdict (cands : List Nat) (t : Nat) : String :=
  match cands with
  | [] => "err unarmed"
  | c :: cs =>
    let lo := cs.foldl min c
    let hi := cs.foldl max c
    if !(decide (lo < t + IdleTimer.K_GRANULARITY_US)) then "err early"
    else if decide (t > hi + IdleTimer.K_GRANULARITY_US + LATE_SLACK_US) then "err late"
    else "ok"

def candidates (s : TS) : List Nat :=
  (match s.timer.deadline with | some d => [d] | none => []) ++ (match s.alt with | some d => [d] | none => [])

def step (s : TS) (toks : List String) : TS × String :=
  match toks with
  | ["cfg", idle] =>
    match idle.toNat? with
    | some us =>
      let idleMs := if us / 1000 = 0 then none else some (us / 1000)
      ({ timer := IdleTimer.init idleMs, configured := true }, "ok none")
    | none => (s, "bad-op")
  | ["rx", t] =>
    match t.toNat? with
    | some t => if !s.configured then (s, "bad-op") else restart s t (IdleTimer.processed s.timer t s.ptoUs)
    | none => (s, "bad-op")
  | ["tx", t, ae] =>
    match t.toNat?, ae with
    | some t, "1" =>
      if !s.configured then (s, "bad-op") else
      if s.timer.resetOnSend then restart s t (IdleTimer.sentAckEliciting s.timer t s.ptoUs)
      else (s, showDeadline s.timer.deadline)
    | some _, "0" => if !s.configured then (s, "bad-op") else (s, showDeadline s.timer.deadline)
    | _, _ => (s, "bad-op")
  | ["metrics", t, a, b, c, d] =>
    match t.toNat?, a.toNat?, b.toNat?, c.toNat?, d.toNat? with
    | some t, some srtt, some rttvar, some mad, some cnt =>
      if cnt > 40 then (s, "bad-op") else
      let pto := ptoOf srtt rttvar mad cnt
      let s := { s with ptoUs := pto }
      if s.pendingAt = some t then
        let alt := match IdleTimer.duration s.timer.idleMs pto with
          | some d => some (IdleTimer.arm t d)
          | none => none
        ({ s with alt := alt, pendingAt := none }, showDeadline alt)
      else ({ s with pendingAt := none }, showDeadline s.timer.deadline)
    | _, _, _, _, _ => (s, "bad-op")
  | ["closed", t, why] =>
    match t.toNat? with
    | some t =>
      if why == "idle" then (s, verdict (candidates s) t)
      else if why == "other" then (s, "ok")
      else (s, "bad-op")
    | none => (s, "bad-op")
  | _ => (s, "bad-op")

def idleTrace : Component := { name := "idle-trace", σ := TS, init := {}, step := step }

def components : List Component := [idleTrace]

end Quic.Drivers.IdleTrace
