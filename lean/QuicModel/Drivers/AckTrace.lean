import QuicModel.Driver
import QuicModel.Conn.AckManager
/-
  component `ack-trace` (tie T for the ACK half of C08): a trace ACCEPTOR. The ops describe what ONE
  real endpoint did in ONE packet-number space, in trace order (tools/e2e_ops_ack.py builds them from
  a vh-e2e trace); the acceptor runs `Quic.Conn.AckManager` in lock-step in RELATIONAL mode and says
  whether every observed transmission is one the model admits.

    cfg <max_ack_delay_us> <ranges_limit>
    rx <t_us> <pn> <ack_eliciting 0|1> <ce 0|1> [<path_challenge 0|1>]
    tx <t_us> <own pn> <ack_eliciting 0|1> <ranges hi-range first: lo-hi,lo-hi,… | -> [<mode n|p|m|v>]
          (`-` = the packet carries no ACK frame; mode: n Normal (default), p LossRecoveryProbing,
           m MtuProbing, v PathValidationOnly — the last two never consult the ack manager)
    acked <ranges lo-hi,…> [<t_us>]   every range of a received ACK frame, in frame order: one `on_packet_ack` each
    lost <own pn,own pn,…> [<t_us>]   one `on_packet_loss` per packet number
          (the optional time is only used by the promptness bookkeeping `late=`)

  What is not observable is non-deterministic, so the acceptor tracks a SET of model states
  (`branches`): the connection calls `on_timeout(now)` on every wake-up, which the trace does not
  show — before an op at time `t` an armed `ack_delay_timer` with `expiration < t + K_GRANULARITY`
  may have fired (both branches are kept) and one with `expiration + fireSlackUs < t` must have fired.
  The transmission constraint and whether frames fit are unknown: assumed permissive.

  HARD checks on `tx` (answer `err <reason>`; some branch must pass):
    with an ACK frame (mode n|p):
      ack-no-ranges        the model holds no ranges at all
      ack-unprocessed      (i) some acknowledged range is not inside the model's `ack_ranges`
      ack-not-from-top     (i) the first (largest) range is not the model's largest range
      ack-while-disabled   Normal mode and the model's transmission state is `Disabled`
      ack-in-probe-mode    an ACK frame in an MTU probe / path-validation-only packet
    without an ACK frame (mode n|p):
      forced-ack-omitted   (ii) the model is `Active` (forced transmission interest) and holds ranges
      passive-ack-omitted  Normal mode, `Passive`, ranges held and the packet is ack-eliciting (it carries
                           other frames, so the constraint allowed transmitting / retransmitting)
  SOFT (counted, reported in the answer): `exact=0` the ranges differ from the model's full range list;
    `probe-noack` a loss-recovery probe without ACK although the model holds ranges; `late=<µs>` how long the
    ACK the model wants (forced interest since / delay-timer deadline) has been overdue at this op — judged by
    props/parts/C08_acktrace.py on receiver-only endpoints only (ACK-only packets of a sender are paced).
  Answers: `ok b=<branches> [exact=0|1] …` | `err <reason>` | `bad-op`.
-/
namespace Quic.Drivers.AckTrace
open Quic Quic.Conn.AckManager Quic.Data.IvSet Quic.Data

inductive TOp where
  | cfg (maxAckDelayUs limit : Nat)
  | rx (t pn : Nat) (ackEliciting ce pathChallenge : Bool)
  | tx (t ownPn : Nat) (ackEliciting : Bool) (ranges : Option (List Interval)) (mode : Mode)
  | acked (ranges : List Interval) (t : Option Nat)
  | lost (pns : List Nat) (t : Option Nat)
  deriving Repr, DecidableEq

structure Acc where
  /-- the model states the endpoint may be in -/
  branches : List State
  /-- `tx` ops whose ranges were not exactly the model's -/
  inexact : Nat
  /-- promptness bookkeeping (SOFT, reported as `late=<µs>` on the next `tx` with an ACK frame): the time
      since which EVERY branch wants an ACK out — `Active` with ranges since that op, or the armed
      delay timer's deadline -/
  due : Option Nat := none
  /-- the latest op time seen -/
  clock : Nat := 0
  deriving Repr

def Acc.init : Acc := ⟨[], 0, none, 0⟩

/-- when (at the latest) the model state wants an ACK frame sent -/
def wantTime (s : State) (now : Nat) : Option Nat :=
  if s.ackRanges.isEmpty then none
  else if s.transmissionState.isActive then some now
  else
    match s.transmissionState, s.ackDelayTimer with
    | .passive _, some exp => some exp
    | _, _ => none

def dueAfter (old : Option Nat) (bs : List State) (now : Nat) : Option Nat :=
  match bs with
  | [] => none
  | _ =>
    if bs.all (fun s => (wantTime s now).isSome) then
      let m := bs.foldl (fun acc s => max acc ((wantTime s now).getD 0)) 0
      match old with
      | some d => some (min d m)
      | none => some m
    else none

def opTime : TOp → Option Nat
  | .rx t _ _ _ _ => some t
  | .tx t _ _ _ _ => some t
  | .acked _ t => t
  | .lost _ t => t
  | _ => none

/-- an armed timer this far in the past must have fired (the connection timer wakes the connection
    at the expiration; allowance for the 1 ms timer granularity on both sides) -/
def fireSlackUs : Nat := 2000

/-- the unobserved `on_timeout` calls before an op at time `t` -/
def advance (s : State) (t : Nat) : List State :=
  match s.ackDelayTimer with
  | none => [s]
  | some exp =>
    if exp < t + granularityUs then
      if exp + fireSlackUs < t then [onTimeout s t] else [onTimeout s t, s]
    else [s]

def dedup : List State → List State
  | [] => []
  | s :: rest => if rest.contains s then dedup rest else s :: dedup rest

/-- every observed range lies inside one stored interval -/
def subsetOf (obs : List Interval) (model : List Interval) : Bool :=
  obs.all (fun r => model.any (fun iv => decide (iv.lo ≤ r.lo) && decide (r.hi ≤ iv.hi)))

/-- why a branch does not admit a transmitted ACK frame with ranges `obs` (descending) -/
def ackReject (s : State) (obs : List Interval) (m : Mode) : Option String :=
  if s.ackRanges.isEmpty then some "ack-no-ranges"
  else if !subsetOf obs s.ackRanges.ivs then some "ack-unprocessed"
  else if obs.head? != (AckRanges.ackRanges s.ackRanges).head? then some "ack-not-from-top"
  else if m.isNormal && s.transmissionState == .disabled then some "ack-while-disabled"
  else none

/-- `on_transmit_complete` with the observed final ack elicitation of the packet (whether the PING
    came from the ack manager is not observable and does not matter for the state) -/
def complete (s : State) (ownPn : Nat) (ae : Bool) : Option State :=
  match onTransmitComplete s .congestionLimited ownPn ae false with
  | some (s', _) => some s'
  | none => none

/-- why a branch does not admit a Normal/probe packet WITHOUT an ACK frame -/
def noAckReject (s : State) (ae : Bool) (m : Mode) : Option String :=
  let hasRanges := !s.ackRanges.isEmpty
  if hasRanges && s.transmissionState.isActive then some "forced-ack-omitted"
  else if hasRanges && m.isNormal && ae && s.transmissionState != .disabled then some "passive-ack-omitted"
  else none

def firstSome : List (Option String) → Option String
  | [] => none
  | some r :: _ => some r
  | none :: rest => firstSome rest

def foldOpt (f : State → Interval → Option State) : List Interval → State → Option State
  | [], s => some s
  | r :: rest, s =>
    match f s r with
    | some s' => foldOpt f rest s'
    | none => none

def mapOpt (f : State → Option State) : List State → Option (List State)
  | [] => some []
  | s :: rest =>
    match f s, mapOpt f rest with
    | some s', some l => some (s' :: l)
    | _, _ => none

inductive Ans where
  | ok (info : String)
  | err (reason : String)
  | badOp
  deriving Repr, DecidableEq

def Ans.isOk : Ans → Bool
  | .ok _ => true
  | _ => false

def advanceAll (bs : List State) (t : Nat) : List State := bs.flatMap (fun s => advance s t)

def acceptCfg (a : Acc) (mad limit : Nat) : Acc × Ans :=
  if limit = 0 then (a, .badOp)
  else ({ a with branches := [init { Settings.recommended with maxAckDelay := mad, ackRangesLimit := limit }] }, .ok "b=1")

def rxStates (bs : List State) (t pn : Nat) (ae ce pc : Bool) : List State :=
  dedup ((advanceAll bs t).map (fun s => (onProcessedPacket s ⟨pn, ae, if ce then .ce else .notEct, pc, t⟩).1))

def acceptRx (a : Acc) (t pn : Nat) (ae ce pc : Bool) : Acc × Ans :=
  ({ a with branches := rxStates a.branches t pn ae ce pc }, .ok s!"b={(rxStates a.branches t pn ae ce pc).length}")

/-- the branches that admit the observed ACK frame -/
def goodAck (bs : List State) (t : Nat) (obs : List Interval) (m : Mode) : List State :=
  (advanceAll bs t).filter (fun s => (ackReject s obs m).isNone)

/-- best effort continuation after a rejected `tx`, so that later ops are still checked -/
def contAck (bs : List State) (t ownPn : Nat) (ae : Bool) : List State :=
  let cont := dedup ((advanceAll bs t).filterMap (fun s => complete s ownPn ae))
  if cont.isEmpty then advanceAll bs t else cont

def acceptTxAck (a : Acc) (t ownPn : Nat) (ae : Bool) (obs : List Interval) (m : Mode) : Acc × Ans :=
  if m == .mtuProbing || m == .pathValidationOnly then (a, .err "ack-in-probe-mode")
  else if (goodAck a.branches t obs m).isEmpty then
    ({ a with branches := contAck a.branches t ownPn ae },
     .err ((firstSome ((advanceAll a.branches t).map (fun s => ackReject s obs m))).getD "no-state"))
  else
    match mapOpt (fun s => complete s ownPn ae) (goodAck a.branches t obs m) with
    | some next =>
      let exact := (goodAck a.branches t obs m).any (fun s => obs == AckRanges.ackRanges s.ackRanges)
      ({ a with branches := dedup next, inexact := if exact then a.inexact else a.inexact + 1 },
       .ok s!"b={(dedup next).length} exact={boolStr exact}")
    | none => (a, .err "model-panic")

def goodNoAck (bs : List State) (t : Nat) (ae : Bool) (m : Mode) : List State :=
  (dedup (advanceAll bs t)).filter (fun s => (noAckReject s ae m).isNone)

def acceptTxNoAck (a : Acc) (t : Nat) (ae : Bool) (m : Mode) : Acc × Ans :=
  if m == .mtuProbing || m == .pathValidationOnly then (a, .ok s!"b={a.branches.length} skipped")
  else if (goodNoAck a.branches t ae m).isEmpty then
    if (advanceAll a.branches t).isEmpty then (a, .ok "b=0")
    else ({ a with branches := dedup (advanceAll a.branches t) },
          .err ((firstSome ((advanceAll a.branches t).map (fun s => noAckReject s ae m))).getD "no-state"))
  else
    let probeNoAck := !m.isNormal && (goodNoAck a.branches t ae m).all (fun s => !s.ackRanges.isEmpty)
    ({ a with branches := goodNoAck a.branches t ae m },
     .ok (s!"b={(goodNoAck a.branches t ae m).length}" ++ (if probeNoAck then " probe-noack" else "")))

/-- one `on_packet_ack(range)` per range of the received ACK frame, in frame order -/
def ackedState (rs : List Interval) (s : State) : Option State := foldOpt (fun s r => onPacketAck s [r]) rs s

def acceptAcked (a : Acc) (rs : List Interval) : Acc × Ans :=
  match mapOpt (ackedState rs) a.branches with
  | some next => ({ a with branches := dedup next }, .ok s!"b={(dedup next).length}")
  | none => (a, .err "model-panic")

/-- one `on_packet_loss(pn..=pn)` per lost packet -/
def lostState (pns : List Nat) (s : State) : State := pns.foldl (fun s pn => onPacketLoss s [⟨pn, pn⟩]) s

def acceptLost (a : Acc) (pns : List Nat) : Acc × Ans :=
  ({ a with branches := dedup (a.branches.map (lostState pns)) }, .ok s!"b={(dedup (a.branches.map (lostState pns))).length}")

/-- the checks proper (promptness bookkeeping aside) -/
def acceptCore (a : Acc) : TOp → Acc × Ans
  | .cfg mad limit => acceptCfg a mad limit
  | .rx t pn ae ce pc => acceptRx a t pn ae ce pc
  | .tx t ownPn ae (some obs) m => acceptTxAck a t ownPn ae obs m
  | .tx t _ ae none m => acceptTxNoAck a t ae m
  | .acked rs _ => acceptAcked a rs
  | .lost pns _ => acceptLost a pns

/-- how long an ACK frame has been overdue w.r.t. the model when this op happens (0 when not): for a `tx`
    with ACK frame the delay of that frame, for any other timed op the time the endpoint has let pass
    without sending the ACK the model wants -/
def lateness (a : Acc) (op : TOp) : Nat :=
  match opTime op, a.due with
  | some t, some d => t - d
  | _, _ => 0

def accept (a : Acc) (op : TOp) : Acc × Ans :=
  let r := acceptCore a op
  let clock := match opTime op with | some t => max a.clock t | none => a.clock
  let ans := match r.2 with
    | .ok info => .ok (info ++ s!" late={lateness a op}")
    | x => x
  ({ r.1 with due := dueAfter a.due r.1.branches clock, clock := clock }, ans)

/-- a whole trace: the answers in op order -/
def acceptAll (a : Acc) : List TOp → List Ans
  | [] => []
  | op :: rest => let r := accept a op; r.2 :: acceptAll r.1 rest

-- ---------------------------------------------------------------------------------------------
-- line protocol

def bool? (s : String) : Option Bool := if s == "1" then some true else if s == "0" then some false else none

def range? (s : String) : Option Interval :=
  match s.splitOn "-" with
  | [x, y] =>
    match x.toNat?, y.toNat? with
    | some lo, some hi => if lo ≤ hi ∧ hi ≤ pnMax then some ⟨lo, hi⟩ else none
    | _, _ => none
  | _ => none

def ranges? (s : String) : Option (List Interval) :=
  (s.splitOn ",").foldr (fun t acc =>
    match range? t, acc with
    | some r, some l => some (r :: l)
    | _, _ => none) (some [])

def pns? (s : String) : Option (List Nat) :=
  (s.splitOn ",").foldr (fun t acc =>
    match t.toNat?, acc with
    | some r, some l => if r ≤ pnMax then some (r :: l) else none
    | _, _ => none) (some [])

def mode? (s : String) : Option Mode :=
  if s == "n" then some .normal else if s == "p" then some .lossRecoveryProbing
  else if s == "m" then some .mtuProbing else if s == "v" then some .pathValidationOnly else none

def timeMax : Nat := 2 ^ 62

def parse (t : List String) : Option TOp :=
  match t with
  | ["cfg", mad, lim] =>
    match mad.toNat?, lim.toNat? with
    | some m, some l => if m ≤ timeMax ∧ l ≤ 255 then some (.cfg m l) else none
    | _, _ => none
  | "rx" :: ts :: pn :: ae :: ce :: rest =>
    let pc : Option Bool := match rest with | [] => some false | [x] => bool? x | _ => none
    match ts.toNat?, pn.toNat?, bool? ae, bool? ce, pc with
    | some ts, some pn, some ae, some ce, some pc =>
      if ts ≤ timeMax ∧ pn ≤ pnMax then some (.rx ts pn ae ce pc) else none
    | _, _, _, _, _ => none
  | "tx" :: ts :: own :: ae :: rs :: rest =>
    let m : Option Mode := match rest with | [] => some .normal | [x] => mode? x | _ => none
    let obs : Option (Option (List Interval)) := if rs == "-" then some none else (ranges? rs).map some
    match ts.toNat?, own.toNat?, bool? ae, obs, m with
    | some ts, some own, some ae, some obs, some m =>
      if ts ≤ timeMax ∧ own ≤ pnMax then some (.tx ts own ae obs m) else none
    | _, _, _, _, _ => none
  | ["acked", rs] => (ranges? rs).map (fun r => .acked r none)
  | ["lost", ps] => (pns? ps).map (fun r => .lost r none)
  | ["acked", rs, ts] =>
    match ranges? rs, ts.toNat? with
    | some r, some t => if t ≤ timeMax then some (.acked r (some t)) else none
    | _, _ => none
  | ["lost", ps, ts] =>
    match pns? ps, ts.toNat? with
    | some r, some t => if t ≤ timeMax then some (.lost r (some t)) else none
    | _, _ => none
  | _ => none

/-- debugging aid appended to every `ok` answer: transmission state / retransmission budget /
    timer / number of stored ranges of the first branch -/
def dbg (a : Acc) : String :=
  match a.branches with
  | [] => "st=-"
  | s :: _ =>
    let st := match s.transmissionState with
      | .disabled => "D"
      | .passive r => s!"P{r}"
      | .active r => s!"A{r}"
    let tm := match s.ackDelayTimer with | some t => toString t | none => "-"
    s!"st={st} timer={tm} n={s.ackRanges.ivs.length}"

def step (a : Acc) (t : List String) : Acc × String :=
  match parse t with
  | none => (a, "bad-op")
  | some op =>
    match accept a op with
    | (a', .ok info) => (a', s!"ok {info} {dbg a'}")
    | (a', .err r) => (a', s!"err {r}")
    | (a', .badOp) => (a', "bad-op")

def ackTrace : Component := { name := "ack-trace", σ := Acc, init := Acc.init, step := step }

def components : List Component := [ackTrace]

end Quic.Drivers.AckTrace
