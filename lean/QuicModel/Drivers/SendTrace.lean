import QuicModel.Driver
import QuicModel.Stream.SendTrace
namespace Quic.Drivers.SendTrace
open Quic Quic.Stream.SendTrace

/-- line protocol of component `send-trace` (one endpoint's wire-level history, tie T):
      tp <initial_max_data> <bidi_local> <bidi_remote> <uni> <max_streams_bidi> <max_streams_uni> <c|s>
      rx max_data <v> | rx max_stream_data <sid> <v> | rx max_streams <0|1> <v> | rx stop_sending <sid>
      app open <sid> | app write <sid> <len> <key> | app finish <sid> | app reset <sid>
      tx stream <pn> <sid> <off> <len> <0|1> <digest> | tx reset <pn> <sid> <final>
      tx blocked <pn> <sid> <limit> | tx close <pn> | tx other <pn> | rxpkt
    answers `ok` | `err <reason>` | `bad-op`; a rejected op leaves the state unchanged. -/
def parseBool (s : String) : Option Bool :=
  if s == "1" then some true else if s == "0" then some false else none

def parseOp (t : List String) : Option Op :=
  match t with
  | ["tp", a, b, c, d, e, f, r] =>
    match a.toNat?, b.toNat?, c.toNat?, d.toNat?, e.toNat?, f.toNat? with
    | some a, some b, some c, some d, some e, some f =>
      if r == "c" then some (.tp ⟨a, b, c, d, e, f, false⟩)
      else if r == "s" then some (.tp ⟨a, b, c, d, e, f, true⟩) else none
    | _, _, _, _, _, _ => none
  | ["rx", "max_data", v] => v.toNat?.map .rxMaxData
  | ["rx", "max_stream_data", sid, v] =>
    match sid.toNat?, v.toNat? with
    | some sid, some v => some (.rxMaxStreamData sid v)
    | _, _ => none
  | ["rx", "max_streams", b, v] =>
    match parseBool b, v.toNat? with
    | some b, some v => some (.rxMaxStreams b v)
    | _, _ => none
  | ["rx", "stop_sending", sid] => sid.toNat?.map .rxStopSending
  | ["app", "open", sid] => sid.toNat?.map .appOpen
  | ["app", "write", sid, len, key] =>
    match sid.toNat?, len.toNat?, key.toNat? with
    | some sid, some len, some key => some (.appWrite sid len key)
    | _, _, _ => none
  | ["app", "finish", sid] => sid.toNat?.map .appFinish
  | ["app", "reset", sid] => sid.toNat?.map .appReset
  | ["tx", "stream", pn, sid, off, len, fin, dg] =>
    match pn.toNat?, sid.toNat?, off.toNat?, len.toNat?, parseBool fin, dg.toNat? with
    | some pn, some sid, some off, some len, some fin, some dg => some (.txStream pn sid off len fin dg)
    | _, _, _, _, _, _ => none
  | ["tx", "reset", pn, sid, f] =>
    match pn.toNat?, sid.toNat?, f.toNat? with
    | some pn, some sid, some f => some (.txReset pn sid f)
    | _, _, _ => none
  | ["tx", "blocked", pn, sid, l] =>
    match pn.toNat?, sid.toNat?, l.toNat? with
    | some pn, some sid, some l => some (.txBlocked pn sid l)
    | _, _, _ => none
  | ["tx", "close", pn] => pn.toNat?.map .txClose
  | ["tx", "other", pn] => pn.toNat?.map .txOther
  | ["rxpkt"] => some .rxPkt
  | _ => none

def sendTraceStep (s : St) (t : List String) : St × String :=
  match t with
  | ["digest", k, off, len] =>
    -- helper for cross-checking the python digest implementation
    match k.toNat?, off.toNat?, len.toNat? with
    | some k, some off, some len => (s, s!"ok {digest k off len}")
    | _, _, _ => (s, "bad-op")
  | _ =>
    match parseOp t with
    | none => (s, "bad-op")
    | some op =>
      match step s op with
      | .ok s' => (s', "ok")
      | .error e => (s, s!"err {e}")

def sendTrace : Component := { name := "send-trace", σ := St, init := init, step := sendTraceStep }

def components : List Component := [sendTrace]

end Quic.Drivers.SendTrace
