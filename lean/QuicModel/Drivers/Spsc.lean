import QuicModel.Driver
import QuicModel.Sync.Tables
import QuicModel.Generated.SyncOrderings
/-
  Driver components for C17:
    `spsc-seq`        the step programs of `Sync/Spsc.lean` run single-threaded (every load reads the newest
                      message) behind the line protocol of the `spsc` harness component (D)
    `spsc-ra-search`  bounded BFS of the RA machine with the orderings CURRENTLY in the source
                      (`Generated.SyncOrderings.table`): a schedule reaching a race / unwritten / overwritten slot
    `waker-search`    bounded BFS of the wake-up handshake with the call orders CURRENTLY in the source
-/
namespace Quic.Drivers.Spsc
open Quic Quic.Sync Quic.Sync.Ra Quic.Sync.Spsc

/-! ### spsc-seq -/

structure Seq where
  sys : Sys
  sendAlive : Bool := true
  recvAlive : Bool := true
  /-- a waker is registered in `header.receiver` / `header.sender` -/
  rReg : Bool := false
  sReg : Bool := false
  rWakes : Nat := 0
  sWakes : Nat := 0
  stuck : Bool := false

def latest (s : Sys) (l : Nat) : Nat :=
  match s.mem.hist l with
  | m :: _ => m.ts
  | [] => 0

def Seq.act (q : Seq) (a : Act) : Seq :=
  match step pinned q.sys a with
  | some s => { q with sys := s }
  | none => { q with stuck := true }

def Seq.wakeRecv (q : Seq) : Seq := if q.rReg then { q with rReg := false, rWakes := q.rWakes + 1 } else q
def Seq.wakeSend (q : Seq) : Seq := if q.sReg then { q with sReg := false, sWakes := q.sWakes + 1 } else q

inductive Acq where
  | closed | no | yes

/-- `State::acquire_capacity` on the sender -/
def acquireCapacity (q : Seq) : Seq × Acq :=
  let pc0 := q.sys.p.pc
  let q := q.act (.pLoadOpen (latest q.sys OPEN))
  match q.sys.p.pc with
  | .acq1 _ =>
    let q := q.act (.pLoadHead (latest q.sys HEAD))
    (q, if isFull q.sys.p.head q.sys.p.tail q.sys.cap then .no else .yes)
  | _ => if q.sys.p.pc == pc0 then (q, .closed) else ({ q with stuck := true }, .closed)

/-- `State::acquire_filled` on the receiver -/
def acquireFilled (q : Seq) : Seq × Acq :=
  let q := q.act (.cLoadTail (latest q.sys TAIL))
  match q.sys.c.pc with
  | .acq1 _ =>
    let q := q.act (.cLoadOpen (latest q.sys OPEN))
    match q.sys.c.pc with
    | .acq2 _ =>
      let q := q.act (.cLoadTail2 (latest q.sys TAIL))
      (q, if isEmpty q.sys.c.head q.sys.c.tail then .closed else .yes)
    | _ => (q, .no)
  | _ => (q, .yes)

/-- inside a `SendSlice`: push `v, v+1, …` (at most `k`), stop at the first error -/
def pushLoop : Nat → Nat → Nat → Seq → Seq × Nat
  | 0, _, n, q => (q, n)
  | k + 1, v, n, q =>
    if isFull q.sys.p.head q.sys.p.tail q.sys.cap then
      let (q, r) := acquireCapacity q
      match r with
      | .yes => pushLoop k (v + 1) (n + 1) (q.act (.pPush v))
      | _ => (q, n)
    else pushLoop k (v + 1) (n + 1) (q.act (.pPush v))

def releaseSend (q : Seq) : Seq :=
  let changed := q.sys.p.prev != q.sys.p.tail
  let q := q.act .pRelease
  if changed then q.wakeRecv else q

def popLoop : Nat → List Nat → Seq → Seq × List Nat
  | 0, acc, q => (q, acc)
  | k + 1, acc, q =>
    let go (q : Seq) : Seq × List Nat :=
      let n0 := q.sys.popped.length
      let q := q.act .cPop
      match q.sys.popped.drop n0 with
      | v :: _ => popLoop k (acc ++ [v]) q
      | [] => ({ q with stuck := true }, acc)
    if isEmpty q.sys.c.head q.sys.c.tail then
      let (q, r) := acquireFilled q
      match r with
      | .yes => go q
      | _ => (q, acc)
    else go q

def releaseRecv (q : Seq) : Seq :=
  let changed := q.sys.c.prev != q.sys.c.head
  let q := q.act .cRelease
  if changed then q.wakeSend else q

def dropLoop : Nat → Side → Seq → Seq
  | 0, _, q => q
  | f + 1, sd, q =>
    match (q.sys.loc sd).pc with
    | .dcTake => dropLoop f sd (q.act (.dTake sd))
    | _ => q

/-- `State::close(side)` -/
def closeSide (q : Seq) (sd : Side) : Seq × List Nat :=
  let wake (q : Seq) : Seq := match sd with
    | .sender => q.wakeRecv
    | .receiver => q.wakeSend
  let n0 := q.sys.dropped.length
  let q := wake q
  let q := q.act (.swap sd)
  let q := wake q
  let q := q.act (.wake2 sd)
  let q := match (q.sys.loc sd).pc with
    | .dcHead =>
      let q := q.act (.dLoadHead sd (latest q.sys HEAD))
      let q := q.act (.dLoadTail sd (latest q.sys TAIL))
      dropLoop (q.sys.cap + 2) sd q
    | _ => q
  (q, q.sys.dropped.drop n0)

def fin (q : Seq) (out : String) : Option Seq × String :=
  if q.stuck then (some q, "err model-stuck") else (some q, out)

def seqStepCore (st : Option Seq) (t : List String) : Option Seq × String :=
  match st, t with
  | _, ["new", c] =>
    match c.toNat? with
    | some c =>
      if 1 ≤ c ∧ c ≤ 64 then
        let slots := slotsFor c
        (some { sys := init slots }, s!"ok cap={slots - 1}")
      else (st, "bad-op")
    | none => (st, "bad-op")
  | none, _ => (none, "bad-op")
  | some q, ["push", k, v] =>
    match k.toNat?, v.toNat? with
    | some k, some v =>
      if !q.sendAlive then (st, "bad-op") else
      let (q, r) := acquireCapacity q
      match r with
      | .closed => fin q "err closed"
      | .no => fin q "ok none"
      | .yes =>
        let (q, n) := pushLoop k v 0 q
        fin (releaseSend q) s!"ok {n}"
    | _, _ => (st, "bad-op")
  | some q, ["apush", k, v] =>
    match k.toNat?, v.toNat? with
    | some k, some v =>
      if !q.sendAlive then (st, "bad-op") else
      let (q, r) := acquireCapacity q
      let go (q : Seq) : Option Seq × String :=
        let (q, n) := pushLoop k v 0 q
        fin (releaseSend q) s!"ok {n}"
      match r with
      | .closed => fin q "err closed"
      | .yes => go q
      | .no =>
        let q := { q with sReg := true }
        let (q, r) := acquireCapacity q
        match r with
        | .closed => fin q "err closed"
        | .yes => go q
        | .no => fin q "ok pending"
    | _, _ => (st, "bad-op")
  | some q, ["pop", k] =>
    match k.toNat? with
    | some k =>
      if !q.recvAlive then (st, "bad-op") else
      let (q, r) := acquireFilled q
      match r with
      | .closed => fin q "err closed"
      | .no => fin q "ok none"
      | .yes =>
        let (q, l) := popLoop k [] q
        fin (releaseRecv q) s!"ok {natList l}"
    | none => (st, "bad-op")
  | some q, ["apop", k] =>
    match k.toNat? with
    | some k =>
      if !q.recvAlive then (st, "bad-op") else
      let (q, r) := acquireFilled q
      let go (q : Seq) : Option Seq × String :=
        let (q, l) := popLoop k [] q
        fin (releaseRecv q) s!"ok {natList l}"
      match r with
      | .closed => fin q "err closed"
      | .yes => go q
      | .no =>
        let q := { q with rReg := true }
        let (q, r) := acquireFilled q
        match r with
        | .closed => fin q "err closed"
        | .yes => go q
        | .no => fin q "ok pending"
    | none => (st, "bad-op")
  | some q, ["dropsend"] =>
    if !q.sendAlive then (st, "bad-op") else
    let (q, d) := closeSide q .sender
    fin { q with sendAlive := false } s!"ok dropped={natList d}"
  | some q, ["droprecv"] =>
    if !q.recvAlive then (st, "bad-op") else
    let (q, d) := closeSide q .receiver
    fin { q with recvAlive := false } s!"ok dropped={natList d}"
  | some q, ["stat"] =>
    let c := q.sys.c
    let rl := if q.recvAlive then toString (count c.head c.tail q.sys.cap) else "-"
    let rf := if q.recvAlive then boolStr (isFull c.head c.tail q.sys.cap) else "-"
    (st, s!"ok rlen={rl} rfull={rf} wakes={q.rWakes},{q.sWakes}")
  | _, _ => (st, "bad-op")


/-- `extend k v` (`SendSlice::extend`, the bulk form of the push loop) behaves like `push k v` -/
def seqStep (st : Option Seq) (t : List String) : Option Seq × String :=
  match t with
  | ["extend", k, v] => seqStepCore st ["push", k, v]
  | _ => seqStepCore st t

def spscSeq : Component := { name := "spsc-seq", σ := Option Seq, init := none, step := seqStep }

/-! ### spsc-ra-search -/

def viewKey (cap : Nat) (v : View) : List Nat :=
  [v.atm 0, v.atm 1, v.atm 2] ++ (List.range cap).map v.na

def pcKey : Pc → Nat
  | .idle => 0 | .slice => 1 | .acq1 b => 2 + b.toNat | .acq2 b => 4 + b.toNat
  | .closed1 w => 6 + w.toNat | .dcHead => 8 | .dcTail => 9 | .dcTake => 10 | .done => 11

def localKey (l : Local) : List Nat := [pcKey l.pc, l.head, l.tail, l.prev]

def sysKey (s : Sys) : List Nat :=
  let cap := s.cap
  let hk (l : Nat) : List Nat := (s.mem.hist l).foldr (fun m acc => [m.val, m.ts] ++ viewKey cap m.view ++ acc) [99]
  localKey s.p ++ localKey s.c ++ viewKey cap s.pv ++ viewKey cap s.cv ++ hk 0 ++ hk 1 ++ hk 2
    ++ (List.range cap).map (fun c => match s.mem.cell c with | some v => v + 1 | none => 0)
    ++ (List.range cap).map s.mem.stamp ++ [s.mem.freed.toNat, s.pushed.length, s.popped.length, s.dropped.length]

def hashKey (k : List Nat) : Nat := k.foldl (fun h x => (h * 31 + x + 7) % 65521) 17

def tsOf (s : Sys) (l : Nat) : List Nat := (s.mem.hist l).map (·.ts)

/-- every action worth trying in state `s` (`maxPush` bounds the number of pushes) -/
def candidates (maxPush : Nat) (s : Sys) : List Act :=
  (tsOf s OPEN).map .pLoadOpen ++ (tsOf s HEAD).map .pLoadHead
    ++ (if s.pushed.length < maxPush then [.pPush s.pushed.length] else []) ++ [.pRelease]
    ++ (tsOf s TAIL).map .cLoadTail ++ (tsOf s OPEN).map .cLoadOpen ++ (tsOf s TAIL).map .cLoadTail2
    ++ [.cPop, .cRelease, .swap .sender, .swap .receiver, .wake2 .sender, .wake2 .receiver,
        .dTake .sender, .dTake .receiver]
    ++ (tsOf s HEAD).map (.dLoadHead .sender) ++ (tsOf s HEAD).map (.dLoadHead .receiver)
    ++ (tsOf s TAIL).map (.dLoadTail .sender) ++ (tsOf s TAIL).map (.dLoadTail .receiver)

def actStr : Act → String
  | .pLoadOpen t => s!"P.load(open)@{t}" | .pLoadHead t => s!"P.load(head)@{t}" | .pPush v => s!"P.write({v})"
  | .pRelease => "P.release" | .cLoadTail t => s!"C.load(tail)@{t}" | .cLoadOpen t => s!"C.load(open)@{t}"
  | .cLoadTail2 t => s!"C.load(tail)'@{t}" | .cPop => "C.take" | .cRelease => "C.release"
  | .swap .sender => "P.swap(open)" | .swap .receiver => "C.swap(open)"
  | .wake2 .sender => "P.wake" | .wake2 .receiver => "C.wake"
  | .dLoadHead .sender t => s!"P.drop.load(head)@{t}" | .dLoadHead .receiver t => s!"C.drop.load(head)@{t}"
  | .dLoadTail .sender t => s!"P.drop.load(tail)@{t}" | .dLoadTail .receiver t => s!"C.drop.load(tail)@{t}"
  | .dTake .sender => "P.drop.take" | .dTake .receiver => "C.drop.take"

def failStr : Fail → String
  | .race => "race" | .unwritten => "unwritten" | .overwrite => "overwrite" | .useAfterFree => "use-after-free"

structure Bfs where
  visited : Array (List (List Nat))
  count : Nat

def Bfs.seen (b : Bfs) (k : List Nat) : Bool :=
  (b.visited[hashKey k]!).contains k

def Bfs.add (b : Bfs) (k : List Nat) : Bfs :=
  let h := hashKey k
  { visited := b.visited.set! h (k :: b.visited[h]!), count := b.count + 1 }

/-- expand one frontier state; returns a witness or the new frontier entries -/
def expand (o : Orderings) (maxPush : Nat) (wantUaf : Bool) (s : Sys) (path : List Act) (b : Bfs) (acts : List Act)
    (acc : List (Sys × List Act)) : Except (Fail × List Act) (Bfs × List (Sys × List Act)) :=
  match acts with
  | [] => .ok (b, acc)
  | a :: rest =>
    match step o s a with
    | none => expand o maxPush wantUaf s path b rest acc
    | some s' =>
      match s'.fail with
      | some f =>
        if f != .useAfterFree || wantUaf then .error (f, (a :: path).reverse)
        else expand o maxPush wantUaf s path b rest acc
      | none =>
        let k := sysKey s'
        if b.seen k then expand o maxPush wantUaf s path b rest acc
        else expand o maxPush wantUaf s path (b.add k) rest ((s', a :: path) :: acc)

def level (o : Orderings) (maxPush : Nat) (wantUaf : Bool) (b : Bfs) (frontier : List (Sys × List Act))
    (next : List (Sys × List Act)) : Except (Fail × List Act) (Bfs × List (Sys × List Act)) :=
  match frontier with
  | [] => .ok (b, next)
  | (s, path) :: rest =>
    match expand o maxPush wantUaf s path b (candidates maxPush s) next with
    | .error e => .error e
    | .ok (b, next) => level o maxPush wantUaf b rest next

def bfs (o : Orderings) (maxPush maxStates : Nat) (wantUaf : Bool) : Nat → Bfs → List (Sys × List Act) → String
  | 0, b, _ => s!"ok none-within-bound {b.count}"
  | fuel + 1, b, frontier =>
    if frontier.isEmpty then s!"ok none-within-bound {b.count} exhaustive" else
    if b.count > maxStates then s!"ok none-within-bound {b.count}" else
    match level o maxPush wantUaf b frontier [] with
    | .error (f, path) => s!"ok {failStr f} {" ".intercalate (path.map actStr)}"
    | .ok (b, next) => bfs o maxPush maxStates wantUaf fuel b next

def raSearchStep (t : List String) : String :=
  match t with
  | ["search", cap, maxStates] | ["search-uaf", cap, maxStates] =>
    match cap.toNat?, maxStates.toNat? with
    | some cap, some mx =>
      if cap < 2 ∨ cap > 4 then "bad-op" else
      match Tables.ofTable Generated.SyncOrderings.table with
      | none => "err orderings-table-unreadable"
      | some o =>
        let s0 := init cap
        let b : Bfs := { visited := Array.replicate 65521 [], count := 0 }
        bfs o (2 * cap) mx (t.head? == some "search-uaf") 64 (b.add (sysKey s0)) [(s0, [])]
    | _, _ => "bad-op"
  | ["orderings"] =>
    match Tables.ofTable Generated.SyncOrderings.table with
    | none => "err orderings-table-unreadable"
    | some o =>
      let f (x : Ord) : String := x.toString
      s!"ok capOpen={f o.capOpen} capHead={f o.capHead} fillTail={f o.fillTail} fillOpen={f o.fillOpen} fillTail2={f o.fillTail2} persistHead={f o.persistHead} persistTail={f o.persistTail} closeSwap={f o.closeSwap} dropHead={f o.dropHead} dropTail={f o.dropTail}"
  | _ => "bad-op"

def raSearch : Component := Component.stateless "spsc-ra-search" raSearchStep

/-! ### waker-search -/

open Quic.Sync.Waker in
def wakerKey (s : Waker.Sys) : List Nat :=
  let hk (l : Nat) : List Nat := (s.mem.hist l).foldr (fun m acc => [m.val, m.ts, m.view.atm 0, m.view.atm 1] ++ acc) [99]
  [s.wprog.length, (match s.wstat with | .running => 0 | .ready => 1 | .parked => 2), s.nprog.length,
   s.woken.toNat, s.wv.atm 0, s.wv.atm 1, s.nv.atm 0, s.nv.atm 1] ++ hk 0 ++ hk 1

/-- exhaustive DFS (the programs are finite, there are no loops) -/
def wakerDfs (oS oL : Ord) : Nat → Waker.Sys → List Waker.Act → Option (List Waker.Act)
  | 0, _, _ => none
  | fuel + 1, s, path =>
    if Waker.lost s then some path.reverse else
    let acts := ((s.mem.hist Waker.COND).map (fun m => Waker.Act.w m.ts)) ++ [Waker.Act.n]
    acts.foldl (fun found a =>
      match found with
      | some p => some p
      | none =>
        match Waker.step oS oL s a with
        | none => none
        | some s' => wakerDfs oS oL fuel s' (a :: path)) none

def wactStr : Waker.Act → String
  | .w t => s!"W@{t}" | .n => "N"

def progStr (w : List Waker.WAct) (n : List Waker.NAct) : String :=
  ",".intercalate (w.map (fun a => match a with | .check => "check" | .register => "register")) ++ "|" ++
  ",".intercalate (n.map (fun a => match a with | .set => "set" | .wake => "wake"))

def wakerSearchStep (t : List String) : String :=
  match t with
  | ["search", _] =>
    let calls := Generated.SyncOrderings.calls
    let ws := (Tables.waiterFns.map (fun f => (f.1 ++ ":" ++ f.2, Tables.waiterOf (Tables.callsOf calls f.1 f.2))))
      ++ [("sync/worker.rs:poll_acquire", Tables.workerWaiter calls)]
    let ns := Tables.notifierFns.map (fun f => (f.1 ++ ":" ++ f.2, Tables.notifierOf (Tables.callsOf calls f.1 f.2)))
    let pairs := ws.flatMap (fun w => ns.map (fun n => (w, n)))
    let res := pairs.foldl (fun found (p : (String × List Waker.WAct) × (String × List Waker.NAct)) =>
      match found with
      | some r => some r
      | none =>
        match wakerDfs .relaxed .relaxed 32 (Waker.init p.1.2 p.2.2) [] with
        | some path => some s!"ok lost-wakeup waiter={p.1.1} notifier={p.2.1} programs={progStr p.1.2 p.2.2} schedule={" ".intercalate (path.map wactStr)}"
        | none => none) none
    match res with
    | some r => r
    | none => s!"ok none-within-bound {pairs.length} exhaustive"
  | _ => "bad-op"

def wakerSearch : Component := Component.stateless "waker-search" wakerSearchStep

def components : List Component := [spscSeq, raSearch, wakerSearch]

end Quic.Drivers.Spsc
