import QuicModel.Driver
import QuicModel.Time.Timer
import QuicModel.Recovery.Pacer
namespace Quic.Drivers.Timer
open Quic

def dom : Nat := 2 ^ 62

def ts? (s : String) : Option Nat :=
  match s.toNat? with
  | some v => if 1 ≤ v ∧ v < dom then some v else none
  | none => none

def optNat : Option Nat → String
  | some v => toString v
  | none => "none"

open Quic.Time.Timer in
/-- ops of `timer` (timestamps in µs, `1 ≤ t < 2^62`; bank of `n ≤ 8` timers, initially none):
    `new <n>` -> `ok`
    `set <i> <t>` / `cancel <i>` -> `ok`
    `exp <i> <now>` -> `ok <is_expired 0|1> <is_armed 0|1>`
    `poll <i> <now>` -> `ok ready|pending <is_armed afterwards>`
    `next` -> `ok <next_expiration|none> <armed_timer_count> <is_armed>` (Provider over the whole bank)
    `next4` -> `ok <next_expiration|none> <count> <is_armed>` through the tuple / Option / & Provider impls over timers 0..3
    `pollall <now>` -> `ok <indices Ready> <next_expiration afterwards>`
    `wake` -> `ok none` if nothing armed, else sleeps until `next_expiration`, polls all there:
              `ok <now> <indices Ready> <next_expiration afterwards>` -/
def timerStep (s : List Timer) (t : List String) : List Timer × String :=
  match t with
  | ["new", n] =>
    match n.toNat? with
    | some n => if 1 ≤ n ∧ n ≤ 8 then (List.replicate n none, "ok") else (s, "bad-op")
    | none => (s, "bad-op")
  | ["set", i, v] =>
    match i.toNat?, ts? v with
    | some i, some v => if i < s.length then ((step s (.set i v)).1, "ok") else (s, "bad-op")
    | _, _ => (s, "bad-op")
  | ["cancel", i] =>
    match i.toNat? with
    | some i => if i < s.length then ((step s (.cancel i)).1, "ok") else (s, "bad-op")
    | none => (s, "bad-op")
  | ["exp", i, v] =>
    match i.toNat?, ts? v with
    | some i, some v =>
      if i < s.length then (s, s!"ok {boolStr (isExpired (s.getD i none) v)} {boolStr (isArmed (s.getD i none))}") else (s, "bad-op")
    | _, _ => (s, "bad-op")
  | ["poll", i, v] =>
    match i.toNat?, ts? v with
    | some i, some v =>
      if i < s.length then
        let r := step s (.poll i v)
        (r.1, s!"ok {if r.2 then "ready" else "pending"} {boolStr (isArmed (r.1.getD i none))}")
      else (s, "bad-op")
    | _, _ => (s, "bad-op")
  | ["next"] => (s, s!"ok {optNat (nextExpiration s)} {armedCount s} {boolStr (isArmedAny s)}")
  | ["next4"] =>
    if s.length ≥ 4 then
      let q := s.take 4
      (s, s!"ok {optNat (nextExpiration q)} {armedCount q} {boolStr (isArmedAny q)}")
    else (s, "bad-op")
  | ["pollall", v] =>
    match ts? v with
    | some v => let s' := pollAll s v; (s', s!"ok {natList (readyIdx s v)} {optNat (nextExpiration s')}")
    | none => (s, "bad-op")
  | ["wake"] =>
    match nextExpiration s with
    | none => (s, "ok none")
    | some v => let s' := pollAll s v; (s', s!"ok {v} {natList (readyIdx s v)} {optNat (nextExpiration s')}")
  | _ => (s, "bad-op")

def timer : Component := { name := "timer", σ := List Quic.Time.Timer.Timer, init := [none], step := timerStep }

structure PacerD where
  p : Quic.Recovery.Pacer.State := {}
  mds : Nat := 1200
  cwnd : Nat := 12000
  ss : Bool := true

open Quic.Recovery.Pacer in
/-- ops of `pacer` (the private `Pacer` is driven through the real `CubicCongestionController`, which owns one):
    `pnew <mds 1..65535> <cwnd ≤ 2^24>` -> `ok <congestion_window>` = max(cwnd, 2*mds), slow start
    `send <now µs> <bytes < 2^24> <srtt ns, 1000 ≤ srtt < 2^64>` -> `ok <earliest_departure_time|none>` | `panic` (restarts)
         (`bytes = 0`: the controller ignores the packet)
    `ecn <now> <cwnd'>` -> leaves slow start (first time only): `ok <congestion_window>`; `cwnd'` is the
         f32 multiplicative decrease computed by the generator and CHECKED by the harness against the real value
    `edt` -> `ok <earliest_departure_time|none>` -/
def pacerStep (s : PacerD) (t : List String) : PacerD × String :=
  match t with
  | ["pnew", mds, cwnd] =>
    match mds.toNat?, cwnd.toNat? with
    | some mds, some cwnd =>
      if 1 ≤ mds ∧ mds < 2 ^ 16 ∧ cwnd ≤ 2 ^ 24 then
        let c := Nat.max cwnd (2 * mds)
        ({ p := init, mds := mds, cwnd := c, ss := true }, s!"ok {c}")
      else (s, "bad-op")
    | _, _ => (s, "bad-op")
  | ["send", now, bytes, srtt] =>
    match ts? now, bytes.toNat?, srtt.toNat? with
    | some now, some bytes, some srtt =>
      if bytes < 2 ^ 24 ∧ 1000 ≤ srtt ∧ srtt < 2 ^ 64 then
        if bytes = 0 then (s, s!"ok {optNat (earliestDepartureTime s.p)}")
        else
          match onPacketSent s.p now bytes srtt s.cwnd s.mds s.ss with
          | some p' => ({ s with p := p' }, s!"ok {optNat (earliestDepartureTime p')}")
          | none => ({}, "panic")
      else (s, "bad-op")
    | _, _, _ => (s, "bad-op")
  | ["ecn", now, c] =>
    match ts? now, c.toNat? with
    | some _, some c =>
      if c < 2 ^ 32 then
        if s.ss then ({ s with cwnd := c, ss := false }, s!"ok {c}") else (s, s!"ok {s.cwnd}")
      else (s, "bad-op")
    | _, _ => (s, "bad-op")
  | ["edt"] => (s, s!"ok {optNat (earliestDepartureTime s.p)}")
  | _ => (s, "bad-op")

def pacer : Component := { name := "pacer", σ := PacerD, init := {}, step := pacerStep }

def components : List Component := [timer, pacer]

end Quic.Drivers.Timer
