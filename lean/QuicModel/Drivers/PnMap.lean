import QuicModel.Driver
import QuicModel.Data.PnMap
namespace Quic.Drivers.PnMap
open Quic Quic.Data.PnMap

def maxPn : Nat := 2 ^ 62 - 1
def u64Mod : Nat := 2 ^ 64
/-- the harness refuses inserts further than this from the current start (allocation guard) -/
def maxSpan : Nat := 65536

def pn? (t : String) : Option Nat :=
  match t.toNat? with
  | some v => if v ≤ maxPn then some v else none
  | none => none

def val? (t : String) : Option Nat :=
  match t.toNat? with
  | some v => if v < u64Mod then some v else none
  | none => none

/-- the `update` closure the harness passes to `insert_or_update`: `*p = p.wrapping_mul(31).wrapping_add(v)` -/
def upd (prev v : Nat) : Nat := (prev * 31 + v) % u64Mod

def entriesStr (l : List (Nat × Nat)) : String :=
  if l.isEmpty then "-" else ",".intercalate (l.map (fun e => s!"{e.1}:{e.2}"))

def optNat (o : Option Nat) : String :=
  match o with
  | some v => toString v
  | none => "none"

/-- everything the public API shows: `is_empty()`, `get_range()`, `iter()` -/
def dump (s : State) : String :=
  let r := match getRange s with
    | some (a, b) => s!"{a}-{b}"
    | none => "panic"
  s!"e={boolStr (isEmpty s)} r={r} it={entriesStr (iter s)}"

def fin (r : Option (State × String)) : State × String :=
  match r with
  | some (s, o) => (s, s!"ok {o} | {dump s}")
  | none => (init, "panic")

/-- inserts far beyond the current start would allocate: outside the harness domain -/
def tooFar (s : State) (pn : Nat) : Bool :=
  !(isEmpty s) && decide (pn > s.start + maxSpan)

/-- ops (every answer is followed by ` | e=<is_empty> r=<start>-<end> it=<pn:value,…>`):
    `insert <pn> <v>`     -> `ok -`            (`panic` when the monotonic-insert debug_assert fires)
    `upd <pn> <v>`        -> `ok -`            insert_or_update with `*p = p*31 + v`
    `get <pn>`            -> `ok <v>|none`
    `probe <lo> <n>`      -> `ok <get(lo)>,<get(lo+1)>,…`
    `remove <pn>`         -> `ok <v>|none`
    `rmrange <lo> <hi>`   -> `ok <pn:v,…>`     (lo ≤ hi, else bad-op)
    `mut <k>`             -> `ok <pn:v,…>`     iter_mut: every value += k (wrapping), yields the new values
    `clear`               -> `ok -` -/
def mapStep (s : State) (t : List String) : State × String :=
  match t with
  | ["insert", p, v] =>
    match pn? p, val? v with
    | some pn, some v =>
      if tooFar s pn then (s, "bad-op")
      else fin ((insert s pn v).map (fun s' => (s', "-")))
    | _, _ => (s, "bad-op")
  | ["upd", p, v] =>
    match pn? p, val? v with
    | some pn, some v =>
      if tooFar s pn then (s, "bad-op")
      else fin ((insertOrUpdate s pn v (fun prev => upd prev v)).map (fun s' => (s', "-")))
    | _, _ => (s, "bad-op")
  | ["get", p] =>
    match pn? p with
    | some pn => fin (some (s, optNat (get s pn)))
    | none => (s, "bad-op")
  | ["probe", lo, n] =>
    match pn? lo, n.toNat? with
    | some lo, some n =>
      if n ≤ 4096 ∧ 0 < n then
        let xs := (List.range n).filterMap (fun i => if lo + i ≤ maxPn then some (optNat (get s (lo + i))) else none)
        fin (some (s, ",".intercalate xs))
      else (s, "bad-op")
    | _, _ => (s, "bad-op")
  | ["remove", p] =>
    match pn? p with
    | some pn => fin ((remove s pn).map (fun r => (r.1, optNat r.2)))
    | none => (s, "bad-op")
  | ["rmrange", a, b] =>
    match pn? a, pn? b with
    | some lo, some hi =>
      if lo ≤ hi then fin ((removeRange s lo hi).map (fun r => (r.1, entriesStr r.2)))
      else (s, "bad-op")
    | _, _ => (s, "bad-op")
  | ["mut", k] =>
    match val? k with
    | some k =>
      let s' := iterMut s (fun _ v => (v + k) % u64Mod)
      fin (some (s', entriesStr (iter s')))
    | none => (s, "bad-op")
  | ["clear"] => fin ((clear s).map (fun s' => (s', "-")))
  | _ => (s, "bad-op")

def pnmap : Component := { name := "pnmap", σ := State, init := init, step := mapStep }

def components : List Component := [pnmap]

end Quic.Drivers.PnMap
