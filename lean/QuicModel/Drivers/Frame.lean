import QuicModel.Driver
import QuicModel.Codec.Frame
import QuicModel.Rfc.Frame
namespace Quic.Drivers.Frame
open Quic Quic.Codec.Frame

/-- ops:  `dec <hex>`    -> `ok <TYPE> k=v … consumed=<n> enc=<hex> size=<n>` | `err <class>`
          `decall <hex>` -> `ok <count> <TYPE,TYPE,…>` | `err <class> <frames decoded before>` -/

def errStr : Err → String
  | .eof => "eof"
  | .invalidFrame => "inv:invalid-frame"
  | .ackRanges => "inv:invalid-ACK-ranges"
  | .maxStreams => "inv:maximum-streams-cannot-exceed-2^60"
  | .emptyToken => "inv:empty-Token-field"
  | .retirePriorTo => "inv:invalid-retire-prior-to-value"
  | .cidLen => "inv:invalid-connection-id-length"
  | .dcZero => "inv:at-least-one-stateless-token-must-be-supplied"
  | .dcTooMany => "inv:too-many-stateless-reset-tokens"
  | .dcEncoding => "inv:invalid-encoding"

def rangesStr (rs : List (Nat × Nat)) : String :=
  if rs.isEmpty then "-" else ",".intercalate (rs.map (fun p => s!"{p.1}-{p.2}"))

def typeName : Frame → String
  | .padding _ => "PADDING"
  | .ping => "PING"
  | .ack .. => "ACK"
  | .resetStream .. => "RESET_STREAM"
  | .stopSending .. => "STOP_SENDING"
  | .crypto .. => "CRYPTO"
  | .newToken _ => "NEW_TOKEN"
  | .stream .. => "STREAM"
  | .maxData _ => "MAX_DATA"
  | .maxStreamData .. => "MAX_STREAM_DATA"
  | .maxStreams .. => "MAX_STREAMS"
  | .dataBlocked _ => "DATA_BLOCKED"
  | .streamDataBlocked .. => "STREAM_DATA_BLOCKED"
  | .streamsBlocked .. => "STREAMS_BLOCKED"
  | .newConnectionId .. => "NEW_CONNECTION_ID"
  | .retireConnectionId _ => "RETIRE_CONNECTION_ID"
  | .pathChallenge _ => "PATH_CHALLENGE"
  | .pathResponse _ => "PATH_RESPONSE"
  | .connectionClose .. => "CONNECTION_CLOSE"
  | .handshakeDone => "HANDSHAKE_DONE"
  | .datagram .. => "DATAGRAM"
  | .dcStatelessResetTokens _ => "DC_STATELESS_RESET_TOKENS"
  | .mtuProbingComplete _ => "MTU_PROBING_COMPLETE"

def render : Frame → String
  | .padding n => s!"PADDING len={n}"
  | .ping => "PING"
  | .ack delay rs ecn =>
    let e := match ecn with
      | some (a, b, c) => s!"{a},{b},{c}"
      | none => "-"
    s!"ACK delay={delay} ranges={rangesStr rs} ecn={e}"
  | .resetStream sid code fin => s!"RESET_STREAM sid={sid} code={code} final={fin}"
  | .stopSending sid code => s!"STOP_SENDING sid={sid} code={code}"
  | .crypto off d => s!"CRYPTO off={off} data={toHex d}"
  | .newToken t => s!"NEW_TOKEN token={toHex t}"
  | .stream sid off l f d => s!"STREAM sid={sid} off={off} last={boolStr l} fin={boolStr f} data={toHex d}"
  | .maxData v => s!"MAX_DATA max={v}"
  | .maxStreamData sid v => s!"MAX_STREAM_DATA sid={sid} max={v}"
  | .maxStreams b v => s!"MAX_STREAMS bidi={boolStr b} max={v}"
  | .dataBlocked v => s!"DATA_BLOCKED limit={v}"
  | .streamDataBlocked sid v => s!"STREAM_DATA_BLOCKED sid={sid} limit={v}"
  | .streamsBlocked b v => s!"STREAMS_BLOCKED bidi={boolStr b} limit={v}"
  | .newConnectionId seq rpt cid tok => s!"NEW_CONNECTION_ID seq={seq} rpt={rpt} cid={toHex cid} token={toHex tok}"
  | .retireConnectionId seq => s!"RETIRE_CONNECTION_ID seq={seq}"
  | .pathChallenge d => s!"PATH_CHALLENGE data={toHex d}"
  | .pathResponse d => s!"PATH_RESPONSE data={toHex d}"
  | .connectionClose code ft reason =>
    let f := match ft with
      | some t => toString t
      | none => "-"
    let r := match reason with
      | some x => toHex x
      | none => "none"
    s!"CONNECTION_CLOSE code={code} ftype={f} reason={r}"
  | .handshakeDone => "HANDSHAKE_DONE"
  | .datagram l d => s!"DATAGRAM last={boolStr l} data={toHex d}"
  | .dcStatelessResetTokens t => s!"DC_STATELESS_RESET_TOKENS count={t.length / 16} tokens={toHex t}"
  | .mtuProbingComplete m => s!"MTU_PROBING_COMPLETE mtu={m}"

def frameStep (t : List String) : String :=
  match t with
  | ["dec", h] =>
    match fromHex? h with
    | some b =>
      match decodeFrame b with
      | .ok (f, r) =>
        s!"ok {render f} consumed={b.length - r.length} enc={toHex (encodeFrame f)} size={encodingSize f}"
      | .error e => s!"err {errStr e}"
    | none => "bad-op"
  | ["decall", h] =>
    match fromHex? h with
    | some b =>
      match decodeFrames b with
      | some (.ok fs) => s!"ok {fs.length} {if fs.isEmpty then "-" else ",".intercalate (fs.map typeName)}"
      | some (.error (e, k)) => s!"err {errStr e} {k}"
      | none => "err out-of-fuel"
    | none => "bad-op"
  | _ => "bad-op"

def frame : Component := Component.stateless "frame" frameStep

/-- the RFC reference parser behind the same protocol (`dec`/`decall`, semantic rendering) -/
def frameRfcStep (t : List String) : String :=
  match t with
  | ["dec", h] =>
    match fromHex? h with
    | some b =>
      match Rfc.Frame.parseFrame b with
      | some (f, r) => s!"ok {Rfc.Frame.render f} consumed={b.length - r.length}"
      | none => "err"
    | none => "bad-op"
  | ["decall", h] =>
    match fromHex? h with
    | some b =>
      match Rfc.Frame.parseFrames b with
      | some fs => s!"ok {fs.length}"
      | none => "err"
    | none => "bad-op"
  | _ => "bad-op"

def frameRfc : Component := Component.stateless "frame-rfc" frameRfcStep

/-- the implementation model seen through the abstraction `toRfc` (same output format as
    `frame-rfc`, so that Codec and Rfc can be diffed line by line; a PADDING run counts as that
    many frames in `decall`; the s2n extension frames print `ext`) -/
def frameAbsStep (t : List String) : String :=
  match t with
  | ["dec", h] =>
    match fromHex? h with
    | some b =>
      match decodeFrame b with
      | .ok (f, r) =>
        match toRfc f with
        | some x => s!"ok {Rfc.Frame.render x} consumed={b.length - r.length}"
        | none => "ext"
      | .error _ => "err"
    | none => "bad-op"
  | ["decall", h] =>
    match fromHex? h with
    | some b =>
      match decodeFrames b with
      | some (.ok fs) =>
        if fs.all (fun f => (toRfc f).isSome) then
          s!"ok {(fs.map (fun f => match f with | .padding n => n | _ => 1)).foldl (· + ·) 0}"
        else "ext"
      | _ => "err"
    | none => "bad-op"
  | _ => "bad-op"

def frameAbs : Component := Component.stateless "frame-abs" frameAbsStep

def components : List Component := [frame, frameRfc, frameAbs]

end Quic.Drivers.Frame
