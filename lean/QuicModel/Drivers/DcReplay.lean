import QuicModel.Driver
import QuicModel.Dc.ReplayWindow
import QuicModel.Dc.KeyIds
/-
  Line-protocol drivers for the dc replay window (`replay_window`) and the sender key-id counter
  (`key_ids`). Same protocol as harness/vh-dc/src/comp/{replay_window,key_ids}.rs.
-/
namespace Quic.Drivers.DcReplay
open Quic

/-! ### replay_window
  `pre <id>`   -> `ok` | `err unknown`
  `post <id>`  -> `ok` | `err already-exists` | `err unknown`
  `min_unseen` -> `ok <id>`
  `snap`       -> `ok max=<m|none> marked=<ids remembered by the window, descending>`
  `stress <threads> <n> <seed>` (n ≤ WINDOW) -> summary of `threads` real threads each offering the
      same n ids `base .. base+n-1` (base derived from seed) in its own order to ONE fresh State:
      `ok accepted=<n> dups=0 already=<(threads-1)*n> unknown=0 min_unseen=<base+n>`.
      Model side: the summary of one sequential linearisation (all are equal by `replay_exact`).
  ids above 2^62-1 are outside `KeyId`'s domain: `bad-op`. -/

def errStr : Dc.ReplayWindow.Error → String
  | .alreadyExists => "err already-exists"
  | .unknown => "err unknown"

def resStr : Except Dc.ReplayWindow.Error Unit → String
  | .ok _ => "ok"
  | .error e => errStr e

def stressBase (seed : Nat) : Nat := (seed * 2654435761 + 12345) % 2305843009213693952  -- 2^61

/-- counts (accepted, already, unknown) of a sequential run -/
def countRun (s : Dc.ReplayWindow.State) (ks : List Nat) : Dc.ReplayWindow.State × Nat × Nat × Nat :=
  ks.foldl (fun (acc : Dc.ReplayWindow.State × Nat × Nat × Nat) k =>
    let (st, a, b, c) := acc
    let r := Dc.ReplayWindow.postAuthentication st k
    match r.2 with
    | .ok _ => (r.1, a + 1, b, c)
    | .error .alreadyExists => (r.1, a, b + 1, c)
    | .error .unknown => (r.1, a, b, c + 1)) (s, 0, 0, 0)

def replayStep (s : Dc.ReplayWindow.State) (t : List String) : Dc.ReplayWindow.State × String :=
  match t with
  | ["pre", v] =>
    match v.toNat? with
    | some k =>
      if k ≤ Dc.ReplayWindow.keyIdMax then (s, resStr (Dc.ReplayWindow.preAuthentication k)) else (s, "bad-op")
    | none => (s, "bad-op")
  | ["post", v] =>
    match v.toNat? with
    | some k =>
      if k ≤ Dc.ReplayWindow.keyIdMax then
        let r := Dc.ReplayWindow.postAuthentication s k
        (r.1, resStr r.2)
      else (s, "bad-op")
    | none => (s, "bad-op")
  | ["min_unseen"] => (s, s!"ok {Dc.ReplayWindow.minimumUnseenKeyId s}")
  | ["snap"] =>
    let m := match s.maxSeen with | none => "none" | some m => toString m
    (s, s!"ok max={m} marked={natList (Dc.ReplayWindow.marked s)}")
  | ["stress", th, n, seed] =>
    match th.toNat?, n.toNat?, seed.toNat? with
    | some th, some n, some seed =>
      if 1 ≤ th ∧ th ≤ 64 ∧ 1 ≤ n ∧ n ≤ Dc.ReplayWindow.WINDOW ∧ seed < 4294967296 then
        let base := stressBase seed
        let ids := (List.range n).map (· + base)
        let all := (List.range th).foldl (fun acc _ => acc ++ ids) []
        let (st, a, b, c) := countRun Dc.ReplayWindow.init all
        -- dups: ids accepted more than once = accepted answers minus distinct accepted ids
        let acc := Dc.ReplayWindow.acceptedIds Dc.ReplayWindow.init [] all
        let dups := acc.length - acc.eraseDups.length
        (s, s!"ok accepted={a} dups={dups} already={b} unknown={c} min_unseen={Dc.ReplayWindow.minimumUnseenKeyId st}")
      else (s, "bad-op")
    | _, _, _ => (s, "bad-op")
  | _ => (s, "bad-op")

def replayWindow : Component :=
  { name := "replay_window", σ := Dc.ReplayWindow.State, init := Dc.ReplayWindow.init, step := replayStep }

/-! ### key_ids
  `next`      -> `ok <id>` | `err exhausted`   (the Rust side panics; caught in the component)
  `stale <v>` -> `ok`                           (v ≤ 2^62-1; real authenticated StaleKey packet)
  `current`   -> `ok <counter>`
  `stress <threads> <n> <seed>` -> `threads` real threads each take n ids from ONE sender while one
      more thread alternates StaleKey{v} and taking an id (which must be ≥ v):
      `ok issued=<(threads+1)*n> dups=0 increasing=1 stale_respected=1`
      (model side: what `keyids_unique` predicts for every interleaving). -/

/-- every id issued after a `stale v` step (in linearisation order) is ≥ v -/
def staleRespected (c : Nat) (floor : Nat) : List Dc.KeyIds.Step → Bool
  | [] => true
  | .next _ :: ss =>
    (match (Dc.KeyIds.next c).2 with
     | some id => decide (floor ≤ id)
     | none => false) && staleRespected (Dc.KeyIds.next c).1 floor ss
  | .stale _ v :: ss => staleRespected (Dc.KeyIds.staleKey c v) (max floor v) ss

def keyIdsStep (c : Nat) (t : List String) : Nat × String :=
  match t with
  | ["next"] =>
    match Dc.KeyIds.next c with
    | (c', some id) => (c', s!"ok {id}")
    | (c', none) => (c', "err exhausted")
  | ["stale", v] =>
    match v.toNat? with
    | some v => if v ≤ Dc.KeyIds.varIntMax then (Dc.KeyIds.staleKey c v, "ok") else (c, "bad-op")
    | none => (c, "bad-op")
  | ["current"] => (c, s!"ok {c}")
  | ["stress", th, n, seed] =>
    match th.toNat?, n.toNat?, seed.toNat? with
    | some th, some n, some seed =>
      if 1 ≤ th ∧ th ≤ 64 ∧ 1 ≤ n ∧ n ≤ 100000 ∧ seed < 4294967296 then
        -- one linearisation: round-robin over the threads; thread `th` delivers StaleKey{v} and
        -- then takes an id itself
        let steps := (List.range n).flatMap (fun r =>
          (List.range th).map (fun t => Dc.KeyIds.Step.next t)
            ++ [Dc.KeyIds.Step.stale th ((seed + r * 7) % 5000), Dc.KeyIds.Step.next th])
        let ids := Dc.KeyIds.issued Dc.KeyIds.init steps
        let dups := ids.length - (ids.mergeSort).eraseReps.length
        let incr := (List.range (th + 1)).all (fun t =>
          let l := Dc.KeyIds.issuedTo t Dc.KeyIds.init steps
          (l.zip l.tail).all (fun p => p.1 < p.2))
        (c, s!"ok issued={ids.length} dups={dups} increasing={boolStr incr} stale_respected={boolStr (staleRespected Dc.KeyIds.init 0 steps)}")
      else (c, "bad-op")
    | _, _, _ => (c, "bad-op")
  | _ => (c, "bad-op")

def keyIds : Component :=
  { name := "key_ids", σ := Nat, init := Dc.KeyIds.init, step := keyIdsStep }

def components : List Component := [replayWindow, keyIds]

end Quic.Drivers.DcReplay
