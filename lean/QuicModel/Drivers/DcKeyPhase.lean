import QuicModel.Driver
import QuicModel.Dc.KeyPhase
import QuicModel.Dc.ReplayWindow
/-
  Line-protocol driver for `dc_keyphase` (same protocol as harness/vh-dc/src/comp/dc_keyphase.rs).
  The world around the wrappers: a client whose sender hands out key ids 0,1,2,.. (`sender::State::next_key_id`,
  shared by `bidi_local` and `uni_sealer`), a server whose replay window (`receiver::State`, model
  `Dc.ReplayWindow`) answers the `Dedup` check, and the sealed packets. Key chains of key id k:
  3k = bidi client->server, 3k+1 = bidi server->client, 3k+2 = uni (Once) client->server.
  The harness is a debug build: `MAX_RECORDS = TEST_MAX_RECORDS`.
-/
namespace Quic.Drivers.DcKeyPhase
open Quic Quic.Dc.KeyPhase

structure Keys where
  sealer : Sealer
  opener : Opener

structure Strm where
  keyId : Nat
  client : Option Keys
  server : Keys

structure World where
  streamMode : Bool
  nextKey : Nat
  window : Dc.ReplayWindow.State
  streams : List Strm
  pkts : List Wire
  onceSealers : List (OnceSealer × Nat)
  onceOpeners : List (OnceOpener × Nat)

def World.new (streamMode : Bool) : World :=
  ⟨streamMode, 0, Dc.ReplayWindow.init, [], [], [], []⟩

def maxRec : Nat := maxRecords true

def clientKeys (k : Nat) : Keys := ⟨Sealer.new (3 * k), Opener.new (3 * k + 1) Dedup.disabled⟩
def serverKeys (k : Nat) : Keys := ⟨Sealer.new (3 * k + 1), Opener.new (3 * k) Dedup.new⟩

def sealerState (s : Sealer) : String :=
  s!"ph={boolStr s.keyPhase} rec={s.encryptedRecords} nu={boolStr (s.needsUpdate maxRec)}"

def dedupStr (d : Dedup) : String :=
  match d.cell with
  | none => "uninit"
  | some none => "ok"
  | some (some .replayDefinitely) => "definitely"
  | some (some .replayPotentially) => "potentially"
  | some (some _) => "?"

def openerState (o : Opener) : String :=
  s!"ph={boolStr o.keyPhase} nu={boolStr o.needsUpdate} dd={dedupStr o.dedup}"

def errKind : OpenError → String
  | .replayPotentially => "replay-potentially"
  | .replayDefinitely => "replay-definitely"
  | .invalidTag => "invalid-tag"
  | .singleUseKey => "single-use-key"
  | .rotationNotSupported => "rotation-not-supported"

/-- what `Store::check_dedup` answers for key id `k` now, and the window it leaves -/
def askMap (win : Dc.ReplayWindow.State) (k : Nat) : Dc.ReplayWindow.State × Option OpenError :=
  let r := Dc.ReplayWindow.postAuthentication win k
  match r.2 with
  | .ok _ => (r.1, none)
  | .error .alreadyExists => (r.1, some .replayDefinitely)
  | .error .unknown => (r.1, some .replayPotentially)

/-- the window after a call that may have consulted the map: it did iff the cell was empty and armed before
    and is filled afterwards -/
def windowAfter (win : Dc.ReplayWindow.State) (k : Nat) (before after : Dedup) : Dc.ReplayWindow.State :=
  if before.asksMap && after.cell.isSome then (askMap win k).1 else win

def u64Max : Nat := 18446744073709551615

/-! #### mutations: `h<i>:<x>`, `p<i>:<x>`, `t<i>:<x>`, `n:<x>` -/

inductive Mut where
  | hdr (i x : Nat) | ct (i x : Nat) | tag (i x : Nat) | pn (x : Nat)

def parseMut (hl pl : Nat) (m : String) : Option Mut :=
  match m.toList with
  | 'n' :: ':' :: rest =>
    match (String.ofList rest).toNat? with
    | some x => if 0 < x ∧ x ≤ u64Max then some (.pn x) else none
    | none => none
  | c :: rest =>
    match (String.ofList rest).splitOn ":" with
    | [i, x] =>
      match i.toNat?, x.toNat? with
      | some i, some x =>
        if 0 < x ∧ x ≤ 255 then
          if c = 'h' then (if i < hl then some (.hdr i x) else none)
          else if c = 'p' then (if i < pl then some (.ct i x) else none)
          else if c = 't' then (if i < 16 then some (.tag i x) else none)
          else none
        else none
      | _, _ => none
    | _ => none
  | [] => none

def parseMuts (hl pl : Nat) (s : String) : Option (List Mut) :=
  if s == "-" then some []
  else
    let ms := (s.splitOn ",").map (parseMut hl pl)
    if ms.length > 8 ∨ ms.any Option.isNone then none else some (ms.filterMap id)

/-- net xor per position: is anything different from the sealed bytes afterwards? -/
def netAltered (hl pl : Nat) (ms : List Mut) : Bool :=
  let z : List Nat × List Nat × List Nat × Nat := (List.replicate hl 0, List.replicate pl 0, List.replicate 16 0, 0)
  let r := ms.foldl (fun (acc : List Nat × List Nat × List Nat × Nat) m =>
    let (h, p, t, n) := acc
    match m with
    | .hdr i x => (h.set i (h.getD i 0 ^^^ x), p, t, n)
    | .ct i x => (h, p.set i (p.getD i 0 ^^^ x), t, n)
    | .tag i x => (h, p, t.set i (t.getD i 0 ^^^ x), n)
    | .pn x => (h, p, t, n ^^^ x)) z
  r.1.any (· != 0) || r.2.1.any (· != 0) || r.2.2.1.any (· != 0) || r.2.2.2 != 0

/-- the packet as handed to the opener -/
def wireOf (w : World) (pkt flip muts : String) : Option Wire :=
  match pkt.toNat? with
  | none => none
  | some id =>
    match w.pkts[id]? with
    | none => none
    | some p =>
      match p.origin with
      | none => none
      | some s =>
        let phase? : Option Bool := if flip == "k" then some p.phase else if flip == "f" then some (!p.phase) else none
        match phase?, parseMuts s.hdr.length s.payload.length muts with
        | some ph, some ms => some ⟨ph, p.origin, netAltered s.hdr.length s.payload.length ms⟩
        | _, _ => none

def payloadOf (w : Wire) : List Nat :=
  match w.origin with
  | some s => s.payload
  | none => []

def getKeys (w : World) (s e : String) : Option (Nat × Strm × Keys) :=
  match s.toNat? with
  | none => none
  | some i =>
    match w.streams[i]? with
    | none => none
    | some st =>
      if e == "c" then (match st.client with | some k => some (i, st, k) | none => none)
      else if e == "s" then some (i, st, st.server)
      else none

def putKeys (w : World) (i : Nat) (st : Strm) (e : String) (k : Keys) : World :=
  let st' := if e == "c" then { st with client := some k } else { st with server := k }
  { w with streams := w.streams.set i st' }

def how? (s : String) : Option Bool :=
  if s == "copy" then some false else if s == "inplace" then some true else none

def bytesOk (b : List Nat) : Bool := b.all (· < 256)

def step (w : World) (t : List String) : World × String :=
  match t with
  | ["init", suite, mode] =>
    if suite == "128" ∨ suite == "256" then
      if mode == "raw" then (World.new false, "ok")
      else if mode == "stream" then (World.new true, "ok")
      else (w, "bad-op")
    else (w, "bad-op")
  | ["pair"] =>
    if w.streams.length ≥ 64 then (w, "bad-op") else
    let k := w.nextKey
    ({ w with nextKey := k + 1, streams := w.streams ++ [⟨k, some (clientKeys k), serverKeys k⟩] },
     s!"ok s={w.streams.length} key={k}")
  | ["dup", s] =>
    if w.streams.length ≥ 64 then (w, "bad-op") else
    match s.toNat? with
    | none => (w, "bad-op")
    | some i =>
      match w.streams[i]? with
      | none => (w, "bad-op")
      | some st =>
        ({ w with streams := w.streams ++ [⟨st.keyId, none, serverKeys st.keyId⟩] },
         s!"ok s={w.streams.length} key={st.keyId}")
  | ["skip", n] =>
    match n.toNat? with
    | some n => if n > 4000 then (w, "bad-op") else ({ w with nextKey := w.nextKey + n }, "ok")
    | none => (w, "bad-op")
  | ["seal", s, e, pn, hdr, payload] =>
    match pn.toNat?, fromHex? hdr, fromHex? payload with
    | some pn, some hdr, some payload =>
      if pn > u64Max ∨ w.pkts.length ≥ 100000 then (w, "bad-op") else
      match getKeys w s e with
      | none => (w, "bad-op")
      | some (i, st, k) =>
        let r := k.sealer.encrypt pn hdr payload
        let s1 := if w.streamMode then sealWithTail maxRec true r.1 else r.1
        let upd := s1.gen != r.1.gen
        let w1 := putKeys w i st e { k with sealer := s1 }
        ({ w1 with pkts := w.pkts ++ [r.2] },
         s!"ok pkt={w.pkts.length} phase={boolStr r.2.phase} upd={boolStr upd} | {sealerState s1}")
    | _, _, _ => (w, "bad-op")
  | ["burn", s, e, n] =>
    match n.toNat? with
    | none => (w, "bad-op")
    | some n =>
      if n > 20000 then (w, "bad-op") else
      match getKeys w s e with
      | none => (w, "bad-op")
      | some (i, st, k) =>
        let s0 := k.sealer.encryptN n
        let s1 := if w.streamMode then sealWithTail maxRec true s0 else s0
        let upd := s1.gen != s0.gen
        (putKeys w i st e { k with sealer := s1 },
         s!"ok phase={boolStr k.sealer.keyPhase} upd={boolStr upd} | {sealerState s1}")
  | ["open", s, e, how, pkt, flip, muts] =>
    match how? how with
    | none => (w, "bad-op")
    | some inPlace =>
      match wireOf w pkt flip muts with
      | none => (w, "bad-op")
      | some wire =>
        match getKeys w s e with
        | none => (w, "bad-op")
        | some (i, st, k) =>
          let ans := (askMap w.window st.keyId).2
          let r0 := k.opener.open inPlace wire ans
          let o1 := if w.streamMode then openWithTail r0.1 else r0.1
          let upd := o1.kuNext != r0.1.kuNext
          let win := windowAfter w.window st.keyId k.opener.dedup r0.1.dedup
          let w1 := putKeys { w with window := win } i st e { k with opener := o1 }
          match r0.2 with
          | .ok _ => (w1, s!"ok {toHex (payloadOf wire)} upd={boolStr upd} | {openerState o1}")
          | .error err => (w1, s!"err {errKind err} upd={boolStr upd} | {openerState o1}")
  | [op, s, e, which] =>
    if op != "update" ∧ op != "poll" then (w, "bad-op") else
    let poll := op == "poll"
    if which != "seal" ∧ which != "open" then (w, "bad-op") else
    match getKeys w s e with
    | none => (w, "bad-op")
    | some (i, st, k) =>
      if w.streamMode ∧ !poll then (w, "bad-op") else
      if which == "seal" then
        let s1 := if poll then sealWithTail maxRec true k.sealer else k.sealer.update
        let upd := s1.gen != k.sealer.gen
        let w1 := putKeys w i st e { k with sealer := s1 }
        (w1, if poll then s!"ok upd={boolStr upd} | {sealerState s1}" else s!"ok | {sealerState s1}")
      else
        let o1 := if poll then openWithTail k.opener else k.opener.update
        let upd := o1.kuNext != k.opener.kuNext
        let w1 := putKeys w i st e { k with opener := o1 }
        (w1, if poll then s!"ok upd={boolStr upd} | {openerState o1}" else s!"ok | {openerState o1}")
  | ["state", s, e] =>
    match getKeys w s e with
    | none => (w, "bad-op")
    | some (_, _, k) => (w, s!"ok seal: {sealerState k.sealer} | open: {openerState k.opener}")
  | ["onew"] =>
    if w.onceSealers.length ≥ 256 then (w, "bad-op") else
    let k := w.nextKey
    ({ w with nextKey := k + 1, onceSealers := w.onceSealers ++ [(⟨3 * k + 2, false⟩, k)] },
     s!"ok o={w.onceSealers.length} key={k}")
  | ["oseal", o, pn, hdr, payload] =>
    match pn.toNat?, fromHex? hdr, fromHex? payload with
    | some pn, some hdr, some payload =>
      if pn > u64Max then (w, "bad-op") else
      match o.toNat? with
      | none => (w, "bad-op")
      | some oi =>
        match w.onceSealers[oi]? with
        | none => (w, "bad-op")
        | some (os, k) =>
          match os.encrypt pn hdr payload with
          | (_, none) => (w, "err sealed-twice")
          | (os1, some wire) =>
            ({ w with onceSealers := w.onceSealers.set oi (os1, k), pkts := w.pkts ++ [wire] },
             s!"ok pkt={w.pkts.length} phase={boolStr wire.phase}")
    | _, _, _ => (w, "bad-op")
  | ["oopener", o] =>
    if w.onceOpeners.length ≥ 256 then (w, "bad-op") else
    match o.toNat? with
    | none => (w, "bad-op")
    | some oi =>
      match w.onceSealers[oi]? with
      | none => (w, "bad-op")
      | some (_, k) =>
        ({ w with onceOpeners := w.onceOpeners ++ [(OnceOpener.new (3 * k + 2), k)] }, s!"ok j={w.onceOpeners.length}")
  | ["oopen", j, how, pkt, flip, muts] =>
    match how? how with
    | none => (w, "bad-op")
    | some _ =>
      match wireOf w pkt flip muts with
      | none => (w, "bad-op")
      | some wire =>
        match j.toNat? with
        | none => (w, "bad-op")
        | some ji =>
          match w.onceOpeners[ji]? with
          | none => (w, "bad-op")
          | some (oo, k) =>
            let ans := (askMap w.window k).2
            let r := oo.decrypt wire ans
            let win := windowAfter w.window k oo.dedup r.1.dedup
            let w1 := { w with window := win, onceOpeners := w.onceOpeners.set ji (r.1, k) }
            let st := s!"opened={boolStr r.1.opened} dd={dedupStr r.1.dedup}"
            match r.2 with
            | .ok _ => (w1, s!"ok {toHex (payloadOf wire)} | {st}")
            | .error err => (w1, s!"err {errKind err} | {st}")
  | _ => (w, "bad-op")

def stepChecked (w : World) (t : List String) : World × String :=
  -- hex tokens must be bytes (fromHex? guarantees it); nothing else to normalise
  step w t

def dcKeyPhase : Component :=
  { name := "dc_keyphase", σ := World, init := World.new false, step := stepChecked }

def components : List Component := [dcKeyPhase]

end Quic.Drivers.DcKeyPhase
