import QuicModel.Drivers.VarInt
namespace Quic.Drivers
def all : List Component :=
  VarInt.components
end Quic.Drivers
