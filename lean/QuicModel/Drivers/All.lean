import QuicModel.Drivers.CidTrace
import QuicModel.Drivers.VarInt
namespace Quic.Drivers
def all : List Component :=
  CidTrace.components ++ VarInt.components
end Quic.Drivers
