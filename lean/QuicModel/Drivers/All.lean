import QuicModel.Drivers.DcReplay
import QuicModel.Drivers.KeySet
import QuicModel.Drivers.PacketNumber
import QuicModel.Drivers.PnMap
import QuicModel.Drivers.SlidingWindow
import QuicModel.Drivers.TransportParams
import QuicModel.Drivers.TxPn
import QuicModel.Drivers.VarInt
namespace Quic.Drivers
def all : List Component :=
  DcReplay.components ++ KeySet.components ++ PacketNumber.components ++ PnMap.components ++ SlidingWindow.components ++ TransportParams.components ++ TxPn.components ++ VarInt.components
end Quic.Drivers
