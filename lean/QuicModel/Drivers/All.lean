import QuicModel.Drivers.RecvFlow
import QuicModel.Drivers.VarInt
namespace Quic.Drivers
def all : List Component :=
  RecvFlow.components ++ VarInt.components
end Quic.Drivers
