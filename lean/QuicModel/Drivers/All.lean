import QuicModel.Drivers.DcReplay
import QuicModel.Drivers.VarInt
namespace Quic.Drivers
def all : List Component :=
  DcReplay.components ++ VarInt.components
end Quic.Drivers
