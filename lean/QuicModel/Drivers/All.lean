import QuicModel.Drivers.Recovery
import QuicModel.Drivers.VarInt
namespace Quic.Drivers
def all : List Component :=
  Recovery.components ++ VarInt.components
end Quic.Drivers
