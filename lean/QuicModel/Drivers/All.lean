import QuicModel.Drivers.AckRanges
import QuicModel.Drivers.IntervalSet
import QuicModel.Drivers.VarInt
namespace Quic.Drivers
def all : List Component :=
  AckRanges.components ++ IntervalSet.components ++ VarInt.components
end Quic.Drivers
