import QuicModel.Drivers.Reassembler
import QuicModel.Drivers.VarInt
namespace Quic.Drivers
def all : List Component :=
  Reassembler.components ++ VarInt.components
end Quic.Drivers
