import QuicModel.Drivers.TransportParams
import QuicModel.Drivers.VarInt
namespace Quic.Drivers
def all : List Component :=
  TransportParams.components ++ VarInt.components
end Quic.Drivers
