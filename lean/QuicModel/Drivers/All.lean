import QuicModel.Drivers.VarInt
namespace Quic.Drivers
def all : List Component := [varint, varintRfc]
end Quic.Drivers
