import QuicModel.Driver
import QuicModel.Conn.Amplification
import QuicModel.Conn.StatelessReset
namespace Quic.Drivers.Amplification
open Quic Quic.Conn

/-- ops: `enc <max_tag_len> <trigger_len> <buf_len> <r>` -> `ok none` | `ok <len> <first byte> <token at end 0/1>`
    (`r`: the u64 the deterministic generator returns, little-endian, for every fill) -/
def sresetStep (t : List String) : String :=
  match t with
  | ["enc", tag, trig, buf, r] =>
    match tag.toNat?, trig.toNat?, buf.toNat?, r.toNat? with
    | some tag, some trig, some buf, some r =>
      if r > StatelessReset.usizeMax || buf > 65536 || tag > 65536 then "bad-op" else
      match StatelessReset.encodeLen tag trig buf r with
      | none => "ok none"
      | some n => s!"ok {n} {StatelessReset.firstByte (r % 256)} 1"
    | _, _, _, _ => "bad-op"
  | _ => "bad-op"

def statelessReset : Component := Component.stateless "stateless_reset" sresetStep

def constraintStr (c : Amplification.Constraint) : String :=
  match c with
  | .none => "None"
  | .amplificationLimited => "AmplificationLimited"
  | .congestionLimited => "CongestionLimited"
  | .retransmissionOnly => "RetransmissionOnly"

def render (p : Amplification.Path) (unblocked : Bool) : String :=
  s!"ok {boolStr (Amplification.atAmplificationLimit p)} {constraintStr (Amplification.transmissionConstraint p false false)} {boolStr (Amplification.isValidated p)} {boolStr unblocked}"

/-- ops: `new server|client`, `recv <n>`, `send <n>` (`err limited` when the path is at the limit: the datagram
    is not started), `validate`, `query`  ->  `ok <at limit> <constraint> <validated> <unblocked>` -/
def ampStep (p : Amplification.Path) (t : List String) : Amplification.Path × String :=
  match t with
  | ["new", "server"] => let q := Amplification.newServer Amplification.multiplier; (q, render q false)
  | ["new", "client"] => let q := Amplification.newClient Amplification.multiplier; (q, render q false)
  | ["recv", n] =>
    match n.toNat? with
    | some n =>
      if n > Amplification.usizeMax then (p, "bad-op") else
      let (q, u) := Amplification.onBytesReceived p n
      (q, render q u)
    | none => (p, "bad-op")
  | ["send", n] =>
    match n.toNat? with
    | some n =>
      if n > Amplification.usizeMax then (p, "bad-op")
      else if !Amplification.canTransmit p then (p, "err limited")
      else match Amplification.onBytesTransmitted p n with
        | some q => (q, render q false)
        | none => (p, "err limited")
    | none => (p, "bad-op")
  | ["validate"] => let q := Amplification.onValidated p; (q, render q false)
  | ["query"] => (p, render p false)
  | _ => (p, "bad-op")

def amplification : Component :=
  { name := "amplification", σ := Amplification.Path, init := Amplification.newServer Amplification.multiplier, step := ampStep }

def components : List Component := [statelessReset, amplification]

end Quic.Drivers.Amplification
