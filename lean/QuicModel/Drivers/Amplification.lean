import QuicModel.Driver
import QuicModel.Conn.Amplification
import QuicModel.Conn.StatelessReset
namespace Quic.Drivers.Amplification
open Quic Quic.Conn

/-- ops: `enc <max_tag_len> <trigger_len> <buf_len> <r>` -> `ok none` | `ok <len> <first byte> <token at end 0/1>`
    (`r`: the u64 the deterministic generator returns, little-endian, for every fill) -/
def sresetStep (t : List String) : String :=
  match t with
  | ["enc", tag, trig, buf, r] =>
    match tag.toNat?, trig.toNat?, buf.toNat?, r.toNat? with
    | some tag, some trig, some buf, some r =>
      if r > StatelessReset.usizeMax || buf > 65536 || tag > 65536 then "bad-op" else
      match StatelessReset.encodeLen tag trig buf r with
      | none => "ok none"
      | some n => s!"ok {n} {StatelessReset.firstByte (r % 256)} 1"
    | _, _, _, _ => "bad-op"
  | _ => "bad-op"

def statelessReset : Component := Component.stateless "stateless_reset" sresetStep

def constraintStr (c : Amplification.Constraint) : String :=
  match c with
  | .none => "None"
  | .amplificationLimited => "AmplificationLimited"
  | .congestionLimited => "CongestionLimited"
  | .retransmissionOnly => "RetransmissionOnly"

/-- driver state: the path plus the two predicates of the (mock) congestion controller set by `cc` -/
structure AmpSt where
  p : Amplification.Path
  ccLimited : Bool := false
  ccFast : Bool := false

def render (s : AmpSt) (unblocked : Bool) : String :=
  s!"ok {boolStr (Amplification.atAmplificationLimit s.p)} {constraintStr (Amplification.transmissionConstraint s.p s.ccLimited s.ccFast)} {boolStr (Amplification.isValidated s.p)} {boolStr unblocked}"

/-- ops: `new server|client`, `recv <n>`, `send <n>` (`err limited` when the path is at the limit: the datagram
    is not started), `validate`, `query`, `cc <congestion limited 0|1> <requires fast retransmission 0|1>`
    ->  `ok <at limit> <constraint> <validated> <unblocked>` -/
def ampStep (s : AmpSt) (t : List String) : AmpSt × String :=
  let p := s.p
  match t with
  | ["new", "server"] => let q : AmpSt := { p := Amplification.newServer Amplification.multiplier }; (q, render q false)
  | ["new", "client"] => let q : AmpSt := { p := Amplification.newClient Amplification.multiplier }; (q, render q false)
  | ["recv", n] =>
    match n.toNat? with
    | some n =>
      if n > Amplification.usizeMax then (s, "bad-op") else
      let (q, u) := Amplification.onBytesReceived p n
      let s' := { s with p := q }
      (s', render s' u)
    | none => (s, "bad-op")
  | ["send", n] =>
    match n.toNat? with
    | some n =>
      if n > Amplification.usizeMax then (s, "bad-op")
      else if !Amplification.canTransmit p then (s, "err limited")
      else match Amplification.onBytesTransmitted p n with
        | some q => let s' := { s with p := q }; (s', render s' false)
        | none => (s, "err limited")
    | none => (s, "bad-op")
  | ["validate"] => let s' := { s with p := Amplification.onValidated p }; (s', render s' false)
  | ["query"] => (s, render s false)
  | ["cc", l, f] =>
    if (l == "0" || l == "1") && (f == "0" || f == "1") then
      -- the mock controller reports "congestion limited" whenever it requires a fast retransmission
      let s' := { s with ccLimited := l == "1" || f == "1", ccFast := f == "1" }
      (s', render s' false)
    else (s, "bad-op")
  | _ => (s, "bad-op")

def amplification : Component :=
  { name := "amplification", σ := AmpSt, init := { p := Amplification.newServer Amplification.multiplier }, step := ampStep }

def components : List Component := [statelessReset, amplification]

end Quic.Drivers.Amplification
