import QuicModel.Driver
import QuicModel.Dc.Packets
import QuicModel.Dc.SecretMap
/-
  Line-protocol drivers `dc_packets` and `dc_map` (same protocol as
  harness/vh-dc/src/comp/{dc_packets,dc_map}.rs; the op grammar is documented there).
  Ciphertext and tags are opaque in the model: the sealed payload is represented by the plaintext,
  the tag by 16 bytes 0xA5. Authentication outcomes come from `Packets.idealOpen` (ideal-primitive
  assumption): only the calls the sealer made succeed.
-/
namespace Quic.Drivers.DcPackets
open Quic Quic.Dc.Packets

/-! ### token parsing -/

def maxVar : Nat := Codec.VarInt.maxValue

def vi? (s : String) : Option Nat :=
  match s.toNat? with
  | some x => if x ≤ maxVar then some x else none
  | none => none

def ovi? (s : String) : Option (Option Nat) :=
  if s == "-" then some none else (vi? s).map some

def bit? (s : String) : Option Bool :=
  if s == "0" then some false else if s == "1" then some true else none

def suite? (s : String) : Option Nat :=
  if s == "128" then some 0 else if s == "256" then some 1 else none

def cid? (s : String) : Option (List Nat) :=
  if s == "-" then none else
  match fromHex? s with
  | some b => if b.length = 16 then some b else none
  | none => none

def boundedNat? (s : String) (hi : Nat) : Option Nat :=
  match s.toNat? with
  | some x => if x ≤ hi then some x else none
  | none => none

/-- `@len,seed` pattern bytes: `(seed + 7 i + 13 (i / 256)) % 256` -/
def patternBytes (len seed : Nat) : List Nat :=
  (List.range len).map (fun i => (seed + 7 * i + 13 * (i / 256)) % 256)

def bytes? (s : String) : Option (List Nat) :=
  match s.toList with
  | '@' :: rest =>
    match (String.ofList rest).splitOn "," with
    | [l, sd] =>
      match l.toNat?, sd.toNat? with
      | some len, some seed => if len ≤ 70000 ∧ seed ≤ 255 then some (patternBytes len seed) else none
      | _, _ => none
    | _ => none
  | _ => fromHex? s

def stripChar? (c : Char) (s : String) : Option String :=
  match s.toList with
  | h :: t => if h == c then some (String.ofList t) else none
  | [] => none

def parseMutation (s : String) : Option Mutation :=
  let body (rest : String) : Option (Nat × Nat) :=
    match rest.splitOn ":" with
    | [i, x] =>
      match i.toNat?, x.toNat? with
      | some i, some x => if x ≤ 255 then some (i, x) else none
      | _, _ => none
    | _ => none
  match stripChar? 'x' s with
  | some rest => (body rest).bind (fun p => if p.2 = 0 then none else some (.xor p.1 p.2))
  | none =>
    match stripChar? 's' s with
    | some rest => (body rest).map (fun p => .set p.1 p.2)
    | none => none

def parseMutations (s : String) : Option (List Mutation) :=
  let parts := s.splitOn ","
  let ms := parts.filterMap parseMutation
  if ms.length = parts.length ∧ 1 ≤ ms.length ∧ ms.length ≤ 8 then some ms else none

/-! ### packet specs -/

def placeholderTag : List Nat := List.replicate 16 0xA5

inductive Spec where
  | stream (i : StreamIn) (mask : Option (Nat × Nat))
  | datagram (i : DatagramIn)
  | control (i : ControlIn)
  | secret (i : SecretIn)

inductive BuildErr where
  | bad
  | err (msg : String)

def streamId? (q r b : String) : Option StreamId :=
  match vi? q, bit? r, bit? b with
  | some q, some r, some b => if q < maxQueueId then some ⟨q, r, b⟩ else none
  | _, _, _ => none

def parseSpec (t : List String) : Except BuildErr (Spec × Nat) :=
  match t with
  | ["stream", suite, mode, cid, kid, sqid, qid, rel, bidi, pn, rpn, nect, off, fin, ah, cd, pl] =>
    match suite? suite, cid? cid, vi? kid, ovi? sqid, streamId? qid rel bidi with
    | some su, some cid, some kid, some sqid, some sid =>
      match vi? pn, vi? rpn, vi? nect, vi? off, ovi? fin with
      | some pn, some rpn, some nect, some off, some fin =>
        match bytes? ah, bytes? cd, bytes? pl with
        | some ah, some cd, some pl =>
          let base : StreamIn := ⟨false, false, ⟨cid, kid⟩, sqid, sid, pn, 0, nect, off, fin, ah, cd, pl, placeholderTag⟩
          if mode == "app" then .ok (.stream base none, su)
          else if mode == "probe" then
            if pl.isEmpty then .ok (.stream { base with recovery := true } none, su) else .error .bad
          else if mode == "retx-s" ∨ mode == "retx-r" then
            -- `retransmit_impl`: reliable only; relative offset must exist and fit a u32
            if !sid.reliable then .error (.err "retransmit:invariant")
            else if rpn < pn then .error (.err "retransmit:invariant")
            else if rpn - pn ≥ 4294967296 then .error (.err "retransmit:invariant")
            else .ok (.stream { base with recovery := (mode == "retx-r"), relOffset := rpn - pn } (some (pn, rpn)), su)
          else .error .bad
        | _, _, _ => .error .bad
      | _, _, _, _, _ => .error .bad
    | _, _, _, _, _ => .error .bad
  | ["datagram", suite, cid, kid, port, pn, nect, ah, cd, pl] =>
    match suite? suite, cid? cid, vi? kid, boundedNat? port 65535, ovi? pn, ovi? nect with
    | some su, some cid, some kid, some port, some pn, some nect =>
      match bytes? ah, bytes? cd, bytes? pl with
      | some ah, some cd, some pl =>
        if (nect.isSome ∧ pn.isNone) ∨ (nect.isNone ∧ !cd.isEmpty) then .error .bad
        else .ok (.datagram ⟨false, ⟨cid, kid⟩, port, pn, nect, ah, cd, pl, placeholderTag⟩, su)
      | _, _, _ => .error .bad
    | _, _, _, _, _, _ => .error .bad
  | ["control", suite, cid, kid, sid, sqid, pn, ah, cd] =>
    let sidOpt : Option (Option StreamId) :=
      if sid == "-" then some none else
      match sid.splitOn "," with
      | [q, r, b] => (streamId? q r b).map some
      | _ => none
    match suite? suite, cid? cid, vi? kid, sidOpt, ovi? sqid, vi? pn with
    | some su, some cid, some kid, some sid, some sqid, some pn =>
      match bytes? ah, bytes? cd with
      | some ah, some cd => .ok (.control ⟨⟨cid, kid⟩, sqid, sid, pn, ah, cd, placeholderTag⟩, su)
      | _, _ => .error .bad
    | _, _, _, _, _, _ => .error .bad
  | ["ups", suite, cid, wv, qid] =>
    match suite? suite, cid? cid, boundedNat? wv 255, ovi? qid with
    | some su, some cid, some wv, some qid => .ok (.secret ⟨.unknownPathSecret, cid, wv, qid, 0, placeholderTag⟩, su)
    | _, _, _, _ => .error .bad
  | ["stale", suite, cid, wv, qid, v] =>
    match suite? suite, cid? cid, boundedNat? wv 255, ovi? qid, vi? v with
    | some su, some cid, some wv, some qid, some v => .ok (.secret ⟨.staleKey, cid, wv, qid, v, placeholderTag⟩, su)
    | _, _, _, _, _ => .error .bad
  | ["replay", suite, cid, wv, qid, v] =>
    match suite? suite, cid? cid, boundedNat? wv 255, ovi? qid, vi? v with
    | some su, some cid, some wv, some qid, some v => .ok (.secret ⟨.replayDetected, cid, wv, qid, v, placeholderTag⟩, su)
    | _, _, _, _, _ => .error .bad
  | _ => .error .bad

structure Built where
  bytes : List Nat
  hdr : Nat
  pl : Nat
  sealed : List CryptoCall
  plaintext : List Nat

def Spec.build : Spec → Built
  | .stream i mask =>
    ⟨encodeStream i, (encStreamHeader i).length, i.payload.length, [streamSealCall i mask], i.payload⟩
  | .datagram i =>
    ⟨encodeDatagram i, (encDatagramHeader i).length, i.payload.length, [datagramSealCall i], i.payload⟩
  | .control i => ⟨encodeControl i, (encControlHeader i).length, 0, [controlSealCall i], []⟩
  | .secret i => ⟨encodeSecret i, (encSecretHeader i).length, 0, [secretSealCall i], []⟩

/-! ### rendering -/

def ostr : Option Nat → String
  | some v => toString v
  | none => "-"

def derrStr : DErr → String
  | .eof => "eof"
  | .invariant => "invariant"

def oerrStr : OpenErr → String
  | .invalidTag => "InvalidTag"
  | .rotationNotSupported => "RotationNotSupported"
  | .macOnly => "MacOnly"

def sidStr (s : StreamId) : String := s!"{s.queueId},{boolStr s.reliable},{boolStr s.bidi}"

def streamFields (v : StreamView) : String :=
  s!"tag={v.tag} cid={toHex v.creds.id} kid={v.creds.keyId} wv={v.wireVersion} sqid={ostr v.sourceQueueId} " ++
  s!"sid={sidStr v.streamId} pn={v.pn} retx={boolStr (v.pn != v.origPn)} nect={v.nect} off={v.offset} " ++
  s!"fin={ostr v.finalOffset} ah={toHex v.appHeader} cd={toHex v.controlData} pll={v.payload.length}"

def datagramFields (v : DatagramView) : String :=
  s!"tag={v.tag} cid={toHex v.creds.id} kid={v.creds.keyId} wv={v.wireVersion} port={v.sourceControlPort} " ++
  s!"pn={v.pn} nect={ostr v.nect} ah={toHex v.appHeader} cd={toHex v.controlData} pll={v.payload.length}"

def controlFields (v : ControlView) : String :=
  let sid := match v.streamId with | some s => sidStr s | none => "-"
  s!"tag={v.tag} cid={toHex v.creds.id} kid={v.creds.keyId} wv={v.wireVersion} sid={sid} " ++
  s!"sqid={ostr v.sourceQueueId} pn={v.pn} ah={toHex v.appHeader} cd={toHex v.controlData}"

/-- the value of a secret-control packet is only handed out after authentication -/
def secretFields (v : SecretView) (authentic : Bool) : String :=
  if authentic then
    s!"cid={toHex v.credId} wv={v.wireVersion} qid={ostr v.queueId}" ++
      (if v.kind.hasValue then s!" v={v.value}" else "")
  else s!"cid={toHex v.credId} qid={ostr v.queueId}"

def kindName : AnyView → String
  | .stream _ => "stream"
  | .datagram _ => "datagram"
  | .control _ => "control"
  | .secret v =>
    match v.kind with
    | .unknownPathSecret => "ups"
    | .staleKey => "stale"
    | .replayDetected => "replay"

structure Decoded where
  kind : String
  fields : String
  consumed : Nat
  auth : String
  payloadLen : Nat

inductive Which where
  | stream | datagram | control | secret (k : SecretKind) | sc | any

def which? (s : String) : Option Which :=
  if s == "stream" then some .stream else if s == "datagram" then some .datagram
  else if s == "control" then some .control else if s == "ups" then some (.secret .unknownPathSecret)
  else if s == "stale" then some (.secret .staleKey) else if s == "replay" then some (.secret .replayDetected)
  else if s == "sc" then some .sc else if s == "any" then some .any else none

def decodeWith (w : Which) (b : List Nat) : Except DErr (AnyView × List Nat) :=
  match w with
  | .stream => match decodeStream b with | .ok (v, r) => .ok (.stream v, r) | .error e => .error e
  | .datagram => match decodeDatagram b with | .ok (v, r) => .ok (.datagram v, r) | .error e => .error e
  | .control => match decodeControl b with | .ok (v, r) => .ok (.control v, r) | .error e => .error e
  | .secret k => match decodeSecret k b with | .ok (v, r) => .ok (.secret v, r) | .error e => .error e
  | .sc => match decodeSecretControl b with | .ok (v, r) => .ok (.secret v, r) | .error e => .error e
  | .any => decodeAny b

/-- decode + authenticate against the calls the sealer made -/
def decodeAuth (w : Which) (sealed : List CryptoCall) (b : List Nat) : Except DErr Decoded :=
  match decodeWith w b with
  | .error e => .error e
  | .ok (v, rest) =>
    let a := idealOpen sealed v.openCall
    let ok := match a with | .ok _ => true | .error _ => false
    let auth := match a with | .ok _ => "ok" | .error e => oerrStr e
    let fields := match v with
      | .stream s => streamFields s
      | .datagram d => datagramFields d
      | .control c => controlFields c
      | .secret s => secretFields s ok
    let pll := match v with
      | .stream s => s.payload.length
      | .datagram d => d.payload.length
      | _ => 0
    .ok ⟨kindName v, fields, b.length - rest.length, auth, pll⟩

def specWhich : Spec → Which
  | .stream _ _ => .stream
  | .datagram _ => .datagram
  | .control _ => .control
  | .secret i => .secret i.kind

def region (b : Built) (idx : Nat) : String :=
  if idx < b.hdr then "header" else if idx < b.hdr + b.pl then "payload" else "tag"

/-- a receiver: tag dispatch, whole datagram must be one packet, authenticate -/
def receive (sealed : List CryptoCall) (bytes : List Nat) : String :=
  match decodeAuth .any sealed bytes with
  | .error e => s!"decode:{derrStr e}"
  | .ok d =>
    if d.auth != "ok" then s!"auth:{d.auth}"
    else if d.consumed != bytes.length then s!"accepted-prefix:{d.kind}:{d.consumed}"
    else s!"accepted:{d.kind}"

def scanPositions (b : Built) (mk : Nat → Mutation) : Nat → Nat → Nat → List String → Nat × Nat × List String
  | 0, dec, auth, acc => (dec, auth, acc.reverse)
  | fuel + 1, dec, auth, acc =>
    let i := b.bytes.length - (fuel + 1)
    let r := receive b.sealed (mutate b.bytes (mk i))
    if r.startsWith "decode:" then scanPositions b mk fuel (dec + 1) auth acc
    else if r.startsWith "auth:" then scanPositions b mk fuel dec (auth + 1) acc
    else scanPositions b mk fuel dec auth (s!"{i}:{region b i}" :: acc)

def buildOf (t : List String) : Except String (Spec × Built) :=
  match parseSpec t with
  | .error .bad => .error "bad-op"
  | .error (.err m) => .error s!"err {m}"
  | .ok (sp, _) => .ok (sp, sp.build)

def dcPacketsStep (t : List String) : String :=
  match t with
  | "rt" :: spec =>
    match buildOf spec with
    | .error m => m
    | .ok (sp, b) =>
      let n := b.bytes.length
      let hdr := toHex (b.bytes.take b.hdr)
      match decodeAuth (specWhich sp) b.sealed b.bytes, decodeAuth (specWhich sp) [] b.bytes with
      | .ok r, .ok w =>
        let pl := if r.auth == "ok" then toHex b.plaintext else "-"
        s!"ok n={n} hdr={hdr} dec={r.kind} {r.fields} used={r.consumed} auth={r.auth} pl={pl} wrong={w.auth}"
      | .error e, _ => s!"ok n={n} hdr={hdr} dec=err:{derrStr e}"
      | _, .error e => s!"ok n={n} hdr={hdr} dec=err:{derrStr e}"
  | "mut" :: muts :: spec =>
    match buildOf spec with
    | .error m => m
    | .ok (_, b) =>
      match parseMutations muts with
      | none => "bad-op"
      | some ms =>
        let n := b.bytes.length
        let bytes := ms.foldl mutate b.bytes
        let regions := ",".intercalate (ms.map (fun m => region b (m.idx % n)))
        if bytes == b.bytes then s!"ok n={n} region={regions} result=same"
        else s!"ok n={n} region={regions} result={receive b.sealed bytes}"
  | "mutscan" :: mode :: spec =>
    match buildOf spec with
    | .error m => m
    | .ok (_, b) =>
      let mk : Option (Nat → Mutation) :=
        match stripChar? 'x' mode with
        | some r =>
          match boundedNat? r 255 with
          | some x => if x = 0 then none else some (fun i => .xor i x)
          | none => none
        | none =>
          match stripChar? 's' mode with
          | some r => (boundedNat? r 255).map (fun x => fun i => Mutation.set i x)
          | none => none
      match mk with
      | none => "bad-op"
      | some mk =>
        let n := b.bytes.length
        if n > 4096 then "bad-op" else
        let (dec, auth, acc) := scanPositions b mk n 0 0 []
        let accs := if acc.isEmpty then "-" else ",".intercalate acc
        s!"ok n={n} hdr={b.hdr} pl={b.pl} decode={dec} auth={auth} accepted={accs}"
  | ["dec", w, suite, h] =>
    match which? w, suite? suite, fromHex? h with
    | some w, some _, some bytes =>
      match decodeAuth w [] bytes with
      | .ok d => s!"ok dec={d.kind} {d.fields} used={d.consumed} auth={d.auth}"
      | .error e => s!"err {derrStr e}"
    | _, _, _ => "bad-op"
  | ["fuzz", h] =>
    match fromHex? h with
    | none => "bad-op"
    | some bytes =>
      let one (name : String) (w : Which) : String :=
        match decodeAuth w [] bytes with
        | .ok d => s!" {name}={d.kind}:{d.consumed}:{d.auth}"
        | .error e => s!" {name}={derrStr e}"
      "ok" ++ one "stream" .stream ++ one "datagram" .datagram ++ one "control" .control
        ++ one "ups" (.secret .unknownPathSecret) ++ one "stale" (.secret .staleKey)
        ++ one "replay" (.secret .replayDetected) ++ one "sc" .sc ++ one "any" .any
  | ["mac", w, suite, h, taglen] =>
    match suite? suite, fromHex? h, boundedNat? taglen 64 with
    | some _, some _, some tl =>
      if w == "stream" ∨ w == "secret" then
        -- `verify` refuses every tag whose length is not the key's tag length before comparing
        s!"ok tag={tagLen} full=ok cut={if tl = tagLen then "ok" else "InvalidTag"}"
      else "bad-op"
    | _, _, _ => "bad-op"
  | _ => "bad-op"

def dcPackets : Component := Component.stateless "dc_packets" dcPacketsStep

/-! ### dc_map -/

open Quic.Dc.SecretMap in
structure MapSt where
  s : Quic.Dc.SecretMap.State
  /-- (owner entry id, call) pairs produced by peers so far in the current delivery -/
  sealed : List (List Nat × CryptoCall)

def entryId (k : Nat) : List Nat := List.replicate 16 (k + 1)
def alienId : List Nat := List.replicate 16 250

def idName (n : Nat) (id : List Nat) : String :=
  match (List.range n).find? (fun k => entryId k == id) with
  | some k => s!"e{k}"
  | none => "?"

def skName : SecretKind → String
  | .unknownPathSecret => "ups"
  | .staleKey => "stale"
  | .replayDetected => "replay"

def eventStr (n : Nat) : Quic.Dc.SecretMap.Event → String
  | .received k id => s!"{skName k}-received:{idName n id}"
  | .dropped k id => s!"{skName k}-dropped:{idName n id}"
  | .rejected k id => s!"{skName k}-rejected:{idName n id}"
  | .accepted .unknownPathSecret id ev _ => s!"ups-accepted:{idName n id}:evict={boolStr ev}"
  | .accepted .staleKey id _ _ => s!"stale-accepted:{idName n id}"
  | .accepted .replayDetected id _ v => s!"replay-accepted:{idName n id}:key={v}"
  | .evictedId id => s!"evicted-id:{idName n id}"
  | .evictedAddr id => s!"evicted-addr:{idName n id}"

def digest (s : Quic.Dc.SecretMap.State) : String :=
  let es := (List.range s.entries.length).zip s.entries
  let parts := es.map (fun (k, e) =>
    let d := Quic.Dc.SecretMap.entryDigest s e
    s!" e{k}={boolStr d.1}:{boolStr d.2.1}:{d.2.2.1}:{d.2.2.2}")
  let hs := if s.handshakes.isEmpty then "-" else ",".intercalate (s.handshakes.map (fun p => s!"p{p}"))
  s!"secrets={Quic.Dc.SecretMap.secretsLen s} peers={s.peers.length}" ++ String.join parts ++ s!" hs={hs}"

def sk? (s : String) : Option SecretKind :=
  if s == "ups" then some .unknownPathSecret else if s == "stale" then some .staleKey
  else if s == "replay" then some .replayDetected else none

def mkSecret (k : SecretKind) (id : List Nat) (qid : Option Nat) (v : Nat) : SecretIn :=
  ⟨k, id, 0, qid, if k.hasValue then v else 0, placeholderTag⟩

/-- hand a datagram to the map; `sealed` = what peers produced (owner id, call) -/
def deliver (st : MapSt) (via : String) (sealed : List (List Nat × CryptoCall)) (bytes : List Nat) :
    Option (MapSt × String) :=
  let auth : Quic.Dc.SecretMap.Entry → SecretView → Bool := Quic.Dc.SecretMap.idealAuth sealed
  let r : Option (Option (Quic.Dc.SecretMap.State × List Quic.Dc.SecretMap.Event)) :=
    if via == "ctl" then some (Quic.Dc.SecretMap.onPossibleSecretControlPacket auth st.s bytes)
    else if via == "unexp" then some (Quic.Dc.SecretMap.handleUnexpectedPacket auth st.s bytes)
    else none
  match r with
  | none => none
  | some none => some (st, s!"ok ignored ev=- | {digest st.s}")
  | some (some (s', evs)) =>
    let n := st.s.entries.length
    let ev := if evs.isEmpty then "-" else ",".intercalate (evs.map (eventStr n))
    some ({ st with s := s' }, s!"ok handled ev={ev} | {digest s'}")

def parseInitSpecs (s : String) : Option (List Nat) :=
  if s == "-" then some [] else
  let parts := s.splitOn ","
  let ps := parts.filterMap (fun p =>
    match p.splitOn ":" with
    | [a, c] =>
      match a.toNat? with
      | some a => if a ≤ 1000 ∧ (c == "128" ∨ c == "256") then some a else none
      | none => none
    | _ => none)
  if ps.length = parts.length ∧ ps.length ≤ 32 then some ps else none

def dcMapStep (st : MapSt) (t : List String) : MapSt × String :=
  let bad : MapSt × String := (st, "bad-op")
  match t with
  | ["init", evict, specs] =>
    match bit? evict, parseInitSpecs specs with
    | some ev, some ps =>
      let s0 := Quic.Dc.SecretMap.init ev
      let s := ((List.range ps.length).zip ps).foldl (fun s (k, p) =>
        match Quic.Dc.SecretMap.handshake s (entryId k) p with
        | some s' => s'
        | none => s) s0
      (⟨s, []⟩, s!"ok {digest s}")
    | _, _ => bad
  | ["state"] => (st, s!"ok {digest st.s}")
  | ["genuine", via, kind, k, qid, v] =>
    match sk? kind, k.toNat?, ovi? qid, vi? v with
    | some kind, some k, some qid, some v =>
      if k < st.s.entries.length then
        let i := mkSecret kind (entryId k) qid v
        match deliver st via [(entryId k, secretSealCall i)] (encodeSecret i) with
        | some r => r
        | none => bad
      else bad
    | _, _, _, _ => bad
  | ["forge", via, kind, k, qid, v, muts] =>
    match sk? kind, k.toNat?, ovi? qid, vi? v with
    | some kind, some k, some qid, some v =>
      if k < st.s.entries.length then
        let i := mkSecret kind (entryId k) qid v
        match parseMutations muts with
        | none => bad
        | some ms =>
          let orig := encodeSecret i
          let bytes := ms.foldl mutate orig
          if bytes == orig then (st, s!"ok same | {digest st.s}")
          else
            match deliver st via [(entryId k, secretSealCall i)] bytes with
            | some r => r
            | none => bad
      else bad
    | _, _, _, _ => bad
  | ["cross", via, kind, k, j, qid, v] =>
    match sk? kind, k.toNat?, j.toNat?, ovi? qid, vi? v with
    | some kind, some k, some j, some qid, some v =>
      if k < st.s.entries.length ∧ j < st.s.entries.length ∧ k ≠ j then
        let i := mkSecret kind (entryId k) qid v
        match deliver st via [(entryId j, secretSealCall i)] (encodeSecret i) with
        | some r => r
        | none => bad
      else bad
    | _, _, _, _, _ => bad
  | ["alien", via, kind, qid, v] =>
    match sk? kind, ovi? qid, vi? v with
    | some kind, some qid, some v =>
      let i := mkSecret kind alienId qid v
      match deliver st via [(alienId, secretSealCall i)] (encodeSecret i) with
      | some r => r
      | none => bad
    | _, _, _ => bad
  | ["raw", via, h] =>
    match fromHex? h with
    | some bytes =>
      match deliver st via [] bytes with
      | some r => r
      | none => bad
    | none => bad
  | ["age"] =>
    ({ st with s := { st.s with entries := st.s.entries.map (fun e => { e with aged := true }) } }, "ok")
  | ["next", k] =>
    match k.toNat? with
    | some k =>
      if k < st.s.entries.length then
        match Quic.Dc.SecretMap.nextKeyId st.s k with
        | some (s', id) => ({ st with s := s' }, s!"ok {id}")
        | none => (st, "err exhausted")
      else bad
    | none => bad
  | ["seen", k, key] =>
    match k.toNat?, vi? key with
    | some k, some key =>
      match st.s.entries[k]? with
      | some e =>
        let r := Quic.Dc.ReplayWindow.postAuthentication e.receiver key
        let s' := { st.s with entries := st.s.entries.set k { e with receiver := r.1 } }
        let out := match r.2 with
          | .ok _ => "ok"
          | .error .alreadyExists => "err AlreadyExists"
          | .error .unknown => "err Unknown"
        ({ st with s := s' }, out)
      | none => bad
    | _, _ => bad
  | _ => bad

def dcMap : Component :=
  { name := "dc_map", σ := MapSt, init := ⟨Quic.Dc.SecretMap.init true, []⟩, step := dcMapStep }

def components : List Component := [dcPackets, dcMap]

end Quic.Drivers.DcPackets
