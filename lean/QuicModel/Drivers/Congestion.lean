import QuicModel.Driver
import QuicModel.Recovery.Cubic
import QuicModel.Recovery.Bbr
namespace Quic.Drivers.Congestion
open Quic Quic.Recovery

/-
  component `congestion` — RELATIONAL driver for the CUBIC / BBR skeletons.

  Because every float (CUBIC) / network-model (BBR) value is an oracle parameter of the skeleton,
  the Lean side cannot predict the implementation's output. Instead each input line carries the
  op AND what the real controller answered (props/parts/C10_congestion.py builds the lines from
  the Rust run):

      <op tokens> => cwnd=<n> bif=<n> limited=<0|1> fast_rtx=<0|1> state=<token>
      <op tokens> => panic <msg>
      <op tokens> => bad-op

  and the answer is
      ok                      the observed post-state is one the skeleton admits from its current
                              state for some oracle values (`Cubic.accept` / `Bbr.accept`), resp. the
                              skeleton panics / rejects the op as well
      err not-admitted        no oracle value explains the observation
      err unexpected-panic    the implementation panicked where the skeleton cannot
      err missing-panic       the skeleton panics (caller contract broken), the implementation went on
      err bad-op-mismatch     only one side considers the op outside the domain
  After every line the model continues from the admitted state (after an `err` it is re-synchronised
  with the observation).

  ops (see harness/vh-core/src/comp/congestion.rs):
      new <cubic|bbr> <mds> | sent <bytes> <now> <0|1|-> | rtt <sample> <now>
      ack <bytes> <sent_time> <rtt> <now> | lost <bytes> <persistent> <sent_time> <now>
      ecn <now> | mtu <mds> | discard <bytes>
-/

inductive Ctl
  | none
  | cubic (s : Cubic.State)
  | bbr (s : Bbr.State)

inductive Seen
  | obs (cwnd inflight : Nat) (limited fastRtx : Bool) (state : String)
  | panic
  | badOp

def u64Max : Nat := 18446744073709551615

def field? (pre : String) (t : String) : Option String :=
  if t.startsWith pre then some (t.drop pre.length).toString else none

def bit? (s : String) : Option Bool := if s == "1" then some true else if s == "0" then some false else none

def seen? (t : List String) : Option Seen :=
  match t with
  | ["bad-op"] => some .badOp
  | "panic" :: _ => some .panic
  | ["ok", c, b, l, f, st] =>
    match (field? "cwnd=" c).bind String.toNat?, (field? "bif=" b).bind String.toNat?,
          (field? "limited=" l).bind bit?, (field? "fast_rtx=" f).bind bit?, field? "state=" st with
    | some c, some b, some l, some f, some st => some (.obs c b l f st)
    | _, _, _, _, _ => none
  | _ => none

def splitArrow (t : List String) : List String × List String :=
  (t.takeWhile (· != "=>"), (t.dropWhile (· != "=>")).drop 1)

def cubicTag? (st : String) : Option Nat :=
  if st == "slow_start" then some 0 else if st == "recovery" then some 1
  else if st == "congestion_avoidance" then some 2 else none

def bbrToken (st : String) : Bool :=
  st == "startup" || st == "drain" || st == "probe_bw" || st == "probe_rtt"

/-- the op of a line, as (composite rtt step?, op) for either controller. `none` = outside the domain. -/
structure Parsed where
  /-- `ack` with rtt > 0: an `on_rtt_update` at this time first -/
  rttFirst : Option Nat := Option.none
  cubic : Cubic.Op
  bbr : Bbr.Op
  /-- time used when re-synchronising a recovery start -/
  now : Nat := 0

def u64? (s : String) : Option Nat := match s.toNat? with
  | some n => if n ≤ u64Max then some n else Option.none
  | Option.none => Option.none

def parseOp (t : List String) : Option Parsed :=
  match t with
  | ["sent", b, now, app] =>
    let app? : Option (Option Bool) :=
      if app == "-" then some Option.none else (bit? app).map some
    match u64? b, u64? now, app? with
    | some b, some now, some app => some { cubic := .sent b now app, bbr := .sent b now app, now := now }
    | _, _, _ => Option.none
  | ["rtt", sample, now] =>
    match u64? sample, u64? now with
    | some _, some now => some { cubic := .rtt now, bbr := .rtt now, now := now }
    | _, _ => Option.none
  | ["ack", b, ts, rtt, now] =>
    match u64? b, u64? ts, u64? rtt, u64? now with
    | some b, some ts, some rtt, some now =>
      some { rttFirst := if rtt > 0 then some now else Option.none, cubic := .ack ts b now, bbr := .ack ts b now, now := now }
    | _, _, _, _ => Option.none
  | ["lost", b, p, ts, now] =>
    match u64? b, bit? p, u64? ts, u64? now with
    | some b, some p, some _, some now =>
      if b > Cubic.u32Max then Option.none           -- `lost_bytes: u32`
      else some { cubic := .lost b p now, bbr := .lost b p now, now := now }
    | _, _, _, _ => Option.none
  | ["ecn", now] =>
    match u64? now with
    | some now => some { cubic := .ecn now, bbr := .ecn now, now := now }
    | Option.none => Option.none
  | ["mtu", m] =>
    match m.toNat? with
    | some m => if m = 0 ∨ m > 65535 then Option.none else some { cubic := .mtu m, bbr := .mtu m }
    | Option.none => Option.none
  | ["discard", b] =>
    match u64? b with
    | some b => some { cubic := .discard b, bbr := .discard b }
    | Option.none => Option.none
  | _ => Option.none

/-! ### CUBIC -/

/-- the skeleton states reachable by the optional leading `on_rtt_update` (`none` in the list = panic) -/
def cubicPre (s : Cubic.State) (p : Parsed) : List (Option Cubic.State) :=
  match p.rttFirst with
  | Option.none => [some s]
  | some now => [Cubic.step s (.rtt now) {}, Cubic.step s (.rtt now) { rttExit := true }]

def cubicResync (s : Cubic.State) (p : Parsed) (cwnd inflight : Nat) (fastRtx : Bool) (tag : Nat) : Cubic.State :=
  let mds := match p.cubic with | .mtu m => m | _ => s.mds
  let phase : Cubic.Phase :=
    if tag = 0 then .slowStart
    else if tag = 1 then
      match s.phase with
      | .recovery t _ => .recovery t fastRtx
      | _ => .recovery p.now fastRtx
    else match s.phase with
      | .congAvoid t => .congAvoid t
      | _ => Cubic.Phase.congestionAvoidance p.now
  { s with mds := mds, w := cwnd, inflight := inflight, phase := phase }

def cubicLine (s : Cubic.State) (p : Parsed) (seen : Seen) : Ctl × String :=
  let pres := cubicPre s p
  match seen with
  | .badOp => (.cubic s, "err bad-op-mismatch")
  | .panic =>
    if pres.any (fun s? => match s? with
        | Option.none => true
        | some s1 => Cubic.acceptPanic s1 p.cubic) then (.none, "ok")
    else (.none, "err unexpected-panic")
  | .obs cwnd inflight limited fastRtx st =>
    match cubicTag? st with
    | Option.none => (.cubic s, "err not-admitted")
    | some tag =>
      let obs : Cubic.Obs := { cwnd := cwnd, inflight := inflight, limited := limited, fastRtx := fastRtx, phase := tag }
      let hit := pres.findSome? fun s? => match s? with
        | Option.none => Option.none
        | some s1 => (Cubic.accept s1 p.cubic obs).map (·.2)
      match hit with
      | some s' => (.cubic s', "ok")
      | Option.none =>
        let allPanic := pres.all fun s? => match s? with
          | Option.none => true
          | some s1 => Cubic.acceptPanic s1 p.cubic
        (.cubic (cubicResync s p cwnd inflight fastRtx tag), if allPanic then "err missing-panic" else "err not-admitted")

/-! ### BBR -/

def bbrResync (s : Bbr.State) (p : Parsed) (cwnd inflight : Nat) (fastRtx probeRtt : Bool) : Bbr.State :=
  let mds := match p.bbr with | .mtu m => m | _ => s.mds
  let rec' : Option (Nat × Bool) :=
    match s.recovery with
    | some (t, _) => some (t, fastRtx)
    | Option.none => if fastRtx then some (p.now, true) else Option.none
  { s with mds := mds, cwnd := cwnd, inflight := inflight, recovery := rec', probeRtt := probeRtt }

def bbrLine (s : Bbr.State) (p : Parsed) (seen : Seen) : Ctl × String :=
  match seen with
  | .badOp => (.bbr s, "err bad-op-mismatch")
  | .panic => if Bbr.acceptPanic s p.bbr then (.none, "ok") else (.none, "err unexpected-panic")
  | .obs cwnd inflight limited fastRtx st =>
    if !bbrToken st then (.bbr s, "err not-admitted") else
    let obs : Bbr.Obs := { cwnd := cwnd, inflight := inflight, limited := limited, fastRtx := fastRtx, probeRtt := st == "probe_rtt" }
    match Bbr.accept s p.bbr obs with
    | some (_, s') => (.bbr s', "ok")
    | Option.none =>
      (.bbr (bbrResync s p cwnd inflight fastRtx (st == "probe_rtt")),
        if (Bbr.step Bbr.saturatingGrowth s p.bbr {}).isNone then "err missing-panic" else "err not-admitted")

def newLine (kind : String) (mds : Nat) (seen : Seen) : Ctl × String :=
  if kind == "cubic" then
    let s := Cubic.init mds
    match seen with
    | .obs cwnd inflight limited fastRtx st =>
      if some (Cubic.observe s) = (cubicTag? st).map (fun tag => ({ cwnd := cwnd, inflight := inflight, limited := limited, fastRtx := fastRtx, phase := tag } : Cubic.Obs))
      then (.cubic s, "ok") else (.cubic { s with w := cwnd, inflight := inflight }, "err not-admitted")
    | .panic => (.none, "err unexpected-panic")
    | .badOp => (.none, "err bad-op-mismatch")
  else
    match Bbr.init mds, seen with
    | some s, .obs cwnd inflight limited fastRtx st =>
      if Bbr.observe s = { cwnd := cwnd, inflight := inflight, limited := limited, fastRtx := fastRtx, probeRtt := false } && st == "startup"
      then (.bbr s, "ok") else (.bbr { s with cwnd := cwnd, inflight := inflight }, "err not-admitted")
    | some _, .panic => (.none, "err unexpected-panic")
    | Option.none, .panic => (.none, "ok")
    | Option.none, .obs cwnd inflight _ _ _ =>
      (.bbr { mds := mds, cwnd := cwnd, priorCwnd := 0, inflight := inflight, recovery := Option.none, probeRtt := false }, "err missing-panic")
    | _, .badOp => (.none, "err bad-op-mismatch")

def ccStep (c : Ctl) (t : List String) : Ctl × String :=
  let (opT, seenT) := splitArrow t
  match seen? seenT with
  | Option.none => (c, "bad-op")                       -- malformed relational line
  | some seen =>
    match opT with
    | ["new", kind, m] =>
      match m.toNat? with
      | some mds =>
        if (kind == "cubic" || kind == "bbr") && mds ≠ 0 && mds ≤ 65535 then newLine kind mds seen
        else (c, match seen with | .badOp => "ok" | _ => "err bad-op-mismatch")
      | Option.none => (c, match seen with | .badOp => "ok" | _ => "err bad-op-mismatch")
    | _ =>
      match c, parseOp opT with
      | .none, _ => (c, match seen with | .badOp => "ok" | _ => "err bad-op-mismatch")
      | _, Option.none => (c, match seen with | .badOp => "ok" | _ => "err bad-op-mismatch")
      | .cubic s, some p => cubicLine s p seen
      | .bbr s, some p => bbrLine s p seen

def congestion : Component := { name := "congestion", σ := Ctl, init := .none, step := ccStep }

def components : List Component := [congestion]

end Quic.Drivers.Congestion
