import QuicModel.Driver
import QuicModel.Conn.Wakers
/-
  Line-protocol driver for the open-stream waiters model (`Conn.Wakers.OpenWaiters`), the twin of
  `harness/vh-transport/src/comp/open_waiters.rs` which drives the real `stream::Controller`.
  Tasks 0..7 each own an open token; the model identifies a parked waker by the token it was given,
  the protocol reports wake-ups by task number.

  ops: `new <peer_limit> <local_limit>` | `poll <task>` | `max <n>` | `close_stream` | `close`
-/
namespace Quic.Drivers.OpenWaiters
open Quic Quic.Conn.Wakers

def TASKS : Nat := 8

structure DS where
  s : OpenWaiters.State := { maxLocal := 100, peerLimit := 1 }
  /-- the token each task holds (0 = none) -/
  tokens : List Nat := List.replicate 8 0
  /-- (token, task) for every token handed out -/
  owner : List (Nat × Nat) := []
  /-- streams opened and not yet closed -/
  openCount : Nat := 0

def insertSorted (x : Nat) : List Nat → List Nat
  | [] => [x]
  | y :: ys => if x ≤ y then x :: y :: ys else y :: insertSorted x ys

def sortNat (l : List Nat) : List Nat := l.foldr insertSorted []

/-- the tasks behind the woken tokens, sorted -/
def wokenTasks (d : DS) (toks : List Nat) : String :=
  let tasks := toks.filterMap (fun t => (d.owner.find? (fun p => p.1 == t)).map (·.2))
  s!"ok {natList (sortNat tasks)}"

def step (d : DS) (t : List String) : DS × String :=
  match t with
  | ["new", p, l] =>
    match p.toNat?, l.toNat? with
    | some p, some l =>
      if p > 1000 || l == 0 || l > 1000 then (d, "bad-op") else
      ({ s := { maxLocal := l, peerLimit := p } }, "ok new")
    | _, _ => (d, "bad-op")
  | ["poll", task] =>
    match task.toNat? with
    | some task =>
      if task ≥ TASKS then (d, "bad-op") else
      let tok := d.tokens.getD task 0
      let r := OpenWaiters.pollOpen d.s tok
      let tok' := r.2.1
      let owner := if tok' != 0 && tok' != tok then (tok', task) :: d.owner else d.owner
      let d' := { d with s := r.1, tokens := d.tokens.set task tok', owner := owner }
      if r.2.2 then ({ d' with openCount := d.openCount + 1 }, "ok ready") else (d', "ok pending")
    | none => (d, "bad-op")
  | ["max", n] =>
    match n.toNat? with
    | some n =>
      if n > 100000 then (d, "bad-op") else
      let r := OpenWaiters.onMaxStreams d.s n
      ({ d with s := r.1 }, wokenTasks d r.2)
    | none => (d, "bad-op")
  | ["close_stream"] =>
    if d.openCount == 0 then (d, "bad-op") else
    let r := OpenWaiters.onCloseStream d.s
    ({ d with s := r.1, openCount := d.openCount - 1 }, wokenTasks d r.2)
  | ["close"] =>
    let r := OpenWaiters.close d.s
    ({ d with s := r.1 }, wokenTasks d r.2)
  | _ => (d, "bad-op")

def openWaiters : Component := { name := "open-waiters", σ := DS, init := {}, step := step }

def components : List Component := [openWaiters]

end Quic.Drivers.OpenWaiters
