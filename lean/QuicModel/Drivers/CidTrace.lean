import QuicModel.Driver
import QuicModel.Rfc.PeerView
import QuicModel.Conn.LocalIds
import QuicModel.Conn.PeerIds
/-
  Component `cid-trace` (tie T for C13): consumes the connection-ID related wire events of ONE endpoint of
  a real end-to-end run, in trace order, and answers whether each is a step `Rfc.PeerView` allows.

    tp <peer active_connection_id_limit>
    hs <seq> <cid> <token|->            handshake connection ID of the endpoint
    hspeer <seq> <cid>                  handshake connection ID of the peer
    tx ncid <seq> <rpt> <cid> <token>   endpoint emits NEW_CONNECTION_ID
    rx retire <seq>                     endpoint processed RETIRE_CONNECTION_ID
    rx ncid <seq> <rpt> <cid> <token>   endpoint processed NEW_CONNECTION_ID
    tx retire <seq> <dcid|->            endpoint emits RETIRE_CONNECTION_ID (dcid of the packet if known)

  answers `ok <number of unretired ids>` or `err <rule>`; after an `err` the view is left unchanged.
-/
namespace Quic.Drivers.CidTrace
open Quic Quic.Rfc.PeerView

def parseEv (t : List String) : Option Ev :=
  match t with
  | ["tp", l] => l.toNat?.map Ev.tp
  | ["hs", seq, cid, tok] =>
    match seq.toNat?, fromHex? cid with
    | some s, some c =>
      if tok == "-" then some (Ev.hs s c none)
      else (fromHex? tok).map (fun k => Ev.hs s c (some k))
    | _, _ => none
  | ["hspeer", seq, cid] =>
    match seq.toNat?, fromHex? cid with
    | some s, some c => some (Ev.hsPeer s c)
    | _, _ => none
  | ["tx", "ncid", seq, rpt, cid, tok] =>
    match seq.toNat?, rpt.toNat?, fromHex? cid, fromHex? tok with
    | some s, some r, some c, some k => some (Ev.txNcid { seq := s, rpt := r, cid := c, token := k })
    | _, _, _, _ => none
  | ["rx", "ncid", seq, rpt, cid, tok] =>
    match seq.toNat?, rpt.toNat?, fromHex? cid, fromHex? tok with
    | some s, some r, some c, some k => some (Ev.rxNcid { seq := s, rpt := r, cid := c, token := k })
    | _, _, _, _ => none
  | ["rx", "retire", seq] => seq.toNat?.map Ev.rxRetire
  | ["tx", "retire", seq, dcid] =>
    match seq.toNat? with
    | some s =>
      if dcid == "-" then some (Ev.txRetire s none)
      else (fromHex? dcid).map (fun d => Ev.txRetire s (some d))
    | none => none
  | _ => none

def cidStep (v : View) (t : List String) : View × String :=
  match parseEv t with
  | none => (v, "bad-op")
  | some e =>
    match step v e with
    | .ok v' => (v', s!"ok {v'.active.length}")
    | .error r => (v, "err " ++ r.name)

def cidTrace : Component := { name := "cid-trace", σ := View, init := {}, step := cidStep }

/-
  Component `cid-local`: the transcribed `LocalIdRegistry` behind a line protocol (used to replay Lean
  witnesses and by the part's self-test):
    new <internal> <cid> <expiration|-> <token> <rotate 0|1>
    limit <peer limit>  | reg <cid> <expiration|-> <token> | retire <seq> <dcid> <rtt> <now>
    timeout <now> | tx <constraint 0..3> <pn> <room> | ack <pn,..> | loss <pn,..> | confirmed
  answers `<out> | seqs=<seq:status,...> rpt=<n> next=<n> frames=<seq/rpt,...>`
-/
open Quic.Conn in
def statusStr : LocalIds.Status → String
  | .pendingIssuance => "PI" | .pendingReissue => "PR" | .pendingAcknowledgement pn => s!"PA{pn}"
  | .active => "A" | .pendingRetirementConfirmation _ => "PRC" | .pendingRemoval _ => "PX"

open Quic.Conn in
def showLocal (s : LocalIds.State) : String :=
  let ids := ",".intercalate (s.ids.map (fun i => s!"{i.seq}:{statusStr i.status}"))
  let fr := ",".intercalate ((LocalIds.emitted s).map (fun f => s!"{f.seq}/{f.rpt}"))
  s!"seqs={if ids.isEmpty then "-" else ids} rpt={s.retirePriorTo} next={s.nextSeq} limit={s.limit} frames={if fr.isEmpty then "-" else fr}"

def optNat? (s : String) : Option (Option Nat) :=
  if s == "-" then some none else s.toNat?.map some

def natsOf (s : String) : Option (List Nat) :=
  if s == "-" then some [] else (s.splitOn ",").mapM (·.toNat?)

open Quic.Conn in
def constraintOf : Nat → LocalIds.Constraint
  | 0 => .none | 1 => .retransmissionOnly | 2 => .congestionLimited | _ => .amplificationLimited

open Quic.Conn in
def localStep (st : Option LocalIds.State × Nat) (t : List String) : (Option LocalIds.State × Nat) × String :=
  let (os, p) := st
  match os, t with
  | _, ["new", iid, cid, e, tok, rot] =>
    match iid.toNat?, fromHex? cid, optNat? e, fromHex? tok with
    | some i, some c, some e, some k =>
      match LocalIds.new i [] c e k (rot == "1") with
      | some s => ((some s, p), "ok | " ++ showLocal s)
      | none => ((none, p), "panic new")
    | _, _, _, _ => (st, "bad-op")
  | some s, ["limit", l] =>
    match l.toNat? with
    | some l => let s' := LocalIds.setActiveConnectionIdLimit s l; ((some s', l), "ok | " ++ showLocal s')
    | none => (st, "bad-op")
  | some s, ["reg", cid, e, tok] =>
    match fromHex? cid, optNat? e, fromHex? tok with
    | some c, some e, some k =>
      let (s', o) := LocalIds.registerConnectionId s c e k
      ((some s', p), o.str ++ " | " ++ showLocal s')
    | _, _, _ => (st, "bad-op")
  | some s, ["retire", seq, dcid, rtt, now] =>
    match seq.toNat?, fromHex? dcid, rtt.toNat?, now.toNat? with
    | some q, some d, some r, some n =>
      let (s', o) := LocalIds.onRetireConnectionId s q d r n
      ((some s', p), o.str ++ " | " ++ showLocal s')
    | _, _, _, _ => (st, "bad-op")
  | some s, ["timeout", now] =>
    match now.toNat? with
    | some n => let s' := LocalIds.onTimeout s n; ((some s', p), "ok | " ++ showLocal s')
    | none => (st, "bad-op")
  | some s, ["tx", c, pn, w] =>
    match c.toNat?, pn.toNat? with
    | some c, some pn =>
      let s' := LocalIds.onTransmit s (constraintOf c) pn (w.toNat?.getD 0)
      ((some s', p), "ok | " ++ showLocal s')
    | _, _ => (st, "bad-op")
  | some s, ["ack", set] =>
    match natsOf set with
    | some l => let s' := LocalIds.onPacketAck s l; ((some s', p), "ok | " ++ showLocal s')
    | none => (st, "bad-op")
  | some s, ["loss", set] =>
    match natsOf set with
    | some l => let s' := LocalIds.onPacketLoss s l; ((some s', p), "ok | " ++ showLocal s')
    | none => (st, "bad-op")
  | some s, ["confirmed"] =>
    let s' := LocalIds.onHandshakeConfirmed s; ((some s', p), "ok | " ++ showLocal s')
  | _, _ => (st, "bad-op")

open Quic.Conn in
def cidLocal : Component := { name := "cid-local", σ := Option LocalIds.State × Nat, init := (none, 2), step := localStep }

def components : List Component := [cidTrace, cidLocal]

end Quic.Drivers.CidTrace
