import QuicModel.Driver
import QuicModel.Dc.SendQueue
/-
  Line-protocol driver for the dc stream send queue (`dc_sendqueue`), same protocol as
  harness/vh-dc/src/comp/dc_sendqueue.rs:

    config <stream|dgram>          -> ok max_count=<n> gso=<n>           (fresh queue)
    push <credit> <seg> [<seg>..]  -> ok acc=<accepted_len> q=<queue>     <seg> = <ecn>:<hex> | <ecn>:@<len>,<seed>
    pusherr <credit> <seg> ..      -> same; the push closure failed after pushing (no credit recorded)
    flush <limit|max> <script>     -> ok <ready <k>|pending|err> calls=<n> sent=<hex> offered=<ecn>/<iovecs>:<bytes>;..
                                         acc=<accepted_len> q=<queue> [gso=<n> in dgram mode]
    state                          -> ok acc=<accepted_len> q=<queue>
    <queue> = <ecn>:<buffer len>:<offset>,.. | -

  `dc_sendqueue_seeded` answers the same ops with the SEEDED variant of `consume_segments`
  (`segment.offset = n`); ./check feeds its outputs to the python oracle to show that the generated
  histories expose that change (oracle sensitivity).
-/
namespace Quic.Drivers.DcSendQueue
open Quic Quic.Dc.SendQueue

structure St where
  stream : Bool := true
  q : Queue := {}
  gso : Nat := gsoDefaultSegments

def pattern (len seed : Nat) : List Nat :=
  (List.range len).map (fun i => (seed + i) * 2654435761 / 2048 % 256)

def parseSeg (t : String) : Option (Nat × List Nat) :=
  match t.splitOn ":" with
  | [e, body] =>
    match e.toNat? with
    | some ecn =>
      if ecn > 3 then none else
      let bytes? : Option (List Nat) :=
        if body.startsWith "@" then
          match (body.drop 1).toString.splitOn "," with
          | [l, s] =>
            match l.toNat?, s.toNat? with
            | some len, some seed => if seed ≥ 2147483648 ∨ len > 65535 then none else some (pattern len seed)
            | _, _ => none
          | _ => none
        else fromHex? body
      match bytes? with
      | some b => if b.isEmpty ∨ b.length > 65535 then none else some (ecn, b)
      | none => none
    | none => none
  | _ => none

def parseSegs : List String → Option (List (Nat × List Nat))
  | [] => some []
  | t :: ts =>
    match parseSeg t, parseSegs ts with
    | some s, some r => some (s :: r)
    | _, _ => none

def parseAns (a : String) : Option Answer :=
  if a == "A" then some (.accept 1099511627776)
  else if a == "p" then some .pending
  else if a == "e" then some (.error false)
  else if a == "eio" then some (.error true)
  else if a.startsWith "a" then
    match (a.drop 1).toString.toNat? with
    | some n => if n > 1099511627776 then none else some (.accept n)
    | none => none
  else none

def parseScriptL : List String → Option (List Answer)
  | [] => some []
  | t :: ts =>
    match parseAns t, parseScriptL ts with
    | some s, some r => some (s :: r)
    | _, _ => none

def parseScript (t : String) : Option (List Answer) :=
  if t == "-" then some [] else parseScriptL (t.splitOn ",")

def renderQ (q : Queue) : String :=
  let segs := q.segments.map (fun s => s!"{s.ecn}:{s.buffer.length}:{s.offset}")
  s!"acc={q.acceptedLen} q={if segs.isEmpty then "-" else ",".intercalate segs}"

def resStr : Result → String
  | .ready k => s!"ready {k}"
  | .pending => "pending"
  | .err => "err"

def callStr (c : Call) : String := s!"{c.ecn}/{c.offered.length}:{offeredLen c.offered}"

def renderCalls (cs : List Call) : String :=
  if cs.isEmpty then "-" else ";".intercalate (cs.map callStr)

def parseLimit (s : String) : Option Nat :=
  if s == "max" then some 18446744073709551615 else
  match s.toNat? with
  | some l => if l ≤ 1099511627776 then some l else none
  | none => none

def stepWith (flushS : Nat → Queue → Nat → List Answer → Queue × Result × List Call)
    (s : St) (t : List String) : St × String :=
  match t with
  | ["config", m] =>
    if m == "stream" then ({ stream := true }, s!"ok max_count={maxCount} gso={gsoDefaultSegments}")
    else if m == "dgram" then ({ stream := false }, s!"ok max_count={maxCount} gso={gsoDefaultSegments}")
    else (s, "bad-op")
  | op :: credit :: seg1 :: segs =>
    if op == "push" ∨ op == "pusherr" then
      match credit.toNat?, parseSegs (seg1 :: segs) with
      | some c, some sg =>
        if c > 1048576 then (s, "bad-op") else
        let q := pushBuffer s.q sg c (op == "push")
        ({ s with q := q }, s!"ok {renderQ q}")
      | _, _ => (s, "bad-op")
    else if op == "flush" ∧ segs.isEmpty then
      match parseLimit credit, parseScript seg1 with
      | some limit, some script =>
        if s.stream then
          let r := flushS maxCount s.q limit script
          ({ s with q := r.1 },
            s!"ok {resStr r.2.1} calls={r.2.2.length} sent={toHex (sentOf r.2.2)} offered={renderCalls r.2.2} {renderQ r.1}")
        else
          let r := pollFlushDgram maxCount s.q s.gso limit script
          ({ s with q := r.1, gso := r.2.2.1 },
            s!"ok {resStr r.2.1} calls={r.2.2.2.length} sent={toHex (sentOf r.2.2.2)} offered={renderCalls r.2.2.2} {renderQ r.1} gso={r.2.2.1}")
      | _, _ => (s, "bad-op")
    else (s, "bad-op")
  | ["state"] => (s, s!"ok {renderQ s.q}")
  | _ => (s, "bad-op")

def dcSendQueue : Component :=
  { name := "dc_sendqueue", σ := St, init := {}, step := stepWith pollFlushStream }

def dcSendQueueSeeded : Component :=
  { name := "dc_sendqueue_seeded", σ := St, init := {}, step := stepWith Seeded.pollFlushStream }

def components : List Component := [dcSendQueue, dcSendQueueSeeded]

end Quic.Drivers.DcSendQueue
