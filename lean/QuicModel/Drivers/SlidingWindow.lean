import QuicModel.Driver
import QuicModel.Data.SlidingWindow
namespace Quic.Drivers.SlidingWindow
open Quic Quic.Data.SlidingWindow

def errStr : Err → String
  | .duplicate => "err duplicate"
  | .tooOld => "err too-old"

def exceptStr : Except Err Unit → String
  | .ok _ => "ok"
  | .error e => errStr e

def probeChar : Except Err Unit → Char
  | .ok _ => 'O'
  | .error .duplicate => 'D'
  | .error .tooOld => 'T'

def pn? (t : String) : Option Nat :=
  match t.toNat? with
  | some v => if v ≤ maxPn then some v else none
  | none => none

/-- ops (packet numbers `0 ..= 2^62-1`, anything else is `bad-op`):
    `insert <pn>` -> `insert_with_evicted`: `ok <evicted list>` | `err duplicate` | `err too-old`
    `ins <pn>`    -> `insert`:              `ok` | `err …`
    `check <pn>`  -> `check`:               `ok` | `err …`
    `probe <lo> <n>` -> `ok <n chars>`: `check` of `lo, lo+1, …` (O = ok, D = duplicate, T = too old);
                        numbers above 2^62-1 are skipped -/
def windowStep (s : State) (t : List String) : State × String :=
  match t with
  | ["insert", v] =>
    match pn? v with
    | some pn =>
      match insertInner s pn with
      | (s', .ok ev) => (s', s!"ok {natList (ev.toList (windowBits + 1))}")
      | (s', .err e) => (s', errStr e)
      | (_, .panic) => (init, "panic")
    | none => (s, "bad-op")
  | ["ins", v] =>
    match pn? v with
    | some pn =>
      match insertInner s pn with
      | (_, .panic) => (init, "panic")
      | _ => let r := insert s pn; (r.1, exceptStr r.2)
    | none => (s, "bad-op")
  | ["check", v] =>
    match pn? v with
    | some pn => (s, exceptStr (check s pn))
    | none => (s, "bad-op")
  | ["probe", lo, n] =>
    match pn? lo, n.toNat? with
    | some lo, some n =>
      if n ≤ 4096 then
        let cs := (List.range n).filterMap (fun i => if lo + i ≤ maxPn then some (probeChar (check s (lo + i))) else none)
        (s, "ok " ++ (if cs.isEmpty then "-" else String.ofList cs))
      else (s, "bad-op")
    | _, _ => (s, "bad-op")
  | _ => (s, "bad-op")

def window : Component := { name := "sliding_window", σ := State, init := init, step := windowStep }

/-- the plain reference set behind the same protocol (results only; it has no evicted sets) -/
def resStr : Res → String
  | .ok => "ok"
  | .duplicate => "err duplicate"
  | .tooOld => "err too-old"
  | .panic => "panic"

def refStep (s : Data.RefWindow.State) (t : List String) : Data.RefWindow.State × String :=
  match t with
  | ["ins", v] =>
    match pn? v with
    | some pn => let r := Data.RefWindow.step s (.insert pn); (r.1, resStr r.2)
    | none => (s, "bad-op")
  | ["check", v] =>
    match pn? v with
    | some pn => let r := Data.RefWindow.step s (.check pn); (r.1, resStr r.2)
    | none => (s, "bad-op")
  | _ => (s, "bad-op")

def windowRef : Component :=
  { name := "sliding_window-ref", σ := Data.RefWindow.State, init := Data.RefWindow.init, step := refStep }

def components : List Component := [window, windowRef]

end Quic.Drivers.SlidingWindow
