import QuicModel.Driver
import QuicModel.Conn.KeyUpdateSystem
import QuicModel.Generated.KeySet
namespace Quic.Drivers.KeySet
open Quic Quic.Conn.KeySet Quic.Conn.KeyUpdateSystem

/-- the repairs the tree under test carries (read from its source text by tools/extractors/keyset.py) -/
def codeRepairs : Repairs :=
  ⟨Quic.Generated.KeySet.rotateGuardRepaired, Quic.Generated.KeySet.encPhaseGuardRepaired⟩

/-- driver state: the system plus the table global packet id -> (sender, packet number); every `enc`
    consumes an id, a refused one maps to `none` -/
structure DState where
  sys : Sys
  ids : List (Option (Who × Nat))

def who? : String → Option Who
  | "A" => some .A
  | "B" => some .B
  | _ => none

def epStr (r : Repairs) (e : Endpoint) : String :=
  let s := e.ks
  let timer := match s.timer with
    | some d => toString d
    | none => "-"
  s!"{boolStr s.phase} {s.active.keyGen} {s.other.keyGen} {s.active.encrypted} {boolStr (s.active.needsUpdate s.window)} {boolStr (s.encryptionPhase r)} {timer}"

def sysStr (r : Repairs) (y : Sys) : String := s!"A {epStr r y.a} B {epStr r y.b}"

def outStr : SysOut → Nat → String
  | .enc (.sealed ph g) pn, id => s!"ok {id} {pn} {boolStr ph} {g}"
  | .enc .aeadLimit _, _ => "err limit"
  | .dec .same, _ => "ok same"
  | .dec (.rotated g), _ => s!"ok rot {g}"
  | .dec .decryptError, _ => "err decrypt"
  | .dec .aeadLimit, _ => "err aead-limit"
  | .dec .generationOverflow, _ => "panic attempt_to_add_with_overflow"
  | .tick, _ => "ok"
  | .noSuchPacket, _ => "bad-op"

def bound : Nat := 2 ^ 31

/-- ops: see harness/vh-core/src/comp/keyset.rs -/
def keysetStep (r : Repairs) (st : Option DState) (t : List String) : Option DState × String :=
  match st, t with
  | none, ["config", c, i, w] =>
    -- window `default` = the production `Limits::default()` = KEY_UPDATE_WINDOW as read from the tree
    let w? := if w == "default" then some Quic.Generated.KeySet.keyUpdateWindow else w.toNat?
    match c.toNat?, i.toNat?, w? with
    | some c, some i, some w =>
      let y := Quic.Conn.KeyUpdateSystem.init c i w
      (some ⟨y, []⟩, s!"ok {sysStr r y}")
    | _, _, _ => (none, "bad-op")
  | none, _ => (none, "bad-op")
  | some d, ["enc", x] =>
    match who? x with
    | some x =>
      let (y', o) := step r d.sys (.enc x)
      let id := d.ids.length
      let ids' := match o with
        | .enc (.sealed _ _) pn => d.ids ++ [some (x, pn)]
        | _ => d.ids ++ [none]
      (some ⟨y', ids'⟩, s!"{outStr o id} {sysStr r y'}")
    | none => (st, "bad-op")
  | some d, ["deliver", x, id, la, dl] =>
    match who? x, id.toNat?, la.toNat?, dl.toNat? with
    | some x, some id, some la, some dl =>
      match d.ids[id]? with
      | some (some (from_, pn)) =>
        if from_ == x || pn ≥ bound || la ≥ bound || dl < 1 then (st, "bad-op")
        else
          let (y', o) := step r d.sys (.deliver x pn la dl)
          match o with
          | .noSuchPacket => (st, "bad-op")
          -- the Rust side panics (debug overflow check) and the harness restarts the component
          | .dec .generationOverflow => (none, outStr o 0)
          | _ => (some ⟨y', d.ids⟩, s!"{outStr o 0} {sysStr r y'}")
      | _ => (st, "bad-op")
    | _, _, _, _ => (st, "bad-op")
  | some d, ["forge", x, ph, pn, la, dl] =>
    match who? x, ph.toNat?, pn.toNat?, la.toNat?, dl.toNat? with
    | some x, some ph, some pn, some la, some dl =>
      if ph > 1 || pn ≥ bound || la ≥ bound || dl < 1 then (st, "bad-op")
      else
        let (y', o) := step r d.sys (.forge x (ph == 1) pn la dl)
        (some ⟨y', d.ids⟩, s!"{outStr o 0} {sysStr r y'}")
    | _, _, _, _, _ => (st, "bad-op")
  | some d, ["timeout", x, now] =>
    match who? x, now.toNat? with
    | some x, some now =>
      if now < 1 then (st, "bad-op")
      else
        let (y', o) := step r d.sys (.timeout x now)
        (some ⟨y', d.ids⟩, s!"{outStr o 0} {sysStr r y'}")
    | _, _ => (st, "bad-op")
  | some _, _ => (st, "bad-op")

def mk (name : String) (r : Repairs) : Component :=
  { name := name, σ := Option DState, init := none, step := keysetStep r }

/-- `keyset` follows the tree under test; the other three pin the repairs explicitly -/
def components : List Component :=
  [mk "keyset" codeRepairs, mk "keyset-pinned" Repairs.pinned, mk "keyset-f5" Repairs.f5, mk "keyset-full" Repairs.full]

end Quic.Drivers.KeySet
