import QuicModel.Driver
import QuicModel.Conn.TpAuthWire
namespace Quic.Drivers.TpAuth
open Quic Quic.Conn.TpAuth
open Quic.Rfc.TransportParams (Role)

/-- ops (role = who SENT the parameters; the PEER of that role validates them). Byte strings are hex, `-` = empty;
    an absent Retry / absent parameter is `none`.
      `cids <client|server> <peer first-Initial SCID> <Retry SCID|none> <original DCID> <iscid|none> <odcid|none> <rscid|none>`
          the three connection-ID parameters as decoded                           (= `Conn.TpAuth.authenticate`)
      `block <client|server> <peer first-Initial SCID> <Retry SCID|none> <original DCID> <block hex>`
          the raw quic_transport_parameters extension bytes                         (= `Conn.TpAuth.onPeerBlock`)
    answers: `ok accept` | `err 8 <key> | <with_reason text>`
    component `tp-auth` = the code as transcribed; component `tp-auth-rfc` = the §7.3 predicate behind the same ops
    (`ok accept` | `err rfc`; for `block`: §7.4/§18.2 validity of the block AND the §7.3 condition on its items). -/
def role? : String → Option Role
  | "client" => some .client
  | "server" => some .server
  | _ => none

def optBytes? (s : String) : Option (Option (List Nat)) :=
  if s == "none" then some none
  else match fromHex? s with
    | some b => some (some b)
    | none => none

def handshake? (peer retry odcid : String) : Option Handshake :=
  match fromHex? peer, optBytes? retry, fromHex? odcid with
  | some p, some r, some o => some ⟨p, r, o⟩
  | _, _, _ => none

def showAuth : Except AuthErr Unit → String
  | .ok _ => "ok accept"
  | .error e => s!"err {transportParameterError} {e.key} | {e.reason}"

def showBlock : Except Reject Unit → String
  | .ok _ => "ok accept"
  | .error e => s!"err {e.code} {e.key} | {e.reason}"

def tpAuthStep (t : List String) : String :=
  match t with
  | ["cids", r, peer, retry, odcid, pi, po, pr] =>
    match role? r, handshake? peer retry odcid, optBytes? pi, optBytes? po, optBytes? pr with
    | some role, some h, some i, some o, some rs => showAuth (authenticate role h ⟨i, o, rs⟩)
    | _, _, _, _, _ => "bad-op"
  | ["block", r, peer, retry, odcid, blk] =>
    match role? r, handshake? peer retry odcid, fromHex? blk with
    | some role, some h, some b => showBlock (onPeerBlock role h b)
    | _, _, _ => "bad-op"
  | _ => "bad-op"

def tpAuth : Component := Component.stateless "tp-auth" tpAuthStep

def tpAuthRfcStep (t : List String) : String :=
  match t with
  | ["cids", r, peer, retry, odcid, pi, po, pr] =>
    match role? r, handshake? peer retry odcid, optBytes? pi, optBytes? po, optBytes? pr with
    | some role, some h, some i, some o, some rs =>
      if Rfc.TpAuth.authentic role h ⟨i, o, rs⟩ then "ok accept" else "err rfc"
    | _, _, _, _, _ => "bad-op"
  | ["block", r, peer, retry, odcid, blk] =>
    match role? r, handshake? peer retry odcid, fromHex? blk with
    | some role, some h, some b =>
      match Rfc.TransportParams.parseItems b.length b with
      | some its =>
        if Rfc.TransportParams.accepts role b && Rfc.TpAuth.authenticItems role h its then "ok accept" else "err rfc"
      | none => "err rfc"
    | _, _, _ => "bad-op"
  | _ => "bad-op"

def tpAuthRfc : Component := Component.stateless "tp-auth-rfc" tpAuthRfcStep

def components : List Component := [tpAuth, tpAuthRfc]

end Quic.Drivers.TpAuth
