import QuicModel.Driver
import QuicModel.Compose.Auth
/-
  Tie T for C06: trace acceptor.  The receive-side observations of ONE endpoint of a real
  end-to-end run (tools/e2e_ops_auth.py turns `rxp` records and `transport:duplicate_packet` /
  `transport:packet_dropped` events into ops, in trace order = real processing order) are replayed
  through `Compose.Auth.receive`.  The model answers `ok` iff its own pipeline — in particular its
  own duplicate window — gives the verdict the implementation showed for that (space, pn):

    rx <space> <pn> processed        payload reached frame processing   ⇔ `check` = Ok, then insert
    rx <space> <pn> duplicate        duplicate_packet, error Duplicate   ⇔ `check` = Duplicate
    rx <space> <pn> too-old          duplicate_packet, error TooOld      ⇔ `check` = TooOld
    rx <space> <pn> forged           DecryptionFailed and NO duplicate event ⇔ not authentic, `check` = Ok
    rx <space> <pn> forged-duplicate DecryptionFailed + duplicate_packet (same packet)
    rx <space> <pn> forged-too-old
    rx <space> - unprotect-failed    UnprotectFailed (no packet number was decoded)
    rx - - dropped-auth              authentication failure in an unknown space (no state involved)

  else `err <model verdict>`.  The state always advances by the MODEL's own transition.
-/
namespace Quic.Drivers.AuthTrace
open Quic Quic.Data Quic.Compose.Auth

def space? : String → Option Space
  | "initial" => some .initial
  | "handshake" => some .handshake
  | "app" => some .app
  | _ => none

def verdictStr : Verdict → String
  | .droppedClosed => "closed"
  | .unprotectFailed => "unprotect-failed"
  | .duplicate .duplicate => "duplicate"
  | .duplicate .tooOld => "too-old"
  | .decryptFailed => "forged"
  | .aeadLimit => "aead-limit"
  | .statelessReset => "stateless-reset"
  | .processed => "processed"
  | .frameError => "frame-error"
  | .panic => "panic"

/-- the datagram an observation stands for, and the verdict string the implementation showed -/
def datagramOf (sp : Space) (pn : Nat) (what : String) : Option (Datagram × String) :=
  let d (auth hdr : Bool) : Datagram :=
    { space := sp, hdrOk := hdr, pn := pn, keyId := 0, payload := 0, ecn := 0, authentic := auth,
      framesOk := true, trailer := 0 }
  match what with
  | "processed" => some (d true true, "processed")
  | "duplicate" => some (d true true, "duplicate")
  | "too-old" => some (d true true, "too-old")
  | "forged" => some (d false true, "forged")
  | "forged-duplicate" => some (d false true, "duplicate")
  | "forged-too-old" => some (d false true, "too-old")
  | _ => none

def initConn : Conn := Conn.init (2 ^ 52) [] []

def authStep (c : Conn) (t : List String) : Conn × String :=
  match t with
  | ["rx", "-", "-", "dropped-auth"] => (c, "ok")
  | ["rx", sp, "-", "unprotect-failed"] =>
    match space? sp with
    | some sp =>
      let r := receive c { space := sp, hdrOk := false, pn := 0, keyId := 0, payload := 0, ecn := 0,
                           authentic := false, framesOk := true, trailer := 0 }
      (r.1, if verdictStr r.2 = "unprotect-failed" then "ok" else s!"err {verdictStr r.2}")
    | none => (c, "bad-op")
  | ["rx", sp, pn, what] =>
    match space? sp, pn.toNat? with
    | some sp, some pn =>
      if pn ≤ SlidingWindow.maxPn then
        match datagramOf sp pn what with
        | some (d, want) =>
          let r := receive c d
          (r.1, if verdictStr r.2 = want then "ok" else s!"err {verdictStr r.2}")
        | none => (c, "bad-op")
      else (c, "bad-op")
    | _, _ => (c, "bad-op")
  | _ => (c, "bad-op")

def authTrace : Component := { name := "auth-trace", σ := Conn, init := initConn, step := authStep }

def components : List Component := [authTrace]

end Quic.Drivers.AuthTrace
