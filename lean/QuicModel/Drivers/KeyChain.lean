import QuicModel.Driver
import QuicModel.Conn.KeyChain
import QuicModel.Generated.KeySet
namespace Quic.Drivers.KeyChain
open Quic Quic.Conn.KeyChain

/-! ### `keychain`: the abstract twin of harness/vh-tls/src/comp/keychain.rs -/

def side? : String → Option Side
  | "c" => some .client
  | "s" => some .server
  | _ => none

def tlsName : String → Option String
  | "aes128" => some "TLS_AES_128_GCM_SHA256"
  | "aes256" => some "TLS_AES_256_GCM_SHA384"
  | "chacha20" => some "TLS_CHACHA20_POLY1305_SHA256"
  | _ => none

/-- length of the TLS traffic secret = hash length of the suite -/
def secretLen (suite : String) : Option Nat :=
  match tlsName suite with
  | some n => (suiteParams n).map (·.1)
  | none => none

/-- (confidentiality limit, integrity limit) a key reports.
    s2n-quic-crypto (providers `s2n`, `crypto`): read from the tree under test (Generated.KeySet.cipherLimits).
    rustls (pinned by Cargo.lock, not part of /repo): RFC 9001 §6.6 values, ChaCha20-Poly1305 confidentiality
    limit `u64::MAX`. -/
def limitsOf (provider suite : String) : Option (Nat × Nat) :=
  match tlsName suite with
  | none => none
  | some n =>
    if provider == "rustls" then
      if suite == "chacha20" then some (2 ^ 64 - 1, 2 ^ 36) else some (2 ^ 23, 2 ^ 52)
    else
      (Quic.Generated.KeySet.cipherLimits.find? (fun x => x.1 == n)).map (·.2)

def fresh (suite cp sp : String) : State :=
  { clientGens := 1, serverGens := 1, packets := [], suite := suite, clientProvider := cp, serverProvider := sp }

def verdictStr (p : Packet) (opened : Bool) : String :=
  if opened then s!"ok opened {toHex p.payload}" else "ok rejected"

def keychainStep (st : Option State) (t : List String) : Option State × String :=
  match t with
  | ["hs", server, client, suite] =>
    match tlsName suite with
    | none => (none, "bad-op")
    | some _ =>
      if server == "rustls-default" && client == "rustls-default" then
        -- the provider's own builders: server preference order, first entry of DEFAULT_CIPHERSUITES
        (some (fresh "aes128" "rustls" "rustls"), "ok aes128")
      else if (server == "s2n" || server == "rustls") && (client == "s2n" || client == "rustls") then
        -- no s2n-tls security policy prefers ChaCha20-Poly1305, so the harness cannot force it between two s2n-tls endpoints
        if server == "s2n" && client == "s2n" && suite == "chacha20" then (none, "err cannot-force-suite")
        else (some (fresh suite client server), s!"ok {suite}")
      else (none, "bad-op")
  | ["keys", suite, c, s] =>
    match secretLen suite, fromHex? c, fromHex? s with
    | some n, some cb, some sb =>
      if cb.length == n && sb.length == n then (some (fresh suite "crypto" "crypto"), s!"ok {suite}") else (none, "bad-op")
    | _, _, _ => (none, "bad-op")
  | _ =>
  match st, t with
  | none, _ => (none, "bad-op")
  | some s, ["next", who] =>
    match side? who with
    | some x => if s.gens x ≥ 4096 then (st, "bad-op") else (some (s.next x), s!"ok {s.gens x}")
    | none => (st, "bad-op")
  | some s, ["seal", who, gen, id, pn, header, payload] =>
    match side? who, gen.toNat?, pn.toNat?, fromHex? header, fromHex? payload with
    | some x, some g, some pn, some h, some p =>
      if pn > maxPn || (s.find id).isSome || g ≥ s.gens x then (st, "bad-op")
      else (some { s with packets := ⟨id, x, g, pn, h, p⟩ :: s.packets }, s!"ok sealed {p.length + tagLen}")
    | _, _, _, _, _ => (st, "bad-op")
  | some s, ["open", who, gen, id] =>
    match side? who, gen.toNat?, s.find id with
    | some x, some g, some p =>
      if g ≥ s.gens x then (st, "bad-op") else (st, verdictStr p (p.opensAt x g p.pn p.header false))
    | _, _, _ => (st, "bad-op")
  | some s, ["openx", who, gen, id, pn, header, flip] =>
    match side? who, gen.toNat?, s.find id, pn.toNat?, fromHex? header with
    | some x, some g, some p, some pn, some h =>
      let flip? : Option Bool :=
        if flip == "-" then some false
        else match flip.toNat? with
          | some i => if i < p.payload.length + tagLen then some true else none
          | none => none
      match flip? with
      | some tampered =>
        if pn > maxPn || g ≥ s.gens x then (st, "bad-op") else (st, verdictStr p (p.opensAt x g pn h tampered))
      | none => (st, "bad-op")
    | _, _, _, _, _ => (st, "bad-op")
  | some s, ["limits", who, gen] =>
    match side? who, gen.toNat? with
    | some x, some g =>
      if g ≥ s.gens x then (st, "bad-op")
      else match limitsOf (s.provider x) s.suite with
        | some (c, i) => (st, s!"ok {s.suite} {c} {i} {tagLen}")
        | none => (st, "bad-op")
    | _, _ => (st, "bad-op")
  | some s, ["hp", who, dir, sample] =>
    match side? who, fromHex? sample with
    | some _, some b =>
      -- every QUIC v1 suite samples 16 bytes (RFC 9001 §5.4.2); the mask itself is not modelled
      if (dir == "seal" || dir == "open") && b.length == 16 then (some s, "ok mask") else (st, "bad-op")
    | _, _ => (st, "bad-op")
  | some _, _ => (st, "bad-op")

/-! ### `keychain-obs`: replay of an observation table, answered by the decidable `ChainOK` checker -/

def verdictLine : Verdict → Nat → String
  | .chainok, n => s!"ok chainok {n}"
  | .missing i j, _ => s!"ok missing {i} {j}"
  | .broken i j b, _ => s!"ok broken {i} {j} {boolStr b}"
  | .conflict i j, _ => s!"ok conflict {i} {j}"

def obsStep (t : List Obs) (l : List String) : List Obs × String :=
  match l with
  | ["obs", i, j, b] =>
    match i.toNat?, j.toNat?, b with
    | some i, some j, "1" => (t ++ [⟨i, j, true⟩], "ok")
    | some i, some j, "0" => (t ++ [⟨i, j, false⟩], "ok")
    | _, _, _ => (t, "bad-op")
  | ["check", n] =>
    match n.toNat? with
    | some n => if n > 512 then (t, "bad-op") else (t, verdictLine (check n t) n)
    | none => (t, "bad-op")
  | ["clear"] => ([], "ok")
  | _ => (t, "bad-op")

def components : List Component :=
  [{ name := "keychain", σ := Option State, init := none, step := keychainStep },
   { name := "keychain-obs", σ := List Obs, init := [], step := obsStep }]

end Quic.Drivers.KeyChain
