import QuicModel.Driver
import QuicModel.Codec.PacketNumber
namespace Quic.Drivers.PacketNumber
open Quic Quic.Codec.PacketNumber

/-
  component `packet_number` (all packet numbers are in the ApplicationData space; arguments must be
  ≤ 2^62-1, otherwise `bad-op`):
    trunc <pn> <la>               -> ok <nbytes> <value> <hex> <tag-mask> | err none
    expand <nbytes> <value> <L>   -> ok <pn>            (1 ≤ nbytes ≤ 4, value < 2^(8·nbytes))
    rt <pn> <la> <L>              -> ok <nbytes> <hex> <pn'> | err none
                                     (truncate with la, encode, decode with the tag bits, expand with L)
    dec <first-byte> <hex>        -> ok <nbytes> <value> <consumed> | err eof
                                     (length from the two low bits of the first header byte)
    next <pn> / prev <pn>         -> ok <pn'> | err none
    range <start> <end> <pat>     -> ok <items>   pat ∈ {f,b}*: f = next(), b = next_back(); `x` = None
-/

def inDom (x : Nat) : Bool := decide (x ≤ maxPn)

def fmtOverflow : String := "panic overflow"

def truncOut (t : Truncated) : String :=
  s!"ok {bytesize t.len} {t.value} {toHex (encodeTruncated t)} {intoPacketTagMask t.len}"

/-- the wire path both sides use to build a `TruncatedPacketNumber` from (nbytes, value) -/
def mkTruncated (nbytes value : Nat) : Option Truncated :=
  match decodeTruncated (fromPacketTag (nbytes - 1)) (beBytes nbytes value) with
  | some (t, _) => some t
  | none => none

def rangeRun : List Char → Range → List String → Option (List String)
  | [], _, acc => some acc.reverse
  | c :: cs, r, acc =>
    if c == 'f' then
      let (o, r') := r.next
      rangeRun cs r' ((match o with | some x => toString x | none => "x") :: acc)
    else if c == 'b' then
      let (o, r') := r.nextBack
      rangeRun cs r' ((match o with | some x => toString x | none => "x") :: acc)
    else none

def pnStep (t : List String) : String :=
  match t with
  | ["trunc", pn, la] =>
    match pn.toNat?, la.toNat? with
    | some pn, some la =>
      if inDom pn && inDom la then
        match truncate pn la with
        | some t => truncOut t
        | none => "err none"
      else "bad-op"
    | _, _ => "bad-op"
  | ["expand", n, v, l] =>
    match n.toNat?, v.toNat?, l.toNat? with
    | some n, some v, some l =>
      if 1 ≤ n && n ≤ 4 && decide (v < 2 ^ (8 * n)) && inDom l then
        match mkTruncated n v with
        | some t =>
          match expand l t with
          | some pn => s!"ok {pn}"
          | none => fmtOverflow
        | none => "err eof"
      else "bad-op"
    | _, _, _ => "bad-op"
  | ["rt", pn, la, l] =>
    match pn.toNat?, la.toNat?, l.toNat? with
    | some pn, some la, some l =>
      if inDom pn && inDom la && inDom l then
        match truncate pn la with
        | none => "err none"
        | some t =>
          let bytes := encodeTruncated t
          match decodeTruncated (fromPacketTag (intoPacketTagMask t.len)) bytes with
          | none => "err eof"
          | some (t', _) =>
            match expand l t' with
            | some r => s!"ok {bytesize t.len} {toHex bytes} {r}"
            | none => fmtOverflow
      else "bad-op"
    | _, _, _ => "bad-op"
  | ["dec", fb, h] =>
    match fb.toNat?, fromHex? h with
    | some fb, some b =>
      if fb < 256 then
        match decodeTruncated (fromPacketTag fb) b with
        | some (t, r) => s!"ok {bytesize t.len} {t.value} {b.length - r.length}"
        | none => "err eof"
      else "bad-op"
    | _, _ => "bad-op"
  | ["next", pn] =>
    match pn.toNat? with
    | some pn =>
      if inDom pn then (match next pn with | some x => s!"ok {x}" | none => "err none") else "bad-op"
    | none => "bad-op"
  | ["prev", pn] =>
    match pn.toNat? with
    | some pn =>
      if inDom pn then (match prev pn with | some x => s!"ok {x}" | none => "err none") else "bad-op"
    | none => "bad-op"
  | ["range", s, e, pat] =>
    match s.toNat?, e.toNat? with
    | some s, some e =>
      if inDom s && inDom e then
        match Range.new s e with
        | none => "bad-op"
        | some r =>
          match rangeRun pat.toList r [] with
          | some items => "ok " ++ (if items.isEmpty then "-" else ",".intercalate items)
          | none => "bad-op"
      else "bad-op"
    | _, _ => "bad-op"
  | _ => "bad-op"

def packetNumber : Component := Component.stateless "packet_number" pnStep

/-- the RFC reference behind the same protocol for `trunc` / `expand` / `rt` / `dec`
    (used to diff Codec vs Rfc inside Lean on generated inputs). The clamp to 2^62-1 is the one
    documented difference (`expand_eq_rfc`). -/
def rfcExpand (n v l : Nat) : Nat :=
  let r := Rfc.PacketNumber.decode l v (8 * n)
  if r > (Rfc.PacketNumber.maxPn : Int) then Rfc.PacketNumber.maxPn else r.toNat

def pnRfcStep (t : List String) : String :=
  match t with
  | ["trunc", pn, la] =>
    match pn.toNat?, la.toNat? with
    | some pn, some la =>
      if inDom pn && inDom la then
        match Rfc.PacketNumber.minimalLen pn la with
        | some n =>
          let b := Rfc.PacketNumber.encode pn n
          s!"ok {n} {beVal b} {toHex b} {n - 1}"
        | none => "err none"
      else "bad-op"
    | _, _ => "bad-op"
  | ["expand", n, v, l] =>
    match n.toNat?, v.toNat?, l.toNat? with
    | some n, some v, some l =>
      if 1 ≤ n && n ≤ 4 && decide (v < 2 ^ (8 * n)) && inDom l then s!"ok {rfcExpand n v l}"
      else "bad-op"
    | _, _, _ => "bad-op"
  | ["rt", pn, la, l] =>
    match pn.toNat?, la.toNat?, l.toNat? with
    | some pn, some la, some l =>
      if inDom pn && inDom la && inDom l then
        match Rfc.PacketNumber.minimalLen pn la with
        | some n =>
          let b := Rfc.PacketNumber.encode pn n
          s!"ok {n} {toHex b} {rfcExpand n (beVal b) l}"
        | none => "err none"
      else "bad-op"
    | _, _, _ => "bad-op"
  | ["dec", fb, h] =>
    match fb.toNat?, fromHex? h with
    | some fb, some b =>
      if fb < 256 then
        let n := Rfc.PacketNumber.pnLenOfFirstByte fb
        if b.length < n then "err eof" else s!"ok {n} {beVal (b.take n)} {n}"
      else "bad-op"
    | _, _ => "bad-op"
  | _ => pnStep t

def packetNumberRfc : Component := Component.stateless "packet_number-rfc" pnRfcStep

def components : List Component := [packetNumber, packetNumberRfc]

end Quic.Drivers.PacketNumber
