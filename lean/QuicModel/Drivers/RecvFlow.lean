import QuicModel.Driver
import QuicModel.Stream.RecvFlow
/-
  Trace acceptor for C04 (tie T): replays, through `State.onFrame`, every frame an endpoint processed in a real
  end-to-end run (plus what its application did in between) and prints the model's decision for each frame.

  ops
    init <server 0|1> <data> <wBidiLocal> <wBidiRemote> <wUni> <nBidi> <nUni>     -> ok
    open <sid>                 the local application opened stream sid                -> ok
    read <sid> <n>             the local application read n bytes                      -> ok
    stop <sid>                 the local application requested STOP_SENDING            -> ok
    limit <uni 0|1> <v>        the endpoint sent MAX_STREAMS v                         -> ok
    cidseq <n>                 the endpoint issued connection ids up to sequence n-1   -> ok
    frame <initial|handshake|app> <frame>                                             -> ok | err <code>
  frames (comma separated fields)
    S,sid,off,len,fin  R,sid,final  SS,sid  MSD,sid,v  SDB,sid,v  MD,v  DB,v  MS,bidi,v  SB,bidi,v
    NCID,seq,rpt,len  RCID,seq,dcidseq  NT  HD  PC  PR  PING  PAD  ACK  CRYPTO  CLOSE_T  CLOSE_A  U,tag
-/
namespace Quic.Drivers.RecvFlow
open Quic Quic.Stream.RecvFlow Quic.Conn

def parseSpace : String → Option Space
  | "initial" => some .initial
  | "handshake" => some .handshake
  | "app" => some .application
  | _ => none

def parseFrame (tok : String) : Option Frame :=
  let f := tok.splitOn ","
  let n (i : Nat) : Option Nat := (f[i]?).bind String.toNat?
  match f[0]? with
  | some "S" => do
      let sid ← n 1; let off ← n 2; let len ← n 3; let fin ← n 4
      some (.stream sid off (List.replicate len 0) (fin != 0))
  | some "R" => do let sid ← n 1; let fs ← n 2; some (.resetStream sid fs)
  | some "SS" => do let sid ← n 1; some (.stopSending sid)
  | some "MSD" => do let sid ← n 1; let v ← n 2; some (.maxStreamData sid v)
  | some "SDB" => do let sid ← n 1; let v ← n 2; some (.streamDataBlocked sid v)
  | some "MD" => do let v ← n 1; some (.maxData v)
  | some "DB" => do let v ← n 1; some (.dataBlocked v)
  | some "MS" => do let b ← n 1; let v ← n 2; some (.maxStreams (b != 0) v)
  | some "SB" => do let b ← n 1; let v ← n 2; some (.streamsBlocked (b != 0) v)
  | some "NCID" => do let a ← n 1; let b ← n 2; let c ← n 3; some (.newConnectionId a b c)
  | some "RCID" => do let a ← n 1; let b ← n 2; some (.retireConnectionId a b)
  | some "NT" => some .newToken
  | some "HD" => some .handshakeDone
  | some "PC" => some .pathChallenge
  | some "PR" => some .pathResponse
  | some "PING" => some .ping
  | some "PAD" => some .padding
  | some "ACK" => some .ack
  | some "CRYPTO" => some .crypto
  | some "CLOSE_T" => some .closeTransport
  | some "CLOSE_A" => some .closeApplication
  | some "U" => do let t ← n 1; some (.unknown t)
  | _ => none

structure St where
  s : Option State := none

def step (st : St) (t : List String) : St × String :=
  match t, st.s with
  | ["init", srv, d, wbl, wbr, wu, nb, nu], _ =>
    match srv.toNat?, d.toNat?, wbl.toNat?, wbr.toNat?, wu.toNat?, nb.toNat?, nu.toNat? with
    | some srv, some d, some wbl, some wbr, some wu, some nb, some nu =>
      ({ s := some (State.init (srv != 0) d wbl wbr wu nb nu) }, "ok")
    | _, _, _, _, _, _, _ => (st, "bad-op")
  | ["open", sid], some s =>
    match sid.toNat? with
    | some sid => ({ s := some (s.localOpen sid) }, "ok")
    | none => (st, "bad-op")
  | ["read", sid, n], some s =>
    match sid.toNat?, n.toNat? with
    | some sid, some n => ({ s := some (s.appRead sid n) }, "ok")
    | _, _ => (st, "bad-op")
  | ["stop", sid], some s =>
    match sid.toNat? with
    | some sid => ({ s := some (s.appStop sid) }, "ok")
    | none => (st, "bad-op")
  | ["limit", u, v], some s =>
    match u.toNat?, v.toNat? with
    | some u, some v => ({ s := some (s.advertiseStreams (u != 0) v) }, "ok")
    | _, _ => (st, "bad-op")
  | ["cidseq", n], some s =>
    match n.toNat? with
    | some n => ({ s := some { s with nextCidSeq := max s.nextCidSeq n } }, "ok")
    | none => (st, "bad-op")
  | ["frame", sp, f], some s =>
    match parseSpace sp, parseFrame f with
    | some sp, some f =>
      match s.onFrame sp f with
      | .ok s' => ({ s := some s' }, "ok")
      | .error e => (st, s!"err {e.toNat}")
    | _, _ => (st, "bad-op")
  | _, _ => (st, "bad-op")

def recvflow : Component := { name := "recvflow", σ := St, init := {}, step := step }

def components : List Component := [recvflow]

end Quic.Drivers.RecvFlow
