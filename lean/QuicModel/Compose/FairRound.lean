import QuicModel.Sync.IncrementalValueSync
/-
  Liveness skeleton for C02: a simplified sender composed of
    * stream bytes: written and waiting for (re)transmission (`toSend`) or in ack-eliciting packets
      in flight (`inFlight`);
    * a pending FIN (`Fin`);
    * the endpoint's MAX_DATA / MAX_STREAM_DATA / MAX_STREAMS synchronisers — the REAL
      `IncrementalValueSync` state machine of `QuicModel/Sync/IncrementalValueSync.lean`;
    * `timerArmed`: the recovery manager has its loss or PTO timer armed (`PtoArmed.armed`).

  ONE FAIR ROUND (`round`) of a fault-free network is the schedule
    1. every armed timer fires: what is in flight from the faulty period is declared lost / probed
       (worst case: everything in flight was dropped) and becomes transmittable again;
    2. every transmittable frame is transmitted in fresh packet `nextPn` (at most `window` ≥ 1 stream
       bytes: congestion window / flow credit of a reading peer; FIN and MAX_* frames are small and
       always fit);
    3. the packet is delivered and acknowledged.
  This is a schedule class of THIS MODEL, not of the real executor: no claim is made about tokio,
  real timers or the interleavings the real endpoint can take (that part is explored by tie T).
-/
namespace Quic.Compose.FairRound
open Quic.Sync

inductive Fin where
  /-- no FIN requested -/
  | none
  /-- `finish()` called, FIN not yet transmitted (or declared lost) -/
  | pending
  /-- FIN in flight in packet `pn` -/
  | inFlight (pn : Nat)
  | acked
deriving Repr, DecidableEq

structure Sys where
  toSend : Nat := 0
  inFlight : Nat := 0
  fin : Fin := .none
  syncs : List IncrementalValueSync.State := []
  timerArmed : Bool := false
  nextPn : Nat := 0
  window : Nat := 1
  /-- stream bytes put into the packet of the current round (scratch field of `round`) -/
  sentNow : Nat := 0
deriving Repr

/-- a MAX_* frame is owed: requested, lost or in flight -/
def syncPending (s : IncrementalValueSync.State) : Bool :=
  match s.delivery with
  | .requested _ => true
  | .lost _ => true
  | .inFlight _ _ => true
  | _ => false

def syncInFlight (s : IncrementalValueSync.State) : Bool :=
  match s.delivery with
  | .inFlight _ _ => true
  | _ => false

/-- step 1 for a value sync: the in-flight frame is declared lost (`on_packet_loss`) -/
def syncFire (s : IncrementalValueSync.State) : IncrementalValueSync.State :=
  match s.delivery with
  | .inFlight _ pn => IncrementalValueSync.onPacketLoss s [pn]
  | _ => s

/-- step 2: `on_transmit` without constraint into packet `pn` -/
def syncTx (pn : Nat) (s : IncrementalValueSync.State) : IncrementalValueSync.State :=
  (IncrementalValueSync.onTransmit s .none (some pn)).1

/-- step 3: `on_packet_ack` for packet `pn` -/
def syncAck (pn : Nat) (s : IncrementalValueSync.State) : IncrementalValueSync.State :=
  IncrementalValueSync.onPacketAck s [pn]

/-- the measure (`cost`): unacknowledged bytes + pending FIN + unsynced limit updates -/
def finCost : Fin → Nat
  | .pending => 1
  | .inFlight _ => 1
  | _ => 0

def pendingSyncs (l : List IncrementalValueSync.State) : Nat := (l.filter syncPending).length

def cost (s : Sys) : Nat := s.toSend + s.inFlight + finCost s.fin + pendingSyncs s.syncs

/-- something ack-eliciting is in flight -/
def anyInFlight (s : Sys) : Bool :=
  decide (s.inFlight > 0) || (match s.fin with | .inFlight _ => true | _ => false) || s.syncs.any syncInFlight

/-- step 1: the armed timers fire -/
def fire (s : Sys) : Sys :=
  if s.timerArmed then
    { s with toSend := s.toSend + s.inFlight, inFlight := 0,
             fin := (match s.fin with | .inFlight _ => .pending | f => f),
             syncs := s.syncs.map syncFire, timerArmed := false }
  else s

/-- step 2: transmit everything transmittable into packet `nextPn` -/
def transmit (s : Sys) : Sys :=
  let k := min s.toSend s.window
  let s' := { s with toSend := s.toSend - k, inFlight := s.inFlight + k, sentNow := k,
                     fin := (match s.fin with
                             | .pending => if s.toSend - k = 0 then .inFlight s.nextPn else .pending
                             | f => f),
                     syncs := s.syncs.map (syncTx s.nextPn) }
  -- `pto_armed_inv`: ack-eliciting data in flight ⇒ a timer is armed
  { s' with timerArmed := anyInFlight s' }

/-- step 3: packet `nextPn` is delivered and acknowledged: the stream bytes it carries (`sentNow`; older
    in-flight bytes are NOT covered), the FIN and the MAX_* frames it carries -/
def deliver (s : Sys) : Sys :=
  let s' := { s with inFlight := s.inFlight - s.sentNow, sentNow := 0,
                     fin := (match s.fin with | .inFlight pn => if pn = s.nextPn then .acked else .inFlight pn | f => f),
                     syncs := s.syncs.map (syncAck s.nextPn),
                     nextPn := s.nextPn + 1 }
  { s' with timerArmed := anyInFlight s' }

/-- one fair round -/
def round (s : Sys) : Sys := deliver (transmit (fire s))

def rounds : Nat → Sys → Sys
  | 0, s => s
  | n + 1, s => rounds n (round s)

/-- consistency of the composed state: what `pto_armed_inv` guarantees (anything ack-eliciting in
    flight ⇒ a timer is armed), packet numbers in flight are older than the next one, `window ≥ 1` -/
structure WF (s : Sys) : Prop where
  armed : anyInFlight s = true → s.timerArmed = true
  finPn : ∀ pn, s.fin = .inFlight pn → pn < s.nextPn
  syncPn : ∀ y ∈ s.syncs, ∀ v pn, y.delivery = .inFlight v pn → pn < s.nextPn
  window : 1 ≤ s.window

end Quic.Compose.FairRound
