import QuicModel.Prelude
import QuicModel.Codec.VarInt
import QuicModel.Codec.PacketNumber
/-
  C06 — wire layout of a protected QUIC packet (RFC 9001 §5.3/§5.4) as the code produces and
  consumes it:
    quic/s2n-quic-core/src/packet/encoding.rs      `PacketEncoder::encode_packet` (sizes, minimum payload)
    quic/s2n-quic-core/src/packet/{short,initial}.rs  `encode_header`
    quic/s2n-quic-core/src/crypto/mod.rs           `encrypt` / `decrypt` (what is AAD, what is ciphertext)
    quic/s2n-quic-core/src/crypto/payload.rs       `header_protection_sample` (4 bytes after the pn offset)
    quic/s2n-quic-core/src/crypto/header_crypto.rs `remove_header_protection` (which bits are masked)

  A protected packet is a list of byte regions, each tagged
    * `aad`        — associated data, sent in clear (first-byte high bits are in the `first` region),
    * `hpBits m`   — the first byte: bits `m` are header-protected, the others are clear; the whole
                     byte (after unprotection) is the first AAD byte,
    * `hpBytes`    — the packet-number bytes: header-protected, AAD after unprotection,
    * `ciphertext` — AEAD ciphertext (the header-protection sample is taken from ciphertext‖tag),
    * `tag`        — the 16-byte AEAD tag.
  `aeadInput` is the receiver's map  wire bytes ↦ (AAD, ciphertext‖tag)  (sample → mask → unmask
  first byte → read pn length → unmask pn bytes → split).  `QuicProofs/Props/C06Auth.lean` proves it
  injective for every mask function (`every_byte_authenticated`): two different datagrams never
  present the same AEAD input, so "any flipped / truncated / spliced byte is rejected" reduces to
  the IDEAL-AEAD assumption stated in `QuicModel/Compose/Auth.lean`.  The AEAD itself, the header
  protection cipher and HKDF are NOT modelled (aws-lc); the `packet_protection` differential
  exercises them for every cipher suite.
-/
namespace Quic.Compose.PacketLayout
open Quic

inductive Kind where
  | aad
  | hpBits (mask : Nat)
  | hpBytes
  | ciphertext
  | tag
deriving Repr, DecidableEq

structure Region where
  name : String
  len : Nat
  kind : Kind
deriving Repr, DecidableEq

/-- `TAG_LEN` of every cipher suite in s2n-quic-crypto/src/cipher_suite.rs -/
def tagLen : Nat := 16
/-- `sample_len()` of AES-128/256 and ChaCha20 header protection -/
def sampleLen : Nat := 16
/-- `PacketNumberLen::MAX_LEN`: the sample starts this many bytes after the pn offset -/
def maxPnLen : Nat := 4
/-- `SHORT_HEADER_MASK` / `LONG_HEADER_MASK` / `LONG_HEADER_TAG` -/
def shortHeaderMask : Nat := 0x1f
def longHeaderMask : Nat := 0x0f
def longHeaderTag : Nat := 0x80
/-- `connection::id::MAX_LEN` -/
def maxCidLen : Nat := 20

/-- `stateless_reset::min_indistinguishable_packet_len(max_tag_len)` -/
def minIndistinguishableLen (tag : Nat) : Nat := 1 + maxPnLen + maxCidLen + 1 + tag

def total (l : List Region) : Nat := (l.map (·.len)).sum

/-- the region a byte index falls in, with the offset inside it -/
def regionAt : List Region → Nat → Option (Region × Nat)
  | [], _ => none
  | r :: rs, i => if i < r.len then some (r, i) else regionAt rs (i - r.len)

/-- short-header (1-RTT) packet: first byte, DCID, pn, payload, tag -/
def shortRegions (dcidLen pnLen payloadLen : Nat) : List Region :=
  [⟨"first", 1, .hpBits shortHeaderMask⟩, ⟨"dcid", dcidLen, .aad⟩, ⟨"pn", pnLen, .hpBytes⟩,
   ⟨"ct", payloadLen, .ciphertext⟩, ⟨"tag", tagLen, .tag⟩]

/-- Initial packet: first byte, version, DCID len + DCID, SCID len + SCID, token length varint +
    token, Length varint, pn, payload, tag -/
def initialRegions (dcidLen scidLen tokLenLen tokenLen lengthLen pnLen payloadLen : Nat) : List Region :=
  [⟨"first", 1, .hpBits longHeaderMask⟩, ⟨"version", 4, .aad⟩, ⟨"dcil", 1, .aad⟩, ⟨"dcid", dcidLen, .aad⟩,
   ⟨"scil", 1, .aad⟩, ⟨"scid", scidLen, .aad⟩, ⟨"toklen", tokLenLen, .aad⟩, ⟨"token", tokenLen, .aad⟩,
   ⟨"length", lengthLen, .aad⟩, ⟨"pn", pnLen, .hpBytes⟩, ⟨"ct", payloadLen, .ciphertext⟩, ⟨"tag", tagLen, .tag⟩]

/-- bytes before the packet number: what `encrypt`/`decrypt` call `header_len` -/
def headerLen (l : List Region) : Nat :=
  total (l.takeWhile (fun r => r.kind != .hpBytes))

def kindStr : Kind → String
  | .aad => "aad"
  | .hpBits m => s!"hp{m}"
  | .hpBytes => "hppn"
  | .ciphertext => "ct"
  | .tag => "tag"

/-- canonical rendering used by the `packet_protection` line protocol: `name:len,…` -/
def render (l : List Region) : String :=
  ",".intercalate (l.map (fun r => s!"{r.name}:{r.len}"))

/-! ### the encoder's size decisions (`PacketEncoder::encode_packet`) -/

inductive SealErr where
  /-- `PacketNumberTruncationError` -/
  | truncation
  /-- `EmptyPayload`: the payload is shorter than the minimum the encoder asks for -/
  | emptyPayload
  /-- `InsufficientSpace` -/
  | insufficientSpace
deriving Repr, DecidableEq

structure Sealed where
  pnLen : Nat
  lengthLen : Nat
  total : Nat
deriving Repr, DecidableEq

/-- sizes chosen by `encode_packet` for a header of `hdrPrefix` bytes (everything before the
    Length field), a Length field (`hasLength`), packet number `pn`, largest acknowledged `la`,
    a payload of `payloadLen` bytes and an output buffer of `cap` bytes.
      * pn length from `packet_number.truncate(largest_acknowledged)`;
      * Length placeholder = varint of the estimator's remaining capacity (its width is kept);
      * minimum packet length `min_indistinguishable_packet_len(tag) + 1`;
      * minimum payload `max(min_packet − (header + pn + tag), MAX_LEN − pn_len + sample_len)`;
      * a payload below the minimum is refused (`EmptyPayload`, the `T: EncoderValue` payloads
        do not pad). -/
def sealSizes (hdrPrefix : Nat) (hasLength : Bool) (pn la payloadLen cap : Nat) : Except SealErr Sealed :=
  match Codec.PacketNumber.truncate pn la with
  | none => .error .truncation
  | some t =>
    let pnLen := Codec.PacketNumber.bytesize t.len
    let lengthLen := if hasLength then Codec.VarInt.encodingSize (min (cap - hdrPrefix) Codec.VarInt.maxValue) else 0
    let hdr := hdrPrefix + lengthLen
    let est := hdr + pnLen + tagLen
    let minPacket := minIndistinguishableLen tagLen + 1
    let minPayload := max (minPacket - est) (maxPnLen - pnLen + sampleLen)
    if payloadLen < minPayload then .error .emptyPayload
    else if est + payloadLen > cap then .error .insufficientSpace
    else .ok ⟨pnLen, lengthLen, est + payloadLen⟩

/-! ### the receiver's split of the wire bytes into AEAD inputs -/

/-- `mask_from_packet_tag` -/
def hpMaskOf (b0 : Nat) : Nat :=
  if b0 &&& longHeaderTag = longHeaderTag then longHeaderMask else shortHeaderMask

/-- `xor_mask`: `payload.iter_mut().zip(&mask[1..])` -/
def xorMask : List Nat → List Nat → List Nat
  | b :: bs, m :: ms => (b ^^^ m) :: xorMask bs ms
  | bs, [] => bs
  | [], _ => []

/-- `header_protection_sample`: skip the header and `MAX_LEN` pn bytes, take `sample_len` bytes -/
def sample (hdrLen : Nat) (pkt : List Nat) : Option (List Nat) :=
  if hdrLen + maxPnLen + sampleLen ≤ pkt.length then some ((pkt.drop (hdrLen + maxPnLen)).take sampleLen)
  else none

/-- `remove_header_protection` + `EncryptedPayload::split_mut`: (AAD, ciphertext‖tag).
    `mask` is the 5-byte header-protection mask. -/
def unprotect (mask : List Nat) (hdrLen : Nat) (pkt : List Nat) : Option (List Nat × List Nat) :=
  match pkt with
  | [] => none
  | b0 :: _ =>
    let b0' := b0 ^^^ (mask.getD 0 0 &&& hpMaskOf b0)
    let pnLen := (b0' &&& 3) + 1
    if pkt.length < hdrLen + pnLen then none
    else
      let pn' := xorMask ((pkt.drop hdrLen).take pnLen) ((mask.drop 1).take 4)
      some (b0' :: (pkt.drop 1).take (hdrLen - 1) ++ pn', pkt.drop (hdrLen + pnLen))

/-- wire bytes ↦ AEAD input, for a header-protection cipher `maskOf : sample ↦ 5-byte mask` -/
def aeadInput (maskOf : List Nat → List Nat) (hdrLen : Nat) (pkt : List Nat) : Option (List Nat × List Nat) :=
  match sample hdrLen pkt with
  | none => none
  | some s => unprotect (maskOf s) hdrLen pkt

/-- `HEADER_PROTECTION_MASK_LEN` -/
def hpMaskLen : Nat := 5
/-- `Iv::nonce`: 4 zero bytes ‖ 8-byte big-endian packet number, XOR the 12-byte IV -/
def pinnedNonceShape : List String := ["zero_u32", "pn_u64", "xor_iv", "return_nonce"]
/-- `EncryptedPayload::split_mut`: the AAD is the header plus the packet-number bytes -/
def pinnedAadSplit : String := "self.header_len + self.packet_number_len.bytesize()"
/-- `MIN_INDISTINGUISHABLE_PACKET_LEN_WITHOUT_TAG` -/
def pinnedMinIndistinguishableExpr : String :=
  "core::mem::size_of::<Tag>() + PacketNumberLen::MAX_LEN + connection::id::MAX_LEN + 1"
def pinnedCipherSuites : List String :=
  ["TLS_AES_128_GCM_SHA256", "TLS_AES_256_GCM_SHA384", "TLS_CHACHA20_POLY1305_SHA256"]

/-- `nonce = iv XOR (0^32 ‖ pn)` on byte lists: distinct packet numbers give distinct nonces -/
def nonce (iv : List Nat) (pn : Nat) : List Nat :=
  xorMask (beBytes 4 0 ++ beBytes 8 pn) iv

/-! ### tampering operators of the `packet_protection` differential -/

def flip (pkt : List Nat) (i mask : Nat) : List Nat :=
  pkt.set i ((pkt.getD i 0) ^^^ mask)

def truncTo (pkt : List Nat) (n : Nat) : List Nat := pkt.take n

def splice (a b : List Nat) (cut : Nat) : List Nat := a.take cut ++ b.drop cut

end Quic.Compose.PacketLayout
