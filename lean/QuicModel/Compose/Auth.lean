import QuicModel.Data.SlidingWindow
/-
  C06 — receive pipeline of a connection: "only authentic packets have effect, each at most once".

  Transcribes, per packet-number space, what
    quic/s2n-quic-transport/src/space/{application,handshake,initial}.rs
        `validate_and_decrypt_packet`  (header unprotect → AEAD open → `is_duplicate`)
    quic/s2n-quic-transport/src/space/mod.rs        `handle_cleartext_payload` → `on_processed_packet`
    quic/s2n-quic-core/src/crypto/application/keyset.rs `decrypt_packet` (failure counter, integrity limit)
    quic/s2n-quic-transport/src/connection/connection_trait.rs `handle_packet` (error classification)
    quic/s2n-quic-transport/src/endpoint/mod.rs     `close_on_matching_stateless_reset`
  do with one received QUIC packet of an established connection:

    1. a closing connection drops the packet;
    2. header protection is removed (`unprotect`); failure → `ProcessingError::DecryptError`
       → stateless-reset check;
    3. the AEAD opens the payload.  Application space: a failure bumps `packet_decryption_failures`
       and, at the integrity limit, turns into AEAD_LIMIT_REACHED; Initial/Handshake: plain failure;
    4. `is_duplicate` = `SlidingWindow::check` on the decoded packet number — evaluated AFTER the
       decryption (constant time) and BEFORE the decryption result is looked at; a hit returns
       `ProcessingError::Other`, which *discards* the decryption error (no stateless-reset check,
       no AEAD_LIMIT_REACHED close for this packet);
    5. decryption error: AEAD_LIMIT_REACHED closes; otherwise the datagram's last 16 bytes are
       looked up among the PEER's stateless-reset tokens (`stateless_reset_map`, filled only by
       `PeerIdRegistry`) and a hit closes the connection;
    6. frame processing (`intercept_rx_payload`, frame handlers); an error closes the connection;
    7. `on_processed_packet`: `ack_manager.on_processed_packet` (ack ranges, ECN counters), then
       `processed_packet_numbers.insert(pn).expect("packet number was already checked")`.

  IDEAL-AEAD ASSUMPTION (the cryptographic half of C06, NOT proved here; exercised on the real
  primitives by the `packet_protection` differential and the coverage lemma of
  `QuicModel/Compose/PacketLayout.lean`):
      AEAD `open` under the connection's current keys of a space succeeds **iff** the datagram bytes
      are exactly what the peer's `seal` produced under those keys.
  It enters the model as the environment-decided field `Datagram.authentic`; for a non-authentic
  datagram the decoded packet number, payload, ECN marking and trailing bytes are arbitrary
  (adversary-chosen).  Key updates (which key is "current") are the subject of C15.
-/
namespace Quic.Compose.Auth
open Quic.Data
open Quic.Data.SlidingWindow (Op Err)

inductive Space where
  | initial
  | handshake
  | app
deriving Repr, DecidableEq

/-- one received QUIC packet as the pipeline sees it -/
structure Datagram where
  space : Space
  /-- header-protection removal succeeds (sample available, pn decodes) -/
  hdrOk : Bool
  /-- packet number decoded after header unprotection (garbage for a forged datagram) -/
  pn : Nat
  /-- id of the key the datagram claims/was sealed with (informative; `authentic` decides) -/
  keyId : Nat
  /-- id of the payload (frames) -/
  payload : Nat
  /-- ECN codepoint of the carrying IP datagram: 0 NotEct, 1 Ect1, 2 Ect0, 3 Ce -/
  ecn : Nat
  /-- IDEAL AEAD: `true` iff the bytes are exactly what the peer sealed under the current keys -/
  authentic : Bool
  /-- frame processing of the payload returns `Ok` -/
  framesOk : Bool
  /-- the last 16 bytes of the UDP datagram, read as a stateless-reset token -/
  trailer : Nat
deriving Repr, DecidableEq

/-- one entry of the processed log: a payload that reached frame processing -/
structure Entry where
  pn : Nat
  payload : Nat
  ecn : Nat
  /-- `on_processed_packet` ran (all frames were handled without error) -/
  completed : Bool
deriving Repr, DecidableEq

structure SpaceState where
  /-- `processed_packet_numbers: SlidingWindow` -/
  window : SlidingWindow.State
  /-- payloads handed to frame processing, chronological -/
  processed : List Entry
  /-- packet numbers handed to `AckManager::on_processed_packet` (`ack_ranges.insert_packet_number`) -/
  ackPns : List Nat
  /-- `ecn_counts` -/
  ect0 : Nat
  ect1 : Nat
  ce : Nat
deriving Repr, DecidableEq

def SpaceState.init : SpaceState :=
  { window := SlidingWindow.init, processed := [], ackPns := [], ect0 := 0, ect1 := 0, ce := 0 }

inductive CloseReason where
  | statelessReset
  | aeadLimit
  | frameError
deriving Repr, DecidableEq

inductive Status where
  | «open»
  | closed (r : CloseReason)
deriving Repr, DecidableEq

structure Conn where
  initial : SpaceState
  handshake : SpaceState
  app : SpaceState
  /-- `KeySet::packet_decryption_failures` (application space only) -/
  failures : Nat
  /-- `aead_integrity_limit` of the negotiated cipher suite (C15) -/
  integrityLimit : Nat
  status : Status
  /-- stateless-reset tokens received from the PEER (transport parameter, NEW_CONNECTION_ID) -/
  peerTokens : List Nat
  /-- tokens this endpoint issued itself; the receive path never consults them -/
  localTokens : List Nat
deriving Repr, DecidableEq

def Conn.init (integrityLimit : Nat) (peerTokens localTokens : List Nat) : Conn :=
  { initial := SpaceState.init, handshake := SpaceState.init, app := SpaceState.init,
    failures := 0, integrityLimit := integrityLimit, status := .open,
    peerTokens := peerTokens, localTokens := localTokens }

def Conn.get (c : Conn) : Space → SpaceState
  | .initial => c.initial
  | .handshake => c.handshake
  | .app => c.app

def Conn.set (c : Conn) (sp : Space) (s : SpaceState) : Conn :=
  match sp with
  | .initial => { c with initial := s }
  | .handshake => { c with handshake := s }
  | .app => { c with app := s }

/-- `connection.close(error, …)`: the connection stops processing packets -/
def Conn.close (c : Conn) (r : CloseReason) : Conn := { c with status := .closed r }

/-- what happened to one datagram -/
inductive Verdict where
  /-- connection already closing: `PacketDropReason::ConnectionClosed` -/
  | droppedClosed
  /-- `UnprotectFailed`, no matching reset token -/
  | unprotectFailed
  /-- `is_duplicate` hit (`transport:duplicate_packet`), whatever the decryption said -/
  | duplicate (e : Err)
  /-- `DecryptionFailed`, fresh packet number, no matching reset token -/
  | decryptFailed
  /-- `DecryptionFailed` at the integrity limit: AEAD_LIMIT_REACHED -/
  | aeadLimit
  /-- a peer stateless-reset token matched after a failed unprotect/decrypt -/
  | statelessReset
  /-- frames processed, acknowledged, recorded in the window -/
  | processed
  /-- frame processing returned an error: the connection closes -/
  | frameError
  /-- `.expect("packet number was already checked")` would fire (proved unreachable) -/
  | panic
deriving Repr, DecidableEq

/-- `EcnCounts::increment` -/
def bumpEcn (s : SpaceState) (ecn : Nat) : SpaceState :=
  if ecn = 2 then { s with ect0 := s.ect0 + 1 }
  else if ecn = 1 then { s with ect1 := s.ect1 + 1 }
  else if ecn = 3 then { s with ce := s.ce + 1 }
  else s

/-- `close_on_matching_stateless_reset`: only reached through `ProcessingError::DecryptError` -/
def resetCheck (c : Conn) (d : Datagram) (otherwise : Verdict) : Conn × Verdict :=
  if d.trailer ∈ c.peerTokens then (c.close .statelessReset, .statelessReset)
  else (c, otherwise)

/-- result of the AEAD step -/
inductive Dec where
  | ok
  | decryptError
  | aeadLimit
deriving Repr, DecidableEq

/-- step 3: the AEAD open.  `KeySet::decrypt_packet` counts failures only in the application space. -/
def decryptStep (c : Conn) (d : Datagram) : Conn × Dec :=
  if d.authentic then (c, .ok)
  else if d.space = .app then
    -- `self.packet_decryption_failures += 1; if self.decryption_error_count() >= self.aead_integrity_limit`
    if c.failures + 1 ≥ c.integrityLimit then ({ c with failures := c.failures + 1 }, .aeadLimit)
    else ({ c with failures := c.failures + 1 }, .decryptError)
  else (c, .decryptError)

/-- step 7, `on_processed_packet`, on the space state `s1` the ack manager already updated:
    `processed_packet_numbers.insert(pn).expect("packet number was already checked")` -/
def commit (c : Conn) (sp : Space) (s1 : SpaceState) (pn : Nat) : Conn × Verdict :=
  match SlidingWindow.insert s1.window pn with
  | (w, .ok _) => (c.set sp { s1 with window := w }, .processed)
  | (w, .error _) => (c.set sp { s1 with window := w }, .panic)

/-- the log entry of a datagram that reached frame processing -/
def entryOf (d : Datagram) : Entry := ⟨d.pn, d.payload, d.ecn, d.framesOk⟩

/-- `ack_manager.on_processed_packet`: ack ranges and ECN counters (plus the model's processed log) -/
def ackStep (s : SpaceState) (d : Datagram) : SpaceState :=
  bumpEcn { s with processed := s.processed ++ [entryOf d], ackPns := s.ackPns ++ [d.pn] } d.ecn

/-- steps 6–7 for a packet that opened and is no duplicate -/
def processStep (c : Conn) (d : Datagram) : Conn × Verdict :=
  if d.framesOk then commit c d.space (ackStep (c.get d.space) d) d.pn
  else
    ((c.set d.space { c.get d.space with processed := (c.get d.space).processed ++ [entryOf d] }).close .frameError,
      .frameError)

/-- the receive pipeline for one packet -/
def receive (c : Conn) (d : Datagram) : Conn × Verdict :=
  match c.status with
  | .closed _ => (c, .droppedClosed)
  | .open =>
    if !d.hdrOk then resetCheck c d .unprotectFailed
    else
      let r := decryptStep c d
      let c1 := r.1
      match SlidingWindow.check (c1.get d.space).window d.pn with
      | .error e => (c1, .duplicate e)
      | .ok _ =>
        match r.2 with
        | .aeadLimit => (c1.close .aeadLimit, .aeadLimit)
        | .decryptError => resetCheck c1 d .decryptFailed
        | .ok => processStep c1 d

/-- a whole history of datagrams (genuine, forged, replayed, in any order) -/
def receiveAll (c : Conn) : List Datagram → Conn
  | [] => c
  | d :: ds => receiveAll (receive c d).1 ds

/-- verdicts of a history -/
def verdicts (c : Conn) : List Datagram → List Verdict
  | [] => []
  | d :: ds => (receive c d).2 :: verdicts (receive c d).1 ds

/-- the `SlidingWindow` operations the pipeline performs on the window of `sp` for one datagram
    (read off the verdict): this is what makes the window usage a `SlidingWindow.run`. -/
def windowOps (sp : Space) (d : Datagram) : Verdict → List Op
  | .droppedClosed => []
  | .unprotectFailed => []
  | .duplicate _ => if d.space = sp ∧ d.hdrOk then [.check d.pn] else []
  | .decryptFailed => if d.space = sp then [.check d.pn] else []
  | .aeadLimit => if d.space = sp then [.check d.pn] else []
  | .statelessReset => if d.space = sp ∧ d.hdrOk then [.check d.pn] else []
  | .processed => if d.space = sp then [.check d.pn, .insert d.pn] else []
  | .frameError => if d.space = sp then [.check d.pn] else []
  | .panic => if d.space = sp then [.check d.pn, .insert d.pn] else []

/-- all window operations of a history on space `sp` -/
def windowOpsAll (sp : Space) (c : Conn) : List Datagram → List Op
  | [] => []
  | d :: ds => windowOps sp d (receive c d).2 ++ windowOpsAll sp (receive c d).1 ds

/-- number of log entries with a given ECN codepoint whose processing completed -/
def countEcn (l : List Entry) (ecn : Nat) : Nat :=
  (l.filter (fun e => e.completed && e.ecn == ecn)).length

/-- packet numbers of the entries whose processing completed -/
def completedPns (l : List Entry) : List Nat :=
  (l.filter (·.completed)).map (·.pn)


/-! ### code facts the model transcribes (re-extracted from /repo on every run, tie G:
    `QuicModel/Generated/Auth.lean`, `QuicProofs/Bridge/Auth.lean`) -/

/-- `validate_and_decrypt_packet` of every space: header unprotect, AEAD open, `is_duplicate`, and
    only then the first use of the decryption result; no window insert in there -/
def pinnedValidateOrder : List String := ["unprotect", "decrypt", "is_duplicate", "use_decrypted"]
/-- `is_duplicate` only calls `check` -/
def pinnedIsDuplicateCalls : List String := ["check"]
/-- `on_processed_packet`: ack manager, then the window insert — the only insert site -/
def pinnedOnProcessedOrder : List String := ["ack_manager", "window_insert"]
def pinnedWindowInsertSites : List String := ["on_processed_packet"]
/-- `handle_cleartext_payload`: interceptor (`rxp`), frame loop, empty check, `on_processed_packet` -/
def pinnedCleartextOrder : List String :=
  ["intercept_rx_payload", "frame_loop", "no_frames_check", "on_processed_packet"]
/-- `handle_{short,handshake,initial}_packet`: closing drop, validate+decrypt, cleartext handler -/
def pinnedConnOrder : List String := ["closing_drop", "validate_and_decrypt", "handle_cleartext"]
/-- only `ProcessingError::DecryptError` asks for the stateless-reset comparison -/
def pinnedResetCheckArms : List String := ["DecryptError"]
/-- the token map is filled by `PeerIdRegistry` only (peer tokens) -/
def pinnedResetMapInserts : List String :=
  ["connection/peer_id_registry.rs:stateless_reset_token", "connection/peer_id_registry.rs:token"]
/-- `stateless_reset::token::LEN`: the trailer compared is 16 bytes -/
def resetTokenLen : Nat := 16

end Quic.Compose.Auth
