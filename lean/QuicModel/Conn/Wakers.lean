/-
  Models of the three places where s2n-quic-transport parks an application task by storing its
  `Waker`, with the condition the task waits for:

    * `ReadWaiter`   — `ReceiveStream::read_waiter: Option<(Waker, usize)>` (`stream/receive_stream.rs`:
                       stored in `poll_request` l.923, woken by `on_data` l.477-543, `on_reset` l.594,
                       dropped by `detach`/terminal polls)
    * `WriteWaiter`  — `SendStream::write_waiter: Option<(Waker, bool)>` (`stream/send_stream.rs`:
                       `store_waker!` in `poll_request` l.762, woken by `on_packet_ack` l.585,
                       `on_stop_sending` l.543, `on_internal_reset` l.680, `on_max_stream_data` l.505)
    * `OpenWaiters`  — `LocalInitiated::wakers` with open tokens (`stream/controller/local_initiated.rs`:
                       `poll_open_stream` l.92, `wake_unblocked` l.168, `on_max_streams` l.72,
                       `on_close_stream` l.141; tokens `connection/open_token.rs`)

  Every operation returns the wake actions it performs (`Waker::wake` of the returned tasks happens
  when the `StreamEvents` / drain is processed, in the same call).  Byte counts are `Nat`; buffers are
  abstracted to their lengths (the data path itself is C01/C03/C12).
-/
namespace Quic.Conn.Wakers

/-! ## read waiter -/
namespace ReadWaiter

/-- `ReceiveStreamState` -/
inductive St where
  | receiving
  | stopping
  | reset
  | dataRead
deriving Repr, DecidableEq

structure State where
  st : St := .receiving
  /-- `receive_buffer.total_received_len()`: contiguous prefix received -/
  recv : Nat := 0
  /-- `receive_buffer.consumed_len()` -/
  consumed : Nat := 0
  /-- `receive_buffer.final_size()` -/
  final : Option Nat := none
  /-- `flow_controller.watermark()` = desired window / 2 -/
  fcWatermark : Nat := 1
  /-- `read_waiter`: the stored low watermark (the `Waker` itself is the parked task) -/
  waiter : Option Nat := none
deriving Repr, DecidableEq

/-- `receive_buffer.len()`: bytes buffered and readable -/
def len (s : State) : Nat := s.recv - s.consumed

/-- the wake test of `on_data` for a stored low watermark -/
def ready (s : State) (lw : Nat) : Bool := decide (len s > 0) && decide (len s ≥ min lw s.fcWatermark)

/-- all data up to the final size has been received (RFC "Data Recvd") -/
def allReceived (s : State) : Bool := s.final == some s.recv

/-- `wake(events)`: take the waiter; `true` = a wake-up was issued -/
def wake (s : State) : State × Bool :=
  match s.waiter with
  | some _ => ({ s with waiter := none }, true)
  | none => (s, false)

/-- `poll_request` of a read in the `Receiving` state (`chunks` non-empty iff `want > 0`: at most
    `want` bytes are popped), with a task context.  Result: new state, bytes consumed, `will_wake`. -/
def pollReadReceiving (s : State) (lowWatermark want : Nat) : State × Nat × Bool :=
  let enough := decide (len s ≥ min s.fcWatermark lowWatermark)
  let take := if enough then min want (len s) else 0
  -- "wake the request if we didn't consume anything" / "notify when we have at least the requested watermark"
  let shouldWake := if enough then decide (want > 0) && decide (take = 0) else true
  let s := { s with consumed := s.consumed + take }
  -- "The client has consumed all data": `DataRead`, "clear the waiter" …
  let s := if s.final == some s.consumed then { s with st := .dataRead, waiter := none } else s
  -- … and only then `if should_wake { self.read_waiter = Some(..) }`
  let s := if shouldWake then { s with waiter := some lowWatermark } else s
  (s, take, shouldWake)

/-- `poll_request` of a read -/
def pollRead (s : State) (lowWatermark want : Nat) : State × Nat × Bool :=
  match s.st with
  | .receiving => pollReadReceiving s lowWatermark want
  | _ => ({ s with waiter := none }, 0, false)          -- `Err(error)` / `Finished`

/-- the tail of `on_data` once the buffer has taken the frame: wake test, `DataRead` transition, wake -/
def onDataCore (s : State) (isFin : Bool) : State × Bool :=
  let shouldWake := match s.waiter with
    | some lw => ready s lw
    | none => false
  -- "wake the waiter, even if we didn't cross the watermark, since the stream is finished at this point"
  let shouldWake := shouldWake || allReceived s
  let s := if isFin && s.final == some s.consumed then { s with st := .dataRead } else s
  if shouldWake then wake s else (s, false)

/-- `on_data`: the contiguous prefix grows to `newRecv`; `fin` = the frame carried the FIN with this final size -/
def onData (s : State) (newRecv : Nat) (fin : Option Nat) : State × Bool :=
  match s.st with
  | .receiving =>
    onDataCore { s with recv := max s.recv newRecv, final := if s.final.isSome then s.final else fin } fin.isSome
  | _ => (s, false)

/-- `on_reset` (RESET_STREAM): `init_reset` then `wake` -/
def onReset (s : State) : State × Bool :=
  let s := match s.st with
    | .reset => s
    | .dataRead => s
    | .receiving => if s.final.isSome && allReceived s then s else { s with st := .reset, recv := s.consumed }
    | .stopping => { s with st := .reset, recv := s.consumed }
  wake s

/-- `poll_request` with `stop_sending`: detaches (`read_waiter = None`) -/
def pollStopSending (s : State) : State :=
  match s.st with
  | .reset => s
  | .stopping => s
  | .dataRead => s
  | .receiving =>
    if s.final.isSome && allReceived s then { s with st := .dataRead, waiter := none }
    else { s with st := .stopping, waiter := none, recv := s.consumed }

inductive Op where
  | pollRead (lowWatermark want : Nat)
  | pollStopSending
  | onData (newRecv : Nat) (fin : Option Nat)
  | onReset
deriving Repr, DecidableEq

/-- data never exceeds a known final size and a FIN never contradicts it (peer violations are rejected
    before this point: FINAL_SIZE_ERROR, C04) -/
def Op.valid (s : State) : Op → Bool
  | .onData newRecv fin =>
    (match s.final, fin with
     | some f, some g => f == g
     | _, _ => true) &&
    (match (if s.final.isSome then s.final else fin) with
     | some f => decide (newRecv ≤ f) && decide (s.recv ≤ f)
     | none => true)
  | _ => true

/-- one operation: new state and whether a wake-up was issued -/
def step (s : State) (op : Op) : State × Bool :=
  if !op.valid s then (s, false) else
  match op with
  | .pollRead lw want => ((pollRead s lw want).1, false)
  | .pollStopSending => (pollStopSending s, false)
  | .onData n fin => onData s n fin
  | .onReset => onReset s

def run (s : State) : List Op → State
  | [] => s
  | op :: ops => run (step s op).1 ops

/-- the condition a parked reader (low watermark `lw`) waits on: still receiving, not enough
    readable bytes, and the peer still owes data / FIN / RESET -/
def blocked (s : State) (lw : Nat) : Bool := s.st == .receiving && !ready s lw && !allReceived s

end ReadWaiter

/-! ## write waiter -/
namespace WriteWaiter

/-- `SendStreamState` -/
inductive St where
  | sending
  | resetSent
  | resetAcknowledged
deriving Repr, DecidableEq

/-- `data_sender::State` (`Finishing` carries "the FIN has been acknowledged") -/
inductive Ds where
  | sending
  | finishing (finAcked : Bool)
  | finished
  | cancelled
deriving Repr, DecidableEq

structure State where
  st : St := .sending
  ds : Ds := .sending
  /-- `buffer.enqueued_len()`: bytes accepted from the application and not yet acknowledged -/
  enq : Nat := 0
  /-- `max_buffer_capacity` -/
  cap : Nat := 1
  /-- `write_waiter`: `should_flush` of the stored waker -/
  waiter : Option Bool := none
deriving Repr, DecidableEq

/-- `can_push()`: `available_buffer_space() > 0` -/
def canPush (s : State) : Bool := decide (s.enq < s.cap)
/-- `data_sender.is_empty()` -/
def isEmpty (s : State) : Bool := s.enq == 0

def wake (s : State) : State × Bool :=
  match s.waiter with
  | some _ => ({ s with waiter := none }, true)
  | none => (s, false)

/-- `store_waker!(should_flush)`: an existing flush request is persisted -/
def storeWaker (s : State) (shouldFlush : Bool) : State :=
  { s with waiter := some (shouldFlush || s.waiter.getD false) }

/-- `init_reset(reason, …)`; `internal` ⇒ `ResetAcknowledged` directly.  `true` = `ResetInitiated` -/
def initReset (s : State) (internal : Bool) : State × Bool :=
  match s.st with
  | .resetSent => (s, false)
  | .resetAcknowledged => (s, false)
  | .sending =>
    if s.ds == .finished then (s, false) else
    ({ s with st := if internal then .resetAcknowledged else .resetSent, ds := .cancelled, enq := 0 }, true)

/-- the requests the public stream API issues (`stream/api.rs` `tx_stream_apis!`):
    `poll_send` (chunks, with context), `poll_send_ready` (no chunks, with context), `poll_flush`
    (`flush`, with context), `finish()` (`finish`, NO context: nothing is stored), `poll_close`
    (`finish` + `flush`, with context), `reset()` (`reset`, NO context).  `reset` + `flush` (waiting for
    the RESET_STREAM acknowledgement) is not offered by the API and not modelled. -/
inductive Req where
  | send (bytes : Nat)
  | sendReady
  | flush
  | finish
  | close
  | reset
deriving Repr, DecidableEq

/-- `data_sender.finish()` -/
def dsFinish (s : State) : State := if s.ds == .sending then { s with ds := .finishing false } else s

/-- `poll_request` in the `Sending` stream state, for the requests other than `reset`: new state and
    the number of bytes accepted.  (One chunk: it is accepted whole — the buffer may overshoot its
    capacity, exactly as in the code — or not at all.) -/
def pollSending (s : State) (r : Req) : State × Nat :=
  match r with
  | .send bytes =>
    if bytes = 0 then (s, 0)                                  -- `poll_send` returns before issuing a request
    else if s.ds != .sending then (s, 0)                      -- `validate_push`: `Err(send_after_finish)`
    else if !canPush s then (storeWaker s false, 0)
    else ({ s with enq := s.enq + bytes }, bytes)
  | .sendReady =>
    if s.ds != .sending then (s, 0)
    else if !canPush s then (storeWaker s false, 0)
    else (s, 0)
  | .flush => if !isEmpty s then (storeWaker s true, 0) else (s, 0)
  | .finish =>
    -- no context: `store_waker!` stores nothing; "clear any previously registered waiters"
    if s.ds == .finished then ({ s with waiter := none }, 0)
    else ({ dsFinish s with waiter := none }, 0)
  | .close =>
    if s.ds == .finished then ({ s with waiter := none }, 0)
    else (storeWaker (dsFinish s) true, 0)
  | .reset => (s, 0)                                          -- handled by `pollRequest`

/-- `poll_request` -/
def pollRequest (s : State) (r : Req) : State × Nat :=
  if r = .reset then
    -- `init_reset(LocalApplication)`; no flush: "clear any previously registered waiters"
    ({ (initReset s false).1 with waiter := none }, 0)
  else if s.st = .sending then pollSending s r
  else ({ s with waiter := none }, 0)                       -- `Err(error)`: the stream was reset

/-- `on_packet_ack`: `released` bytes leave the send buffer, `finAck` = the ACK covers the FIN,
    `resetAck` = it covers the RESET_STREAM frame -/
def onPacketAck (s : State) (released : Nat) (finAck resetAck : Bool) : State × Bool :=
  let enq := s.enq - released
  let ds := match s.ds with
    | .finishing fa => if (fa || finAck) && enq == 0 then Ds.finished else Ds.finishing (fa || finAck)
    | d => d
  let shouldFlush := s.waiter.getD false
  let s := { s with enq := enq, ds := ds }
  match s.st with
  | .sending =>
    let shouldWake := match s.ds with
      | .sending => if shouldFlush then isEmpty s && canPush s else canPush s
      | .finishing fa => isEmpty s && fa
      | .finished => true
      | .cancelled => false
    if shouldWake then wake s else (s, false)
  | .resetSent => if resetAck then wake { s with st := .resetAcknowledged } else (s, false)
  | .resetAcknowledged => (s, false)

/-- `on_stop_sending`: wake only when the reset was initiated by this frame -/
def onStopSending (s : State) : State × Bool :=
  let r := initReset s false
  if r.2 then wake r.1 else (r.1, false)

/-- `on_internal_reset` (connection close): always wakes -/
def onInternalReset (s : State) : State × Bool := wake (initReset s true).1

/-- `on_max_stream_data` -/
def onMaxStreamData (s : State) : State × Bool :=
  match s.st with
  | .sending => if canPush s && s.ds == .sending then wake s else (s, false)
  | _ => (s, false)

inductive Op where
  | poll (r : Req)
  | ack (released : Nat) (finAck resetAck : Bool)
  | stopSending
  | internalReset
  | maxStreamData
deriving Repr, DecidableEq

def step (s : State) (op : Op) : State × Bool :=
  match op with
  | .poll r => ((pollRequest s r).1, false)
  | .ack n f r => onPacketAck s n f r
  | .stopSending => onStopSending s
  | .internalReset => onInternalReset s
  | .maxStreamData => onMaxStreamData s

def run (s : State) : List Op → State
  | [] => s
  | op :: ops => run (step s op).1 ops

/-- the condition a parked writer waits on, as a function of the stored `should_flush` flag:
    `false`: no buffer space while the stream accepts data;
    `true` : the send buffer is not drained yet (flush) / the FIN is not acknowledged yet (close). -/
def blocked (s : State) (shouldFlush : Bool) : Bool :=
  match s.st with
  | .sending =>
    match s.ds with
    | .sending => if shouldFlush then !(isEmpty s && canPush s) else !canPush s
    | .finishing fa => shouldFlush && !(isEmpty s && fa)
    | .finished => false
    | .cancelled => false
  | _ => false

end WriteWaiter

/-! ## open-stream waiters (`LocalInitiated`) -/
namespace OpenWaiters

structure State where
  /-- `max_local_limit` (concurrent locally opened streams) -/
  maxLocal : Nat
  /-- `peer_cumulative_stream_limit` -/
  peerLimit : Nat
  opened : Nat := 0
  closed : Nat := 0
  /-- `wakers`: the parked tasks, identified by the open token they were given -/
  wakers : List Nat := []
  /-- `token_counter` (next token value, starts at 1) -/
  tokenCounter : Nat := 1
  /-- `expired_token` (0 = `None`) -/
  expired : Nat := 0
  isClosed : Bool := false
deriving Repr, DecidableEq

/-- `open_stream_count()` -/
def openCount (s : State) : Nat := s.opened - s.closed
/-- `peer_capacity()` -/
def peerCapacity (s : State) : Nat := s.peerLimit - s.opened
/-- `available_stream_capacity()` -/
def capacity (s : State) : Nat := min (s.maxLocal - openCount s) (peerCapacity s)

/-- `Token::index(&expired_token)`; a token is `0` (= `None`) or a counter value -/
def tokenIndex (token expired : Nat) : Option Nat :=
  if token = 0 then none else
  let base := expired + 1
  if token < base then none else some (token - base)

/-- `wake_unblocked`: wake (and drop) the first `min(len, capacity)` wakers, expire as many tokens -/
def wakeUnblocked (s : State) : State × List Nat :=
  let n := min s.wakers.length (capacity s)
  ({ s with wakers := s.wakers.drop n, expired := s.expired + n }, s.wakers.take n)

/-- `poll_open_stream(open_token, cx)` followed — when `Ready` — by `on_open_stream` (as
    `stream::Controller::poll_open_local_stream` does).  Result: state, the caller's new token,
    `true` = `Poll::Ready`. -/
def pollOpen (s : State) (token : Nat) : State × Nat × Bool :=
  if capacity s < 1 then
    match tokenIndex token s.expired with
    | some idx =>
      if idx < s.wakers.length then (s, token, false)        -- waker slot updated in place
      else (s, token, false)
    | none =>
      ({ s with wakers := s.wakers ++ [s.tokenCounter], tokenCounter := s.tokenCounter + 1 }, s.tokenCounter, false)
  else
    -- `open_token.clear()`; the slot of a still-registered waker is NOT removed
    ({ s with opened := s.opened + 1 }, 0, true)

/-- `on_close_stream` -/
def onCloseStream (s : State) : State × List Nat :=
  if s.closed < s.opened then wakeUnblocked { s with closed := s.closed + 1 } else (s, [])

/-- `on_max_streams(frame)` -/
def onMaxStreams (s : State) (limit : Nat) : State × List Nat :=
  if s.peerLimit ≥ limit then (s, []) else wakeUnblocked { s with peerLimit := limit }

/-- `close()`: `wake_all` -/
def close (s : State) : State × List Nat := ({ s with wakers := [], isClosed := true }, s.wakers)

inductive Op where
  /-- a task polls with the token it holds (0 = none) -/
  | pollOpen (token : Nat)
  | closeStream
  | maxStreams (limit : Nat)
  | close
deriving Repr, DecidableEq

/-- one operation: new state, tokens of the tasks woken, and for `pollOpen` the token handed back
    and whether the stream was opened -/
def step (s : State) (op : Op) : State × List Nat × Nat × Bool :=
  match op with
  | .pollOpen token => let r := pollOpen s token; (r.1, [], r.2.1, r.2.2)
  | .closeStream => let r := onCloseStream s; (r.1, r.2, 0, false)
  | .maxStreams l => let r := onMaxStreams s l; (r.1, r.2, 0, false)
  | .close => let r := close s; (r.1, r.2, 0, false)

end OpenWaiters

end Quic.Conn.Wakers
