/-
  Abstract timer view of ONE packet-number space's `recovery::Manager`
  (`quic/s2n-quic-transport/src/recovery/manager.rs`): which packets are in flight, whether the
  loss timer / the PTO timer are armed, and the flags `update_pto_timer` (l.296) and
  `check_consistency` (l.1064) read.  Times, RTTs and byte counts are abstracted away: an operation
  that runs loss detection carries the detection's OUTCOME (which packets were declared lost and
  for which still-tracked packet the loss timer was armed) as a parameter, a `timeout` says whether
  the armed timer had expired.  The detailed, differential-tested model of the same code is
  `QuicModel/Recovery/Manager.lean`; `Lemmas/PtoArmed.lean` shows that its `updatePtoTimer` is this
  one under the abstraction `ofManager`.

  `update_pto_timer`, transcribed branch by branch:
      self.pto_update_pending = false;
      if self.loss_timer.is_armed()                       { self.pto.cancel(); return }
      if active_path.at_amplification_limit()             { self.pto.cancel(); return }
      if self.space.is_application_data() && !is_handshake_confirmed { self.pto.cancel(); return }
      let ack_eliciting_packets_in_flight = sent_packets.iter().any(is_ack_eliciting);
      if !ack_eliciting_packets_in_flight && active_path.is_peer_validated() { self.pto.cancel(); return }
      self.pto.update(base, period)                       // armed

  How the amplification flag changes (single path): transmissions can exhaust the allowance at any
  time (`ampLimited`, no recovery call); every true→false change of `at_amplification_limit()` is
  followed by `on_amplification_unblocked` → `update_pto_timer` on this space
  (`connection_impl.rs` l.1217/l.1381, `space/mod.rs` l.1175) — except when the path is validated by
  a packet of ANOTHER space: then only that space is notified.  That can only concern the
  application space before the handshake is confirmed (the server discards its Initial space in the
  same call, `connection_impl.rs` l.1665): op `validatedByOtherSpace`.
-/
namespace Quic.Conn.PtoArmed

structure Pkt where
  pn : Nat
  ackEliciting : Bool
deriving Repr, DecidableEq

structure State where
  /-- `sent_packets` (unacknowledged, not yet declared lost) -/
  sent : List Pkt := []
  /-- `loss_timer.is_armed()` -/
  lossTimer : Bool := false
  /-- the `Pto`'s timer is armed -/
  ptoTimer : Bool := false
  /-- `pto_update_pending` -/
  ptoUpdatePending : Bool := false
  /-- `time_of_last_ack_eliciting_packet.is_some()` -/
  sentAckEliciting : Bool := false
  /-- `active_path.at_amplification_limit()` -/
  atAmplificationLimit : Bool := false
  /-- `active_path.is_peer_validated()` -/
  peerValidated : Bool := true
  /-- `self.space.is_application_data()` -/
  applicationSpace : Bool := true
  handshakeConfirmed : Bool := false
  /-- number of PTO back-off doublings (`pto_backoff` = 2^n, uncapped here) -/
  backoffLog2 : Nat := 0
  /-- the space (and this manager) has been dropped -/
  discarded : Bool := false
deriving Repr, DecidableEq

/-- `Manager::new(space)` in the context of a path -/
def init (applicationSpace peerValidated atAmplificationLimit : Bool) : State :=
  { applicationSpace := applicationSpace, peerValidated := peerValidated, atAmplificationLimit := atAmplificationLimit }

def ackElicitingInFlight (s : State) : Bool := s.sent.any (·.ackEliciting)

/-- `update_pto_timer` -/
def updatePtoTimer (s : State) : State :=
  let s := { s with ptoUpdatePending := false }
  if s.lossTimer then { s with ptoTimer := false }
  else if s.atAmplificationLimit then { s with ptoTimer := false }
  else if s.applicationSpace && !s.handshakeConfirmed then { s with ptoTimer := false }
  else
    let ae := ackElicitingInFlight s
    if !ae && s.peerValidated then { s with ptoTimer := false }
    else { s with ptoTimer := true }

/-- the guards of `updatePtoTimer` above in the numbering of `tools/extractors/timers.py`
    (1 loss timer armed, 2 at amplification limit, 3 application space before confirmation,
    4 nothing ack-eliciting in flight and peer validated); each cancels the PTO and returns -/
def UPDATE_PTO_GUARDS : List Nat := [1, 2, 3, 4]

/-- the construction of `timer_required` below in the extractor's numbering -/
def TIMER_REQUIRED_STEPS : List Nat := [1, 2, 3, 4, 5]

/-- `check_consistency`: `timer_required` -/
def timerRequired (s : State) : Bool :=
  let r := ackElicitingInFlight s
  let r := r || !s.peerValidated
  let r := r && !s.atAmplificationLimit
  let r := r && (!s.applicationSpace || s.handshakeConfirmed)
  let r := r && s.sentAckEliciting
  r

/-- `armed_timer_count() != 0` (the `timer::Provider` reports the loss timer if armed, else the PTO) -/
def armed (s : State) : Bool := s.lossTimer || s.ptoTimer

/-- the assertion of `check_consistency` -/
def consistent (s : State) : Bool := !timerRequired s || armed s

/-- outcome of one run of `detect_lost_packets`: packet numbers declared lost and the still-tracked
    packet the `NotLostYet` arm stopped at (the loss timer is armed for it) -/
structure Detect where
  lost : List Nat := []
  notLostYet : Option Nat := none
deriving Repr, DecidableEq

/-- `detect_and_remove_lost_packets`: cancel the loss timer, remove the lost packets, arm the loss
    timer (and cancel the PTO) when a tracked packet is not lost yet -/
def detectAndRemove (s : State) (d : Detect) : State :=
  let sent := s.sent.filter (fun p => !d.lost.contains p.pn)
  let s := { s with lossTimer := false, sent := sent }
  match d.notLostYet with
  | some pn => if sent.any (fun p => p.pn == pn) then { s with lossTimer := true, ptoTimer := false } else s
  | none => s

inductive Op where
  /-- `on_packet_sent` -/
  | send (pn : Nat) (ackEliciting : Bool)
  /-- `on_transmit_burst_complete` -/
  | burstComplete
  /-- `on_ack_frame` acknowledging `set`, with the loss detection outcome `d` -/
  | ack (set : List Nat) (d : Detect)
  /-- `on_timeout`; `expired` = the armed timer has elapsed -/
  | timeout (expired : Bool) (d : Detect)
  /-- `on_packet_number_space_discarded` (Initial / Handshake); the manager is dropped -/
  | discard
  /-- transmissions used up the anti-amplification allowance -/
  | ampLimited
  /-- `on_amplification_unblocked` -/
  | onAmplificationUnblocked
  /-- the path is validated by a packet processed in this space (flag change; the amplification
      notification is the separate op above) -/
  | peerValidated
  /-- the path is validated (and unblocked) by a packet of another space -/
  | validatedByOtherSpace
  /-- application space: `on_handshake_confirmed` → `update_pto_timer(.., true, ..)` -/
  | handshakeConfirmed
deriving Repr, DecidableEq

/-- the operation is inside the model's domain -/
def Op.valid (s : State) (op : Op) : Bool :=
  !s.discarded &&
  match op with
  -- `debug_assert!(!self.pto_update_pending)` at the top of `on_timeout`
  | .timeout _ _ => !s.ptoUpdatePending
  -- `debug_assert_ne!(self.space, ApplicationData)`
  | .discard => !s.applicationSpace
  | .validatedByOtherSpace => s.applicationSpace && !s.handshakeConfirmed
  | .handshakeConfirmed => s.applicationSpace
  | _ => true

def apply (s : State) (op : Op) : State :=
  match op with
  | .send pn ae =>
    let s := { s with sent := s.sent ++ [{ pn := pn, ackEliciting := ae }] }
    if ae then { s with sentAckEliciting := true, ptoUpdatePending := true } else s
  | .burstComplete => if s.ptoUpdatePending then updatePtoTimer s else s
  | .ack set d =>
    let newly := s.sent.filter (fun p => set.contains p.pn)
    if newly.isEmpty then s else
    let s := { s with sent := s.sent.filter (fun p => !set.contains p.pn) }
    let s := detectAndRemove s d
    -- "The PTO backoff factor is reset when an acknowledgment is received" (validated peer)
    let s := if s.peerValidated then { s with backoffLog2 := 0 } else s
    updatePtoTimer s
  | .timeout expired d =>
    if s.lossTimer then
      if expired then updatePtoTimer (detectAndRemove s d) else s
    else if s.ptoTimer && expired then
      -- `Pto::on_timeout` is `Ready`: the timer is cancelled, the back-off doubles, the PTO is re-armed
      updatePtoTimer { s with ptoTimer := false, backoffLog2 := s.backoffLog2 + 1 }
    else s
  | .discard => { s with sent := [], lossTimer := false, ptoTimer := false, ptoUpdatePending := false, discarded := true }
  | .ampLimited => { s with atAmplificationLimit := true }
  | .onAmplificationUnblocked => updatePtoTimer { s with atAmplificationLimit := false }
  | .peerValidated => { s with peerValidated := true }
  | .validatedByOtherSpace => { s with peerValidated := true, atAmplificationLimit := false }
  | .handshakeConfirmed => updatePtoTimer { s with handshakeConfirmed := true }

def step (s : State) (op : Op) : State := if op.valid s then apply s op else s

def run (s : State) : List Op → State
  | [] => s
  | op :: ops => run (step s op) ops

end Quic.Conn.PtoArmed
