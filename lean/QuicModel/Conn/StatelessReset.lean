import QuicModel.Prelude
/-
  Length logic of `s2n_quic_core::packet::stateless_reset::encode_packet`
  (quic/s2n-quic-core/src/packet/stateless_reset.rs) and of `random::gen_range_biased`:

    min_len = MIN_INDISTINGUISHABLE_PACKET_LEN_WITHOUT_TAG + max_tag_len
            = size_of::<Tag>() + PacketNumberLen::MAX_LEN + connection::id::MAX_LEN + 1 + max_tag_len
    max_len = triggering_packet_len.saturating_sub(1).min(packet_buf.len())
    if max_len < min_len { return None }
    bits    = gen_range_biased(rng, (min_len - TOKEN_LEN) ..= (max_len - TOKEN_LEN))
    packet_buf[0] = (packet_buf[0] >> 2) | 0b0100_0000
    Some(bits + TOKEN_LEN)

  The random generator is a parameter: `r` is the little-endian `usize` read from the 8 bytes the
  generator returns for the range draw.
-/
namespace Quic.Conn.StatelessReset

def usizeMax : Nat := 18446744073709551615

/-- `stateless_reset::token::LEN` = 128 / 8 -/
def tokenLen : Nat := 16
/-- `size_of::<Tag>()` -/
def tagByteLen : Nat := 1
/-- `PacketNumberLen::MAX_LEN` -/
def packetNumberMaxLen : Nat := 4
/-- `connection::id::MAX_LEN` -/
def connectionIdMaxLen : Nat := 20

/-- `MIN_INDISTINGUISHABLE_PACKET_LEN_WITHOUT_TAG` -/
def minLenWithoutTag : Nat := tagByteLen + packetNumberMaxLen + connectionIdMaxLen + 1

/-- `min_indistinguishable_packet_len(max_tag_len)` -/
def minIndistinguishablePacketLen (maxTagLen : Nat) : Nat := minLenWithoutTag + maxTagLen

/-- `triggering_packet_len.saturating_sub(1).min(packet_buf.len())` -/
def maxLen (trigger bufLen : Nat) : Nat := min (trigger - 1) bufLen

/-- `random::gen_range_biased(rng, lo..=hi)` with `r` the drawn `usize`; requires `lo ≤ hi`
    (the Rust subtraction `end - start` would underflow otherwise; `encode_packet` guarantees it) -/
def genRangeBiased (r lo hi : Nat) : Nat :=
  if lo == hi then lo
  else
    let v := if hi - lo + 1 ≤ usizeMax then hi - lo + 1 else usizeMax   -- saturating_add(1)
    lo + r % v

/-- length returned by `encode_packet` (`none` = no stateless reset is sent) -/
def encodeLen (maxTagLen trigger bufLen r : Nat) : Option Nat :=
  let minLen := minIndistinguishablePacketLen maxTagLen
  let mx := maxLen trigger bufLen
  if mx < minLen then none
  else
    let lo := minLen - tokenLen
    let hi := mx - tokenLen
    some (genRangeBiased r lo hi + tokenLen)

/-- first byte after `packet_buf[0] = (packet_buf[0] >> TAG_OFFSET) | TAG` for a random byte `b0 < 256`:
    header form bit 0 (short header), fixed bit 1 -/
def firstByte (b0 : Nat) : Nat := b0 / 4 % 64 + 64

/-- does the draw consume 8 bytes of randomness (`range.start() != range.end()`)? -/
def drawsRange (maxTagLen trigger bufLen : Nat) : Bool :=
  let minLen := minIndistinguishablePacketLen maxTagLen
  let mx := maxLen trigger bufLen
  !(mx < minLen) && mx != minLen

/- independent reference (RFC 9000 §10.3, §10.3.3): a stateless reset of length `n` is admissible
   for a trigger of length `t` when it is strictly smaller than the trigger, fits the buffer, and is
   long enough to be indistinguishable from a short-header packet with a full-length connection ID:
   1 (first byte) + 20 (cid) + 4 (pn) + 1 (payload) + tag. -/
def Admissible (maxTagLen trigger bufLen n : Nat) : Prop :=
  n < trigger ∧ n ≤ bufLen ∧ 1 + 20 + 4 + 1 + maxTagLen ≤ n

end Quic.Conn.StatelessReset
