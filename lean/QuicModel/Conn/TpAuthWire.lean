import QuicModel.Prelude
import QuicModel.Conn.TpAuth
import QuicModel.Codec.TransportParams
/-
  `Conn.TpAuth` lifted to the bytes of the quic_transport_parameters extension, i.e. the whole of
    quic/s2n-quic-transport/src/space/session_context.rs
      SessionContext::on_server_params   (client, on the server's block)
      SessionContext::on_client_params   (server, on the client's block)
  up to the point where the peer's values are loaded into the limits:
    1. `ServerTransportParameters::decode(decoder)` / `ClientTransportParameters::decode(decoder)`
       (= `Codec.TransportParams.decodeParameters`, tied to the real decoder by vh-core `tp`); EVERY `DecoderError` is
       mapped to `TRANSPORT_PARAMETER_ERROR.with_reason("Invalid transport parameters")`;
    2. the connection-ID checks of `Conn.TpAuth.authenticate` on the three decoded `Option<…ConnectionId>` fields.
  After 2. the only remaining failure is `dc_supported_versions.selected_version()` and only when
  `Config::DcEndpoint::ENABLED` (off for the endpoints of vh-e2e): not modelled.
  Every failure is `transport::Error::TRANSPORT_PARAMETER_ERROR` (code 0x08, RFC 9000 §20.1); `reason` is the
  `with_reason` string (visible in the `ConnectionClosed` event of the validating endpoint).

  This is the function that the end-to-end tie (tools/e2e_c14_auth.py, family `tpauth`) compares with what a REAL
  s2n-quic endpoint did on a handshake whose declared parameter block was rewritten.
-/
namespace Quic.Conn.TpAuth
open Quic.Rfc.TransportParams (Role)
open Quic.Codec.TransportParams (Params Value Field lookupId decodeParameters pinnedFields)

/-- `transport::Error::TRANSPORT_PARAMETER_ERROR.code` -/
def transportParameterError : Nat := 0x08

/-- the `with_reason(…)` strings of session_context.rs -/
def AuthErr.reason : AuthErr → String
  | .iscidMismatch => "initial_source_connection_id mismatch"
  | .iscidMissing => "missing initial_source_connection_id"
  | .rscidMismatch => "retry_source_connection_id mismatch"
  | .rscidAbsentAfterRetry =>
    "retry_source_connection_id transport parameter absent after receiving a Retry packet from the server"
  | .rscidPresentWithoutRetry =>
    "retry_source_connection_id transport parameter present when no Retry packet was received"
  | .odcidMismatch => "original_destination_connection_id mismatch"
  | .odcidMissing => "missing original_destination_connection_id"

/-- short stable key of an `AuthErr` (driver output) -/
def AuthErr.key : AuthErr → String
  | .iscidMismatch => "iscid-mismatch"
  | .iscidMissing => "iscid-missing"
  | .rscidMismatch => "rscid-mismatch"
  | .rscidAbsentAfterRetry => "rscid-absent-after-retry"
  | .rscidPresentWithoutRetry => "rscid-present-without-retry"
  | .odcidMismatch => "odcid-mismatch"
  | .odcidMissing => "odcid-missing"

/-- an `Option<…ConnectionId>` field of the decoded struct (`None` when the parameter did not occur) -/
def cidOf (ps : Params) (id : Nat) : Option (List Nat) :=
  match lookupId ps id with
  | some (.bytes b) => some b
  | _ => none

/-- `peer_parameters.{initial_source_connection_id, original_destination_connection_id, retry_source_connection_id}` -/
def peerCids (ps : Params) : PeerCids := ⟨cidOf ps 0x0f, cidOf ps 0x00, cidOf ps 0x10⟩

inductive Reject where
  /-- `decode(decoder).map_err(|_| TRANSPORT_PARAMETER_ERROR.with_reason("Invalid transport parameters"))` -/
  | decode (e : Quic.Codec.TransportParams.Err)
  | auth (e : AuthErr)
  deriving DecidableEq, Repr

def Reject.code : Reject → Nat
  | .decode _ => transportParameterError
  | .auth _ => transportParameterError

def Reject.reason : Reject → String
  | .decode _ => "Invalid transport parameters"
  | .auth e => e.reason

def Reject.key : Reject → String
  | .decode e => "decode:" ++ e.str
  | .auth e => e.key

/-- the `?` on a connection-ID check: its error is the function's error -/
def liftAuth : Except AuthErr Unit → Except Reject Unit
  | .error e => .error (.auth e)
  | .ok () => .ok ()

/-- `on_server_params` (`role = .server`: the block was sent by the server, the client validates) /
    `on_client_params` (`role = .client`) on the raw extension bytes, with the field table `fs` -/
def onPeerBlockWith (fs : List Field) (role : Role) (h : Handshake) (blk : List Nat) : Except Reject Unit :=
  match decodeParameters fs role blk with
  | .error e => .error (.decode e)
  | .ok ps => liftAuth (authenticate role h (peerCids ps))

/-- … with the table of the pinned commit (bridged to /repo by `Bridge.TransportParams`) -/
def onPeerBlock (role : Role) (h : Handshake) (blk : List Nat) : Except Reject Unit :=
  onPeerBlockWith pinnedFields role h blk

def accepted : Except Reject Unit → Bool
  | .ok _ => true
  | .error _ => false

end Quic.Conn.TpAuth

namespace Quic.Rfc.TpAuth
open Quic.Rfc.TransportParams (Role parseItems)
open Quic.Conn.TpAuth (Handshake)

/-- values of parameter `id` in a parsed block, in order of appearance -/
def valuesOf (its : List (Nat × List Nat)) (id : Nat) : List (List Nat) :=
  (its.filter (fun it => it.1 == id)).map (fun it => it.2)

/-- RFC 9000 §7.3 read on the WIRE form of the block (the sequence of (id, value) items of §18): what the items with
    ids 0x0f / 0x00 / 0x10 must be for the handshake `h`. (§7.4/§18.2 validity of the block as a whole —
    `Rfc.TransportParams.accepts` — is a separate condition.) -/
def authenticItems (role : Role) (h : Handshake) (its : List (Nat × List Nat)) : Bool :=
  match role with
  | .server =>
    decide (valuesOf its 0x0f = [h.peerScid]) && decide (valuesOf its 0x00 = [h.originalDcid]) &&
      decide (valuesOf its 0x10 = h.retryScid.toList)
  | .client => decide (valuesOf its 0x0f = [h.peerScid])

end Quic.Rfc.TpAuth
