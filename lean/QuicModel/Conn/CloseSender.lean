/-
  The close sender (property C12): transcription of
    quic/s2n-quic-transport/src/connection/close_sender.rs  `CloseSender`, `State`, `Limiter`
  Once CONNECTION_CLOSE has been sent the connection only ever re-sends the SAME stored packet,
  and only after incoming datagrams: the limiter waits for `factor` datagrams (doubling each time,
  saturating `u8`), then arms a debounce timer of one RTT whose expiry allows one transmission.
  Time is abstracted: timer expiry is an explicit op.
-/
namespace Quic.Conn.CloseSender

/-- `Limiter` (`factor`, `received`: saturating `u8` counters; `debounce` timer armed or not) -/
structure Limiter where
  factor : Nat := 1
  received : Nat := 0
  debounceArmed : Bool := false
  deriving Repr, DecidableEq

/-- saturating `u8` addition -/
def satAdd (a b : Nat) : Nat := min 255 (a + b)

/-- `Limiter::on_datagram_received` -/
def Limiter.onDatagramReceived (l : Limiter) : Limiter :=
  if l.debounceArmed then l
  else
    let received := satAdd l.received 1
    if received ≥ l.factor then { factor := satAdd l.factor l.factor, received := 0, debounceArmed := true }
    else { l with received := received }

/-- `TransmissionState` -/
inductive Transmission
  | idle
  | transmitting
  deriving Repr, DecidableEq

/-- `State`; `packet` is the stored close packet (its bytes, abstractly an id) -/
inductive State
  | idle
  | closing (packet : Nat) (limiter : Limiter) (transmission : Transmission)
  | closed
  deriving Repr, DecidableEq

inductive Op
  /-- `close(packet, timeout, now)`: CONNECTION_CLOSE was built; first transmission is due -/
  | close (packet : Nat)
  /-- `on_datagram_received` -/
  | datagramReceived
  /-- `on_timeout` with the debounce timer expired -/
  | debounceExpired
  /-- `on_timeout` with the close timer expired -/
  | closeTimerExpired
  /-- the endpoint asks for a transmission (`transmission_interest` / `write_payload`) -/
  | transmit
  deriving Repr, DecidableEq

/-- one step; the output is the packet put on the wire, if any -/
def step (s : State) (op : Op) : State × Option Nat :=
  match s, op with
  | .idle, .close p => (.closing p {} .transmitting, none)
  | .closing p l t, .datagramReceived => (.closing p l.onDatagramReceived t, none)
  | .closing p l t, .debounceExpired =>
    if l.debounceArmed then (.closing p { l with debounceArmed := false } .transmitting, none)
    else (.closing p l t, none)
  | .closing _ _ _, .closeTimerExpired => (.closed, none)
  | .closing p l .transmitting, .transmit => (.closing p l .idle, some p)
  | s, _ => (s, none)

def run (s : State) : List Op → State × List (Option Nat)
  | [] => (s, [])
  | op :: rest =>
    let r := step s op
    let r' := run r.1 rest
    (r'.1, r.2 :: r'.2)

/-- packets put on the wire by a history -/
def sent (ops : List Op) : List Nat := (run .idle ops).2.filterMap id

/-- number of incoming datagrams in a history -/
def datagrams (ops : List Op) : Nat := (ops.filter (· == .datagramReceived)).length

end Quic.Conn.CloseSender
