import QuicModel.Prelude
/-
  Anti-amplification allowance of a server path (RFC 9000 §8.1), transcribed from
  quic/s2n-quic-transport/src/path/mod.rs:

    enum State { Validated, AmplificationLimited { tx_allowance: Counter<u32, Saturating> } }
    on_bytes_received(bytes):   tx_allowance += bytes.saturating_mul(multiplier as usize) as u32   (saturating u32 add)
    on_bytes_transmitted(bytes): if bytes == 0 {return}; debug_assert!(!at_amplification_limit);
                                 tx_allowance -= bytes as u32                                     (saturating u32 sub)
    at_amplification_limit():   Validated => false, AmplificationLimited{a} => a == 0
    on_validated():             state = Validated          (on_handshake_packet / on_path_response)
    transmission_constraint():  at limit => AmplificationLimited, else by the congestion controller
    Path::new: Server => AmplificationLimited{0}; Client => Validated

  The counter is *saturating*: an overshooting datagram takes it to 0 and the excess is forgotten.
  Ghost counters (`sent`, `recv`, `forgiven`) never influence behaviour; they exist so that the
  property (bytes sent vs. 3 x bytes received) can be stated about the model.
-/
namespace Quic.Conn.Amplification

def u32Max : Nat := 4294967295
def usizeMax : Nat := 18446744073709551615

/-- `s2n_quic_core::connection::limits::ANTI_AMPLIFICATION_MULTIPLIER` (pinned; bridged to /repo by tie G) -/
def multiplier : Nat := 3

/-- `path::MINIMUM_MAX_DATAGRAM_SIZE`: what a server datagram is clamped to before the path MTU is probed -/
def minimumMaxDatagramSize : Nat := 1200

inductive PState where
  | validated
  | limited (txAllowance : Nat)
  deriving Repr, DecidableEq

structure Path where
  state : PState
  /-- `anti_amplification_multiplier: u8` -/
  mult : Nat
  /-- ghost: total bytes handed to `on_bytes_transmitted` -/
  sent : Nat := 0
  /-- ghost: total bytes handed to `on_bytes_received` -/
  recv : Nat := 0
  /-- ghost: debt forgotten by the saturating subtraction (sum over datagrams of `bytes - allowance`) -/
  forgiven : Nat := 0
  deriving Repr, DecidableEq

/-- `Path::new` for `Config::ENDPOINT_TYPE == Server` -/
def newServer (mult : Nat) : Path := { state := .limited 0, mult := mult }
/-- `Path::new` for a client: clients are only constrained by the congestion controller -/
def newClient (mult : Nat) : Path := { state := .validated, mult := mult }

/-- `u32::saturating_add` -/
def satAdd32 (a b : Nat) : Nat := if a + b ≤ u32Max then a + b else u32Max
/-- `usize::saturating_mul` (64-bit) -/
def satMulUsize (a b : Nat) : Nat := if a * b ≤ usizeMax then a * b else usizeMax
/-- `x as u32` -/
def asU32 (x : Nat) : Nat := x % 4294967296

def atAmplificationLimit (p : Path) : Bool :=
  match p.state with
  | .validated => false
  | .limited a => a == 0

def isValidated (p : Path) : Bool :=
  match p.state with
  | .validated => true
  | .limited _ => false

/-- allowance credited for one received datagram: `bytes.saturating_mul(mult as usize) as u32` -/
def credit (mult bytes : Nat) : Nat := asU32 (satMulUsize bytes mult)

/-- `on_bytes_received`; the Boolean is `unblocked` (was at the limit and is not any more) -/
def onBytesReceived (p : Path) (bytes : Nat) : Path × Bool :=
  let was := atAmplificationLimit p
  let st := match p.state with
    | .validated => PState.validated
    | .limited a => .limited (satAdd32 a (credit p.mult bytes))
  let p' := { p with state := st, recv := p.recv + bytes }
  (p', was && !atAmplificationLimit p')

/-- `on_bytes_transmitted`. `none` = the `debug_assert!` inside `clamp_datagram_size` fires (the call
    was made at the limit; every real caller checks `can_transmit` / the constraint first). In release
    builds that call would leave the allowance at 0. -/
def onBytesTransmitted (p : Path) (bytes : Nat) : Option Path :=
  if bytes == 0 then some p
  else if atAmplificationLimit p then none
  else match p.state with
    | .validated => some { p with sent := p.sent + bytes }
    | .limited a =>
      some { p with state := .limited (a - asU32 bytes), sent := p.sent + bytes,
                    forgiven := p.forgiven + (bytes - a) }

/-- `on_validated` (`on_handshake_packet`, successful `on_path_response`) -/
def onValidated (p : Path) : Path := { p with state := .validated }

inductive Constraint where
  | none | amplificationLimited | congestionLimited | retransmissionOnly
  deriving Repr, DecidableEq

/-- `transmission_constraint`; the congestion controller's two predicates are parameters -/
def transmissionConstraint (p : Path) (ccLimited ccFastRetransmit : Bool) : Constraint :=
  if atAmplificationLimit p then .amplificationLimited
  else if ccLimited then (if ccFastRetransmit then .retransmissionOnly else .congestionLimited)
  else .none

/-- the amplification part of `can_transmit(timestamp)` (the pacing part is not modelled) -/
def canTransmit (p : Path) : Bool := !atAmplificationLimit p

/- ---------------------------------------------------------------------------------------
   Histories. `send n` is what the connection does (connection_impl.rs `while
   active_path().can_transmit(..) && queue.push(..)`, close_sender.rs, path validation): a
   datagram is attempted only when the path is not at the limit. -/

inductive Op where
  | recv (n : Nat)
  | send (n : Nat)
  | validate
  deriving Repr, DecidableEq

/-- did `send n` start a datagram in state `p`? -/
def started (p : Path) (n : Nat) : Bool := canTransmit p && n != 0

def step (p : Path) (op : Op) : Path :=
  match op with
  | .recv n => (onBytesReceived p n).1
  | .send n => if canTransmit p then (onBytesTransmitted p n).getD p else p
  | .validate => onValidated p

def run (p : Path) (ops : List Op) : Path := ops.foldl step p

/-- every prefix state of a history -/
def states (p : Path) : List Op → List Path
  | [] => [p]
  | op :: rest => p :: states (step p op) rest

/-- all datagram sizes of a history are at most `d` -/
def sendsLe (d : Nat) (ops : List Op) : Bool :=
  ops.all (fun op => match op with | .send n => n ≤ d | _ => true)

/- the independent reference: a debt-carrying integer account (what RFC 9000 §8.1 asks for) -/
structure Ref where
  sent : Nat := 0
  recv : Nat := 0
  deriving Repr, DecidableEq

/-- RFC: a datagram may be *started* only while `sent < 3 * recv` -/
def Ref.mayStart (r : Ref) : Bool := r.sent < 3 * r.recv

/-- the property's quantitative clause on a state: total stays below 3x plus one datagram -/
def boundHolds (d : Nat) (p : Path) : Bool :=
  isValidated p || p.sent < 3 * p.recv + d

/-- F4 witness: `recv 1200; send 1200,1200,1100,1200; recv 40; send 1200` -/
def f4Witness : List Op :=
  [.recv 1200, .send 1200, .send 1200, .send 1100, .send 1200, .recv 40, .send 1200]

end Quic.Conn.Amplification
